import XmppModel.Model.Skeleton
/-!
Soundness of the panic-skeleton checker (`Model/Skeleton.lean`):

    check_sound : (check s a).2 = [] → Sound a st.σ → Good (check s a).1 (exec n s st)

for every fuel `n`, every statement, every abstract store and every concrete state
(hence every oracle = every environment).  `Good` says: the outcome is not a panic, and
if control leaves normally / by `break` / by `continue` the abstract result has a store
for that exit which describes the concrete one.
-/
namespace XmppModel.Skeleton

/-- the abstract store describes the concrete one -/
def Sound (a : AStore) (σ : Var → Kind) : Prop := ∀ x, σ x ∈ get a x

def GoodO (o : Option AStore) (st : CState) : Prop := ∃ a, o = some a ∧ Sound a st.σ

def Good (r : Res) : Out → Prop
  | .norm st => GoodO r.norm st
  | .brk st => GoodO r.brk st
  | .cont st => GoodO r.cont st
  | .ret => True
  | .stuck => True
  | .panic _ => False

/-! ### kind sets -/

theorem mem_inter {k : Kind} {cur ks : KSet} : k ∈ inter cur ks ↔ k ∈ cur ∧ k ∈ ks := by
  simp [inter, List.mem_filter]

theorem mem_diff {k : Kind} {cur ks : KSet} : k ∈ diff cur ks ↔ k ∈ cur ∧ k ∉ ks := by
  simp [diff, List.mem_filter]

theorem subset_sound {cur ks : KSet} (h : subset cur ks = true) {k : Kind} (hk : k ∈ cur) :
    k ∈ ks := by
  simp [subset, List.all_eq_true] at h
  exact h k hk

/-! ### stores -/

theorem sound_top (n : Nat) (σ : Var → Kind) : Sound (top n) σ := by
  intro x
  unfold get top
  cases h : (List.replicate n allKinds)[x]? with
  | none => exact mem_allKinds _
  | some ks =>
    have := List.mem_replicate.mp (List.mem_of_getElem? h)
    rw [this.2]; exact mem_allKinds _

theorem get_set (a : AStore) (x y : Var) (ks : KSet) :
    get (a.set x ks) y = if x = y then (if x < a.length then ks else allKinds) else get a y := by
  unfold get
  rw [List.getElem?_set]
  by_cases hxy : x = y
  · subst hxy
    by_cases hl : x < a.length
    · simp [hl]
    · simp [hl]
  · simp [hxy]

theorem sound_set {a : AStore} {σ : Var → Kind} (h : Sound a σ) (x : Var) {ks : KSet} {k : Kind}
    (hk : k ∈ ks) : Sound (a.set x ks) (upd σ x k) := by
  intro y
  rw [get_set]
  by_cases hxy : x = y
  · subst hxy
    simp only [upd, if_true]
    split
    · exact hk
    · exact mem_allKinds k
  · have : ¬ y = x := fun e => hxy e.symm
    simp only [upd, hxy, this, if_false]
    exact h y

/-- refining the entry of `x` to a set that still contains the concrete kind -/
theorem sound_refine {a : AStore} {σ : Var → Kind} (h : Sound a σ) (x : Var) {ks : KSet}
    (hk : σ x ∈ ks) : Sound (a.set x ks) σ := by
  have := sound_set h x hk
  have e : upd σ x (σ x) = σ := by
    funext y; simp only [upd]; split
    · rename_i hy; rw [hy]
    · rfl
  rw [e] at this; exact this

theorem get_join (a b : AStore) (x : Var) {k : Kind} (h : k ∈ get a x ∨ k ∈ get b x) :
    k ∈ get (join a b) x := by
  unfold get join at *
  rw [List.getElem?_zipWith]
  cases ha : a[x]? <;> cases hb : b[x]? <;> simp [ha, hb] at h ⊢
  · exact mem_allKinds k
  · exact mem_allKinds k
  · exact mem_allKinds k
  · exact h

theorem sound_join_left {a b : AStore} {σ : Var → Kind} (h : Sound a σ) : Sound (join a b) σ :=
  fun x => get_join a b x (Or.inl (h x))

theorem sound_join_right {a b : AStore} {σ : Var → Kind} (h : Sound b σ) : Sound (join a b) σ :=
  fun x => get_join a b x (Or.inr (h x))

theorem sound_leq {a b : AStore} {σ : Var → Kind} (hl : leq a b = true) (h : Sound a σ) :
    Sound b σ := by
  intro x
  by_cases hx : x < b.length
  · simp only [leq, List.all_eq_true, List.mem_range] at hl
    exact subset_sound (hl x hx) (h x)
  · have : b[x]? = none := List.getElem?_eq_none (Nat.le_of_not_lt hx)
    simp [get, this, mem_allKinds]

theorem goodO_joinO_left {o p : Option AStore} {st : CState} (h : GoodO o st) :
    GoodO (joinO o p) st := by
  obtain ⟨a, rfl, ha⟩ := h
  cases p with
  | none => exact ⟨a, rfl, ha⟩
  | some b => exact ⟨join a b, rfl, sound_join_left ha⟩

theorem goodO_joinO_right {o p : Option AStore} {st : CState} (h : GoodO p st) :
    GoodO (joinO o p) st := by
  obtain ⟨b, rfl, hb⟩ := h
  cases o with
  | none => exact ⟨b, rfl, hb⟩
  | some a => exact ⟨join a b, rfl, sound_join_right hb⟩

theorem goodO_leqO {o : Option AStore} {inv : AStore} {st : CState} (h : GoodO o st)
    (hl : leqO o inv = true) : Sound inv st.σ := by
  obtain ⟨a, rfl, ha⟩ := h
  exact sound_leq hl ha

theorem good_join_left {r s : Res} {o : Out} (h : Good r o) : Good (r.join s) o := by
  cases o <;> simp only [Good, Res.join] at h ⊢ <;> first | exact goodO_joinO_left h | exact h

theorem good_join_right {r s : Res} {o : Out} (h : Good s o) : Good (r.join s) o := by
  cases o <;> simp only [Good, Res.join] at h ⊢ <;> first | exact goodO_joinO_right h | exact h

/-! ### loops -/

/-- If the body is sound (for all smaller fuels) from an invariant that absorbs what the
body hands back on normal exit and on `continue`, the loop is sound from the invariant. -/
theorem loop_sound (site : Site) (body : Stmt) (inv : AStore) (r : Res) (N : Nat)
    (hbody : ∀ m, m < N → ∀ st, Sound inv st.σ → Good r (exec m body st))
    (hn : leqO r.norm inv = true) (hc : leqO r.cont inv = true) :
    ∀ m, m ≤ N → ∀ st, Sound inv st.σ → Good ⟨r.brk, none, none⟩ (exec m (.loop site body) st) := by
  intro m
  induction m with
  | zero => intro _ st _; simp [exec, Good]
  | succ m ih =>
    intro hm st hs
    have hb := hbody m (by omega) st hs
    have ih' := ih (by omega)
    simp only [exec]
    cases he : exec m body st with
    | norm st' =>
      rw [he] at hb
      exact ih' st' (goodO_leqO hb hn)
    | cont st' =>
      rw [he] at hb
      exact ih' st' (goodO_leqO hb hc)
    | brk st' => rw [he] at hb; exact hb
    | ret => simp [Good]
    | stuck => simp [Good]
    | panic s => rw [he] at hb; exact hb.elim

/-! ### the checker -/

theorem check_sound : ∀ (n : Nat) (s : Stmt) (a : AStore) (st : CState),
    (check s a).2 = [] → Sound a st.σ → Good (check s a).1 (exec n s st) := by
  intro n
  induction n using Nat.strongRecOn with
  | _ n IH =>
  cases n with
  | zero => intro s a st _ _; simp [exec, Good]
  | succ n =>
  intro s a st hc hs
  cases s with
  | skip => exact ⟨a, rfl, hs⟩
  | ret => simp [exec, Good]
  | brk => exact ⟨a, rfl, hs⟩
  | cont => exact ⟨a, rfl, hs⟩
  | hazard site => simp [check] at hc
  | havoc x ks =>
    simp only [exec]
    cases ho : st.orc with
    | nil => simp [Good]
    | cons c rest =>
      simp only
      cases hk : Kind.ofNat? c with
      | none => simp [Good]
      | some k =>
        simp only
        by_cases hm : k ∈ ks
        · simp only [hm, if_true]
          exact ⟨a.set x ks, rfl, sound_set hs x hm⟩
        · simp [hm, Good]
  | copy x y => exact ⟨a.set x (get a y), rfl, sound_set hs x (hs y)⟩
  | require x ks site =>
    simp only [check] at hc ⊢
    by_cases hsub : subset (get a x) ks = true
    · simp only [hsub, if_true] at hc ⊢
      have hm : st.σ x ∈ ks := subset_sound hsub (hs x)
      simp only [exec, hm, if_true]
      exact ⟨a, rfl, hs⟩
    · simp [hsub] at hc
  | seq s t =>
    simp only [check] at hc ⊢
    have h1 := IH n (by omega) s a st
    simp only [exec]
    cases hr1 : check s a with
    | mk r1 e1 =>
    rw [hr1] at hc h1
    simp only at hc h1 ⊢
    cases hn1 : r1.norm with
    | none =>
      rw [hn1] at hc
      simp only at hc ⊢
      have g1 := h1 hc hs
      cases he : exec n s st with
      | norm st' => rw [he] at g1; obtain ⟨_, h, _⟩ := g1; rw [hn1] at h; cases h
      | brk st' => rw [he] at g1; exact g1
      | cont st' => rw [he] at g1; exact g1
      | ret => simp [Good]
      | stuck => simp [Good]
      | panic p => rw [he] at g1; exact g1.elim
    | some a1 =>
      rw [hn1] at hc
      simp only at hc ⊢
      cases hr2 : check t a1 with
      | mk r2 e2 =>
      rw [hr2] at hc
      simp only at hc ⊢
      have happ := List.append_eq_nil_iff.mp hc
      have g1 := h1 happ.1 hs
      cases he : exec n s st with
      | norm st' =>
        rw [he] at g1
        obtain ⟨a', h, hs'⟩ := g1
        rw [hn1] at h; cases h
        have g2 := IH n (by omega) t a1 st' (by rw [hr2]; exact happ.2) hs'
        rw [hr2] at g2
        simp only
        cases he2 : exec n t st' with
        | norm st2 => rw [he2] at g2; exact g2
        | brk st2 => rw [he2] at g2; exact goodO_joinO_right g2
        | cont st2 => rw [he2] at g2; exact goodO_joinO_right g2
        | ret => simp [Good]
        | stuck => simp [Good]
        | panic p => rw [he2] at g2; exact g2.elim
      | brk st' => rw [he] at g1; exact goodO_joinO_left g1
      | cont st' => rw [he] at g1; exact goodO_joinO_left g1
      | ret => simp [Good]
      | stuck => simp [Good]
      | panic p => rw [he] at g1; exact g1.elim
  | choice s t =>
    simp only [check] at hc ⊢
    cases hr1 : check s a with
    | mk r1 e1 =>
    cases hr2 : check t a with
    | mk r2 e2 =>
    rw [hr1, hr2] at hc
    simp only at hc ⊢
    have happ := List.append_eq_nil_iff.mp hc
    simp only [exec]
    cases ho : st.orc with
    | nil => simp [Good]
    | cons c rest =>
      simp only
      by_cases hc0 : c = 0
      · simp only [hc0, if_true]
        have g := IH n (by omega) s a ⟨st.σ, rest⟩ (by rw [hr1]; exact happ.1) hs
        rw [hr1] at g
        exact good_join_left g
      · simp only [hc0, if_false]
        have g := IH n (by omega) t a ⟨st.σ, rest⟩ (by rw [hr2]; exact happ.2) hs
        rw [hr2] at g
        exact good_join_right g
  | ifKind x ks t e =>
    simp only [check] at hc ⊢
    simp only [exec]
    by_cases hm : st.σ x ∈ ks
    · simp only [hm, if_true]
      have hin : st.σ x ∈ inter (get a x) ks := mem_inter.mpr ⟨hs x, hm⟩
      have hne : (inter (get a x) ks).isEmpty = false := by
        cases hh : inter (get a x) ks with
        | nil => rw [hh] at hin; cases hin
        | cons _ _ => rfl
      rw [hne] at hc ⊢
      simp only [Bool.false_eq_true, if_false] at hc ⊢
      have happ := List.append_eq_nil_iff.mp hc
      have g := IH n (by omega) t _ st happ.1 (sound_refine hs x hin)
      exact good_join_left g
    · simp only [hm, if_false]
      have hin : st.σ x ∈ diff (get a x) ks := mem_diff.mpr ⟨hs x, hm⟩
      have hne : (diff (get a x) ks).isEmpty = false := by
        cases hh : diff (get a x) ks with
        | nil => rw [hh] at hin; cases hin
        | cons _ _ => rfl
      rw [hne] at hc ⊢
      simp only [Bool.false_eq_true, if_false] at hc ⊢
      have happ := List.append_eq_nil_iff.mp hc
      have g := IH n (by omega) e _ st happ.2 (sound_refine hs x hin)
      exact good_join_right g
  | block body =>
    simp only [check] at hc ⊢
    cases hr : check body a with
    | mk r e =>
    rw [hr] at hc
    simp only at hc ⊢
    have g := IH n (by omega) body a st (by rw [hr]; exact hc) hs
    rw [hr] at g
    simp only [exec]
    cases he : exec n body st with
    | norm st' => rw [he] at g; exact goodO_joinO_left g
    | brk st' => rw [he] at g; exact goodO_joinO_right g
    | cont st' => rw [he] at g; exact g
    | ret => simp [Good]
    | stuck => simp [Good]
    | panic p => rw [he] at g; exact g.elim
  | loop site body =>
    simp only [check] at hc ⊢
    generalize hinv : iterInv (fun a' => (check body a').1) invRounds a = inv at hc ⊢
    cases hr : check body inv with
    | mk r e =>
    rw [hr] at hc
    simp only at hc ⊢
    by_cases hok : (leq a inv && leqO r.norm inv && leqO r.cont inv) = true
    · simp only [hok, if_true] at hc
      simp only [Bool.and_eq_true] at hok
      obtain ⟨⟨hl, hn⟩, hcn⟩ := hok
      have hbody : ∀ m, m < n + 1 → ∀ st', Sound inv st'.σ → Good r (exec m body st') := by
        intro m hm st' hs'
        have g := IH m hm body inv st' (by rw [hr]; exact hc) hs'
        rw [hr] at g; exact g
      exact loop_sound site body inv r (n + 1) hbody hn hcn (n + 1) (Nat.le_refl _) st
        (sound_leq hl hs)
    · simp only [hok, Bool.false_eq_true, if_false] at hc
      have := List.append_eq_nil_iff.mp hc
      simp at this

/-- A skeleton without flagged sites never panics: for every fuel, every initial kind
assignment and every oracle (every peer input, every outcome of the conditions the
skeleton leaves open). -/
theorem safe_no_panic {s : Stmt} (h : flagged s = []) (n : Nat) (σ : Var → Kind) (orc : List Nat)
    (site : Site) : exec n s ⟨σ, orc⟩ ≠ .panic site := by
  intro he
  have g := check_sound n s (top (nvars s)) ⟨σ, orc⟩ h (sound_top _ σ)
  rw [he] at g
  exact g

end XmppModel.Skeleton
