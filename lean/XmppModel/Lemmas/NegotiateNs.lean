import XmppModel.Lemmas.NegotiateAdv
/-!
Namespaces as keys: the features cache holds at most one entry per namespace, and everything in
it (and in the skipped list) is a configured feature.
-/
namespace XmppModel.Negotiate

def cacheNs (c : Cache) : List Nat := c.map (·.f.name.ns)

theorem put_nodup {c : Cache} (e : Entry) (h : (cacheNs c).Nodup) : (cacheNs (c.put e)).Nodup := by
  unfold cacheNs Cache.put at *
  rw [List.map_cons, List.nodup_cons]
  constructor
  · intro hm
    obtain ⟨x, hx, hxe⟩ := List.mem_map.mp hm
    have := (List.mem_filter.mp hx).2
    simp only [bne_iff_ne, ne_eq] at this
    exact this hxe
  · exact h.sublist ((List.filter_sublist).map _)

structure InvN (C : List Feature) (c : Conf) : Prop where
  /-- at most one cache entry per namespace (`cache` is a map keyed by namespace) -/
  nodup : (cacheNs c.cache).Nodup
  cacheC : ∀ e ∈ c.cache, e.f ∈ C
  skippedC : ∀ e ∈ c.skipped, e.f ∈ C
  todoC : ∀ todo, c.pc = .listing todo → ∀ f ∈ todo, f ∈ C

theorem invN_step (C : List Feature) (O : Oracle) (c : Conf) (h : InvN C c) : InvN C (step C O c) := by
  obtain ⟨h1, h2, h3, h4⟩ := h
  step_all
  all_goals (constructor <;> (try dsimp only))
  all_goals first
    | exact h1
    | exact h2
    | exact h3
    | exact h4
    | exact List.nodup_nil
    | exact put_nodup _ h1
    | (intro _ h; cases h; done)
    | (intro e he; cases he; done)
    | (intro _ h; cases h; exact fun f hf => hf)
    | (intro _ h; cases h; intro f hf; exact h4 _ ‹c.pc = _› f (List.mem_cons_of_mem _ hf))
    | (intro e he
       have hh := put_mem he
       rcases hh with rfl | hh
       · first
         | exact h4 _ ‹c.pc = _› _ List.mem_cons_self
         | exact List.mem_of_find?_eq_some ‹List.find? _ C = some _›
       · exact h2 e hh)
    | (intro e he
       rcases List.mem_append.mp he with he | he
       · exact h3 e he
       · simp only [List.mem_singleton] at he
         subst he
         exact List.mem_of_find?_eq_some ‹List.find? _ C = some _›)
    | skip

end XmppModel.Negotiate
