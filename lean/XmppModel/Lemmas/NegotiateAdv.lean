import XmppModel.Lemmas.NegotiateOnce
/-!
Invariants about advertisements: what is negotiated was offered by the current features
list; the receiver lists exactly the configured features whose masks hold; the initiator
caches only configured features whose masks hold.
-/
namespace XmppModel.Negotiate

/-- (trace newest first) the features of the most recent features list: the one the receiver
wrote, or what the initiator kept of the one it read -/
def lastList : List Ev → List Feature
  | [] => []
  | .listOut _ fs _ :: _ => fs
  | .listIn _ fs _ _ :: _ => fs
  | _ :: rest => lastList rest

/-- every `Negotiate` call is for a feature of the current list, except the forced one -/
def AdvOK : List Ev → Prop
  | [] => True
  | e :: rest =>
    (match e with
     | .neg f _ _ forced _ _ => forced = true ∨ f ∈ lastList rest
     | _ => True) ∧ AdvOK rest

def inLoop : Pc → Bool
  | .decide | .cloop _ | .sloop | .selected _ => true
  | _ => false

def inListing : Pc → Bool
  | .listing _ | .flush => true
  | _ => false

def inParsing : Pc → Bool
  | .parsing _ => true
  | _ => false

theorem put_mem {c : Cache} {e x : Entry} (h : x ∈ c.put e) : x = e ∨ x ∈ c := by
  unfold Cache.put at h
  simp only [List.mem_cons] at h
  rcases h with h | h
  · exact Or.inl h
  · exact Or.inr (List.mem_filter.mp h).1

structure InvF (c : Conf) : Prop where
  ok : AdvOK c.tr
  loop : inLoop c.pc = true → ∀ e ∈ c.cache, e.f ∈ lastList c.tr
  listing : inListing c.pc = true → ∀ e ∈ c.cache, e.f ∈ c.listed

theorem invF_step (C : List Feature) (O : Oracle) (c : Conf) (h : InvF c) : InvF (step C O c) := by
  obtain ⟨h1, h2, h3⟩ := h
  step_all
  all_goals (constructor <;> (try dsimp only))
  all_goals first
    | exact h1
    | exact h2
    | exact h3
    | exact ⟨True.intro, h1⟩
    | (intro h; cases h; done)
    | (simp_all [inLoop, inListing, lastList, AdvOK]; done)
    | (intro _ e he
       have hh := put_mem he
       rcases hh with rfl | hh
       · simp
       · have := h3 (by simp_all [inListing]) e hh
         simp [this])
    | (intro _ e he; simp only [lastList]; exact List.mem_map_of_mem he)
    | (refine ⟨Or.inr ?_, h1⟩
       have hm := candidates_spec c _ (allowed_sub _ _ (List.mem_of_find?_eq_some
         ‹List.find? _ (allowed (candidates c)) = some _›))
       exact h2 (by simp_all [inLoop]) _ hm.1)
    | (refine ⟨Or.inr ?_, h1⟩
       exact h2 (by simp_all [inLoop]) _ (cache_get_mem ‹c.cache.get _ = some _›))
    | skip

/-- the receiver's list -/
structure InvL (C : List Feature) (c : Conf) : Prop where
  listedTodo : ∀ todo, c.pc = .listing todo →
    c.listed ++ todo.filter (eligible c.st) = C.filter (eligible c.st)
  listedFlush : c.pc = .flush → c.listed = C.filter (eligible c.st)
  listedBlocked : ∀ st fs, c.pc = .blocked (.listOut st fs) → fs = C.filter (eligible st)
  outOK : ∀ st fs ok, Ev.listOut st fs ok ∈ c.tr → fs = C.filter (eligible st)

theorem invL_step (C : List Feature) (O : Oracle) (c : Conf) (h : InvL C c) : InvL C (step C O c) := by
  obtain ⟨h4, h5, h5b, h6⟩ := h
  step_all
  all_goals (constructor <;> (try dsimp only))
  all_goals first
    | exact h4
    | exact h5
    | exact h5b
    | exact h6
    | (intro h; cases h; done)
    | (intro _ h; cases h; done)
    | (intro _ _ h; cases h; done)
    | (intro _ _ h; cases h; exact h5 ‹_›)
    | (intro st fs ok hm
       simp only [List.mem_cons] at hm
       rcases hm with hm | hm
       · cases hm; exact h5b _ _ ‹_›
       · exact h6 _ _ _ hm)
    | (intro st fs ok hm
       simp only [List.mem_cons] at hm
       rcases hm with hm | hm
       · first
         | (cases hm; done)
         | (cases hm; exact h5 ‹_›)
       · exact h6 _ _ _ hm)
    | (intro todo htodo; cases htodo; have := h4 _ ‹c.pc = _›; simp_all; done)
    | (intro _; have := h4 _ ‹c.pc = _›; simp_all; done)
    | (simp_all; done)
    | skip

/-- the initiator's cache; `script0` is the peer script the run started with -/
structure InvP (C : List Feature) (script0 : List Peer) (c : Conf) : Prop where
  pre : c.pc = .readList → c.cache = []
  /-- items still to be parsed belong to the list being read -/
  rem : ∀ items, c.pc = .parsing items → ∀ i ∈ items, i ∈ c.curAdv
  /-- the list being read is an item of the peer script -/
  advSrc : c.curAdv = [] ∨ Peer.adv c.curAdv ∈ script0
  parsing : inParsing c.pc = true → ∀ e ∈ c.cache,
    e.f ∈ C ∧ eligible c.st e.f = true ∧ ∃ req, AdvItem.feat e.f.name req ∈ c.curAdv
  inOK : ∀ st fs adv es, Ev.listIn st fs adv es ∈ c.tr → (adv = [] ∨ Peer.adv adv ∈ script0) ∧
    ∀ f ∈ fs, f ∈ C ∧ eligible st f = true ∧ ∃ req, AdvItem.feat f.name req ∈ adv

theorem find_name {C : List Feature} {name : FName} {f : Feature}
    (h : C.find? (fun f => f.name == name) = some f) : f.name = name := by
  have := List.find?_some h
  simpa using this

theorem invP_step (C : List Feature) (O : Oracle) (script0 : List Peer) (c : Conf)
    (hsub : ∀ p ∈ c.script, p ∈ script0) (h : InvP C script0 c) : InvP C script0 (step C O c) := by
  obtain ⟨h0, hr, ha, h7, h8⟩ := h
  step_all
  all_goals (constructor <;> (try dsimp only))
  all_goals first
    | exact h0
    | exact hr
    | exact ha
    | exact h7
    | exact h8
    | (intro h; cases h; done)
    | (intro _ h; cases h; done)
    | (intro _; rfl)
    | (intro items hi; cases hi; intro i hi; exact hi)
    | (intro items hi; cases hi; intro i hi
       exact hr _ ‹c.pc = _› i (List.mem_cons_of_mem _ hi))
    | (right; exact hsub _ (by simp_all))
    | (intro st fs adv es hm
       simp only [List.mem_cons] at hm
       rcases hm with hm | hm
       · first
         | (cases hm; done)
         | (cases hm
            refine ⟨ha, ?_⟩
            intro f hf
            obtain ⟨e, he, rfl⟩ := List.mem_map.mp hf
            exact h7 (by simp_all [inParsing]) e he)
       · exact h8 _ _ _ _ hm)
    | (intro _ e he
       have hh := put_mem he
       have hn := find_name ‹List.find? _ C = some _›
       have hmem := List.mem_of_find?_eq_some ‹List.find? _ C = some _›
       have hin := hr _ ‹c.pc = _› _ List.mem_cons_self
       rcases hh with rfl | hh
       · dsimp only
         rw [hn]
         exact ⟨hmem, ‹eligible c.st _ = true›, _, hin⟩
       · exact h7 (by simp_all [inParsing]) e hh)
    | (simp_all [inParsing]; done)
    | skip

end XmppModel.Negotiate
