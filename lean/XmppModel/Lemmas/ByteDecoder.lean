import XmppModel.Model.ByteDecoder
import XmppModel.Lemmas.StartTLS
set_option linter.unusedVariables false
/-!
Lemmas about the byte-level decoder: what `pullB` delivers is a function of the byte stream
(buffer ++ remaining chunks), not of the chunking; `pullB` over a chunking is `pullU` over the
induced segmentation; `pullU` is what `pull` does in clear text.
-/
namespace XmppModel.StartTLS

theorem pullB_stream (tk : Tokeniser) : ∀ (cs : List Bs) (b : Bs) u b' cs',
    pullB tk cs b = some (u, b', cs') →
    ∃ n, tk.next (b ++ cs.flatten) = some (u, n) ∧ b' ++ cs'.flatten = (b ++ cs.flatten).drop n := by
  intro cs
  induction cs with
  | nil =>
    intro b u b' cs' h
    unfold pullB at h
    cases hn : tk.next b with
    | none => rw [hn] at h; cases h
    | some un =>
      obtain ⟨u0, n⟩ := un
      rw [hn] at h
      simp only [Option.some.injEq, Prod.mk.injEq] at h
      obtain ⟨rfl, rfl, rfl⟩ := h
      exact ⟨n, by simpa using hn, by simp⟩
  | cons c cs ih =>
    intro b u b' cs' h
    unfold pullB at h
    cases hn : tk.next b with
    | none =>
      rw [hn] at h
      obtain ⟨n, h1, h2⟩ := ih (b ++ c) u b' cs' h
      refine ⟨n, ?_, ?_⟩
      · simpa [List.append_assoc] using h1
      · simpa [List.append_assoc] using h2
    | some un =>
      obtain ⟨u0, n⟩ := un
      rw [hn] at h
      simp only [Option.some.injEq, Prod.mk.injEq] at h
      obtain ⟨rfl, rfl, rfl⟩ := h
      refine ⟨n, tk.stable b _ u0 n hn, ?_⟩
      have hle := (tk.pos b u0 n hn).2
      rw [List.drop_append_of_le_length hle]

theorem pullB_none (tk : Tokeniser) : ∀ (cs : List Bs) (b : Bs),
    pullB tk cs b = none → tk.next (b ++ cs.flatten) = none := by
  intro cs
  induction cs with
  | nil =>
    intro b h
    unfold pullB at h
    cases hn : tk.next b with
    | none => simpa using hn
    | some un => obtain ⟨u0, n⟩ := un; rw [hn] at h; cases h
  | cons c cs ih =>
    intro b h
    unfold pullB at h
    cases hn : tk.next b with
    | none =>
      rw [hn] at h
      have := ih (b ++ c) h
      simpa [List.append_assoc] using this
    | some un => obtain ⟨u0, n⟩ := un; rw [hn] at h; cases h

/-- one pull: the unit delivered and the byte stream that remains depend only on the byte stream -/
theorem pullB_rechunk (tk : Tokeniser) (cs1 cs2 : List Bs) (b1 b2 : Bs)
    (h : b1 ++ cs1.flatten = b2 ++ cs2.flatten) :
    match pullB tk cs1 b1, pullB tk cs2 b2 with
    | some (u1, b1', cs1'), some (u2, b2', cs2') => u1 = u2 ∧ b1' ++ cs1'.flatten = b2' ++ cs2'.flatten
    | none, none => True
    | _, _ => False := by
  cases h1 : pullB tk cs1 b1 with
  | none =>
    have n1 := pullB_none tk cs1 b1 h1
    cases h2 : pullB tk cs2 b2 with
    | none => trivial
    | some r =>
      obtain ⟨u2, b2', cs2'⟩ := r
      obtain ⟨n, e, _⟩ := pullB_stream tk cs2 b2 u2 b2' cs2' h2
      rw [← h, n1] at e
      cases e
  | some r =>
    obtain ⟨u1, b1', cs1'⟩ := r
    obtain ⟨n, e1, d1⟩ := pullB_stream tk cs1 b1 u1 b1' cs1' h1
    cases h2 : pullB tk cs2 b2 with
    | none =>
      have n2 := pullB_none tk cs2 b2 h2
      rw [h, n2] at e1
      cases e1
    | some r2 =>
      obtain ⟨u2, b2', cs2'⟩ := r2
      obtain ⟨m, e2, d2⟩ := pullB_stream tk cs2 b2 u2 b2' cs2' h2
      rw [h, e2] at e1
      simp only [Option.some.injEq, Prod.mk.injEq] at e1
      obtain ⟨rfl, rfl⟩ := e1
      exact ⟨rfl, by rw [d1, d2, h]⟩

/-- the units delivered by `k` pulls (fewer if the stream ends) -/
def unitsB (tk : Tokeniser) : Nat → List Bs → Bs → List StartTLS.Unit
  | 0, _, _ => []
  | k + 1, cs, b =>
    match pullB tk cs b with
    | none => []
    | some (u, b', cs') => u :: unitsB tk k cs' b'

theorem unitsB_rechunk (tk : Tokeniser) : ∀ (k : Nat) (cs1 cs2 : List Bs) (b1 b2 : Bs),
    b1 ++ cs1.flatten = b2 ++ cs2.flatten → unitsB tk k cs1 b1 = unitsB tk k cs2 b2 := by
  intro k
  induction k with
  | zero => intros; rfl
  | succ k ih =>
    intro cs1 cs2 b1 b2 h
    have hr := pullB_rechunk tk cs1 cs2 b1 b2 h
    unfold unitsB
    cases h1 : pullB tk cs1 b1 with
    | none =>
      cases h2 : pullB tk cs2 b2 with
      | none => rfl
      | some r => rw [h1, h2] at hr; exact absurd hr id
    | some r =>
      obtain ⟨u1, b1', cs1'⟩ := r
      cases h2 : pullB tk cs2 b2 with
      | none => rw [h1, h2] at hr; exact absurd hr id
      | some r2 =>
        obtain ⟨u2, b2', cs2'⟩ := r2
        rw [h1, h2] at hr
        obtain ⟨rfl, hs⟩ := hr
        simp only
        rw [ih cs1' cs2' b1' b2' hs]

/-! ### refinement to the unit level -/

theorem tokAll_none (tk : Tokeniser) (b : Bs) (h : tk.next b = none) : tokAll tk b = ([], b) := by
  rw [tokAll]
  split
  · rfl
  · next u n h' => rw [h] at h'; cases h'

theorem tokAll_some (tk : Tokeniser) (b : Bs) (u : StartTLS.Unit) (n : Nat) (h : tk.next b = some (u, n)) :
    tokAll tk b = (u :: (tokAll tk (b.drop n)).1, (tokAll tk (b.drop n)).2) := by
  rw [tokAll]
  split
  · next h' => rw [h] at h'; cases h'
  · next u' n' h' =>
    rw [h] at h'
    simp only [Option.some.injEq, Prod.mk.injEq] at h'
    obtain ⟨rfl, rfl⟩ := h'
    rfl

theorem pullClear_cons (us : List StartTLS.Unit) (segs : List (List StartTLS.Unit)) :
    pullClear (us :: segs) = pullU us segs := by
  cases us <;> rfl

/-- **Refinement.**  The byte-level decoder over any chunking does what the unit-level decoder
does over the induced segmentation — same unit delivered (or both at the end of the stream), and
afterwards again corresponding read-ahead and remaining input. -/
theorem pullB_refines (tk : Tokeniser) : ∀ (cs : List Bs) (b : Bs),
    match pullB tk cs b with
    | some (u, b', cs') =>
      pullU (tokAll tk b).1 (absChunks tk (tokAll tk b).2 cs) =
        some (u, (tokAll tk b').1, absChunks tk (tokAll tk b').2 cs')
    | none => pullU (tokAll tk b).1 (absChunks tk (tokAll tk b).2 cs) = none := by
  intro cs
  induction cs with
  | nil =>
    intro b
    unfold pullB
    cases hn : tk.next b with
    | none =>
      simp only [tokAll_none tk b hn]
      rfl
    | some un =>
      obtain ⟨u, n⟩ := un
      simp only [tokAll_some tk b u n hn]
      rfl
  | cons c cs ih =>
    intro b
    unfold pullB
    cases hn : tk.next b with
    | none =>
      simp only [tokAll_none tk b hn]
      have := ih (b ++ c)
      show match pullB tk cs (b ++ c) with
        | some (u, b', cs') => pullU [] (absChunks tk b (c :: cs)) = some (u, (tokAll tk b').1, absChunks tk (tokAll tk b').2 cs')
        | none => pullU [] (absChunks tk b (c :: cs)) = none
      have e : pullU [] (absChunks tk b (c :: cs)) =
          pullU (tokAll tk (b ++ c)).1 (absChunks tk (tokAll tk (b ++ c)).2 cs) := by
        show pullClear (absChunks tk b (c :: cs)) = _
        simp only [absChunks]
        exact pullClear_cons _ _
      rw [e]
      exact this
    | some un =>
      obtain ⟨u, n⟩ := un
      simp only [tokAll_some tk b u n hn]
      rfl

theorem handshake_clear (s : Sess) (ht : s.tls = false) : handshake s = .ok () s := by
  unfold handshake
  simp [ht]

/-- `pullU` is `pull` of the session model in clear text (on the units of its read-ahead and its
remaining segments) -/
theorem pull_clear_ok (s : Sess) (ht : s.tls = false) (u : StartTLS.Unit) (s' : Sess) (h : pull s = .ok u s') :
    pullU (s.buf.map (·.2)) s.clear = some (u, s'.buf.map (·.2), s'.clear) ∧ s'.tls = false := by
  unfold pull at h
  cases hb : s.buf with
  | cons ou rest =>
    obtain ⟨o, u0⟩ := ou
    rw [hb] at h
    simp only [Res.ok.injEq] at h
    obtain ⟨rfl, rfl⟩ := h
    exact ⟨rfl, ht⟩
  | nil =>
    rw [hb] at h
    simp only [handshake_clear s ht, ht, Bool.false_eq_true, if_false] at h
    cases hp : pullClear s.clear with
    | none => rw [hp] at h; cases h
    | some r =>
      obtain ⟨u0, us, rest⟩ := r
      rw [hp] at h
      simp only [Res.ok.injEq] at h
      obtain ⟨rfl, rfl⟩ := h
      refine ⟨?_, rfl⟩
      simp only [List.map_nil, pullU, hp, List.map_map, Function.comp_def, List.map_id']

theorem pull_clear_stop (s : Sess) (ht : s.tls = false) (w : Stop) (s' : Sess) (h : pull s = .stop w s') :
    pullU (s.buf.map (·.2)) s.clear = none := by
  unfold pull at h
  cases hb : s.buf with
  | cons ou rest =>
    obtain ⟨o, u0⟩ := ou
    rw [hb] at h
    cases h
  | nil =>
    rw [hb] at h
    simp only [handshake_clear s ht, ht, Bool.false_eq_true, if_false] at h
    cases hp : pullClear s.clear with
    | none => simp only [List.map_nil, pullU, hp]
    | some r =>
      obtain ⟨u0, us, rest⟩ := r
      rw [hp] at h
      cases h

theorem cutEvery_flatten (n : Nat) (b : Bs) : (cutEvery n b).flatten = b := by
  fun_induction cutEvery n b with
  | case1 b h => simp
  | case2 b h ih => simp [ih, List.take_append_drop]

theorem boundedReads_flatten (n : Nat) (cs : List Bs) : (boundedReads n cs).flatten = cs.flatten := by
  induction cs with
  | nil => rfl
  | cons c cs ih =>
    simp only [boundedReads, List.flatMap_cons, List.flatten_append, List.flatten_cons] at ih ⊢
    rw [cutEvery_flatten, ih]

/-- a tokeniser satisfying the contract (every byte is a unit): the contract is not vacuous -/
def byteTokeniser : Tokeniser where
  next := fun b =>
    match b with
    | [] => none
    | x :: _ => some (if x == 80 then .proceed else if x == 72 then .hdr true else .space, 1)
  pos := by
    intro b u n h
    cases b with
    | nil => cases h
    | cons x xs =>
      simp only [Option.some.injEq, Prod.mk.injEq] at h
      obtain ⟨_, rfl⟩ := h
      simp
  stable := by
    intro b c u n h
    cases b with
    | nil => cases h
    | cons x xs => exact h

end XmppModel.StartTLS
