import XmppModel.Model.Url
/-! Lemmas for `Props/C19.lean`: `split (join p) = some p` for unambiguous components. -/
namespace XmppModel.Url

theorem cut_append {c : Char} {a b : List Char} (h : ∀ x ∈ a, x ≠ c) : cut c (a ++ c :: b) = (a, some b) := by
  induction a with
  | nil => simp [cut]
  | cons x xs ih =>
    have hx : x ≠ c := h x (by simp)
    have hxs : ∀ y ∈ xs, y ≠ c := fun y m => h y (List.mem_cons_of_mem _ m)
    simp [cut, hx, ih hxs]

theorem cut_none {c : Char} {a : List Char} (h : ∀ x ∈ a, x ≠ c) : cut c a = (a, none) := by
  induction a with
  | nil => simp [cut]
  | cons x xs ih =>
    have hx : x ≠ c := h x (by simp)
    have hxs : ∀ y ∈ xs, y ≠ c := fun y m => h y (List.mem_cons_of_mem _ m)
    simp [cut, hx, ih hxs]

theorem cut_opt {c : Char} {a : List Char} (o : Option (List Char)) (h : ∀ x ∈ a, x ≠ c) :
    cut c (a ++ opt [c] o) = (a, o) := by
  cases o with
  | none => simpa [opt] using cut_none h
  | some b => simpa [opt] using cut_append (b := b) h

theorem upTo_append {c : Char} {a p : List Char} (h : ∀ x ∈ a, x ≠ c) (hp : p = [] ∨ ∃ t, p = c :: t) :
    upTo c (a ++ p) = (a, p) := by
  induction a with
  | nil =>
    rcases hp with rfl | ⟨t, rfl⟩ <;> simp [upTo]
  | cons x xs ih =>
    have hx : x ≠ c := h x (by simp)
    have hxs : ∀ y ∈ xs, y ≠ c := fun y m => h y (List.mem_cons_of_mem _ m)
    simp [upTo, hx, ih hxs]

theorem schemeChar_ne {c d : Char} (h : schemeChar c = true) (hd : schemeChar d = false) : c ≠ d := by
  intro e; subst e; rw [h] at hd; cases hd

theorem alpha_ne {c d : Char} (h : c.isAlpha = true) (hd : d.isAlpha = false) : c ≠ d := by
  intro e; subst e; rw [h] at hd; cases hd

end XmppModel.Url

namespace XmppModel.Url

theorem splitRest_join (scheme auth : Option (List Char)) (path : List Char) (query frag : Option (List Char))
    (h : WF ⟨scheme, auth, path, query, frag⟩) :
    splitRest scheme (opt ['/', '/'] auth ++ (path ++ opt ['?'] query)) frag = some ⟨scheme, auth, path, query, frag⟩ := by
  have hA : ∀ x ∈ opt ['/', '/'] auth ++ path, x ≠ '?' := by
    intro x hx
    rcases List.mem_append.1 hx with hx | hx
    · cases auth with
      | none => simp [opt] at hx
      | some a =>
        simp only [opt, List.cons_append, List.nil_append, List.mem_cons] at hx
        rcases hx with rfl | rfl | hx
        · decide
        · decide
        · exact (h.auth_chars a rfl x hx).2.1
    · exact (h.path_chars x hx).1
  have hc : cut '?' (opt ['/', '/'] auth ++ (path ++ opt ['?'] query)) = (opt ['/', '/'] auth ++ path, query) := by
    rw [← List.append_assoc]; exact cut_opt query hA
  simp only [splitRest, hc]
  cases auth with
  | some a =>
    have hp : path = [] ∨ ∃ t, path = '/' :: t := h.path_abs (Or.inl (by simp))
    have hup : upTo '/' (a ++ path) = (a, path) := upTo_append (fun x hx => (h.auth_chars a rfl x hx).1) hp
    have hcond : (scheme.isNone && (a ++ path).head? == some '/') = false := by
      cases scheme with
      | some s => simp
      | none =>
        cases a with
        | nil => exact absurd rfl (h.auth_nonempty rfl)
        | cons z a' =>
          have hz : z ≠ '/' := (h.auth_chars (z :: a') rfl z (by simp)).1
          simp [hz]
    simp only [opt, List.cons_append, List.nil_append, hcond, hup]
    simp
  | none =>
    simp only [opt, List.nil_append]
    cases path with
    | nil => simp [cut]
    | cons x t =>
      by_cases hx : x = '/'
      · subst hx
        cases t with
        | nil => simp
        | cons y t' =>
          have hy : y ≠ '/' := by
            intro e; subst e; exact h.no_fake_auth rfl t' rfl
          split
          · next r3 heq => simp at heq; exact absurd heq.1 hy
          · rfl
          · next h1 h2 => exact absurd rfl (h2 _)
      · have hs : scheme ≠ none := by
          intro e
          rcases h.path_abs (Or.inr e) with hp | ⟨t', hp⟩
          · cases hp
          · simp at hp; exact hx hp.1
        cases scheme with
        | none => exact absurd rfl hs
        | some s =>
          split
          · next r3 heq => simp at heq; exact absurd heq.1 hx
          · next r3 heq => simp at heq; exact absurd heq.1 hx
          · simp

end XmppModel.Url

namespace XmppModel.Url

theorem getScheme_scheme {sch r : List Char} (hh : ∃ c t, sch = c :: t ∧ c.isAlpha = true)
    (hc : ∀ c ∈ sch, schemeChar c = true) : getScheme (sch ++ ':' :: r) = some (some sch, r) := by
  obtain ⟨c, t, rfl, ha⟩ := hh
  have hne : c ≠ ':' := alpha_ne ha (by decide)
  have hcut : cut ':' (c :: t ++ ':' :: r) = (c :: t, some r) :=
    cut_append (fun x hx => schemeChar_ne (hc x hx) (by decide))
  have hall : (c :: t).all schemeChar = true := by
    rw [List.all_eq_true]; exact hc
  have hcut' : cut ':' (c :: (t ++ ':' :: r)) = (c :: t, some r) := by simpa using hcut
  simp only [List.cons_append, getScheme, hne, ha, hcut', hall]
  simp

/-- no scheme: the string is empty or starts with a character that is neither a letter nor ':' -/
theorem getScheme_none {s : List Char} (h : s = [] ∨ ∃ c t, s = c :: t ∧ c.isAlpha = false ∧ c ≠ ':') :
    getScheme s = some (none, s) := by
  rcases h with rfl | ⟨c, t, rfl, ha, hc⟩
  · simp [getScheme]
  · simp [getScheme, ha, hc]

theorem split_join (p : Parts) (h : WF p) : split (join p) = some p := by
  obtain ⟨scheme, auth, path, query, frag⟩ := p
  -- nothing before the fragment contains '#'
  have hrest : ∀ x ∈ opt ['/', '/'] auth ++ (path ++ opt ['?'] query), x ≠ '#' := by
    intro x hx
    rcases List.mem_append.1 hx with hx | hx
    · cases auth with
      | none => simp [opt] at hx
      | some a =>
        simp only [opt, List.cons_append, List.nil_append, List.mem_cons] at hx
        rcases hx with rfl | rfl | hx
        · decide
        · decide
        · exact (h.auth_chars a rfl x hx).2.2
    · rcases List.mem_append.1 hx with hx | hx
      · exact (h.path_chars x hx).2
      · cases query with
        | none => simp [opt] at hx
        | some q =>
          simp only [opt, List.cons_append, List.nil_append, List.mem_cons] at hx
          rcases hx with rfl | hx
          · decide
          · exact h.query_chars q rfl x hx
  cases scheme with
  | some sch =>
    have hbody : ∀ x ∈ (sch ++ [':']) ++ (opt ['/', '/'] auth ++ (path ++ opt ['?'] query)), x ≠ '#' := by
      intro x hx
      rcases List.mem_append.1 hx with hx | hx
      · rcases List.mem_append.1 hx with hx | hx
        · exact schemeChar_ne (h.scheme_chars sch rfl x hx) (by decide)
        · simp at hx; subst hx; decide
      · exact hrest x hx
    have hcut := cut_opt frag hbody
    simp only [split, join, hcut]
    have hg : getScheme (sch ++ [':'] ++ (opt ['/', '/'] auth ++ (path ++ opt ['?'] query))) =
        some (some sch, opt ['/', '/'] auth ++ (path ++ opt ['?'] query)) := by
      have := getScheme_scheme (r := opt ['/', '/'] auth ++ (path ++ opt ['?'] query)) (h.scheme_head sch rfl) (h.scheme_chars sch rfl)
      simpa using this
    rw [hg]
    exact splitRest_join (some sch) auth path query frag h
  | none =>
    have hcut := cut_opt frag hrest
    simp only [split, join, List.nil_append, hcut]
    have hg : getScheme (opt ['/', '/'] auth ++ (path ++ opt ['?'] query)) =
        some (none, opt ['/', '/'] auth ++ (path ++ opt ['?'] query)) := by
      apply getScheme_none
      cases auth with
      | some a => right; exact ⟨'/', '/' :: a ++ (path ++ opt ['?'] query), by simp [opt], by decide, by decide⟩
      | none =>
        rcases h.path_abs (Or.inr rfl) with hp | ⟨t, hp⟩
        · subst hp
          cases query with
          | none => left; simp [opt]
          | some q => right; exact ⟨'?', q, by simp [opt], by decide, by decide⟩
        · subst hp
          right; exact ⟨'/', t ++ opt ['?'] query, by simp [opt], by decide, by decide⟩
    rw [hg]
    exact splitRest_join none auth path query frag h

end XmppModel.Url
