import XmppModel.Model.Unwrap
import XmppModel.Lemmas.Payload
/-! Lemmas for the stream decoders of C19: whatever `forwardUnwrapper` hands out without an
error closes exactly the elements it opened. -/
namespace XmppModel.Unwrap
open XmppModel XmppModel.Xml XmppModel.Payload

/-- the tokens `skipElem` reads before the closing end tag close the `d` open elements and
nothing more; the input is those tokens, an end tag and the rest -/
theorem skipElem_spec : ∀ (ts : List Tok) (d : Nat) (b r : List Tok),
    skipElem d ts = some (b, r) → depthAfter d b = some 0 ∧ ∃ n, ts = b ++ Tok.stop n :: r := by
  intro ts
  induction ts with
  | nil => intro d b r h; simp [skipElem] at h
  | cons t ts ih =>
    intro d b r h
    cases t with
    | start n as =>
      simp only [skipElem, Option.map_eq_some_iff] at h
      obtain ⟨x, hx, hb⟩ := h
      obtain ⟨x1, x2⟩ := x
      simp only [Prod.mk.injEq] at hb
      obtain ⟨rfl, rfl⟩ := hb
      obtain ⟨h1, m, h2⟩ := ih (d + 1) x1 x2 hx
      exact ⟨by simpa [depthAfter] using h1, m, by simp [h2]⟩
    | stop n =>
      cases d with
      | zero =>
        simp only [skipElem, Option.some.injEq, Prod.mk.injEq] at h
        obtain ⟨rfl, rfl⟩ := h
        exact ⟨by simp [depthAfter], n, by simp⟩
      | succ d =>
        simp only [skipElem, Option.map_eq_some_iff] at h
        obtain ⟨x, hx, hb⟩ := h
        obtain ⟨x1, x2⟩ := x
        simp only [Prod.mk.injEq] at hb
        obtain ⟨rfl, rfl⟩ := hb
        obtain ⟨h1, m, h2⟩ := ih d x1 x2 hx
        exact ⟨by simpa [depthAfter] using h1, m, by simp [h2]⟩
    | chars s =>
      simp only [skipElem, Option.map_eq_some_iff] at h
      obtain ⟨x, hx, hb⟩ := h
      obtain ⟨x1, x2⟩ := x
      simp only [Prod.mk.injEq] at hb
      obtain ⟨rfl, rfl⟩ := hb
      obtain ⟨h1, m, h2⟩ := ih d x1 x2 hx
      exact ⟨by simpa [depthAfter] using h1, m, by simp [h2]⟩
    | comment s =>
      simp only [skipElem, Option.map_eq_some_iff] at h
      obtain ⟨x, hx, hb⟩ := h
      obtain ⟨x1, x2⟩ := x
      simp only [Prod.mk.injEq] at hb
      obtain ⟨rfl, rfl⟩ := hb
      obtain ⟨h1, m, h2⟩ := ih d x1 x2 hx
      exact ⟨by simpa [depthAfter] using h1, m, by simp [h2]⟩
    | procInst t i =>
      simp only [skipElem, Option.map_eq_some_iff] at h
      obtain ⟨x, hx, hb⟩ := h
      obtain ⟨x1, x2⟩ := x
      simp only [Prod.mk.injEq] at hb
      obtain ⟨rfl, rfl⟩ := hb
      obtain ⟨h1, m, h2⟩ := ih d x1 x2 hx
      exact ⟨by simpa [depthAfter] using h1, m, by simp [h2]⟩
    | directive s =>
      simp only [skipElem, Option.map_eq_some_iff] at h
      obtain ⟨x, hx, hb⟩ := h
      obtain ⟨x1, x2⟩ := x
      simp only [Prod.mk.injEq] at hb
      obtain ⟨rfl, rfl⟩ := hb
      obtain ⟨h1, m, h2⟩ := ih d x1 x2 hx
      exact ⟨by simpa [depthAfter] using h1, m, by simp [h2]⟩

theorem inner_balanced {ts out : List Tok} (h : inner ts = some out) : depthAfter 0 out = some 0 := by
  simp only [inner, Option.map_eq_some_iff] at h
  obtain ⟨⟨b, r⟩, hx, rfl⟩ := h
  exact (skipElem_spec ts 0 b r hx).1

/-- the filter at level `lvl` hands out tokens that close exactly the `lvl` open elements -/
theorem filter_depth (p : Parsers) (del : Bool) : ∀ (ts : List Tok) (lvl : Nat) (o : Out),
    filter p del lvl ts = some o → depthAfter lvl o.toks = some 0 := by
  intro ts
  induction ts with
  | nil => intro lvl o h; simp [filter] at h
  | cons t ts ih =>
    intro lvl o h
    cases t with
    | start n as =>
      simp only [filter] at h
      split at h
      · rename_i hc
        split at h
        · simp at h
        · rename_i body rest hs
          split at h
          · simp at h
          · simp only [Option.map_eq_some_iff] at h
            obtain ⟨out, ho, rfl⟩ := h
            rw [hc.1]
            exact inner_balanced ho
      · simp only [Option.map_eq_some_iff] at h
        obtain ⟨o', ho, rfl⟩ := h
        simpa [Out.push, depthAfter] using ih (lvl + 1) o' ho
    | stop n =>
      cases lvl with
      | zero =>
        simp only [filter, Option.some.injEq] at h
        subst h; simp [depthAfter]
      | succ lvl =>
        simp only [filter, Option.map_eq_some_iff] at h
        obtain ⟨o', ho, rfl⟩ := h
        simpa [Out.push, depthAfter] using ih lvl o' ho
    | chars s =>
      simp only [filter, Option.map_eq_some_iff] at h
      obtain ⟨o', ho, rfl⟩ := h
      simpa [Out.push, depthAfter] using ih lvl o' ho
    | comment s =>
      simp only [filter, Option.map_eq_some_iff] at h
      obtain ⟨o', ho, rfl⟩ := h
      simpa [Out.push, depthAfter] using ih lvl o' ho
    | procInst t i =>
      simp only [filter, Option.map_eq_some_iff] at h
      obtain ⟨o', ho, rfl⟩ := h
      simpa [Out.push, depthAfter] using ih lvl o' ho
    | directive s =>
      simp only [filter, Option.map_eq_some_iff] at h
      obtain ⟨o', ho, rfl⟩ := h
      simpa [Out.push, depthAfter] using ih lvl o' ho

/-! ### the filter on forests: every child except the first top-level delay is handed out -/

def Out.pushAll (b : List Tok) (o : Out) : Out := { o with toks := b ++ o.toks }

/-- reading over a prefix that never closes more than it opened -/
theorem skipElem_prefix : ∀ (b : List Tok) (d e e' : Nat) (ts : List Tok),
    depthAfter e b = some e' →
    skipElem (d + e) (b ++ ts) = (skipElem (d + e') ts).map fun r => (b ++ r.1, r.2) := by
  intro b
  induction b with
  | nil =>
    intro d e e' ts h
    simp only [depthAfter, Option.some.injEq] at h
    subst h
    simp only [List.nil_append]
    cases skipElem (d + e) ts <;> simp
  | cons t b ih =>
    intro d e e' ts h
    cases t with
    | start n as =>
      simp only [depthAfter] at h
      have := ih d (e + 1) e' ts h
      simp only [List.cons_append, skipElem]
      rw [show d + e + 1 = d + (e + 1) by omega, this]
      cases skipElem (d + e') ts <;> simp
    | stop n =>
      cases e with
      | zero => simp [depthAfter] at h
      | succ e =>
        simp only [depthAfter] at h
        have := ih d e e' ts h
        simp only [List.cons_append]
        rw [show d + (e + 1) = (d + e) + 1 by omega]
        simp only [skipElem]
        rw [this]
        cases skipElem (d + e') ts <;> simp
    | chars s =>
      simp only [depthAfter] at h
      simp only [List.cons_append, skipElem]
      rw [ih d e e' ts h]
      cases skipElem (d + e') ts <;> simp
    | comment s =>
      simp only [depthAfter] at h
      simp only [List.cons_append, skipElem]
      rw [ih d e e' ts h]
      cases skipElem (d + e') ts <;> simp
    | procInst t i =>
      simp only [depthAfter] at h
      simp only [List.cons_append, skipElem]
      rw [ih d e e' ts h]
      cases skipElem (d + e') ts <;> simp
    | directive s =>
      simp only [depthAfter] at h
      simp only [List.cons_append, skipElem]
      rw [ih d e e' ts h]
      cases skipElem (d + e') ts <;> simp

/-- below the top level the filter hands everything through -/
theorem filter_prefix (p : Parsers) (del : Bool) : ∀ (b : List Tok) (l e e' : Nat) (ts : List Tok),
    depthAfter e b = some e' →
    filter p del (l + 1 + e) (b ++ ts) = (filter p del (l + 1 + e') ts).map (Out.pushAll b) := by
  intro b
  induction b with
  | nil =>
    intro l e e' ts h
    simp only [depthAfter, Option.some.injEq] at h
    subst h
    simp only [List.nil_append]
    cases filter p del (l + 1 + e) ts <;> simp [Out.pushAll]
  | cons t b ih =>
    intro l e e' ts h
    cases t with
    | start n as =>
      simp only [depthAfter] at h
      have := ih l (e + 1) e' ts h
      simp only [List.cons_append, filter]
      rw [if_neg (by omega), show l + 1 + e + 1 = l + 1 + (e + 1) by omega, this]
      cases filter p del (l + 1 + e') ts <;> simp [Out.pushAll, Out.push]
    | stop n =>
      cases e with
      | zero => simp [depthAfter] at h
      | succ e =>
        simp only [depthAfter] at h
        have := ih l e e' ts h
        simp only [List.cons_append]
        rw [show l + 1 + (e + 1) = (l + 1 + e) + 1 by omega]
        simp only [filter]
        rw [this]
        cases filter p del (l + 1 + e') ts <;> simp [Out.pushAll, Out.push]
    | chars s =>
      simp only [depthAfter] at h
      simp only [List.cons_append, filter]
      rw [ih l e e' ts h]
      cases filter p del (l + 1 + e') ts <;> simp [Out.pushAll, Out.push]
    | comment s =>
      simp only [depthAfter] at h
      simp only [List.cons_append, filter]
      rw [ih l e e' ts h]
      cases filter p del (l + 1 + e') ts <;> simp [Out.pushAll, Out.push]
    | procInst t i =>
      simp only [depthAfter] at h
      simp only [List.cons_append, filter]
      rw [ih l e e' ts h]
      cases filter p del (l + 1 + e') ts <;> simp [Out.pushAll, Out.push]
    | directive s =>
      simp only [depthAfter] at h
      simp only [List.cons_append, filter]
      rw [ih l e e' ts h]
      cases filter p del (l + 1 + e') ts <;> simp [Out.pushAll, Out.push]

/-- the first top-level delay of a forest (attributes, children) and the forest without it -/
def splitDelay : List Node → Option (List Attr × List Node) × List Node
  | [] => (none, [])
  | .elem n as ks :: rest =>
    if n = delayName then (some (as, ks), rest)
    else ((splitDelay rest).1, .elem n as ks :: (splitDelay rest).2)
  | .text s :: rest => ((splitDelay rest).1, .text s :: (splitDelay rest).2)

/-- what `Unwrap` must give for the children `kids` of a `<forwarded/>` -/
def expected (p : Parsers) (del : Bool) (kids : List Node) : Option Out :=
  match (splitDelay kids).1 with
  | none => some ⟨"", flattenL kids⟩
  | some (as, ks) =>
    if del && !delayDecodes p as (flattenL ks) then none
    else some ⟨if del then reasonOf (flattenL ks) else "", flattenL (splitDelay kids).2⟩

theorem skipElem_forest (ks : List Node) (n : Name) (tail : List Tok) :
    skipElem 0 (flattenL ks ++ Tok.stop n :: tail) = some (flattenL ks, tail) := by
  have := skipElem_prefix (flattenL ks) 0 0 0 (Tok.stop n :: tail) (depthAfter_flattenL ks 0)
  simpa [skipElem] using this

theorem splitDelay_none_eq : ∀ (kids : List Node), (splitDelay kids).1 = none → (splitDelay kids).2 = kids := by
  intro kids
  induction kids with
  | nil => intro _; rfl
  | cons k rest ih =>
    cases k with
    | elem n as ks =>
      simp only [splitDelay]
      split
      · intro h; simp at h
      · intro h; simp [ih h]
    | text s =>
      simp only [splitDelay]
      intro h; simp [ih h]

theorem filter_forest (p : Parsers) (del : Bool) : ∀ (kids : List Node) (m : Name) (tail : List Tok),
    filter p del 0 (flattenL kids ++ Tok.stop m :: tail) = expected p del kids := by
  intro kids
  induction kids with
  | nil => intro m tail; simp [flattenL, filter, expected, splitDelay]
  | cons k rest ih =>
    intro m tail
    cases k with
    | text s =>
      have h := ih m tail
      simp only [flattenL, flatten, List.cons_append, List.nil_append, filter, h]
      simp only [expected, splitDelay]
      cases hsd : (splitDelay rest).1 with
      | none => simp [Out.push, flattenL, flatten]
      | some d =>
        obtain ⟨as, ks⟩ := d
        simp only
        split <;> simp [Out.push, flattenL, flatten]
    | elem n as ks =>
      simp only [flattenL, flatten, List.cons_append, List.append_assoc, List.nil_append, filter]
      by_cases hn : n = delayName
      · subst hn
        simp only [true_and, if_true]
        rw [skipElem_forest ks delayName (flattenL rest ++ Tok.stop m :: tail)]
        simp only [inner, skipElem_forest rest m tail, expected, splitDelay, if_true, Option.map_some]
      · rw [if_neg (by simp [hn])]
        have h1 := filter_prefix p del (flattenL ks) 0 0 0 (Tok.stop n :: (flattenL rest ++ Tok.stop m :: tail))
          (depthAfter_flattenL ks 0)
        simp only [Nat.zero_add, Nat.add_zero] at h1
        rw [h1]
        simp only [filter, ih m tail]
        simp only [expected, splitDelay, if_neg hn]
        cases hsd : (splitDelay rest).1 with
        | none => simp [Out.push, Out.pushAll, flattenL, flatten]
        | some d =>
          obtain ⟨as', ks'⟩ := d
          simp only
          split <;> simp [Out.push, Out.pushAll, flattenL, flatten]

/-! ### inserting transformers keep the nesting -/

theorem insertAfter_depth (ins : Nat → Name → List Tok) (hins : ∀ l n d, depthAfter d (ins l n) = some d) :
    ∀ (ts : List Tok) (l d e : Nat), depthAfter d ts = some e → depthAfter d (insertAfter ins l ts) = some e := by
  intro ts
  induction ts with
  | nil => intro l d e h; simpa [insertAfter] using h
  | cons t ts ih =>
    intro l d e h
    cases t with
    | start n as =>
      simp only [depthAfter] at h
      simp only [insertAfter, depthAfter]
      rw [depthAfter_append, hins]
      simpa using ih (l + 1) (d + 1) e h
    | stop n =>
      cases d with
      | zero => simp [depthAfter] at h
      | succ d =>
        simp only [depthAfter] at h
        simp only [insertAfter, depthAfter]
        exact ih (l - 1) d e h
    | chars s => simp only [depthAfter] at h; simp only [insertAfter, depthAfter]; exact ih l d e h
    | comment s => simp only [depthAfter] at h; simp only [insertAfter, depthAfter]; exact ih l d e h
    | procInst t i => simp only [depthAfter] at h; simp only [insertAfter, depthAfter]; exact ih l d e h
    | directive s => simp only [depthAfter] at h; simp only [insertAfter, depthAfter]; exact ih l d e h

theorem insertBeforeEnd_depth (ins : Name → List Tok) (hins : ∀ n d, depthAfter d (ins n) = some d) :
    ∀ (ts : List Tok) (d e : Nat), depthAfter d ts = some e → depthAfter d (insertBeforeEnd ins ts) = some e := by
  intro ts
  induction ts with
  | nil => intro d e h; simpa [insertBeforeEnd] using h
  | cons t ts ih =>
    intro d e h
    cases t with
    | start n as =>
      simp only [depthAfter] at h
      simp only [insertBeforeEnd, depthAfter]
      exact ih (d + 1) e h
    | stop n =>
      cases d with
      | zero => simp [depthAfter] at h
      | succ d =>
        simp only [depthAfter] at h
        simp only [insertBeforeEnd]
        rw [depthAfter_append, hins]
        simpa [depthAfter] using ih d e h
    | chars s => simp only [depthAfter] at h; simp only [insertBeforeEnd, depthAfter]; exact ih d e h
    | comment s => simp only [depthAfter] at h; simp only [insertBeforeEnd, depthAfter]; exact ih d e h
    | procInst t i => simp only [depthAfter] at h; simp only [insertBeforeEnd, depthAfter]; exact ih d e h
    | directive s => simp only [depthAfter] at h; simp only [insertBeforeEnd, depthAfter]; exact ih d e h

/-- the document of the seeded change C19-14 (non-vacuity examples of `Props/C19.lean`) -/
def c14doc : List Tok :=
  [.start forwardedName [], .start delayName [⟨⟨"", "stamp"⟩, "yesterday at noon"⟩], .chars "Offline Storage",
   .stop delayName, .start ⟨"jabber:client", "message"⟩ [], .stop ⟨"jabber:client", "message"⟩, .stop forwardedName]


theorem request_depth : ∀ (ts : List Tok) (nw : Bool) (d e : Nat),
    depthAfter d ts = some e → depthAfter d (request nw ts) = some e := by
  intro ts
  induction ts with
  | nil => intro nw d e h; simpa [request] using h
  | cons t ts ih =>
    intro nw d e h
    cases t with
    | start n as =>
      simp only [depthAfter] at h
      simp only [request, depthAfter]
      exact ih _ (d + 1) e h
    | stop n =>
      cases d with
      | zero => simp [depthAfter] at h
      | succ d =>
        simp only [depthAfter] at h
        simp only [request]
        by_cases hm : isMessage n = true
        · simp only [hm, if_true]
          cases nw
          · simp only [requestEl, Bool.false_eq_true, if_false, List.cons_append, List.nil_append, depthAfter]
            exact ih false d e h
          · simp only [if_true, List.nil_append, depthAfter]
            exact ih false d e h
        · simp only [hm, depthAfter]
          exact ih nw d e h
    | chars s => simp only [depthAfter] at h; simp only [request, depthAfter]; exact ih nw d e h
    | comment s => simp only [depthAfter] at h; simp only [request, depthAfter]; exact ih nw d e h
    | procInst t i => simp only [depthAfter] at h; simp only [request, depthAfter]; exact ih nw d e h
    | directive s => simp only [depthAfter] at h; simp only [request, depthAfter]; exact ih nw d e h

end XmppModel.Unwrap
