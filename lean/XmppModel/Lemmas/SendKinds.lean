import XmppModel.Model.SendKinds
import XmppModel.Lemmas.SendLts
/-! The atomicity invariant of the send LTS holds for every mix of call kinds (C05, round G). -/
namespace XmppModel.SendKinds
open XmppModel.SendLts

variable {α : Type}

theorem inv_step (p : Prog α) (s s' : St α) (a : Act) (inv : Inv p.job s)
    (h : step p s a = some s') : Inv p.job s' := by
  cases a with
  | idle i => simp only [step, Option.some.injEq] at h; subst h; exact inv
  | go i =>
    simp only [step] at h
    split at h
    · cases h
    · split at h
      · cases h
      · exact SendLts.inv_step p.job (fun _ => true) (fun _ => rfl) s s' i inv h

theorem inv_run (p : Prog α) (sched : List Act) : ∀ s, Inv p.job s → Inv p.job (run p s sched) := by
  induction sched with
  | nil => intro s h; exact h
  | cons a as ih =>
    intro s h
    simp only [run]
    cases hs : step p s a with
    | none => exact ih s h
    | some s' => exact ih s' (inv_step p s s' a h hs)

/-- a state in which no action changes anything stays as it is under every schedule -/
theorem stuck_run (p : Prog α) (s : St α) (hs : ∀ a, step p s a = none ∨ step p s a = some s)
    (sched : List Act) : run p s sched = s := by
  induction sched with
  | nil => rfl
  | cons a as ih =>
    simp only [run]
    rcases hs a with h | h <;> rw [h] <;> exact ih

end XmppModel.SendKinds
