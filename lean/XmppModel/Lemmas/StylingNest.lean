import XmppModel.Lemmas.StylingRun
import XmppModel.Model.StylingNest
/-! Nesting depth of spans over whole runs (C17, round D): the open spans of a run are
pairwise different directives, a backtick span is only ever the innermost one; hence at most
four spans are open at once, and four only with a backtick span innermost. -/
namespace XmppModel.Styling

/-- under the run invariant the open spans of the chain are pairwise different directive bytes -/
theorem G_stacks_good : ∀ (lv : Level) (inner : List Level) (R : Bytes), Styling.G lv inner R →
    (stacks (lv :: inner)).Nodup ∧ ∀ b ∈ stacks (lv :: inner), isDirective b = true := by
  intro lv inner
  induction inner generalizing lv with
  | nil =>
    intro R hg
    rw [stacks_single]
    exact ⟨hg.good.1.nodup, fun b hb => (hg.good.1.stack b hb).1⟩
  | cons q qs ih =>
    intro R hg
    rw [stacks_cons, hg.path.1]
    simpa using ih q R (G_inner hg)

/-- pairwise different directive bytes: at most four -/
theorem directives_length_le {l : List UInt8} (hn : l.Nodup) (hd : ∀ b ∈ l, isDirective b = true) :
    l.length ≤ 4 := by
  have hsub : l ⊆ nestKinds := by
    intro b hb
    rcases isDirective_cases (hd b hb) with rfl | rfl | rfl | rfl <;> simp [nestKinds]
  exact hn.length_le_of_subset hsub

/-- pairwise different directive bytes without a backtick: at most three -/
theorem directives_length_le_three {l : List UInt8} (hn : l.Nodup) (hd : ∀ b ∈ l, isDirective b = true)
    (ht : tick ∉ l) : l.length ≤ 3 := by
  have hsub : l ⊆ [star, under, tilde] := by
    intro b hb
    rcases isDirective_cases (hd b hb) with rfl | rfl | rfl | rfl
    · simp
    · simp
    · exact absurd hb ht
    · simp
  exact hn.length_le_of_subset hsub

/-- an invariant of the decoder that every step preserves holds after every step of a run -/
theorem RunSteps_inv {P : Dec → Prop} :
    ∀ (l : List (Bytes × Dec)) (d : Dec) (R : Bytes), RunSteps d R l → P d →
    (∀ d R t d', P d → StepP d R t d' → P d') → ∀ x ∈ l, P x.2 := by
  intro l
  induction l with
  | nil => intro _ _ _ _ _ x hx; simp at hx
  | cons y ys ih =>
    intro d R h h0 hP x hx
    obtain ⟨t, d'⟩ := y
    have hd' : P d' := hP d R t d' h0 h.1
    simp only [List.mem_cons] at hx
    rcases hx with rfl | hx
    · exact hd'
    · exact ih d' _ h.2 hd' hP x hx

/-- a backtick span has no children: it is never below another open span -/
def TickTop (d : Dec) : Prop := tick ∉ d.openSpans.tail

theorem TickTop_step {d d' : Dec} {R t : Bytes} (h0 : TickTop d) (hs : StepP d R t d') : TickTop d' := by
  unfold TickTop at *
  rcases hs.lifo with h | ⟨b, h⟩ | ⟨b, h⟩
  · rw [h]; exact h0
  · rw [h]
    simp only [List.tail_cons]
    intro hm
    exact hs.pre_span hm ⟨b, h⟩
  · rw [h] at h0
    simp only [List.tail_cons] at h0
    intro hm
    exact h0 (List.mem_of_mem_tail hm)

/-! ### span style bits come from the stack (per call) -/

/-- a span style bit that is on belongs to an open span or is scheduled for clearing -/
def BitsFromStack (lv : Level) : Prop :=
  ∀ b, isDirective b = true → lv.mask.getLsbD (styleIdx b) = true →
    b ∈ lv.spanStack ∨ lv.clearMask.getLsbD (styleIdx b) = true

theorem closeSpan_bits {lv : Level} {b : UInt8} (h : BitsFromStack lv) (hb : isDirective b = true)
    (hh : lv.spanStack.head? = some b) : BitsFromStack (closeSpan lv b) := by
  intro c hc hm
  have hstack : lv.spanStack = b :: lv.spanStack.tail := by
    cases hs : lv.spanStack with
    | nil => rw [hs] at hh; simp at hh
    | cons a l => rw [hs] at hh; simp at hh; subst hh; rfl
  have hold : lv.mask.getLsbD (styleIdx c) = true := by
    rcases isDirective_cases hb with rfl | rfl | rfl | rfl <;>
      rcases isDirective_cases hc with rfl | rfl | rfl | rfl <;>
      simpa [closeSpan, bitsOf, styleIdx, star, under, tick, tilde, SpanStrongEnd, SpanEmphEnd, SpanStrikeEnd, SpanPreEnd] using hm
  rcases h c hc hold with hin | hcl
  · rw [hstack] at hin
    simp only [List.mem_cons] at hin
    rcases hin with rfl | hin
    · right
      rcases isDirective_cases hb with rfl | rfl | rfl | rfl <;>
        simp [closeSpan, bitsOf, styleIdx, star, under, tick, tilde, SpanStrong, SpanEmph, SpanStrike, SpanPre]
    · left; exact hin
  · right
    simp only [closeSpan]
    simp [BitVec.getLsbD_or, hcl]

theorem openSpan_bits {lv : Level} {b : UInt8} (h : BitsFromStack lv) (hb : isDirective b = true) :
    BitsFromStack (openSpan lv b) := by
  intro c hc hm
  by_cases hcb : c = b
  · left; subst hcb; simp [openSpan]
  · have hold : lv.mask.getLsbD (styleIdx c) = true := by
      rcases isDirective_cases hb with rfl | rfl | rfl | rfl <;>
        rcases isDirective_cases hc with rfl | rfl | rfl | rfl <;>
        first
          | exact absurd rfl hcb
          | simpa [openSpan, bitsOf, styleIdx, star, under, tick, tilde, SpanStrong, SpanEmph, SpanStrike, SpanPre,
              SpanStrongStart, SpanEmphStart, SpanStrikeStart, SpanPreStart] using hm
    rcases h c hc hold with hin | hcl
    · left; simp [openSpan, hin]
    · right; simp only [openSpan]; simp [BitVec.getLsbD_or, hcl]

theorem spanEffect_bits {lv lv' : Level} (h : BitsFromStack lv) (he : SpanEffect lv lv') : BitsFromStack lv' := by
  rcases he with rfl | ⟨b, hh, hb, rfl⟩ | ⟨b, hb, _, rfl⟩
  · exact h
  · exact closeSpan_bits h hb hh
  · exact openSpan_bits h hb

theorem normLevel_bits {lv : Level} (h : BitsFromStack lv) : BitsFromStack (normLevel lv) := by
  intro c hc hm
  left
  have hidx : styleIdx c ≠ 1 := by
    rcases isDirective_cases hc with rfl | rfl | rfl | rfl <;> decide
  have : lv.mask.getLsbD (styleIdx c) = true ∧ lv.clearMask.getLsbD (styleIdx c) = false := by
    unfold normLevel at hm
    by_cases hl : lv.lastNewline = true <;> simp [hl, andNot, BlockQuote] at hm
    · exact ⟨hm.1.1, hm.2.2⟩
    · exact ⟨hm.1, hm.2.2⟩
  have hs : (normLevel lv).spanStack = lv.spanStack := by
    unfold normLevel; by_cases hl : lv.lastNewline = true <;> simp [hl]
  rw [hs]
  rcases h c hc this.1 with hin | hcl
  · exact hin
  · rw [this.2] at hcl; cases hcl

end XmppModel.Styling
