import XmppModel.Lemmas.Correlate
/-! Accounting invariant of the pending-request LTS (round E, review A C06-1): every stanza the
serve loop has read is in the handler log, held by a requester, or being offered right now.
Together with `InvB` (held ⇒ not in the log, held by at most one) this is the property's middle
part as ONE statement about all reachable states instead of one-step unfoldings of `step`. -/
namespace XmppModel.Correlate

set_option hygiene false in
macro "all_steps" : tactic => `(tactic|
  (cases a <;> simp only [step] at hs <;> (try split at hs) <;> (try split at hs) <;> (try split at hs) <;>
    (try split at hs) <;> (try simp at hs) <;> (try subst hs) <;> simp only [upd] at * <;> grind [RPc.held]))

theorem held_mono {cfg s a s'} {i k : Nat} (hs : step cfg s a = some s')
    (h : (s.rpc i).held = some k) : (s'.rpc i).held = some k := by
  by_cases hd : ∃ j, a = .dereg j
  · obtain ⟨j, rfl⟩ := hd
    simp only [step] at hs
    split at hs
    · rename_i o ho
      simp at hs; subst hs
      cases o <;> simp only [upd] <;> grind [RPc.held]
    · simp at hs
  · all_steps

theorem hlog_mono {cfg s a s'} {k : Nat} (hs : step cfg s a = some s') (h : k ∈ s.hlog) : k ∈ s'.hlog := by
  all_steps

theorem offering_next {cfg s a s'} {j k : Nat} (hs : step cfg s a = some s') (h : s.spc = .offering j k) :
    s'.spc = .offering j k ∨ (s'.rpc j).held = some k ∨ k ∈ s'.hlog := by
  all_steps

theorem hist_next {cfg s a s'} (hs : step cfg s a = some s') :
    s'.hist = s.hist ∨
    (s'.hist.length = s.hist.length + 1 ∧ (s.hist.length ∈ s'.hlog ∨ ∃ j, s'.spc = .offering j s.hist.length)) := by
  all_steps

/-- every stanza read so far is accounted for -/
def Accounted (s : St) : Prop :=
  ∀ k, k < s.hist.length → k ∈ s.hlog ∨ (∃ i, (s.rpc i).held = some k) ∨ (∃ j, s.spc = .offering j k)

theorem accounted_init : Accounted init := by
  intro k hk; simp [init] at hk

theorem accounted_step {cfg s a s'} (h : Accounted s) (hs : step cfg s a = some s') : Accounted s' := by
  intro k hk
  have old : k < s.hist.length → k ∈ s'.hlog ∨ (∃ i, (s'.rpc i).held = some k) ∨ (∃ j, s'.spc = .offering j k) := by
    intro hk0
    rcases h k hk0 with h1 | ⟨i, h2⟩ | ⟨j, h3⟩
    · exact Or.inl (hlog_mono hs h1)
    · exact Or.inr (Or.inl ⟨i, held_mono hs h2⟩)
    · rcases offering_next hs h3 with h4 | h4 | h4
      · exact Or.inr (Or.inr ⟨j, h4⟩)
      · exact Or.inr (Or.inl ⟨j, h4⟩)
      · exact Or.inl h4
  rcases hist_next hs with he | ⟨hl, hn⟩
  · rw [he] at hk; exact old hk
  · by_cases hk0 : k < s.hist.length
    · exact old hk0
    · have : k = s.hist.length := by omega
      subst this
      rcases hn with h1 | h2
      · exact Or.inl h1
      · exact Or.inr (Or.inr h2)

theorem accounted_reach {cfg s} (h : Reach cfg s) : Accounted s := by
  induction h with
  | init => exact accounted_init
  | step _ hs ih => exact accounted_step ih hs

end XmppModel.Correlate
