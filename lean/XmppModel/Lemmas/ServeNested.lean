import XmppModel.Model.Serve
import XmppModel.Lemmas.Serve
import XmppModel.Lemmas.ServeView
/-! A stream-level construct nested inside an element, and keep-alives between elements (C08). -/
namespace XmppModel.Serve
open XmppModel.Xml

/-- reading `ts` with `c` nested elements open never reaches the end tag of the current element -/
def noClose : Nat → List Tok → Bool
  | _, [] => true
  | c, .start .. :: ts => noClose (c + 1) ts
  | 0, .stop _ :: _ => false
  | c + 1, .stop _ :: ts => noClose c ts
  | c, .chars _ :: ts => noClose c ts
  | c, .comment _ :: ts => noClose c ts
  | c, .procInst .. :: ts => noClose c ts
  | c, .directive _ :: ts => noClose c ts

/-- inside an element, `rem` (ordinary content that does not close the element) is what
precedes the stream-level construct `bad`; `post` follows it -/
structure MidB (e : ES) (rem : List Tok) (bad : Tok) (post : List Tok) : Prop where
  fin : e.fin = false
  st : e.rs.sticky = none
  inp : e.rs.inp = rem ++ bad :: post
  pl : ∀ t ∈ rem, plainTok t = true
  nc : noClose e.cnt rem = true
  di : e.cnt + 1 ≤ e.rs.dIn
  dO : e.cnt + 1 ≤ e.rs.dOut

/-- the construct has been hit: every further read fails with its error -/
structure Stuck (e : ES) (err : Err) : Prop where
  fin : e.fin = false
  st : e.rs.sticky = some (.err err)

theorem stuck_read {e : ES} {err : Err} (h : Stuck e err) :
    e.read = (.err, e) ∧ ∀ f, discardF (f + 1) e = (some err, e) := by
  obtain ⟨rs, cnt, fin⟩ := e
  obtain ⟨hf, hs⟩ := h
  simp only at hf hs
  subst hf
  constructor
  · simp [ES.read, RS.next, hs, Fail.rd]
  · intro f; simp [discardF, RS.next, hs, Fail.rd]

theorem midB_hit {e : ES} {bad : Tok} {post : List Tok} {err : Err}
    (h : MidB e [] bad post) (hbad : ∀ d, (verdict d bad post).2 = Rd.err err) :
    ∃ e', e.read = (.err, e') ∧ (∀ f, discardF (f + 1) e = (some err, e')) ∧ Stuck e' err := by
  obtain ⟨hfin, hst, hinp, _, _, _, _⟩ := h
  simp only [List.nil_append] at hinp
  have hv := hbad e.rs.dIn
  have hnext : e.rs.next = (.err err,
      { inp := post, dIn := (verdict e.rs.dIn bad post).1, dOut := e.rs.dOut, sticky := some (.err err) }) := by
    unfold RS.next
    simp only [hst, hinp]
    generalize hvv : verdict e.rs.dIn bad post = v at hv
    obtain ⟨d', r⟩ := v
    simp only at hv
    subst hv
    rfl
  refine ⟨ES.mk (RS.mk post (verdict e.rs.dIn bad post).1 e.rs.dOut (some (.err err))) e.cnt e.fin,
    ?_, ?_, ⟨hfin, rfl⟩⟩
  · simp [ES.read, hfin, hnext]
  · intro f; simp [discardF, hfin, hnext]

theorem midB_step {e : ES} {t : Tok} {rem' : List Tok} {bad : Tok} {post : List Tok}
    (h : MidB e (t :: rem') bad post) :
    ∃ e', e.read = (.tok t, e') ∧ (∀ f, discardF (f + 1) e = discardF f e') ∧ MidB e' rem' bad post := by
  obtain ⟨hfin, hst, hinp, hpl, hnc, hdi, hdo⟩ := h
  have hpt : plainTok t = true := hpl t (by simp)
  have hpl' : ∀ x ∈ rem', plainTok x = true := fun x hx => hpl x (by simp [hx])
  have hn := RS.next_plain e.rs t (rem' ++ bad :: post) hst (by simpa using hinp) hpt (by omega) (by omega)
  cases t with
  | start n as =>
    simp only [noClose] at hnc
    refine ⟨{ rs := nxt e.rs (.start n as) (rem' ++ bad :: post), cnt := e.cnt + 1, fin := false }, ?_, ?_, ?_⟩
    · simp [ES.read, hfin, hn]
    · intro f; simp [discardF, hfin, hn]
    · exact ⟨rfl, rfl, rfl, hpl', hnc, by simp [nxt, upd]; omega, by simp [nxt, upd]; omega⟩
  | stop n =>
    cases hc : e.cnt with
    | zero => rw [hc] at hnc; simp [noClose] at hnc
    | succ c =>
      rw [hc] at hnc
      simp only [noClose] at hnc
      refine ⟨{ rs := nxt e.rs (.stop n) (rem' ++ bad :: post), cnt := c, fin := false }, ?_, ?_, ?_⟩
      · simp [ES.read, hfin, hn, hc]
      · intro f; simp [discardF, hfin, hn, hc]
      · exact ⟨rfl, rfl, rfl, hpl', hnc, by simp [nxt, upd]; omega, by simp [nxt, upd]; omega⟩
  | chars s =>
    simp only [noClose] at hnc
    refine ⟨{ e with rs := nxt e.rs (.chars s) (rem' ++ bad :: post) }, ?_, ?_, ?_⟩
    · simp [ES.read, hfin, hn]
    · intro f; simp [discardF, hfin, hn]
    · exact ⟨hfin, rfl, rfl, hpl', hnc, by simp [nxt, upd]; omega, by simp [nxt, upd]; omega⟩
  | comment s => simp [plainTok] at hpt
  | procInst a b => simp [plainTok] at hpt
  | directive s => simp [plainTok] at hpt

/-- what `k` reads return when a construct follows `rem`: the tokens of `rem`, then errors -/
def viewBad : List Tok → Nat → List Obs
  | _, 0 => []
  | [], k + 1 => .err :: viewBad [] k
  | t :: ts, k + 1 => .tok t :: viewBad ts k

def StB (e : ES) (rem : List Tok) (bad : Tok) (post : List Tok) (err : Err) : Prop :=
  MidB e rem bad post ∨ (rem = [] ∧ Stuck e err)

theorem readB {e : ES} {rem : List Tok} {bad : Tok} {post : List Tok} {err : Err}
    (hbad : ∀ d, (verdict d bad post).2 = Rd.err err) (h : StB e rem bad post err) :
    ∃ e', e.read = ((viewBad rem 1).headD .err, e') ∧ StB e' rem.tail bad post err := by
  rcases h with hm | ⟨rfl, hs⟩
  · cases rem with
    | nil =>
      obtain ⟨e', h1, _, h3⟩ := midB_hit hm hbad
      exact ⟨e', by simp [viewBad, h1], Or.inr ⟨rfl, h3⟩⟩
    | cons t rem' =>
      obtain ⟨e', h1, _, h3⟩ := midB_step hm
      exact ⟨e', by simp [viewBad, h1], Or.inl h3⟩
  · exact ⟨e, by simp [viewBad, (stuck_read hs).1], Or.inr ⟨rfl, hs⟩⟩

theorem viewBad_succ (rem : List Tok) (k : Nat) :
    viewBad rem (k + 1) = (viewBad rem 1).headD .err :: viewBad rem.tail k := by
  cases rem <;> simp [viewBad]

theorem runOps_viewB (id : String) {bad : Tok} {post : List Tok} {err : Err}
    (hbad : ∀ d, (verdict d bad post).2 = Rd.err err) :
    ∀ (ops : List Op) (e : ES) (w : WS) (acc : List Obs) (rem : List Tok), StB e rem bad post err →
    ∃ e', runOps id ops e w acc
        = (acc.reverse ++ viewBad rem (nreads ops), e', w.encAll id (writesOf ops)) ∧
      StB e' (rem.drop (nreads ops)) bad post err := by
  intro ops
  induction ops with
  | nil => intro e w acc rem h; exact ⟨e, by simp [runOps, viewBad, nreads, writesOf, encAll_nil], by simpa [nreads] using h⟩
  | cons o ops ih =>
    intro e w acc rem h
    cases o with
    | write ts =>
      obtain ⟨e', h1, h2⟩ := ih e (w.encAll id ts) acc rem h
      exact ⟨e', by simp [runOps, h1, nreads, writesOf, encAll_append], by simpa [nreads] using h2⟩
    | read =>
      obtain ⟨e1, hr, hs⟩ := readB hbad h
      obtain ⟨e', h1, h2⟩ := ih e1 w ((viewBad rem 1).headD .err :: acc) rem.tail hs
      refine ⟨e', ?_, ?_⟩
      · simp only [runOps, hr, nreads, writesOf]
        rw [h1, viewBad_succ rem (nreads ops)]
        simp
      · simpa [nreads, List.drop_succ_cons, List.tail_drop] using h2

theorem discardB {bad : Tok} {post : List Tok} {err : Err}
    (hbad : ∀ d, (verdict d bad post).2 = Rd.err err) :
    ∀ (rem : List Tok) (e : ES) (fuel : Nat), StB e rem bad post err → rem.length + 1 ≤ fuel →
      ∃ e', discardF fuel e = (some err, e') := by
  intro rem
  induction rem with
  | nil =>
    intro e fuel h hf
    cases fuel with
    | zero => omega
    | succ f =>
      rcases h with hm | ⟨_, hs⟩
      · obtain ⟨e', _, h2, _⟩ := midB_hit hm hbad
        exact ⟨e', h2 f⟩
      · exact ⟨e, (stuck_read hs).2 f⟩
  | cons t rem' ih =>
    intro e fuel h hf
    rcases h with hm | ⟨hnil, _⟩
    · obtain ⟨e1, _, h2, h3⟩ := midB_step hm
      cases fuel with
      | zero => omega
      | succ f =>
        rw [h2 f]
        exact ih e1 f (Or.inl h3) (by simp at hf; omega)
    · cases hnil

theorem StB.len {e : ES} {rem : List Tok} {bad : Tok} {post : List Tok} {err : Err}
    (h : StB e rem bad post err) : rem.length ≤ e.rs.inp.length := by
  rcases h with hm | ⟨rfl, _⟩
  · rw [hm.inp]; simp
  · simp

/-- one whole `handleInputStream` call on an element that contains a stream-level construct
after the ordinary content `pre` -/
theorem handleInputStream_nested (cfg : Cfg) (rs : RS) (n : Name) (as : List Attr)
    (pre : List Tok) (bad : Tok) (post : List Tok) (err : Err) (prog : Prog)
    (hi : rs.inp = .start n as :: (pre ++ bad :: post)) (hn : (n.space != nsStream) = true)
    (hpl : ∀ t ∈ pre, plainTok t = true) (hnc : noClose 0 pre = true)
    (hbad : ∀ d, (verdict d bad post).2 = Rd.err err)
    (hret : prog.ret = .ok) (d : List Tok)
    (hd : autoReply cfg n (blankFrom cfg n as)
      (WS.init.encAll (getId (blankFrom cfg n as)) (writesOf prog.ops)).wrote = some d) :
    handleInputStream cfg rs prog =
      .stop (some { start := .start n (blankFrom cfg n as), view := viewBad pre (nreads prog.ops) })
        (writesOf prog.ops ++ d) (.error err) := by
  have hnext : ({ rs with dOut := 0, sticky := none } : RS).next
      = (.tok (.start n as), { inp := pre ++ bad :: post, dIn := rs.dIn + 1, dOut := 1, sticky := none }) := by
    simp [RS.next, hi, verdict, hn]
  have hst : StB { rs := { inp := pre ++ bad :: post, dIn := rs.dIn + 1, dOut := 1, sticky := none }, cnt := 0, fin := false }
      pre bad post err := Or.inl ⟨rfl, rfl, rfl, hpl, hnc, by simp, by simp⟩
  obtain ⟨e', hrun, hst'⟩ := runOps_viewB (getId (blankFrom cfg n as)) hbad prog.ops _ WS.init [] pre hst
  have hlen := hst'.len
  obtain ⟨e'', hdis⟩ := discardB hbad _ e' (e'.rs.inp.length + 2) hst' (by omega)
  unfold handleInputStream
  rw [hnext]
  simp only [handleElem, hrun, hret, hd, discard, hdis]
  simp [encAll_out, WS.init]

/-! ### keep-alives between elements -/

/-- a top-level item: a white-space keep-alive or an element with its handler's program -/
inductive Item
  | ka (s : String)
  | el (c : Case)

def Item.toks : Item → List Tok
  | .ka s => [.chars s]
  | .el c => c.toks

def Item.Ok (cfg : Cfg) : Item → Prop
  | .ka s => isWs s = true
  | .el c => c.Ok cfg

def cases : List Item → List Case
  | [] => []
  | .ka _ :: is => cases is
  | .el c :: is => c :: cases is

theorem serveF_items (cfg : Cfg) (ps : List Prog) : ∀ (is : List Item) (fuel a : Nat) (tail : List Tok),
    (∀ i ∈ is, i.Ok cfg) →
    serveF cfg (fuel + is.length) { inp := is.flatMap Item.toks ++ tail, dIn := a, dOut := 0, sticky := none }
        ((cases is).map (·.prog) ++ ps)
      = { invs := (cases is).map (Case.inv cfg) ++ (serveF cfg fuel { inp := tail, dIn := a, dOut := 0, sticky := none } ps).invs,
          written := (cases is).flatMap Case.written ++ (serveF cfg fuel { inp := tail, dIn := a, dOut := 0, sticky := none } ps).written,
          result := (serveF cfg fuel { inp := tail, dIn := a, dOut := 0, sticky := none } ps).result } := by
  intro is
  induction is with
  | nil => intro fuel a tail _; simp [cases]
  | cons i is ih =>
    intro fuel a tail hok
    have hi := hok i (by simp)
    have hrec := ih fuel a tail (fun x hx => hok x (by simp [hx]))
    rw [show fuel + (i :: is).length = (fuel + is.length) + 1 by simp; omega]
    cases i with
    | ka s =>
      have hs : isWs s = true := hi
      have hstep : ∀ p, handleInputStream cfg
          { inp := (Item.ka s :: is).flatMap Item.toks ++ tail, dIn := a, dOut := 0, sticky := none } p
          = .next none [] { inp := is.flatMap Item.toks ++ tail, dIn := a, dOut := 0, sticky := none } := by
        intro p
        simp [handleInputStream, RS.next, Item.toks, verdict, hs]
      simp only [serveF, hstep, cases]
      simp only [Option.isSome_none, Bool.false_eq_true, if_false]
      rw [hrec]
      simp
    | el c =>
      have hc : c.Ok cfg := hi
      have hstep := handleInputStream_elem cfg
        { inp := (Item.el c :: is).flatMap Item.toks ++ tail, dIn := a, dOut := 0, sticky := none }
        c.n c.as c.body (is.flatMap Item.toks ++ tail) c.prog
        (by simp [Item.toks, Case.toks, List.append_assoc]) hc.ns
        (by simpa using splitElem_ext c.body 0 c.body [] (is.flatMap Item.toks ++ tail) hc.wf)
        hc.pl hc.ret c.added hc.add
      simp only [serveF, cases, List.map_cons, List.cons_append, List.headD_cons, hstep, Option.isSome_some, if_true, List.tail_cons]
      rw [hrec]
      simp [Case.inv, Case.written, List.append_assoc]

end XmppModel.Serve
