import XmppModel.Model.Component
/-!
Invariants of the component handshake machine (`Model/Component.lean`).
-/
namespace XmppModel.Component

theorem run_succ (O : Oracle) (n : Nat) (c : Conf) : run O (n + 1) c = step O (run O n c) := by
  induction n generalizing c with
  | zero => rfl
  | succ n ih => rw [run, ih]; rfl

def Reach (O : Oracle) (script : List Item) (c : Conf) : Prop := ∃ n, c = run O n (init script)

theorem reach_ind {O : Oracle} {script : List Item} (P : Conf → Prop) (h0 : P (init script))
    (hs : ∀ c, P c → P (step O c)) : ∀ c, Reach O script c → P c := by
  intro c ⟨n, hn⟩
  subst hn
  induction n with
  | zero => exact h0
  | succ n ih => rw [run_succ]; exact hs _ ih

macro "cstep_all" : tactic =>
  `(tactic| (unfold step; split <;> (try simp only [write, read]) <;> (repeat' split) <;> (try dsimp only)))

/-- the step behind the event failed -/
def Ev.faulty : Ev → Bool
  | .wr ok => !ok
  | .rd r => r != .got
  | .blocked _ => false

def Clean (tr : List Ev) : Prop := ∀ e ∈ tr, e.faulty = false

def Pc.failed : Pc → Bool
  | .fail _ => true
  | _ => false

/-- the consumed items end with the end of the acknowledgement: the acknowledgement in one piece,
or its end tag -/
def EndsAck (l : List Item) : Prop := l.getLast? = some .ack ∨ l.getLast? = some .ackClose

/-- what the items consumed so far contain, by control point -/
def Shape : Pc → List Item → Prop
  | .writeHs id, l => .hdr id ∈ l
  | .readAck id, l => .hdr id ∈ l
  | .skipAck _, l => .hdr true ∈ l ∧ .ackOpen ∈ l
  | .ret, l => .hdr true ∈ l ∧ EndsAck l
  | .done, l => .hdr true ∈ l ∧ EndsAck l
  | _, _ => True

structure Inv (O : Oracle) (script : List Item) (c : Conf) : Prop where
  /-- unless it has failed, no executed step failed -/
  clean : c.pc.failed = false → Clean c.tr
  /-- at most one step failed, and it is the last event -/
  shape : Clean c.tr ∨ ∃ e rest, c.tr = e :: rest ∧ e.faulty = true ∧ Clean rest
  /-- what was read so far -/
  consumed : ∃ l, script = l ++ c.script ∧ Shape c.pc l
  /-- success is only reported for a context that is not done -/
  notCancelled : c.pc = .done → O.cancel c.tr = false
  /-- the call hangs only while the deadline of the blocked operation has not been moved -/
  hung : ∀ wr, c.pc = .hung wr → (O.cancel c.tr && (if wr then O.dlWr else O.dlRd)) = false

theorem clean_cons {e : Ev} {tr : List Ev} (he : e.faulty = false) (h : Clean tr) : Clean (e :: tr) := by
  intro x hx
  simp only [List.mem_cons] at hx
  rcases hx with rfl | hx
  · exact he
  · exact h x hx

theorem inv_clean (O : Oracle) (c : Conf)
    (h : (c.pc.failed = false → Clean c.tr) ∧
      (Clean c.tr ∨ ∃ e rest, c.tr = e :: rest ∧ e.faulty = true ∧ Clean rest)) :
    ((step O c).pc.failed = false → Clean (step O c).tr) ∧
      (Clean (step O c).tr ∨ ∃ e rest, (step O c).tr = e :: rest ∧ e.faulty = true ∧ Clean rest) := by
  obtain ⟨h1, h2⟩ := h
  cstep_all
  all_goals (constructor <;> (try dsimp only))
  all_goals first
    | exact h1
    | exact h2
    | (intro h; cases h; done)
    | (intro _; refine h1 ?_; simp_all [Pc.failed]; done)
    | (intro _; refine clean_cons ?_ (h1 ?_) <;> simp_all [Ev.faulty, Pc.failed] <;> done)
    | (left; refine h1 ?_; simp_all [Pc.failed]; done)
    | (left; refine clean_cons ?_ (h1 ?_) <;> simp_all [Ev.faulty, Pc.failed] <;> done)
    | (right; refine ⟨_, _, rfl, ?_, h1 ?_⟩ <;> simp_all [Ev.faulty, Pc.failed] <;> done)
    | skip

theorem cons_split {script l r : List Item} {it : Item} (h : script = l ++ it :: r) :
    script = (l ++ [it]) ++ r := by rw [h]; simp

theorem inv_consumed (O : Oracle) (script : List Item) (c : Conf)
    (h : ∃ l, script = l ++ c.script ∧ Shape c.pc l) :
    ∃ l, script = l ++ (step O c).script ∧ Shape (step O c).pc l := by
  obtain ⟨l, h1, h2⟩ := h
  cstep_all
  all_goals first
    | exact ⟨l, h1, h2⟩
    | exact ⟨l, h1, True.intro⟩
    | (refine ⟨l, h1, ?_⟩; simp_all [Shape]; done)
    | (have h1' := h1
       rw [‹c.script = _ :: _›] at h1'
       exact ⟨_, cons_split h1', True.intro⟩)
    | (have h1' := h1
       rw [‹c.script = _ :: _›] at h1'
       refine ⟨_, cons_split h1', ?_⟩
       rw [‹c.pc = _›] at h2
       (try subst_vars)
       simp only [Shape, EndsAck] at h2 ⊢
       simp_all
       done)
    | skip

theorem inv_cancel (O : Oracle) (c : Conf)
    (h : (c.pc = .done → O.cancel c.tr = false) ∧
      (∀ wr, c.pc = .hung wr → (O.cancel c.tr && (if wr then O.dlWr else O.dlRd)) = false)) :
    ((step O c).pc = .done → O.cancel (step O c).tr = false) ∧
      (∀ wr, (step O c).pc = .hung wr →
        (O.cancel (step O c).tr && (if wr then O.dlWr else O.dlRd)) = false) := by
  obtain ⟨h1, h2⟩ := h
  cstep_all
  all_goals (constructor <;> (try dsimp only))
  all_goals first
    | exact h1
    | exact h2
    | (intro h; cases h; done)
    | (intro _ h; cases h; done)
    | (intro _; simp_all; done)
    | (intro _ h; cases h; simp_all; done)
    | skip

theorem inv_step (O : Oracle) (script : List Item) (c : Conf) (h : Inv O script c) :
    Inv O script (step O c) := by
  obtain ⟨h1, h2, h3, h4, h5⟩ := h
  have a := inv_clean O c ⟨h1, h2⟩
  have b := inv_consumed O script c h3
  have d := inv_cancel O c ⟨h4, h5⟩
  exact ⟨a.1, a.2, b, d.1, d.2⟩

theorem inv_reach {O : Oracle} {script : List Item} {c : Conf} (h : Reach O script c) :
    Inv O script c := by
  refine reach_ind (P := Inv O script) ?_ (fun c hc => inv_step O script c hc) c h
  constructor
  · intro _ e he; cases he
  · left; intro e he; cases he
  · exact ⟨[], rfl, True.intro⟩
  · intro h; cases h
  · intro _ h; cases h

/-! ### the handshake ends -/

def rank : Pc → Nat
  | .start => 6
  | .recvStart => 1
  | .readHdr _ => 5
  | .writeHs _ => 4
  | .readAck _ => 3
  | .skipAck _ => 3
  | .ret => 2
  | .blocked _ => 1
  | .done | .fail _ | .hung _ => 0

def measure (c : Conf) : Nat := 2 * c.script.length + rank c.pc

theorem measure_step (O : Oracle) (c : Conf) (hf : c.pc.final = false) :
    measure (step O c) < measure c := by
  revert hf
  cstep_all
  all_goals intro hf
  all_goals first
    | (simp_all [Pc.final]; done)
    | (simp_all [measure, rank] <;> omega)


theorem step_final (O : Oracle) (c : Conf) (h : c.pc.final = true) : step O c = c := by
  unfold step
  cases hp : c.pc <;> simp_all [Pc.final]

theorem run_of_final (O : Oracle) (n : Nat) (c : Conf) (h : c.pc.final = true) : run O n c = c := by
  induction n with
  | zero => rfl
  | succ n ih => rw [run, step_final O c h, ih]

theorem run_final (O : Oracle) : ∀ n c, measure c ≤ n → (run O n c).pc.final = true := by
  intro n
  induction n with
  | zero =>
    intro c h
    cases hf : c.pc.final
    · have := measure_step O c hf; omega
    · exact hf
  | succ n ih =>
    intro c h
    cases hf : c.pc.final
    · have := measure_step O c hf
      rw [run]; exact ih _ (by omega)
    · rw [run_of_final O _ c hf]; exact hf

end XmppModel.Component
