import XmppModel.Model.IbbReaders
/-! Invariant, progress and termination measure of the N-reader wake-up protocol. -/
namespace XmppModel.IbbReaders

/-- closed ∧ some reader is about to wait or waits ⇒ a signal is pending or some reader is about
to re-post it (stated without existentials) -/
def Inv (s : St) : Prop :=
  s.closed = true → s.tok = false → (∀ j, s.rpc j ≠ .woken) → ∀ i, s.rpc i ≠ .checked ∧ s.rpc i ≠ .waiting

theorem inv_step {s a s'} (h : Inv s) (hs : step true s a = some s') : Inv s' := by
  unfold Inv at *
  cases a <;> simp only [step] at hs
  case close => simp at hs; subst hs; simp
  case packet n => split at hs <;> simp at hs; subst hs; simp
  all_goals
    (split at hs <;> (try split at hs) <;> (try split at hs) <;> (try simp at hs) <;> (try subst hs) <;>
      (try (simp only [upd] at *; grind)))

theorem inv_reach {s} (hr : Reach true s) : Inv s := by
  induction hr with
  | init => intro h; simp at h
  | step _ hs ih => exact inv_step ih hs

theorem measure_upd (s : St) (i : Nat) (v : RPc) : ∀ n, i < n →
    measure { s with rpc := upd s.rpc i v } n + weight (s.rpc i) = measure s n + weight v := by
  intro n
  induction n with
  | zero => intro h; omega
  | succ n ih =>
    intro h
    simp only [measure]
    by_cases hi : i = n
    · subst hi
      have hrest : measure { s with rpc := upd s.rpc i v } i = measure s i := by
        have : ∀ m, m ≤ i → measure { s with rpc := upd s.rpc i v } m = measure s m := by
          intro m
          induction m with
          | zero => intro _; rfl
          | succ m ihm =>
            intro hm
            simp only [measure, upd]
            have : m ≠ i := by omega
            simp [this, ihm (by omega)]
        exact this i (Nat.le_refl i)
      simp [upd, hrest]; omega
    · have := ih (by omega)
      have hn : n ≠ i := fun h => hi h.symm
      simp only [upd, hn, if_false] at *
      omega

theorem measure_eq_of_rpc (s t : St) (h : t.rpc = s.rpc) : ∀ n, measure t n = measure s n := by
  intro n; induction n with
  | zero => rfl
  | succ n ih => simp [measure, h, ih]

end XmppModel.IbbReaders
