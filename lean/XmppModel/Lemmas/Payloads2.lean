import XmppModel.Model.Payloads2
import XmppModel.Lemmas.Payloads
/-! Round trips of the nested payload codecs (second batch). -/
namespace XmppModel.Payloads
open XmppModel XmppModel.Xml XmppModel.Payload

theorem attr_opt (loc v : String) : attrOrEmpty (optAt loc v) loc = v := by
  by_cases h : v = "" <;> simp [attrOrEmpty, attrLast, optAt, at', h]

/-! ### blocklist -/

theorem kidsNamed_sids (loc : String) (l : List (String × String)) :
    kidsNamed loc (l.map encSid) =
      if "stanza-id" = loc then l.map (fun p => ([at' "by" p.1, at' "id" p.2], ([] : List Node))) else [] := by
  induction l with
  | nil => simp [kidsNamed]
  | cons p ps ih => by_cases h : "stanza-id" = loc <;> simp_all [kidsNamed, encSid]

theorem decSid_enc (p : String × String) : decSid [at' "by" p.1, at' "id" p.2] = p := by
  simp [decSid, attrOrEmpty, attrLast, at']

theorem decBlockItem_enc (b : BlockItem) : decBlockItem (encBlockItem b) = some (canonBlockItem b) := by
  cases b with
  | mk jid reason ids text =>
    by_cases hr : hasReport ⟨jid, reason, ids, text⟩ = true
    · have e1 : ("stanza-id" = "text") = False := by decide
      by_cases ht : text = ""
      · subst ht
        by_cases hre : reason = ""
        · subst hre
          simp [encBlockItem, decBlockItem, canonBlockItem, hr, lastKids, kidsNamed, Form.kidsNamed_append,
            kidsNamed_sids, e1, attrOrEmpty, attrLast, at', leaf, lastText, Form.textOf_textKid, decSid, Function.comp_def]
        · simp [encBlockItem, decBlockItem, canonBlockItem, hr, hre, lastKids, kidsNamed, Form.kidsNamed_append,
            kidsNamed_sids, e1, attrOrEmpty, attrLast, at', leaf, lastText, Form.textOf_textKid, decSid, Function.comp_def]
      · by_cases hre : reason = ""
        · subst hre
          simp [encBlockItem, decBlockItem, canonBlockItem, hr, ht, lastKids, kidsNamed, Form.kidsNamed_append,
            kidsNamed_sids, e1, attrOrEmpty, attrLast, at', leaf, lastText, Form.textOf_textKid, decSid, Function.comp_def]
        · simp [encBlockItem, decBlockItem, canonBlockItem, hr, ht, hre, lastKids, kidsNamed, Form.kidsNamed_append,
            kidsNamed_sids, e1, attrOrEmpty, attrLast, at', leaf, lastText, Form.textOf_textKid, decSid, Function.comp_def]
    · have hr' : reason = "" ∧ ids = [] ∧ text = "" := by
        simp only [hasReport, Bool.or_eq_true, decide_eq_true_eq, Bool.not_eq_true', not_or, Bool.not_eq_true] at hr
        refine ⟨by simpa using hr.1.1, ?_, by simpa using hr.2⟩
        have := hr.1.2
        cases ids <;> simp_all
      obtain ⟨rfl, rfl, rfl⟩ := hr'
      simp [encBlockItem, decBlockItem, canonBlockItem, hasReport, lastKids, kidsNamed, attrOrEmpty, attrLast, at']

/-! ### bookmarks -/

theorem decBookmark_enc (c : Bookmark) : decBookmark (encBookmark c) = some c := by
  cases c with
  | mk aj name nick pw ext =>
    have hn := attr_opt "name" name
    cases ext with
    | nil =>
      by_cases h1 : name = "" <;> by_cases h2 : nick = "" <;> by_cases h3 : pw = "" <;>
        simp [encBookmark, decBookmark, lastKids, kidsNamed, leaf, lastText, Form.textOf_textKid, attrOrEmpty,
          attrLast, optAt, at', h1, h2, h3]
    | cons e es =>
      by_cases h1 : name = "" <;> by_cases h2 : nick = "" <;> by_cases h3 : pw = "" <;>
        simp [encBookmark, decBookmark, lastKids, kidsNamed, leaf, lastText, Form.textOf_textKid, attrOrEmpty,
          attrLast, optAt, at', h1, h2, h3]

/-! ### fin -/

theorem decFin_enc (f : Fin) : decFin (encFin f) = some f := by
  have h := decRSet_encRSet f.set
  simp only [encFin, decFin]
  generalize he : encRSet f.set = node at h
  cases node with
  | text s => simp [encRSet] at he
  | elem n a k =>
    cases f
    simp [h, attrOrEmpty, attrLast, at']

/-! ### mediated invitation -/

theorem decMediated_enc (i : Mediated) : decMediated (encMediated i) = some (canonMediated i) := by
  cases i with
  | mk to reason cont thread pw =>
    have e1 : ("continue" = "reason") = False := by decide
    have e2 : ("reason" = "continue") = False := by decide
    cases cont <;> by_cases h1 : reason = "" <;> by_cases h2 : pw = "" <;> by_cases h3 : thread = "" <;>
      simp [encMediated, decMediated, canonMediated, lastKids, kidsNamed, leaf, lastText, Form.textOf_textKid,
        attrOrEmpty, attrLast, optAt, at', h1, h2, h3, e1, e2]

/-! ### actions -/

theorem decActions_enc (a : Actions) (h : validActions a = true) : decActions (encActions a) = some a := by
  cases a with
  | mk e p n c =>
    have he := attr_opt "execute" e
    simp only [validActions, Bool.or_eq_true, decide_eq_true_eq] at h
    have hv : (if e = "prev" ∨ e = "next" ∨ e = "complete" then e else "") = e := by
      rcases h with ((h | h) | h) | h <;> simp [h]
    cases p <;> cases n <;> cases c <;>
      simp [encActions, decActions, flag, kidsNamed, he, hv]

/-! ### upload slot -/

theorem kidsNamed_headers (l : List (String × String)) :
    kidsNamed "header" (l.map encHeader) = l.map (fun h => ([at' "name" h.1], textKid h.2)) := by
  induction l with
  | nil => simp [kidsNamed]
  | cons p ps ih => simp [kidsNamed, encHeader, ih]

theorem decSlot_enc (s : Slot) :
    decSlot (encSlot s) = some { s with headers := s.headers.filter fun h => allowedHeader h.1 } := by
  cases s with
  | mk put hs get =>
    simp [encSlot, decSlot, lastKids, kidsNamed, kidsNamed_headers, attrOrEmpty, attrLast, at',
      Form.textOf_textKid, Function.comp_def]

/-! ### file metadata -/

theorem decFileMeta_enc (m : FileMeta) : decFileMeta (encFileMeta m) = some m := by
  cases m with
  | mk mt name date size hash w h l =>
    cases hash with
    | none => simp [encFileMeta, decFileMeta, lastKids, kidsNamed, leaf, lastText, Form.textOf_textKid]
    | some p =>
      simp [encFileMeta, decFileMeta, lastKids, kidsNamed, leaf, lastText, Form.textOf_textKid, attrOrEmpty,
        attrLast, at']

/-! ### trust messages -/

theorem decKey_enc (sp : String) (k : TKey) : decKey (encKey sp k) = some k := by
  cases k with
  | mk t id => cases t <;> simp [encKey, decKey, Form.textOf_textKid]

theorem decKeys_enc (sp : String) (l : List TKey) : decKeys (l.map (encKey sp)) = some l := by
  induction l with
  | nil => simp [decKeys]
  | cons k ks ih =>
    have hk := decKey_enc sp k
    simp only [List.map_cons]
    generalize he : encKey sp k = node at hk
    cases node with
    | text s => simp [encKey] at he
    | elem n a kk => simp [decKeys, hk, ih]

theorem decOwner_enc (sp : String) (o : Owner) : decOwner (encOwner sp o) = some o := by
  cases o with
  | mk jid keys => simp [encOwner, decOwner, decKeys_enc, attrOrEmpty, attrLast, at']

theorem decOwners_enc (sp : String) (l : List Owner) : decOwners (l.map (encOwner sp)) = some l := by
  induction l with
  | nil => simp [decOwners]
  | cons o os ih =>
    have ho := decOwner_enc sp o
    simp only [List.map_cons]
    generalize he : encOwner sp o = node at ho
    cases node with
    | text s => simp [encOwner] at he
    | elem n a kk =>
      have hn : n.loc = "key-owner" := by simp [encOwner] at he; rw [← he.1]
      simp [decOwners, hn, ho, ih]

theorem decTrustMsg_enc (t : TrustMsg) : decTrustMsg (encTrustMsg t) = some t := by
  cases t with
  | mk u e os => simp [encTrustMsg, decTrustMsg, decOwners_enc, attrOrEmpty, attrLast, at']

/-! ### forwarding and carbons -/

theorem decDelay_enc (d : DelayRec) :
    decDelay (optAt "from" d.sender ++ [at' "stamp" d.stamp]) (textKid d.reason) = d := by
  cases d with
  | mk s st r =>
    by_cases h1 : s = "" <;> by_cases h2 : r = "" <;>
      simp [decDelay, attrOrEmpty, attrLast, optAt, at', textKid, h1, h2]

theorem unwrapForward_wrap (d : DelayRec) (inner : List Node) :
    unwrapForward (wrapForward d inner) = some (some d, inner) := by
  simp [wrapForward, unwrapForward, takeDelay, encDelay, decDelay_enc]

theorem unwrapCarbon_wrap (sent : Bool) (d : DelayRec) (inner : List Node) :
    unwrapCarbon (wrapCarbon sent d inner) = some (sent, some d, inner) := by
  have h := unwrapForward_wrap d inner
  cases sent <;> simp [wrapCarbon, unwrapCarbon, nsCarbons, h]

/-! ### pubsub -/

theorem decPublishId_enc (node id : String) (payload : List Node) :
    decPublishId (encPublish node id payload) = some id := by
  have := attr_opt "id" id
  simp [encPublish, decPublishId, lastKids, kidsNamed, this]

/-! ### enum-named elements -/

theorem enum_names_ncname (t : EnumTable) (h : t.ok = true) (n : Nat) (h1 : t.lo ≤ n) (h2 : n < t.hi) :
    ∃ nm, t.names[n]? = some nm ∧ isNCName nm = true := by
  simp only [EnumTable.ok, Bool.and_eq_true, decide_eq_true_eq, List.all_eq_true] at h
  obtain ⟨⟨hlo, hhi⟩, hall⟩ := h
  have hn : n < t.names.length := by omega
  refine ⟨t.names[n], by simp [hn], ?_⟩
  apply hall
  have : ((t.names.drop t.lo).take (t.hi - t.lo))[n - t.lo]? = some t.names[n] := by
    rw [List.getElem?_take]
    have : n - t.lo < t.hi - t.lo := by omega
    simp only [this, if_true, List.getElem?_drop]
    have e : t.lo + (n - t.lo) = n := by omega
    simp [e, hn]
  exact List.mem_of_getElem? this

theorem encCond_names (sp : String) (t : EnumTable) (h : t.ok = true) (n : Nat) :
    ∀ node ∈ encCond sp t n, ∃ nm, node = .elem ⟨sp, nm⟩ [] [] ∧ isNCName nm = true := by
  intro node hnode
  unfold encCond at hnode
  split at hnode
  · rename_i hr
    obtain ⟨nm, hnm, hnc⟩ := enum_names_ncname t h n hr.1 hr.2
    simp only [hnm, List.mem_singleton] at hnode
    exact ⟨nm, hnode, hnc⟩
  · simp at hnode

theorem roundTrips_at (t : EnumTable) (h : t.roundTrips = true) (n : Nat) (h1 : t.lo ≤ n) (h2 : n < t.hi) :
    ∃ nm, t.names[n]? = some nm ∧ decCond t nm = n ∧ nm ≠ "text" := by
  simp only [EnumTable.roundTrips, List.all_eq_true, List.mem_range] at h
  have := h n h2
  have hlt : ¬ n < t.lo := by omega
  simp only [hlt, decide_false, Bool.false_or] at this
  cases hn : t.names[n]? with
  | none => simp [hn] at this
  | some nm =>
    simp only [hn, Bool.and_eq_true, beq_iff_eq, bne_iff_ne] at this
    exact ⟨nm, rfl, this.1, this.2⟩

theorem decSaslErr_enc (t : EnumTable) (hrt : t.roundTrips = true) (e : SaslErr) :
    decSaslErr t (encSaslErr t e) = some (canonSaslErr t e) := by
  cases e with
  | mk c lang text =>
    by_cases hr : t.lo ≤ c ∧ c < t.hi
    · obtain ⟨nm, hnm, hdec, hne⟩ := roundTrips_at t hrt c hr.1 hr.2
      by_cases ht : text = "" <;> by_cases hl : lang = "" <;>
        simp [encSaslErr, decSaslErr, canonSaslErr, encCond, hr, hnm, firstNonText, hne, hdec, ht, hl, kidsNamed,
          attrOrEmpty, attrLast, Form.textOf_textKid]
    · by_cases ht : text = "" <;> by_cases hl : lang = "" <;>
        simp [encSaslErr, decSaslErr, canonSaslErr, encCond, hr, firstNonText, ht, hl, kidsNamed,
          attrOrEmpty, attrLast, Form.textOf_textKid]

/-! ### MUC join payload -/

theorem decMucJoin_enc (j : MucJoin) : decMucJoin (encMucJoin j) = some j := by
  cases j with
  | mk ms mc sec since pw =>
    have e1 : ("history" = "password") = False := by decide
    have e2 : ("password" = "history") = False := by decide
    cases ms <;> cases mc <;> cases sec <;> cases since <;> by_cases hp : pw = "" <;>
      simp [encMucJoin, decMucJoin, optAttrO, kidsNamed, leaf, textKid, attrLast, at', hp, e1, e2]

end XmppModel.Payloads
