import XmppModel.Model.JidHeap
/-! Helper lemmas for the heap model of C11. -/
namespace XmppModel.JidHeap
open XmppModel XmppModel.Jid

theorem arr_append_old (h : Heap) (x : Bytes) {a : Nat} (ha : a < h.length) :
    Heap.arr (h ++ [x]) a = Heap.arr h a := by
  unfold Heap.arr; rw [List.getElem?_append_left ha]

theorem arr_append_new (h : Heap) (x : Bytes) : Heap.arr (h ++ [x]) h.length = x := by
  unfold Heap.arr; rw [List.getElem?_concat_length]

theorem arr_set_ne (h : Heap) (x : Bytes) {a b : Nat} (hne : a ≠ b) :
    Heap.arr (h.set a x) b = Heap.arr h b := by
  unfold Heap.arr; rw [List.getElem?_set_ne hne]

theorem arr_set_self (h : Heap) (x : Bytes) {a : Nat} (ha : a < h.length) :
    Heap.arr (h.set a x) a = x := by
  unfold Heap.arr; rw [List.getElem?_set_self ha]

/-- what an operation may do to the heap: keep every existing array as it is -/
def Extends (h h' : Heap) : Prop :=
  h.length ≤ h'.length ∧ ∀ a, a < h.length → Heap.arr h' a = Heap.arr h a

theorem Extends.refl (h : Heap) : Extends h h := ⟨Nat.le_refl _, fun _ _ => rfl⟩

theorem Extends.trans {h₁ h₂ h₃ : Heap} (a : Extends h₁ h₂) (b : Extends h₂ h₃) : Extends h₁ h₃ :=
  ⟨Nat.le_trans a.1 b.1, fun x hx => by rw [b.2 x (Nat.lt_of_lt_of_le hx a.1), a.2 x hx]⟩

theorem Extends.read_eq {h h' : Heap} (e : Extends h h') {s : Slice} (hs : s.arr < h.length) :
    JidHeap.read h' s = JidHeap.read h s := by
  unfold JidHeap.read; rw [e.2 _ hs]

theorem alloc_extends (h : Heap) (init : Bytes) (spare : Nat) :
    Extends h (alloc h init spare).1 ∧ (alloc h init spare).2.arr = h.length ∧
    (alloc h init spare).1.length = h.length + 1 := by
  refine ⟨⟨by simp [alloc], fun a ha => arr_append_old h _ ha⟩, rfl, by simp [alloc]⟩

theorem read_alloc (h : Heap) (init : Bytes) (spare : Nat) :
    read (alloc h init spare).1 (alloc h init spare).2 = init := by
  simp [alloc, read, arr_append_new]

/-- `append` on a window into array `s.arr` leaves every *other* existing array alone, and
the window it returns lies in an allocated array -/
theorem appendS_others (h : Heap) (s : Slice) (xs : Bytes) (hs : s.arr < h.length) :
    h.length ≤ (appendS h s xs).1.length ∧
    (∀ a, a < h.length → a ≠ s.arr → Heap.arr (appendS h s xs).1 a = Heap.arr h a) ∧
    (appendS h s xs).2.arr < (appendS h s xs).1.length := by
  unfold appendS
  split
  · refine ⟨by simp, fun a _ hne => arr_set_ne h _ (fun e => hne e.symm), by simpa using hs⟩
  · obtain ⟨e, ha, hl⟩ := alloc_extends h (read h s ++ xs) 0
    exact ⟨e.1, fun a ha' _ => e.2 a ha', by rw [ha, hl]; exact Nat.lt_succ_self _⟩

theorem splice_read (a xs t : Bytes) (off len : Nat) (hb : off + len ≤ a.length) :
    List.take (len + xs.length) (List.drop off (a.take (off + len) ++ xs ++ t)) =
      List.take len (a.drop off) ++ xs := by
  have e : a.take (off + len) = a.take off ++ (a.drop off).take len := List.take_add
  have hP : (a.take off).length = off := by rw [List.length_take]; omega
  have hQ : ((a.drop off).take len).length = len := by
    rw [List.length_take, List.length_drop]; omega
  rw [e, List.append_assoc, List.append_assoc, List.drop_left' hP, ← List.append_assoc,
    List.take_left' (by rw [List.length_append, hQ])]

/-- what `append` returns reads as the old contents followed by the new bytes, provided the
window lies inside its array -/
theorem read_appendS (h : Heap) (s : Slice) (xs : Bytes) (hs : s.arr < h.length)
    (hb : s.off + s.len ≤ (Heap.arr h s.arr).length) :
    read (appendS h s xs).1 (appendS h s xs).2 = read h s ++ xs := by
  unfold appendS
  split
  · simp only [read]
    rw [arr_set_self h _ hs]
    exact splice_read _ _ _ _ _ hb
  · exact read_alloc h _ 0

theorem getElem?_mem' {α} {l : List α} {i : Nat} {a : α} (h : l[i]? = some a) : a ∈ l :=
  List.mem_of_getElem? h

end XmppModel.JidHeap

namespace XmppModel.JidHeap
open XmppModel XmppModel.Jid

/-- with the copy in `WithResource`, one operation keeps every existing array as it is and
returns a value that lies in an allocated array -/
theorem stepVal_extends {fl : Flags} (hf : fl.copyInWithResource = true) {st : St} (wf : st.WF)
    {op : Op} {h' : Heap} {j' : HJid} (h : stepVal fl st op = some (h', j')) :
    Extends st.heap h' ∧ j'.s.arr < h'.length := by
  have pick : ∀ {i : Nat} {f : HJid → Heap × HJid},
      (st.vals[i]?).map f = some (h', j') → ∃ j, j ∈ st.vals ∧ f j = (h', j') := by
    intro i f e
    rw [Option.map_eq_some_iff] at e
    obtain ⟨j, hj, e⟩ := e
    exact ⟨j, List.mem_of_getElem? hj, e⟩
  cases op with
  | newJ l d r spare =>
    simp only [stepVal, Option.some.injEq, Prod.mk.injEq] at h
    obtain ⟨rfl, rfl⟩ := h
    obtain ⟨e, ha, hl⟩ := alloc_extends st.heap (l ++ d ++ r) spare
    exact ⟨e, by show (alloc st.heap (l ++ d ++ r) spare).2.arr < _; rw [ha, hl]; exact Nat.lt_succ_self _⟩
  | bare i =>
    obtain ⟨j, hj, e⟩ := pick h
    simp only [Prod.mk.injEq] at e
    obtain ⟨rfl, rfl⟩ := e
    exact ⟨Extends.refl _, wf j hj⟩
  | domain i =>
    obtain ⟨j, hj, e⟩ := pick h
    simp only [Prod.mk.injEq] at e
    obtain ⟨rfl, rfl⟩ := e
    exact ⟨Extends.refl _, wf j hj⟩
  | copy i =>
    obtain ⟨j, hj, e⟩ := pick h
    simp only [Prod.mk.injEq] at e
    obtain ⟨rfl, rfl⟩ := e
    exact ⟨Extends.refl _, wf j hj⟩
  | withLocal i l spare =>
    obtain ⟨j, hj, e⟩ := pick h
    simp only [Prod.mk.injEq] at e
    obtain ⟨rfl, rfl⟩ := e
    obtain ⟨e, ha, hl⟩ := alloc_extends st.heap (l ++ (read st.heap j.s).drop j.ll) spare
    exact ⟨e, by show (alloc _ _ spare).2.arr < _; rw [ha, hl]; exact Nat.lt_succ_self _⟩
  | withDomain i d spare =>
    obtain ⟨j, hj, e⟩ := pick h
    simp only [Prod.mk.injEq] at e
    obtain ⟨rfl, rfl⟩ := e
    obtain ⟨e, ha, hl⟩ := alloc_extends st.heap
      ((read st.heap j.s).take j.ll ++ d ++ (read st.heap j.s).drop (j.ll + j.dl)) spare
    exact ⟨e, by show (alloc _ _ spare).2.arr < _; rw [ha, hl]; exact Nat.lt_succ_self _⟩
  | withResource i r spare =>
    obtain ⟨j, hj, e⟩ := pick h
    by_cases hr : r = []
    · simp only [hr, if_true, Prod.mk.injEq] at e
      obtain ⟨rfl, rfl⟩ := e
      exact ⟨Extends.refl _, wf j hj⟩
    · simp only [hr, if_false, hf, if_true, Prod.mk.injEq] at e
      obtain ⟨rfl, rfl⟩ := e
      obtain ⟨e1, ha, hl⟩ := alloc_extends st.heap (read st.heap (bareS j)) spare
      have hs1 : (alloc st.heap (read st.heap (bareS j)) spare).2.arr <
          (alloc st.heap (read st.heap (bareS j)) spare).1.length := by
        rw [ha, hl]; exact Nat.lt_succ_self _
      obtain ⟨g1, g2, g3⟩ := appendS_others _ _ r hs1
      refine ⟨⟨Nat.le_trans e1.1 g1, fun a hlt => ?_⟩, g3⟩
      rw [g2 a (Nat.lt_of_lt_of_le hlt e1.1) (by rw [ha]; exact Nat.ne_of_lt hlt), e1.2 a hlt]

theorem step_spec {fl : Flags} (hf : fl.copyInWithResource = true) {st st' : St} (wf : st.WF)
    {op : Op} (h : step fl st op = some st') :
    st'.WF ∧ (∃ j', st'.vals = st.vals ++ [j']) ∧ ∀ j ∈ st.vals, view st'.heap j = view st.heap j := by
  unfold step at h
  rw [Option.map_eq_some_iff] at h
  obtain ⟨⟨h', j'⟩, hv, rfl⟩ := h
  obtain ⟨e, hj'⟩ := stepVal_extends hf wf hv
  refine ⟨?_, ⟨j', rfl⟩, fun j hj => ?_⟩
  · intro j hj
    rcases List.mem_append.mp hj with hj | hj
    · exact Nat.lt_of_lt_of_le (wf j hj) e.1
    · rw [List.mem_singleton] at hj; subst hj; exact hj'
  · unfold view; rw [e.read_eq (wf j hj)]

end XmppModel.JidHeap
