import XmppModel.Model.StylingNest
/-!
# From LIFO steps to the mask automaton (property C17, round G)

The generic half of the bridge between the decoder's span stack and the masks a caller sees:
if every returned event *agrees* with a LIFO step of a stack of span kinds (`StepAgree`: the
start bit of kind `k` is on exactly when `k` was pushed, the end bit exactly when `k` was
popped, the span style bits are the open spans plus the one just ended, nothing stays open
after a newline), then the caller's automaton `maskStep` follows that very stack, and a run
that ends with the empty stack is accepted.  What is left for the full theorem is `StepAgree`
for the steps of `scan` through the chain of quote decoders.
-/
namespace XmppModel.Styling

def startOn (e : Event) (k : Nat) : Bool :=
  match spanBits[k]? with | some (_, sB, _) => e.style &&& sB != 0 | none => false
def endOn (e : Event) (k : Nat) : Bool :=
  match spanBits[k]? with | some (_, _, eB) => e.style &&& eB != 0 | none => false
def styleOn (e : Event) (k : Nat) : Bool :=
  match spanBits[k]? with | some (sty, _, _) => e.style &&& sty != 0 | none => false

/-- what the stack did at this event -/
inductive StackStep (st : List Nat) : List Nat → Option Nat → Option Nat → Prop
  | keep : StackStep st st none none
  | push (k : Nat) : k < 4 → StackStep st (k :: st) (some k) none
  | pop (k : Nat) (rest : List Nat) : k < 4 → st = k :: rest → StackStep st rest none (some k)

/-- the event's mask agrees with the stack step `st → st'` -/
def StepAgree (st : List Nat) (e : Event) (st' : List Nat) : Prop :=
  ∃ pushed popped, StackStep st st' pushed popped ∧
    (∀ k, k < 4 → startOn e k = decide (pushed = some k)) ∧
    (∀ k, k < 4 → endOn e k = decide (popped = some k)) ∧
    (∀ k, k < 4 → styleOn e k = (decide (k ∈ st') || endOn e k)) ∧
    (e.data.contains nl = true → st' = [])

theorem four_cases {k : Nat} (h : k < 4) : k = 0 ∨ k = 1 ∨ k = 2 ∨ k = 3 := by omega

/-- **one step**: the caller's automaton follows the stack -/
theorem maskStep_of_agree (st : List Nat) (e : Event) (st' : List Nat) (h : StepAgree st e st') :
    maskStep st e = some st' := by
  obtain ⟨pushed, popped, step, hs, he, hy, hl⟩ := h
  have s0 := hs 0 (by omega); have s1 := hs 1 (by omega); have s2 := hs 2 (by omega); have s3 := hs 3 (by omega)
  have e0 := he 0 (by omega); have e1 := he 1 (by omega); have e2 := he 2 (by omega); have e3 := he 3 (by omega)
  have y0 := hy 0 (by omega); have y1 := hy 1 (by omega); have y2 := hy 2 (by omega); have y3 := hy 3 (by omega)
  simp only [startOn, endOn, styleOn, spanBits, List.getElem?_cons_zero, List.getElem?_cons_succ] at s0 s1 s2 s3 e0 e1 e2 e3 y0 y1 y2 y3
  have hline : (e.data.contains nl && !st'.isEmpty) = false := by
    cases hc : e.data.contains nl with
    | false => simp
    | true => simp [hl hc]
  cases step with
  | keep =>
    simp at s0 s1 s2 s3 e0 e1 e2 e3
    simp [e0, e1, e2, e3] at y0 y1 y2 y3
    simp [maskStep, List.range, List.range.loop, List.foldlM, spanBits, s0, s1, s2, s3, e0, e1, e2, e3, hline]
    simp_all
  | push k hk =>
    simp at e0 e1 e2 e3
    simp [e0, e1, e2, e3] at y0 y1 y2 y3
    rcases four_cases hk with rfl | rfl | rfl | rfl <;> simp at s0 s1 s2 s3 <;>
      simp [maskStep, List.range, List.range.loop, List.foldlM, spanBits, s0, s1, s2, s3, e0, e1, e2, e3, hline] <;>
      simp_all
  | pop k rest hk hst =>
    subst hst
    simp at s0 s1 s2 s3
    rcases four_cases hk with rfl | rfl | rfl | rfl <;> simp at e0 e1 e2 e3 <;>
      simp [e0, e1, e2, e3] at y0 y1 y2 y3 <;>
      simp [maskStep, List.range, List.range.loop, List.foldlM, spanBits, s0, s1, s2, s3, e0, e1, e2, e3, hline] <;>
      simp_all

/-- a run of events whose masks agree with a chain of stack steps -/
inductive RunAgree : List Nat → List Event → List Nat → Prop
  | nil (st : List Nat) : RunAgree st [] st
  | cons {st mid fin : List Nat} {e : Event} {es : List Event} :
      StepAgree st e mid → RunAgree mid es fin → RunAgree st (e :: es) fin

/-- **whole runs**: the automaton ends with the stack the steps end with; in particular a run
from the empty stack to the empty stack is well bracketed in the caller's sense -/
theorem foldlM_maskStep_of_agree {st fin : List Nat} {es : List Event} (h : RunAgree st es fin) :
    es.foldlM maskStep st = some fin := by
  induction h with
  | nil st => rfl
  | cons hstep _ ih => simp [List.foldlM, maskStep_of_agree _ _ _ hstep, ih]

end XmppModel.Styling
