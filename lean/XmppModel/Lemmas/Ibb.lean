import XmppModel.Model.Ibb
/-! The two laws of the Lean base64 codec. -/
namespace XmppModel.Ibb
open XmppModel

theorem dec_enc_char : ∀ n, n < 64 → decChar (encChar n) = some n := by decide
theorem enc_char_ne : ∀ n, n < 64 → encChar n ≠ 61 ∧ encChar n ≠ 10 ∧ encChar n ≠ 13 := by decide

theorem toUInt8_toNat (a : UInt8) : a.toNat.toUInt8 = a := by simp

/-- decoding the encoded form gives the bytes back (group level, no CR/LF filter) -/
theorem decGroups_enc (x : Bytes) : stdDecGroups (stdEnc x) = some x := by
  fun_induction stdEnc x with
  | case1 => simp [stdDecGroups]
  | case2 a =>
    have ha := UInt8.toNat_lt a
    have h0 : a.toNat / 4 < 64 := by omega
    have h1 : a.toNat % 4 * 16 < 64 := by omega
    simp only [stdDecGroups, true_and, if_true, dec_enc_char _ h0, dec_enc_char _ h1, bind, Option.bind, pure]
    have : a.toNat / 4 * 4 + a.toNat % 4 * 16 / 16 = a.toNat := by omega
    simp only [this, toUInt8_toNat]
  | case3 a b =>
    have ha := UInt8.toNat_lt a
    have hb := UInt8.toNat_lt b
    have h0 : a.toNat / 4 < 64 := by omega
    have h1 : a.toNat % 4 * 16 + b.toNat / 16 < 64 := by omega
    have h2 : b.toNat % 16 * 4 < 64 := by omega
    have hne := (enc_char_ne _ h2).1
    simp only [stdDecGroups, true_and, if_true, hne, if_false, dec_enc_char _ h0, dec_enc_char _ h1,
      dec_enc_char _ h2, bind, Option.bind, pure]
    have e1 : a.toNat / 4 * 4 + (a.toNat % 4 * 16 + b.toNat / 16) / 16 = a.toNat := by omega
    have e2 : (a.toNat % 4 * 16 + b.toNat / 16) % 16 * 16 + b.toNat % 16 * 4 / 4 = b.toNat := by omega
    simp only [e1, e2, toUInt8_toNat]
  | case4 a b c rest ih =>
    have ha := UInt8.toNat_lt a
    have hb := UInt8.toNat_lt b
    have hc := UInt8.toNat_lt c
    have h0 : a.toNat / 4 < 64 := by omega
    have h1 : a.toNat % 4 * 16 + b.toNat / 16 < 64 := by omega
    have h2 : b.toNat % 16 * 4 + c.toNat / 64 < 64 := by omega
    have h3 : c.toNat % 64 < 64 := by omega
    have hne := (enc_char_ne _ h3).1
    simp only [stdDecGroups, hne, and_false, if_false, dec_enc_char _ h0, dec_enc_char _ h1,
      dec_enc_char _ h2, dec_enc_char _ h3, ih, bind, Option.bind, pure]
    have e1 : a.toNat / 4 * 4 + (a.toNat % 4 * 16 + b.toNat / 16) / 16 = a.toNat := by omega
    have e2 : (a.toNat % 4 * 16 + b.toNat / 16) % 16 * 16 + (b.toNat % 16 * 4 + c.toNat / 64) / 4 = b.toNat := by omega
    have e3 : (b.toNat % 16 * 4 + c.toNat / 64) % 4 * 64 + c.toNat % 64 = c.toNat := by omega
    simp only [e1, e2, e3, toUInt8_toNat]

/-- the encoded form contains neither CR nor LF -/
theorem enc_no_crlf (x : Bytes) : ∀ c ∈ stdEnc x, c ≠ 10 ∧ c ≠ 13 := by
  fun_induction stdEnc x with
  | case1 => simp
  | case2 a =>
    have ha := UInt8.toNat_lt a
    have h0 := enc_char_ne (a.toNat / 4) (by omega)
    have h1 := enc_char_ne (a.toNat % 4 * 16) (by omega)
    intro c hc
    simp only [List.mem_cons, List.not_mem_nil, or_false] at hc
    rcases hc with rfl | rfl | rfl | rfl
    · exact h0.2
    · exact h1.2
    · decide
    · decide
  | case3 a b =>
    have ha := UInt8.toNat_lt a
    have hb := UInt8.toNat_lt b
    have h0 := enc_char_ne (a.toNat / 4) (by omega)
    have h1 := enc_char_ne (a.toNat % 4 * 16 + b.toNat / 16) (by omega)
    have h2 := enc_char_ne (b.toNat % 16 * 4) (by omega)
    intro c hc
    simp only [List.mem_cons, List.not_mem_nil, or_false] at hc
    rcases hc with rfl | rfl | rfl | rfl
    · exact h0.2
    · exact h1.2
    · exact h2.2
    · decide
  | case4 a b c rest ih =>
    have ha := UInt8.toNat_lt a
    have hb := UInt8.toNat_lt b
    have hc := UInt8.toNat_lt c
    have h0 := enc_char_ne (a.toNat / 4) (by omega)
    have h1 := enc_char_ne (a.toNat % 4 * 16 + b.toNat / 16) (by omega)
    have h2 := enc_char_ne (b.toNat % 16 * 4 + c.toNat / 64) (by omega)
    have h3 := enc_char_ne (c.toNat % 64) (by omega)
    intro d hd
    simp only [List.mem_cons] at hd
    rcases hd with rfl | rfl | rfl | rfl | hd
    · exact h0.2
    · exact h1.2
    · exact h2.2
    · exact h3.2
    · exact ih d hd

/-- LAW 1: `decode (encode x) = x` for every byte string -/
theorem std_dec_enc (x : Bytes) : std.dec (std.enc x) = some x := by
  show stdDec (stdEnc x) = some x
  unfold stdDec
  have : (stdEnc x).filter (fun c => c ≠ 10 ∧ c ≠ 13) = stdEnc x := by
    apply List.filter_eq_self.mpr
    intro c hc
    have := enc_no_crlf x c hc
    simp [this.1, this.2]
  rw [this]
  exact decGroups_enc x

/-- LAW 2: encoding distributes over concatenation at multiples of three bytes -/
theorem std_enc_append (x y : Bytes) (h : 3 ∣ x.length) : std.enc (x ++ y) = std.enc x ++ std.enc y := by
  show stdEnc (x ++ y) = stdEnc x ++ stdEnc y
  fun_induction stdEnc x with
  | case1 => simp [stdEnc]
  | case2 a => simp at h
  | case3 a b => simp at h
  | case4 a b c rest ih =>
    have : 3 ∣ rest.length := by
      simp only [List.length_cons] at h; omega
    simp only [List.cons_append, stdEnc, ih this]

end XmppModel.Ibb
