import XmppModel.Lemmas.Negotiate
/-!
Invariants about the ready bit, stream restarts and refusals of the negotiation machine.
-/
namespace XmppModel.Negotiate

/-! ### invariant C: where the ready bit comes from -/

/-- some feature's `Negotiate` succeeded with the ready bit in its mask -/
def FeatReady (tr : List Ev) : Prop :=
  ∃ f st rq fo sv r, Ev.neg f st rq fo sv r ∈ tr ∧ r.err = false ∧ has r.mask bReady = true

/-- decidable form of `FeatReady` -/
def featReadyB (tr : List Ev) : Bool :=
  tr.any fun e => match e with
    | .neg _ _ _ _ _ r => !r.err && has r.mask bReady
    | _ => false

theorem featReady_iff (tr : List Ev) : FeatReady tr ↔ featReadyB tr = true := by
  unfold FeatReady featReadyB
  rw [List.any_eq_true]
  constructor
  · rintro ⟨f, st, rq, fo, sv, r, hm, h1, h2⟩
    exact ⟨_, hm, by simp [h1, h2]⟩
  · rintro ⟨e, hm, he⟩
    cases e <;> simp at he
    rename_i f st rq fo sv r
    exact ⟨f, st, rq, fo, sv, r, hm, he.1, he.2⟩

theorem featReady_cons {tr : List Ev} (e : Ev) (h : FeatReady tr) : FeatReady (e :: tr) := by
  obtain ⟨f, st, rq, fo, sv, r, hm, h1, h2⟩ := h
  exact ⟨f, st, rq, fo, sv, r, List.mem_cons_of_mem _ hm, h1, h2⟩

structure InvC (st0 : St) (c : Conf) : Prop where
  /-- outside the loop head of `negotiateSession` the ready bit is never set by the library
  itself -/
  prov : has c.st bReady = true → has st0 bReady = true ∨ FeatReady c.tr ∨ c.pc = .top ∨ c.pc = .done
  /-- success is only reported with the ready bit -/
  doneReady : c.pc = .done → has c.st bReady = true

set_option maxRecDepth 4096 in
theorem invC_step (C : List Feature) (O : Oracle) (st0 : St) (c : Conf) (h : InvC st0 c) :
    InvC st0 (step C O c) := by
  obtain ⟨hp, hd⟩ := h
  step_all
  all_goals (constructor <;> (try dsimp only))
  all_goals first
    | exact hp
    | exact hd
    | (intro h; cases h; done)
    | (intro _; assumption)
    | (intro _; right; right; left; rfl)
    | (intro _; right; right; right; rfl)
    | (intro h
       have hh := hp h
       rcases hh with h1 | h1 | h1 | h1
       · exact Or.inl h1
       · first
         | exact Or.inr (Or.inl h1)
         | exact Or.inr (Or.inl (featReady_cons _ h1))
       · first | (simp only [h1, reduceCtorEq] at *; done) | simp_all
       · first | (simp only [h1, reduceCtorEq] at *; done) | simp_all)
    | (intro h
       have hh := has_ready_or _ _ h
       rcases hh with h1 | h1
       · rcases hp h1 with h2 | h2 | h2 | h2
         · exact Or.inl h2
         · exact Or.inr (Or.inl (featReady_cons _ h2))
         · simp_all
         · simp_all
       · refine Or.inr (Or.inl ⟨_, _, _, _, _, _, List.mem_cons_self, ?_, h1⟩)
         simp_all)
    | skip

/-! ### invariant E: a restart is followed by a stream header -/

def IoOp.isHdr : IoOp → Bool
  | .hdrOut | .hdrIn => true
  | _ => false

/-- a stream header is written or read (or the attempt blocks) -/
def Ev.isHdr : Ev → Bool
  | .hdrOut _ => true
  | .rd .hdr _ => true
  | .blocked op => op.isHdr
  | _ => false

/-- a `Negotiate` that succeeded and returned a new connection layer -/
def Ev.isRestart : Ev → Bool
  | .neg _ _ _ _ _ r => r.restart && !r.err
  | _ => false

/-- (trace newest first) the event after a restart is a header event -/
def RestartOK : List Ev → Prop
  | [] => True
  | [_] => True
  | e :: e' :: rest => (e'.isRestart = true → e.isHdr = true) ∧ RestartOK (e' :: rest)

/-- control points at which a restart may be pending: the next event, if any, is a header -/
def pendR (c : Conf) : Bool :=
  match c.pc with
  | .tail _ r => r
  | .ret _ r => r
  | .top | .hdr1 => c.doRestart
  | .done | .fail _ | .crash | .stuck => true
  | _ => false

def headRestart : List Ev → Bool
  | e :: _ => e.isRestart
  | [] => false

structure InvE (c : Conf) : Prop where
  ok : RestartOK c.tr
  pend : headRestart c.tr = true → pendR c = true
  top : (c.pc = .top ∨ c.pc = .done) → headRestart c.tr = true → c.doRestart = true

theorem restartOK_cons {e : Ev} {tr : List Ev} (h : RestartOK tr)
    (hh : headRestart tr = true → e.isHdr = true) : RestartOK (e :: tr) := by
  cases tr with
  | nil => exact True.intro
  | cons e' rest => exact ⟨hh, h⟩

set_option maxRecDepth 4096 in
theorem invE_step (C : List Feature) (O : Oracle) (c : Conf) (h : InvE c) : InvE (step C O c) := by
  obtain ⟨ho, hp, ht⟩ := h
  step_all
  all_goals (constructor <;> (try dsimp only))
  all_goals first
    | exact ho
    | exact hp
    | exact ht
    | (intro h; rcases h with h | h <;> cases h; done)
    | (intro _ h; have hh := hp h; unfold pendR at hh; rw [‹c.pc = _›] at hh; cases hh; done)
    | (intro h; have hh := hp h; unfold pendR at hh; rw [‹c.pc = _›] at hh; cases hh; done)
    | (intro _ h; have hh := hp h; simp_all [pendR]; done)
    | (intro h; have hh := hp h; simp_all [pendR]; done)
    | (refine restartOK_cons ho ?_; intro h; have hh := hp h; unfold pendR at hh; rw [‹c.pc = _›] at hh; cases hh; done)
    | (refine restartOK_cons ho ?_; intro h; have hh := hp h; simp_all [pendR, Ev.isHdr, IoOp.isHdr]; done)
    | (intro h; simp_all [headRestart, Ev.isRestart, pendR]; done)
    | skip

/-! ### invariant C2: the library adds the ready bit only to a result without restart -/

structure InvC2 (st0 : St) (c : Conf) : Prop where
  tail : ∀ m r, c.pc = .tail m r → has m bReady = true → FeatReady c.tr
  ret : ∀ m r, c.pc = .ret m r → has m bReady = true → FeatReady c.tr ∨ r = false
  top : (c.pc = .top ∨ c.pc = .done) → has c.st bReady = true →
    has st0 bReady = true ∨ FeatReady c.tr ∨ c.doRestart = false

theorem invC2_step (C : List Feature) (O : Oracle) (st0 : St) (c : Conf) (hc : InvC st0 c)
    (h : InvC2 st0 c) : InvC2 st0 (step C O c) := by
  obtain ⟨h1, h2, h3⟩ := h
  have hp := hc.prov
  step_all
  all_goals (constructor <;> (try dsimp only))
  all_goals first
    | exact h1
    | exact h2
    | exact h3
    | (intro _ _ h; cases h; done)
    | (intro h; rcases h with h | h <;> cases h; done)
    | (intro h hr; exact h3 (by simp_all) hr)
    | (intro m r hm hr; cases hm
       exact ⟨_, _, _, _, _, _, List.mem_cons_self, by simp_all, hr⟩)
    | (intro m r hm hr; cases hm; right; rfl)
    | (intro m r hm hr; cases hm; right; simp_all; done)
    | (intro m r hm hr; cases hm; left; exact h1 _ _ ‹c.pc = _› hr)
    | (intro _ hr
       have hh := has_ready_or _ _ hr
       rcases hh with hh | hh
       · have h4 := hp hh
         rcases h4 with h4 | h4 | h4 | h4
         · exact Or.inl h4
         · exact Or.inr (Or.inl h4)
         · simp_all
         · simp_all
       · have h5 := h2 _ _ ‹c.pc = _› hh
         rcases h5 with h5 | h5
         · exact Or.inr (Or.inl h5)
         · exact Or.inr (Or.inr h5))
    | skip

/-! ### invariant G: a refusal ends the negotiation -/

structure InvG (c : Conf) : Prop where
  refused : ∀ n, Ev.refuse n ∈ c.tr → c.pc = .fail .policy ∧ ∃ rest, c.tr = .refuse n :: rest ∧
    ∀ m, Ev.refuse m ∉ rest

theorem invG_step (C : List Feature) (O : Oracle) (c : Conf) (h : InvG c) : InvG (step C O c) := by
  obtain ⟨hr⟩ := h
  have hno : (∀ e, c.pc ≠ .fail e) → ∀ m, Ev.refuse m ∉ c.tr := by
    intro hne m hm
    exact hne _ (hr m hm).1
  step_all
  all_goals (constructor <;> (try dsimp only))
  all_goals first
    | exact hr
    | (intro n hn
       simp only [List.mem_cons] at hn
       rcases hn with hn | hn
       · first
         | (cases hn; done)
         | (cases hn; exact ⟨rfl, _, rfl, hno (by simp_all)⟩)
       · exact absurd hn (hno (by simp_all) n))
    | (intro n hn; exact absurd hn (hno (by simp_all) n))
    | skip

end XmppModel.Negotiate
