import XmppModel.Model.IbbSend
import XmppModel.Lemmas.Ibb
/-! The packetiser preserves the byte stream: chunks ++ encoder rest ++ bufio buffer = written. -/
namespace XmppModel.Ibb
open XmppModel

theorem interior_concat : ∀ (f : Nat) (p : Bytes), (interior f p).1.flatten ++ (interior f p).2 = p := by
  intro f
  induction f with
  | zero => intro p; simp [interior]
  | succ f ih =>
    intro p
    simp only [interior]
    split
    · simp only [List.flatten_cons, List.append_assoc, ih, List.take_append_drop]
    · simp

theorem encWrite_concat (e p : Bytes) : (encWrite e p).1.flatten ++ (encWrite e p).2 = e ++ p := by
  unfold encWrite
  split
  · rename_i h; subst h; simp [interior_concat]
  · simp only []
    split
    · rename_i h
      have hk : p.length ≤ min (3 - e.length) p.length := by
        simp only [List.length_append, List.length_take] at h; omega
      simp [List.take_of_length_le hk]
    · simp only [List.flatten_cons, List.append_assoc, interior_concat, List.take_append_drop]

/-- everything accepted so far, in order: what is on the wire, then the two buffers -/
def pending (s : SState) : Bytes := s.chunks.flatten ++ s.ebuf ++ s.wbuf

theorem down_spec (s : SState) (p : Bytes) :
    (down s p).chunks.flatten ++ (down s p).ebuf = s.chunks.flatten ++ s.ebuf ++ p ∧
    (down s p).wbuf = s.wbuf ∧ (down s p).bs = s.bs ∧ (down s p).closed = s.closed := by
  refine ⟨?_, rfl, rfl, rfl⟩
  simp only [down, List.flatten_append, List.append_assoc]
  rw [encWrite_concat]

theorem bufFlush_spec (s : SState) :
    pending (bufFlush s) = pending s ∧ (bufFlush s).wbuf = [] ∧ (bufFlush s).bs = s.bs ∧
    (bufFlush s).closed = s.closed := by
  unfold bufFlush
  split
  · rename_i h; exact ⟨rfl, h, rfl, rfl⟩
  · have := down_spec s s.wbuf
    refine ⟨?_, rfl, this.2.2.1, this.2.2.2⟩
    simp only [pending, List.append_nil]
    exact this.1

theorem bufWrite_spec (s : SState) (p : Bytes) :
    pending (bufWrite s p) = pending s ++ p ∧ (bufWrite s p).closed = s.closed ∧ (bufWrite s p).bs = s.bs := by
  unfold bufWrite
  simp only []
  split
  · exact ⟨by simp [pending], rfl, rfl⟩
  · split
    · rename_i hw
      have := down_spec s p
      refine ⟨?_, this.2.2.2, this.2.2.1⟩
      simp only [pending, this.2.1, hw, List.append_nil]
      rw [this.1]
    · have hf := bufFlush_spec { s with wbuf := s.wbuf ++ List.take (s.bs - s.wbuf.length) p }
      have hp : pending { s with wbuf := s.wbuf ++ List.take (s.bs - s.wbuf.length) p } =
          pending s ++ List.take (s.bs - s.wbuf.length) p := by simp [pending]
      split
      · refine ⟨?_, hf.2.2.2, hf.2.2.1⟩
        have h1 := hf.1
        simp only [pending, hf.2.1, List.append_nil] at h1
        simp only [pending]
        rw [h1]
        simp [List.append_assoc]
      · have hd := down_spec (bufFlush { s with wbuf := s.wbuf ++ List.take (s.bs - s.wbuf.length) p })
          (List.drop (s.bs - s.wbuf.length) p)
        refine ⟨?_, by rw [hd.2.2.2, hf.2.2.2], by rw [hd.2.2.1, hf.2.2.1]⟩
        have h1 := hf.1
        simp only [pending, hf.2.1, List.append_nil] at h1
        simp only [pending, hd.2.1, hf.2.1, List.append_nil]
        rw [hd.1, h1]
        simp [List.append_assoc]

/-- invariant: a closed sender holds nothing back -/
def Drained (s : SState) : Prop := s.closed = true → s.ebuf = [] ∧ s.wbuf = []

theorem sstep_spec (s : SState) (op : SOp) (hd : Drained s) :
    pending (sstep s op) = pending s ++ writtenOf s.closed [op] ∧ Drained (sstep s op) ∧
    (s.closed = true → (sstep s op).closed = true) ∧ (op = .close → (sstep s op).closed = true) := by
  cases hc : s.closed
  · cases op with
    | write b =>
      have := bufWrite_spec s b
      simp only [sstep, hc, Bool.false_eq_true, if_false, writtenOf, List.append_nil]
      refine ⟨this.1, ?_, by simp, by simp⟩
      intro h; rw [this.2.1, hc] at h; exact absurd h (by simp)
    | flush =>
      have := bufFlush_spec s
      simp only [sstep, hc, Bool.false_eq_true, if_false, writtenOf, List.append_nil]
      refine ⟨this.1, ?_, by simp, by simp⟩
      intro h; rw [this.2.2.2, hc] at h; exact absurd h (by simp)
    | close =>
      have hf := bufFlush_spec s
      simp only [sstep, hc, Bool.false_eq_true, if_false, writtenOf, List.append_nil]
      have h1 := hf.1
      refine ⟨?_, ?_, by simp, ?_⟩
      · rw [← h1]
        split <;> simp [pending, hf.2.1]
      · intro _
        split <;> simp_all
      · intro _; trivial
  · have := hd hc
    cases op <;> simp [sstep, hc, writtenOf, Drained, this]

theorem writtenOf_true (ops : List SOp) : writtenOf true ops = [] := by
  cases ops <;> rfl

theorem srun_spec : ∀ (ops : List SOp) (s : SState), Drained s →
    pending (srun s ops) = pending s ++ writtenOf s.closed ops ∧ Drained (srun s ops) ∧
    ((s.closed = true ∨ SOp.close ∈ ops) → (srun s ops).closed = true) := by
  intro ops
  induction ops with
  | nil =>
    intro s hd
    refine ⟨?_, hd, ?_⟩
    · cases s.closed <;> simp [srun, writtenOf]
    · intro h; rcases h with h | h
      · exact h
      · simp at h
  | cons op ops ih =>
    intro s hd
    have h1 := sstep_spec s op hd
    have h2 := ih (sstep s op) h1.2.1
    simp only [srun, List.foldl_cons] at *
    refine ⟨?_, h2.2.1, ?_⟩
    · rw [h2.1, h1.1]
      cases hc : s.closed
      · cases op with
        | write b => simp [writtenOf, sstep, hc, (bufWrite_spec s b).2.1]
        | flush => simp [writtenOf, sstep, hc, (bufFlush_spec s).2.2.2]
        | close =>
          have := h1.2.2.2 rfl
          simp [writtenOf, this, writtenOf_true]
      · have := h1.2.2.1 hc
        simp [writtenOf, this, writtenOf_true]
    · intro h
      apply h2.2.2
      rcases h with h | h
      · exact Or.inl (h1.2.2.1 h)
      · simp only [List.mem_cons] at h
        rcases h with h | h
        · exact Or.inl (h1.2.2.2 h.symm)
        · exact Or.inr h

/-! packets -/
theorem seqsFrom_mk : ∀ (cs : List Bytes) (n : Nat), seqsFrom n (mkPackets n cs) = true := by
  intro cs
  induction cs with
  | nil => intro n; rfl
  | cons c cs ih => intro n; simp [mkPackets, seqsFrom, ih]

theorem decodeAll_mk : ∀ (cs : List Bytes) (n : Nat), decodeAll std (mkPackets n cs) = some cs.flatten := by
  intro cs
  induction cs with
  | nil => intro n; rfl
  | cons c cs ih =>
    intro n
    have := std_dec_enc c
    have ih' := ih (n + 1)
    simp only [std] at this ih'
    simp [mkPackets, decodeAll, ih', std, this]

end XmppModel.Ibb
