import XmppModel.Model.Reencode
namespace XmppModel.Reencode
open XmppModel XmppModel.Xml

theorem any_eq_mem (ns : List Name) (n : Name) : (ns.any fun m => decide (m = n)) = true ↔ n ∈ ns := by
  simp [List.any_eq_true]

theorem distinct_cons (n : Name) (ns : List Name) :
    distinct (n :: ns) = true ↔ n ∉ ns ∧ distinct ns = true := by
  have e : (ns.any fun m => decide (m = n)) = false ↔ n ∉ ns := by
    simp only [List.any_eq_false, decide_eq_true_eq]
    exact ⟨fun h hm => h n hm rfl, fun h x hx e => h (e ▸ hx)⟩
  simp only [distinct, Bool.and_eq_true, Bool.not_eq_true', e]

theorem mem_names_filter {p : Attr → Bool} {as : List Attr} {n : Name}
    (h : n ∈ attrNames (as.filter p)) : n ∈ attrNames as := by
  simp only [attrNames, List.mem_map, List.mem_filter] at h ⊢
  obtain ⟨a, ⟨ha, _⟩, rfl⟩ := h
  exact ⟨a, ha, rfl⟩

theorem distinct_filter (p : Attr → Bool) (as : List Attr) (h : distinct (attrNames as) = true) :
    distinct (attrNames (as.filter p)) = true := by
  induction as with
  | nil => rfl
  | cons a as ih =>
    simp only [attrNames, List.map_cons] at h
    rw [distinct_cons] at h
    by_cases hp : p a = true
    · simp only [List.filter_cons, hp, if_true, attrNames, List.map_cons]
      rw [distinct_cons]
      exact ⟨fun hm => h.1 (mem_names_filter hm), ih h.2⟩
    · simp only [List.filter_cons, hp]
      exact ih h.2

theorem xmlns_not_in_stripped (as : List Attr) :
    xmlnsName ∉ attrNames (as.filter (fun a => !isDecl a)) := by
  simp only [attrNames, List.mem_map, List.mem_filter, not_exists, not_and]
  intro a ⟨_, hd⟩ hn
  simp [isDecl, hn] at hd

theorem balanced_map_of_shape (f : Tok → Tok)
    (hs : ∀ n as, ∃ as', f (.start n as) = .start n as') (hk : ∀ n, f (.stop n) = .stop n)
    (hc : ∀ t, f (.chars t) = .chars t) (hm : ∀ t, f (.comment t) = .comment t)
    (hp : ∀ t i, f (.procInst t i) = .procInst t i) (hd : ∀ t, f (.directive t) = .directive t)
    (ts : List Tok) (d : Nat) : depthAfter d (ts.map f) = depthAfter d ts := by
  induction ts generalizing d with
  | nil => rfl
  | cons t ts ih =>
    cases t with
    | start n as => obtain ⟨as', h⟩ := hs n as; simp [List.map_cons, h, depthAfter, ih]
    | stop n => cases d <;> simp [List.map_cons, hk, depthAfter, ih]
    | chars t => simp [List.map_cons, hc, depthAfter, ih]
    | comment t => simp [List.map_cons, hm, depthAfter, ih]
    | procInst t i => simp [List.map_cons, hp, depthAfter, ih]
    | directive t => simp [List.map_cons, hd, depthAfter, ih]

end XmppModel.Reencode
