import XmppModel.Prelude.Hex
/-!
# Model of `jid/escape.go` (XEP-0106 JID escaping) — property C16

Two layers.

* **Specification level**: `escape`, `unescape : Bytes → Bytes` — what a whole-string
  application of `jid.Escape` / `jid.Unescape` computes.
* **Call level**: `escStep`, `unescStep` model one call of the two `Transform` methods
  (`dst` capacity, `src`, `atEOF`) ↦ (`out`, `nSrc`, `err`); `escSpan`, `unescSpan` model
  the two `Span` methods.  The Go code copies runs of ordinary bytes with `copy`; the model
  moves one byte per recursion step, which is the same function (a short destination
  truncates the run at the same place).  That equality is what the correspondence check
  tests on every `(capacity, src, atEOF)` triple it generates.

`drive` is the generic loop of `golang.org/x/text/transform` (`String`, `Bytes`, `Reader`,
`Writer`, `Chain` all have this shape): bytes are fed to a source buffer in arbitrary
pieces, the transformer is called with arbitrary destination capacities, consumed bytes are
dropped from the buffer and produced bytes appended to the output.
-/
namespace XmppModel.Escape

/-- The escape set of XEP-0106, as a Lean constant (the regenerated copy read from the
source lives in `Generated/C16.lean`; `Props/C16.lean` proves them equal). -/
def escSet : List UInt8 := [0x20, 0x22, 0x26, 0x27, 0x2f, 0x3a, 0x3c, 0x3e, 0x40, 0x5c]

def bslash : UInt8 := 0x5c

/-- lower-case hex digit of a nibble, as `"0123456789abcdef"[n]` -/
def hexdig (n : UInt8) : UInt8 := if n < 10 then 0x30 + n else 0x57 + n

def escByte (c : UInt8) : Bytes :=
  if c ∈ escSet then [bslash, hexdig (c >>> 4), hexdig (c &&& 15)] else [c]

/-- `jid.Escape` on a whole string. -/
def escape (s : Bytes) : Bytes := s.flatMap escByte

def ishex (c : UInt8) : Bool :=
  (0x30 ≤ c && c ≤ 0x39) || (0x61 ≤ c && c ≤ 0x66) || (0x41 ≤ c && c ≤ 0x46)

def unhex (c : UInt8) : UInt8 :=
  if 0x30 ≤ c && c ≤ 0x39 then c - 0x30
  else if 0x61 ≤ c && c ≤ 0x66 then c - 0x61 + 10
  else if 0x41 ≤ c && c ≤ 0x46 then c - 0x41 + 10
  else 0

/-- transcription of `shouldUnescape(s[0], s[1])` -/
def shouldUnescape (a b : UInt8) : Bool :=
  (a == 0x32 && (b == 0x30 || b == 0x32 || b == 0x36 || b == 0x37 || b == 0x66 || b == 0x46)) ||
  (a == 0x33 && (b == 0x61 || b == 0x41 || b == 0x63 || b == 0x43 || b == 0x65 || b == 0x45)) ||
  (a == 0x34 && b == 0x30) ||
  (a == 0x35 && (b == 0x63 || b == 0x43))

def unhex2 (a b : UInt8) : UInt8 := (unhex a <<< 4) ||| unhex b

/-- `jid.Unescape` on a whole string: scan left to right; a backslash followed by one of
the ten defined codes becomes the byte it stands for, everything else is copied. -/
def unescape : Bytes → Bytes
  | [] => []
  | [c] => [c]
  | [c, a] => c :: unescape [a]
  | c :: a :: b :: r =>
    if c = bslash ∧ shouldUnescape a b = true then unhex2 a b :: unescape r
    else c :: unescape (a :: b :: r)

inductive Err | nil | shortDst | shortSrc | endOfSpan
  deriving DecidableEq, Repr

def Err.toString : Err → String
  | .nil => "nil" | .shortDst => "shortdst" | .shortSrc => "shortsrc" | .endOfSpan => "endofspan"

structure StepOut where
  out : Bytes
  nSrc : Nat
  err : Err
  deriving DecidableEq, Repr

def StepOut.push (pre : Bytes) (k : Nat) (r : StepOut) : StepOut :=
  { out := pre ++ r.out, nSrc := k + r.nSrc, err := r.err }

/-- One call `escapeMapping.Transform(dst[:cap], src, atEOF)` (atEOF is irrelevant). -/
def escStep (cap : Nat) : Bytes → StepOut
  | [] => ⟨[], 0, .nil⟩
  | c :: rest =>
    if c ∈ escSet then
      if cap < 3 then ⟨[], 0, .shortDst⟩
      else (escStep (cap - 3) rest).push (escByte c) 1
    else
      if cap < 1 then ⟨[], 0, .shortDst⟩
      else (escStep (cap - 1) rest).push [c] 1

/-- One call `unescapeMapping.Transform(dst[:cap], src, atEOF)`. -/
def unescStep (cap : Nat) (atEOF : Bool) : Bytes → StepOut
  | [] => ⟨[], 0, .nil⟩
  | [c] =>
    if c = bslash ∧ atEOF = false then ⟨[], 0, .shortSrc⟩
    else if cap < 1 then ⟨[], 0, .shortDst⟩
    else ⟨[c], 1, .nil⟩
  | [c, a] =>
    if c = bslash ∧ atEOF = false ∧ ishex a = true then ⟨[], 0, .shortSrc⟩
    else if cap < 1 then ⟨[], 0, .shortDst⟩
    else (unescStep (cap - 1) atEOF [a]).push [c] 1
  | c :: a :: b :: r =>
    if c = bslash ∧ shouldUnescape a b = true then
      if cap < 1 then ⟨[], 0, .shortDst⟩
      else (unescStep (cap - 1) atEOF r).push [unhex2 a b] 3
    else if cap < 1 then ⟨[], 0, .shortDst⟩
    else (unescStep (cap - 1) atEOF (a :: b :: r)).push [c] 1

def spanCons (r : Nat × Err) : Nat × Err := (r.1 + 1, r.2)

/-- `escapeMapping.Span`: length of the longest prefix without an escapable byte. -/
def escSpan : Bytes → Nat × Err
  | [] => (0, .nil)
  | c :: rest =>
    if c ∈ escSet then (0, .endOfSpan)
    else spanCons (escSpan rest)

/-- `unescapeMapping.Span`. -/
def unescSpan (atEOF : Bool) : Bytes → Nat × Err
  | [] => (0, .nil)
  | [c] => if c = bslash ∧ atEOF = false then (0, .shortSrc) else (1, .nil)
  | [c, a] =>
    if c = bslash ∧ atEOF = false ∧ ishex a = true then (0, .shortSrc)
    else spanCons (unescSpan atEOF [a])
  | c :: a :: b :: r =>
    if c = bslash ∧ shouldUnescape a b = true then (0, .endOfSpan)
    else spanCons (unescSpan atEOF (a :: b :: r))

/-! ## The generic transform loop -/

/-- What the surrounding loop may do between calls. -/
inductive Act
  | feed (k : Nat)    -- move `k` more bytes from the not-yet-read input into the buffer
  | call (cap : Nat)  -- call `Transform` with a destination of capacity `cap`
  deriving Repr

structure Drv where
  pending : Bytes   -- input not yet handed to the transformer
  buf : Bytes       -- source buffer
  out : Bytes       -- everything produced so far
  deriving Repr

abbrev Step := (cap : Nat) → (atEOF : Bool) → Bytes → StepOut

def Drv.act (step : Step) (d : Drv) : Act → Drv
  | .feed k => { d with buf := d.buf ++ d.pending.take k, pending := d.pending.drop k }
  | .call cap =>
    let r := step cap d.pending.isEmpty d.buf
    { d with buf := d.buf.drop r.nSrc, out := d.out ++ r.out }

def drive (step : Step) (s : Bytes) (sched : List Act) : Drv :=
  sched.foldl (Drv.act step) ⟨s, [], []⟩

end XmppModel.Escape
