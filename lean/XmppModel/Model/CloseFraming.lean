import XmppModel.Model.Close
/-!
# The framing of the stream — property C10, round E

`internal/stream/stream.go` (an anchor of C10) knows two framings of an XMPP stream: the TCP
one (`<stream:stream …>` … `</stream:stream>`) and the WebSocket subprotocol of RFC 7395
(`<open …/>` … `<close xmlns="urn:ietf:params:xml:ns:xmpp-framing"/>`).  Three functions decide
what "the closing stream tag" is and when the peer "closes its stream":

* `intstream.Send` writes the header and records in the output `stream.Info` which framing it
  used (`records`; before the repair it recorded nothing and the name stayed the zero name);
* `intstream.Close` — called by `closeSession` — chooses the closing element by a switch on the
  recorded name;
* `intstream.Reader.Token` — behind every read of `Serve` — at depth 0 turns the peer's closing
  element into `io.EOF`: the end tag of `stream:stream` always, the `<close/>` element of the
  framing namespace only when the session is marked as a WebSocket session (`marked`; before the
  repair the negotiator never marked it).

`Hist` is framing-agnostic (its wire item `close` is "the closing element of this stream"); this
module says which concrete element that is, and which concrete peer event is a `peerClose`.
-/
namespace XmppModel.Close.Framing

inductive Fr | tcp | ws
  deriving DecidableEq, Repr

/-- the name space of `stream.Info.Name` of the OUTPUT stream -/
inductive NameNs | zero | streamNs | framingNs
  deriving DecidableEq, Repr

/-- `intstream.Send`: the name recorded for the header it wrote -/
def sendName (records : Bool) (f : Fr) : NameNs :=
  if records then (match f with | .tcp => .streamNs | .ws => .framingNs) else .zero

/-- `intstream.Close`: `switch streamData.Name.Space { case wsNamespace: … default: … }` -/
def closeElem : NameNs → Fr
  | .framingNs => .ws
  | _ => .tcp

/-- what the session's reader makes of the closing element of framing `g` sent by the peer -/
inductive PeerEnd
  /-- `io.EOF`: the peer closed its stream -/
  | eof
  /-- an element of a foreign name space at depth 0: handed to the handler like a stanza -/
  | stanza
  /-- an end tag without a start tag: XML syntax error -/
  | syntaxErr
  deriving DecidableEq, Repr

/-- `intstream.Reader.Token` at depth 0 for a session of framing `f` -/
def peerEnd (marked : Bool) (f g : Fr) : PeerEnd :=
  match f, g with
  | .tcp, .tcp => .eof
  | .tcp, .ws => .stanza
  | .ws, .ws => if marked then .eof else .stanza
  | .ws, .tcp => .syntaxErr

inductive Op
  /-- an operation of the framing-agnostic history machine (`peerClose` there = the closing
  element of the session's own framing) -/
  | base (o : Hist.Op)
  /-- the peer sends the closing element of framing `g` -/
  | peerEnds (g : Fr)
  deriving DecidableEq, Repr

/-- the event of the history machine an operation is, for a session of framing `f` -/
def tr (marked : Bool) (f : Fr) : Op → Hist.Op
  | .base o => o
  | .peerEnds g =>
    match peerEnd marked f g with
    | .eof => .peerClose
    | .stanza => .peerStanza
    | .syntaxErr => .peerGarbage

def run (marked : Bool) (f : Fr) (s : Hist.St) (ops : List Op) : Hist.St × List Hist.Res :=
  Hist.run s (ops.map (tr marked f))

/-- what the connection sees -/
inductive Tag | el | close (g : Fr)
  deriving DecidableEq, Repr

/-- the bytes `closeSession` writes for the item `close` -/
def render (records : Bool) (f : Fr) : Hist.Item → Tag
  | .el => .el
  | .close => .close (closeElem (sendName records f))

def wire (records : Bool) (f : Fr) (s : Hist.St) : List Tag := s.wire.map (render records f)

def Tag.isClose : Tag → Bool
  | .close _ => true
  | .el => false

/-- closing elements of EITHER framing on the wire -/
def closeCount (w : List Tag) : Nat := (w.filter Tag.isClose).length

def countOf (g : Fr) (w : List Tag) : Nat := (w.filter (· == .close g)).length

/-! the table `harness facts` obtains from real sessions (`xmpp.NewNegotiator` /
`websocket.Negotiator`, initiating and receiving role), computed from the model; the model does
not depend on the role -/
def retName : Hist.Ret → String
  | .running => "running" | .notStarted => "notstarted" | .nil_ => "nil" | .handlerErr => "handlererr"
  | .streamErr => "streamerr" | .peerStreamErr => "peerstreamerr" | .garbage => "garbage"
  | .deadline => "deadline" | .closedOut => "closedout" | .unexpectedEof => "unexpectedeof"

def probeWays : List (String × List Op) :=
  [("Close", [.base .close]),
   ("Close+Close", [.base .close, .base .close]),
   ("Serve+peerEnds(tcp)", [.peerEnds .tcp]),
   ("Serve+peerEnds(ws)", [.peerEnds .ws]),
   ("Serve+peerEnds(ws)+Close", [.peerEnds .ws, .base .close]),
   ("Serve+peerEnds(tcp)+Close", [.peerEnds .tcp, .base .close]),
   ("Serve+handlerErr", [.base .handlerErr]),
   ("Close+Serve+peerEnds(own)", [])]

def b01 (b : Bool) : String := if b then "1" else "0"

def cell (records marked : Bool) (f : Fr) (ops : List Op) : String :=
  let s := (run marked f (Hist.init true) ops).1
  let w := wire records f s
  s!"tcp={countOf .tcp w} ws={countOf .ws w} serve={retName s.serve} closed={b01 s.outClosed}{b01 s.inClosed}"

def probeTable (records marked : Bool) : List (String × List (String × String)) :=
  [("tcp/init", Fr.tcp), ("tcp/recv", .tcp), ("ws/init", .ws), ("ws/recv", .ws)].map fun r =>
    (r.1, probeWays.map fun w =>
      (w.1, cell records marked r.2 (if w.1 == "Close+Serve+peerEnds(own)" then [.base .close, .peerEnds r.2] else w.2)))

end XmppModel.Close.Framing
