import XmppModel.Prelude.Xml
/-!
# C19 — stream decoders: `forward.Unwrap` / `carbons.Unwrap` at token level

`forward.Unwrap` does not return a Go value but a *token reader* (`forwardUnwrapper`): the
children of `<forwarded/>` with the first top-level `{urn:xmpp:delay}delay` taken out
(decoded into the caller's delay, or skipped when the caller passes nil).  "Unmarshalling
returns a value or an error" means for such a decoder: either some call reports an error,
or the tokens handed out are a well-formed forest.

The model works on the token list an `encoding/xml` decoder produces for the document (the
tokeniser is trusted): comments, processing instructions, text between the children and
input that ends early are all part of the domain.  `delay.Delay.UnmarshalXML`'s verdict on
one element is modelled (`delayDecodes`) with the two external parsers (XEP-0082 time,
JID) as the sets of attribute values they refuse.
-/
namespace XmppModel.Unwrap
open XmppModel XmppModel.Xml

def nsDelay := "urn:xmpp:delay"
def nsForward := "urn:xmpp:forward:0"
def nsCarbons := "urn:xmpp:carbons:2"
def delayName : Name := ⟨nsDelay, "delay"⟩
def forwardedName : Name := ⟨nsForward, "forwarded"⟩

/-- Read to the end tag of an element whose start tag has been consumed, `d` elements being
open inside it (`xml.Decoder.Skip`, `xmlstream.Skip`, `xmlstream.Inner`, the reading done by
`DecodeElement`): the tokens before that end tag and the tokens after it.  `none`: the
input ends first — the decoder underneath reports the missing end tag as an error. -/
def skipElem : Nat → List Tok → Option (List Tok × List Tok)
  | _, [] => none
  | d, .start n as :: ts => (skipElem (d + 1) ts).map fun r => (.start n as :: r.1, r.2)
  | 0, .stop _ :: ts => some ([], ts)
  | d + 1, .stop n :: ts => (skipElem d ts).map fun r => (.stop n :: r.1, r.2)
  | d, t :: ts => (skipElem d ts).map fun r => (t :: r.1, r.2)

/-- `xmlstream.Inner`: the content of the element whose start tag has been consumed -/
def inner (ts : List Tok) : Option (List Tok) := (skipElem 0 ts).map (·.1)

/-- what the two attribute parsers refuse (observed from the real `xtime` / `jid` parsers for
every attribute value of the case) -/
structure Parsers where
  badStamp : List String
  badFrom : List String

/-- the attribute loop of `delay.Delay.UnmarshalXML`: attributes in a foreign namespace are
ignored, `stamp` and `from` are parsed, the first failure is the result, and the loop stops
once both have been seen -/
def attrsOk (p : Parsers) : List Attr → Bool → Bool → Bool
  | [], _, _ => true
  | a :: as, fs, ff =>
    if a.name.space ≠ "" ∧ a.name.space ≠ nsDelay then attrsOk p as fs ff
    else if a.name.loc = "stamp" then
      if p.badStamp.contains a.value then false
      else if ff then true else attrsOk p as true ff
    else if a.name.loc = "from" then
      if p.badFrom.contains a.value then false
      else if fs then true else attrsOk p as fs true
    else if fs ∧ ff then true else attrsOk p as fs ff

/-- the content loop: the first token is the reason (character data), the end of the element,
or something that is skipped; a child *element* in first position is skipped alone, the
element's own end tag stays unread and `DecodeElement` refuses that -/
def bodyOk : List Tok → Bool
  | .start .. :: _ => false
  | _ => true

/-- does `DecodeElement(&delay, &start)` succeed on this element -/
def delayDecodes (p : Parsers) (as : List Attr) (body : List Tok) : Bool :=
  attrsOk p as false false && bodyOk body

/-- the reason `UnmarshalXML` stores -/
def reasonOf : List Tok → String
  | .chars s :: _ => s
  | _ => ""

/-- the result of a successful unwrap: the reason found in the caller's (initially zero) delay
and the tokens handed out -/
structure Out where
  reason : String
  toks : List Tok
  deriving DecidableEq, Repr

def Out.push (t : Tok) (o : Out) : Out := { o with toks := t :: o.toks }

/-- `forwardUnwrapper.Token` run to the end of the input.  `lvl` is `currentLevel` before the
token is read.  Until the first top-level delay every token is handed out; that delay is
consumed whole (decoded when `del`, skipped otherwise; a decoding error is the result);
everything after it up to the end of `<forwarded/>` is handed out unchanged.  `none` = an
error is reported by some `Token` call. -/
def filter (p : Parsers) (del : Bool) : Nat → List Tok → Option Out
  | _, [] => none
  | lvl, .start n as :: ts =>
    if lvl = 0 ∧ n = delayName then
      match skipElem 0 ts with
      | none => none
      | some (body, rest) =>
        if del && !delayDecodes p as body then none
        else (inner rest).map fun out => ⟨if del then reasonOf body else "", out⟩
    else (filter p del (lvl + 1) ts).map (Out.push (.start n as))
  | 0, .stop _ :: _ => some ⟨"", []⟩
  | lvl + 1, .stop n :: ts => (filter p del lvl ts).map (Out.push (.stop n))
  | lvl, t :: ts => (filter p del lvl ts).map (Out.push t)

/-- `forward.Unwrap` followed by reading the returned stream to its end -/
def unwrapForward (p : Parsers) (del : Bool) : List Tok → Option Out
  | .start n _ :: ts => if n = forwardedName then filter p del 0 ts else none
  | _ => none

/-- `carbons.Unwrap`: `<sent/>` or `<received/>`, then `forward.Unwrap` on its content (the next
token must be the `<forwarded/>` start tag) -/
def unwrapCarbon (p : Parsers) (del : Bool) : List Tok → Option (Bool × Out)
  | .start n _ :: ts =>
    if (n.loc = "sent" ∨ n.loc = "received") ∧ n.space = nsCarbons then
      (unwrapForward p del ts).map fun o => (n.loc = "sent", o)
    else none
  | _ => none

/-! ### inserting transformers (`carbons.Private`, `receipts.Request`, `styling.Disable`)

`xmlstream.InsertFunc` hands every token through and lets a callback write extra tokens right
after a start tag.  The model is parametric in what is inserted where. -/

/-- hand every token through, inserting `ins lvl name` after each start tag (`lvl` = depth of
the start tag, 1 for a top-level element) -/
def insertAfter (ins : Nat → Name → List Tok) : Nat → List Tok → List Tok
  | _, [] => []
  | d, .start n as :: ts => .start n as :: (ins (d + 1) n ++ insertAfter ins (d + 1) ts)
  | d, .stop n :: ts => .stop n :: insertAfter ins (d - 1) ts
  | d, t :: ts => t :: insertAfter ins d ts

/-- `xmlstream.Insert`: hand every token through, inserting `ins name` before each end tag (at
any depth) -/
def insertBeforeEnd (ins : Name → List Tok) : List Tok → List Tok
  | [] => []
  | .stop n :: ts => ins n ++ .stop n :: insertBeforeEnd ins ts
  | t :: ts => t :: insertBeforeEnd ins ts

/-! ### `receipts.Request` (round E): a stateful inserter

Hands every token through and writes `<request xmlns='urn:xmpp:receipts'/>` before the end tag
of every message, unless the message has `type='error'` (first attribute with the local name
`type`) or an element `{urn:xmpp:receipts}receipt` was seen since the message's start tag
(the flag is also set by such an element outside any message and reset by every message end). -/

def nsReceipts : String := "urn:xmpp:receipts"

def isMessage (n : Name) : Bool :=
  n.loc = "message" && (n.space = "jabber:client" || n.space = "jabber:server")

def requestEl : List Tok := [.start ⟨nsReceipts, "request"⟩ [], .stop ⟨nsReceipts, "request"⟩]

def request : Bool → List Tok → List Tok
  | _, [] => []
  | nw, .start n as :: ts =>
    let nw' :=
      if n.loc = "receipt" && n.space = nsReceipts then true
      else if isMessage n then
        match as.find? (·.name.loc = "type") with
        | some a => decide (a.value = "error")
        | none => false
      else nw
    .start n as :: request nw' ts
  | nw, .stop n :: ts =>
    if isMessage n then
      (if nw then [] else requestEl) ++ .stop n :: request false ts
    else .stop n :: request nw ts
  | nw, t :: ts => t :: request nw ts

/-! ### `delay.Insert` / `delay.Stanza` (round F): instances of `insertAfter`

`xmlstream.InsertFunc`: the tokens of the delay are written after the start tag of every
top-level element (`Insert`) / of every top-level stanza of the given namespace, any
namespace when it is empty (`Stanza`). -/

def isStanza (n : Name) (ns : String) : Bool :=
  (n.loc = "iq" || n.loc = "message" || n.loc = "presence") && (ns = "" || n.space = ns)

def delayInsert (ins : List Tok) (ts : List Tok) : List Tok :=
  insertAfter (fun lvl _ => if lvl = 1 then ins else []) 0 ts

def delayStanza (ins : List Tok) (ns : String) (ts : List Tok) : List Tok :=
  insertAfter (fun lvl n => if lvl = 1 && isStanza n ns then ins else []) 0 ts

end XmppModel.Unwrap
