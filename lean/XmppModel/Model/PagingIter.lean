import XmppModel.Model.Payloads
/-!
# C19 — `paging.Iter` (`paging/rsm.go`): iterating over a paged response (round E)

`paging.NewIter` / `WrapIter` iterate over the children of a response element.  Every child is
handed to the caller (`Current`) except top-level `{http://jabber.org/protocol/rsm}set` elements:
those are decoded into the current page (`CurrentPage`), reset and recompute the requests for the
next / previous page (`NextPage`: after the last id if there is one, `PreviousPage`: before the
first id if there is one, both with the iterator's `max`) and are skipped.  A `set` that does not
decode stops the iteration with an error.

Children are trees as the decoder sees them; `Set` decoding is `Payloads.decRSet` (tied by the
`dec rset` lines) plus the number syntax of `index` / `count` (`strconv.ParseUint`, here: a
non-empty string of digits — the harness generates no other spelling of a number).
-/
namespace XmppModel.PagingIter
open XmppModel XmppModel.Xml XmppModel.Payload XmppModel.Payloads

def isSet : Node → Bool
  | .elem n _ _ => decide (n = ⟨nsRSM, "set"⟩)
  | .text _ => false

def digits (s : String) : Bool := decide (s ≠ "") && s.toList.all Char.isDigit

def numOk : Option String → Bool
  | none => true
  | some s => digits s

/-- `Decode(i.curSet)` -/
def decodeSet (k : Node) : Option RSet :=
  match decRSet k with
  | some s => if numOk s.index && numOk s.count then some s else none
  | none => none

structure State where
  /-- the children handed to the caller so far, in order -/
  items : List Node
  cur : Option RSet
  /-- `NextPage().After`, `PreviousPage().Before` -/
  next : Option String
  prev : Option String
  deriving Repr

def init : State := ⟨[], none, none, none⟩

def pageOf (s : RSet) (items : List Node) : State :=
  ⟨items, some s, if s.last = "" then none else some s.last, if s.first = "" then none else some s.first⟩

/-- the loop `for iter.Next() { … iter.Current() … }` run to the end; `none` = `Err() ≠ nil` -/
def run : List Node → State → Option State
  | [], st => some st
  | k :: ks, st =>
    if isSet k then
      match decodeSet k with
      | some s => run ks (pageOf s st.items)
      | none => none
    else run ks { st with items := st.items ++ [k] }

/-- the last top-level page description of a response -/
def lastSet (kids : List Node) : Option Node := (kids.filter isSet).getLast?

end XmppModel.PagingIter
