/-!
# The IQ helpers that own the response they wait for (C06)

`session_iq.go`: `unmarshalIQ` (behind `UnmarshalIQ`, `UnmarshalIQElement`) and `iterIQ` (behind
`IterIQ`, `IterIQElement`) call `SendIQ`, look at the reply and either return an error — then
the caller has nothing it could close, so the helper must have closed the response — or (the
iterator helpers) hand the response on inside an iterator that the caller closes.  Exactly one
of the two on every path: an unclosed response blocks the serve loop for good.

The reply is classified by what the helpers look at: its type, whether its `from` / `to`
attributes parse as JIDs (`stanza.NewIQ` fails otherwise) and the form of its content.
-/
namespace XmppModel.CorrWrap

inductive Api | unmarshal | unmarshalNil | unmarshalElement | iter | iterElement
  | ibbOpen | ibbOpenMsg   -- round E: `ibb.open` behind `Handler.Open` / `OpenIQ` (packets acknowledged / carried by messages)
  deriving DecidableEq, Repr, Inhabited

inductive Typ | result | error
  deriving DecidableEq, Repr, Inhabited

inductive Addr | absent | valid | invalid
  deriving DecidableEq, Repr, Inhabited

/-- content of the reply: nothing, one (empty) child, a child with children, character data in
front of the child, a child whose content cannot be read to its end, white space only -/
inductive Payload | none | one | nested | text | bad | space
  deriving DecidableEq, Repr, Inhabited

structure Shape where
  typ : Typ
  from_ : Addr
  to : Addr
  payload : Payload
  deriving DecidableEq, Repr, Inhabited

/-- who is responsible for the response once the helper has returned -/
structure Out where
  err : Bool            -- the call returned an error
  handed : Bool         -- the caller was given an iterator over the response (it closes it)
  helperCloses : Nat    -- how often the helper itself closed the response
  deriving DecidableEq, Repr, Inhabited

/-- `stanza.NewIQ` on the start element of the reply -/
def newIQFails (sh : Shape) : Bool := sh.from_ == .invalid || sh.to == .invalid

/-- `unmarshalIQ`: the response is closed by a deferred call on every path -/
def unmarshalIQ (vNil : Bool) (sh : Shape) : Out :=
  if newIQFails sh then ⟨true, false, 1⟩
  else if sh.typ == .error then ⟨true, false, 1⟩          -- the stanza error (or the failure to decode one)
  else if vNil then ⟨false, false, 1⟩
  else ⟨sh.payload == .bad, false, 1⟩                     -- decoding the first child

/-- `iterIQ`: a deferred closure closes the response iff the function returns an error -/
def iterIQ (sh : Shape) : Out :=
  if newIQFails sh then ⟨true, false, 1⟩
  else if sh.typ == .error then ⟨true, false, 1⟩
  else ⟨false, true, 0⟩   -- the first token of the content is popped; an early end is not an error

/-- `ibb.open` (`ibb/ibb.go`): `SendIQ`, a deferred `resp.Close()` on every path behind it, the start
token of the reply, `stanza.UnmarshalIQError`; the content of a result is never read, the stream is
registered only when the peer accepted.  The response is never handed on. -/
def ibbOpen (sh : Shape) : Out :=
  if newIQFails sh then ⟨true, false, 1⟩
  else if sh.typ == .error then ⟨true, false, 1⟩
  else ⟨false, false, 1⟩

def call : Api → Shape → Out
  | .unmarshal, sh | .unmarshalElement, sh => unmarshalIQ false sh
  | .unmarshalNil, sh => unmarshalIQ true sh
  | .iter, sh | .iterElement, sh => iterIQ sh
  | .ibbOpen, sh | .ibbOpenMsg, sh => ibbOpen sh

/-- can the serve loop read the rest of the element once the response is closed? -/
def serveSurvives (sh : Shape) : Bool := sh.payload != .bad

end XmppModel.CorrWrap
