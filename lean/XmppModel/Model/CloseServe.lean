/-!
# `Serve` as a thread — property C10, round E

The models of `Model/Close.lean` have `Serve` only as events of a sequential history (`Hist`) or
as the shutdown half of `RdLts`.  This labelled transition system has `Serve` itself as a thread
with explicit control points, next to the application's goroutines and the peer:

* **`Serve`** (`session.go` `Serve`, `handleInputStream`, `sendError`, `closeInputStream`, `Close`):
  `top` (look at the input context) → `wantIn` (`TokenReader()`: take the input lock) → `reading`
  (blocked in `Token()` holding the input lock) → on a stanza `handling` (the handler runs, still
  holding the input lock; a handler that replies goes through `wantOut` → `replying`: the *handler
  writer* takes the output lock while the input lock is held) → back to `top`; on the peer's
  closing element / an error / the deadline the shutdown: (`errOut` → `errClosing`: `sendError`
  under the output lock) → `shutIn` → `shutState` (`closeInputStream`: input lock, then the state
  mutex, set the bit) → `shutOut` → `closing` (`Close`: output lock, `closeSession`) → `returned`.
* **the application**: any number of goroutines, each holding at most one of the two locks at a
  time and never waiting while it holds one: a `TokenReader` held (`appAcquireIn` … `appReleaseIn`),
  a `TokenWriter` / transmit call / `Close` (`appAcquireOut`, then `appWrite` / `appCloseSession`
  under the lock, `appReleaseOut`).  Since such goroutines are interchangeable the holder of a lock
  is recorded as `app`, not by name.  `allowNest = true` additionally admits the ill-behaved
  goroutine that holds a `TokenWriter` and asks for a `TokenReader` before giving it back
  (`appNest`, `appNestAcquire`).
* **the peer and the clock**: `deliver x` puts the next unit of input on the connection (a
  stanza the handler answers or not, the closing element, something that makes `Serve` fail),
  `expire` lets the close deadline pass (the context is done and the blocked read is interrupted).
-/
namespace XmppModel.Close.SrvLts

inductive Holder | free | serve | app
  deriving DecidableEq, Repr

inductive Input
  | stanza (reply : Bool)
  | close
  | bad
  deriving DecidableEq, Repr

inductive Ret | nil_ | err | deadline
  deriving DecidableEq, Repr

inductive SPc
  | notStarted
  | top | wantIn | reading
  | handling | wantOut | replying
  | errOut (r : Ret) | errClosing (r : Ret)
  | shutIn (r : Ret) | shutState (r : Ret) | shutOut (r : Ret) | closing (r : Ret)
  | returned (r : Ret)
  deriving DecidableEq, Repr

inductive Item | el | close
  deriving DecidableEq, Repr

structure St where
  spc : SPc
  inLock : Holder
  outLock : Holder
  /-- the application goroutine that holds the output lock waits for the input lock -/
  outPinned : Bool
  pending : Option Input
  /-- white space (a keep-alive) precedes whatever comes next: the decoder holds it back until
  the next `<`; an interrupted read then yields it as a token and `Serve` notices the deadline at
  the top of its loop instead of through a read error -/
  kept : Bool
  expired : Bool
  inClosed : Bool
  outClosed : Bool
  wire : List Item
  deriving DecidableEq, Repr

def init : St := ⟨.notStarted, .free, .free, false, none, false, false, false, false, []⟩

/-- `closeSession` (caller holds the output lock) -/
def closeSession (s : St) : St :=
  if s.outClosed then s else { s with outClosed := true, wire := s.wire ++ [.close] }

/-- the next step of the `Serve` goroutine; `none`: blocked (on a lock, on the peer) or finished -/
def serveStep (s : St) : Option St :=
  match s.spc with
  | .notStarted => none
  | .top => if s.expired then some { s with spc := .shutIn .deadline } else some { s with spc := .wantIn }
  | .wantIn => if s.inLock = .free then some { s with inLock := .serve, spc := .reading } else none
  | .reading =>
    -- `lockReadCloser.Token`: the closed bit, then the decoder
    if s.expired then
      -- the read is interrupted.  With a keep-alive held back by the decoder it returns that white
      -- space: `handleInputStream` returns nil and `Serve` finds the context done at the top of
      -- its loop (no `sendError`); otherwise the read error goes to `sendError`
      (if s.kept then some { s with inLock := .free, kept := false, spc := .shutIn .deadline }
       else some { s with inLock := .free, spc := .errOut .deadline })
    else if s.kept then
      -- the white space comes first, as a token of its own, when the next unit of input starts:
      -- `handleInputStream` returns nil and `Serve` passes the top of its loop (where it looks at
      -- the deadline) before it reads that unit
      (match s.pending with
       | none => none
       | some _ => some { s with kept := false, inLock := .free, spc := .top })
    else
    match s.pending with
    | none => none
    | some (.stanza false) => some { s with pending := none, spc := .handling }
    | some (.stanza true) => some { s with pending := none, spc := .wantOut }
    | some .close => some { s with pending := none, inLock := .free, spc := .shutIn .nil_ }
    | some .bad => some { s with pending := none, inLock := .free, spc := .errOut .err }
  | .handling => some { s with inLock := .free, spc := .top }
  | .wantOut => if s.outLock = .free then some { s with outLock := .serve, spc := .replying } else none
  | .replying =>
    -- the handler's writer tests the closed bit per token; a failed reply is the handler's error
    if s.outClosed then some { s with outLock := .free, inLock := .free, spc := .errOut .err }
    else some { s with outLock := .free, wire := s.wire ++ [.el], spc := .handling }
  | .errOut r => if s.outLock = .free then some { s with outLock := .serve, spc := .errClosing r } else none
  | .errClosing r => some { closeSession s with outLock := .free, spc := .shutIn r }
  | .shutIn r => if s.inLock = .free then some { s with inLock := .serve, spc := .shutState r } else none
  | .shutState r => some { s with inClosed := true, inLock := .free, spc := .shutOut r }
  | .shutOut r => if s.outLock = .free then some { s with outLock := .serve, spc := .closing r } else none
  | .closing r => some { closeSession s with outLock := .free, spc := .returned r }
  | .returned _ => none

inductive Act
  | serve
  | start
  | appAcquireIn | appReleaseIn
  | appAcquireOut | appWrite | appCloseSession | appReleaseOut
  | appNest | appNestAcquire
  | deliver (x : Input)
  /-- the peer sends white space while `Serve` is inside its read -/
  | keepalive
  | expire
  deriving DecidableEq, Repr

def step (allowNest : Bool) (s : St) : Act → Option St
  | .serve => serveStep s
  | .start => if s.spc = .notStarted then some { s with spc := .top } else none
  | .appAcquireIn => if s.inLock = .free then some { s with inLock := .app } else none
  | .appReleaseIn => if s.inLock = .app then some { s with inLock := .free } else none
  | .appAcquireOut => if s.outLock = .free then some { s with outLock := .app } else none
  | .appWrite =>
    -- a write through the held writer / a transmit call: the closed bit is tested under the lock
    if s.outLock = .app then some (if s.outClosed then s else { s with wire := s.wire ++ [.el] }) else none
  | .appCloseSession => if s.outLock = .app then some (closeSession s) else none
  | .appReleaseOut => if s.outLock = .app && !s.outPinned then some { s with outLock := .free } else none
  | .appNest => if allowNest && s.outLock = .app && !s.outPinned then some { s with outPinned := true } else none
  | .appNestAcquire =>
    if s.outPinned && s.inLock = .free then some { s with inLock := .app, outPinned := false } else none
  | .deliver x => if s.pending = none then some { s with pending := some x } else none
  | .keepalive => if s.spc = .reading then some { s with kept := true } else none
  | .expire => some { s with expired := true }

def run (allowNest : Bool) (s : St) : List Act → St
  | [] => s
  | a :: as =>
    match step allowNest s a with
    | some s' => run allowNest s' as
    | none => run allowNest s as

/-- `n` steps of `Serve` alone -/
def serveRun : Nat → St → St
  | 0, s => s
  | n + 1, s =>
    match serveStep s with
    | some s' => serveRun n s'
    | none => s

def holdsIn : SPc → Bool
  | .reading | .handling | .wantOut | .replying | .shutState _ => true
  | _ => false

def holdsOut : SPc → Bool
  | .replying | .errClosing _ | .closing _ => true
  | _ => false

def closeCount (w : List Item) : Nat := (w.filter (· == .close)).length

/-- the peer's closing element has been delivered (it is the pending input, or `Serve` is already
in its shutdown) -/
def inShutdown : SPc → Bool
  | .errOut _ | .errClosing _ | .shutIn _ | .shutState _ | .shutOut _ | .closing _ | .returned _ => true
  | _ => false

/-- distance of `Serve` from `returned` once the closing element is there and the locks are free -/
def rank : SPc → Nat
  | .returned _ => 0
  | .closing _ => 1
  | .shutOut _ => 2
  | .shutState _ => 3
  | .shutIn _ => 4
  | .errClosing _ => 5
  | .errOut _ => 6
  | .reading => 7
  | .wantIn => 8
  | .top => 9
  | .handling => 10
  | .replying => 11
  | .wantOut => 12
  | .notStarted => 13

/-- `rank`, counting the detour over the top of the loop that white space held back by the
decoder costs -/
def rankS (s : St) : Nat := rank s.spc + (if s.kept then 3 else 0)

structure Inv (s : St) : Prop where
  inServe : s.inLock = .serve ↔ holdsIn s.spc = true
  outServe : s.outLock = .serve ↔ holdsOut s.spc = true
  pinned : s.outPinned = true → s.outLock = .app
  open_ : s.outClosed = false → closeCount s.wire = 0
  shut : s.outClosed = true → ∃ pre, s.wire = pre ++ [.close] ∧ closeCount pre = 0
  ret : ∀ r, s.spc = .returned r → s.inClosed = true ∧ s.outClosed = true
  shutBit : ∀ r, (s.spc = .shutOut r ∨ s.spc = .closing r) → s.inClosed = true
  inBit : s.inClosed = true → (∃ r, s.spc = .shutOut r ∨ s.spc = .closing r ∨ s.spc = .returned r)

end XmppModel.Close.SrvLts
