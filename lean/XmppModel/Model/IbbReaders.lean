/-!
# Any number of concurrent `Read` calls on one `ibb.Conn` (C15, C06)

`readReady` is a channel of capacity one, so `closeRead` can leave ONE signal for any number of
readers parked in `Read`.  The repaired `Read` therefore passes the signal on: a reader that is
woken and finds the stream closed re-posts the signal before it returns.  Readers are numbered;
each has its own program counter:

    idle → checked → waiting → woken → idle | checked
      readStart  enterWait  wake     recheck

`readStart` / `recheck` run under `readLock` (one atomic step each): data → take it and return;
closed → (recheck only: re-post the signal) return end-of-file; else go (back) to wait.
`repost = false` is the variant without the re-post (seeded change C06-11), kept for the
negation witness.
-/
namespace XmppModel.IbbReaders

inductive RPc
  | idle | checked | waiting | woken
  deriving DecidableEq, Repr, Inhabited

structure St where
  buf : Nat := 0
  tok : Bool := false
  closed : Bool := false
  rpc : Nat → RPc := fun _ => .idle
  delivered : Nat := 0      -- bytes handed to readers
  eofs : Nat := 0           -- Read calls that returned end-of-file

def upd (f : Nat → RPc) (i : Nat) (v : RPc) : Nat → RPc := fun j => if j = i then v else f j

inductive Act
  | readStart (i : Nat) | enterWait (i : Nat) | wake (i : Nat) | recheck (i : Nat)
  | packet (n : Nat) | close
  deriving DecidableEq, Repr

def step (repost : Bool) (s : St) : Act → Option St
  | .readStart i => match s.rpc i with
    | .idle =>
      if s.buf > 0 then some { s with delivered := s.delivered + s.buf, buf := 0 }
      else if s.closed then some { s with eofs := s.eofs + 1 }
      else some { s with rpc := upd s.rpc i .checked }
    | _ => none
  | .enterWait i => match s.rpc i with
    | .checked => some { s with rpc := upd s.rpc i .waiting }
    | _ => none
  | .wake i => match s.rpc i with
    | .waiting => if s.tok then some { s with tok := false, rpc := upd s.rpc i .woken } else none
    | _ => none
  | .recheck i => match s.rpc i with
    | .woken =>
      if s.closed then
        -- pass the signal on, then read: data if any, else end-of-file
        let s1 := { s with tok := s.tok || repost, rpc := upd s.rpc i .idle }
        if s.buf > 0 then some { s1 with delivered := s.delivered + s.buf, buf := 0 }
        else some { s1 with eofs := s.eofs + 1 }
      else if s.buf > 0 then some { s with rpc := upd s.rpc i .idle, delivered := s.delivered + s.buf, buf := 0 }
      else some { s with rpc := upd s.rpc i .checked }
    | _ => none
  | .packet n => if s.closed then none else some { s with buf := s.buf + n, tok := true }
  | .close => some { s with closed := true, tok := true }

inductive Reach (repost : Bool) : St → Prop
  | init : Reach repost {}
  | step {s s' a} : Reach repost s → step repost s a = some s' → Reach repost s'

def run (repost : Bool) : St → List Act → Option St
  | s, [] => some s
  | s, a :: as => match step repost s a with
    | some s' => run repost s' as
    | none => none

theorem reach_run {repost s} (h : Reach repost s) : ∀ {as s'}, run repost s as = some s' → Reach repost s' := by
  intro as
  induction as generalizing s with
  | nil => intro s' hr; simp [run] at hr; subst hr; exact h
  | cons a as ih =>
    intro s' hr
    simp only [run] at hr
    split at hr
    · rename_i s1 hs1; exact ih (Reach.step h hs1) hr
    · simp at hr

/-- how far a reader is from returning once the stream is closed -/
def weight : RPc → Nat
  | .idle => 0 | .woken => 1 | .waiting => 2 | .checked => 3

def measure (s : St) : Nat → Nat
  | 0 => 0
  | n + 1 => weight (s.rpc n) + measure s n

def isReaderAct : Act → Bool
  | .packet _ | .close => false
  | _ => true

end XmppModel.IbbReaders
