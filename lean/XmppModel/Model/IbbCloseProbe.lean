import XmppModel.Model.Ibb
import XmppModel.Model.IbbClose
/-!
# What a close looks like from outside (C15, round E)

The observable outcome of `Conn.Close` with a fault at one of its steps, and of a close request of
the peer, computed from the close programs of `Model/IbbClose.lean`: what the call returns (what
the peer is answered), what a `Read` then does and how a late data packet is answered.  The
harness observes the same three things on the real code — as differential `close <fault>` lines of
every run and as the probe table `closeProbe` of `harness facts` — so the model's programs are tied
to behaviour at every fault position, not only to the shape of the source.
-/
namespace XmppModel.IbbClose
open XmppModel XmppModel.Ibb

/-- what a reader and a late data packet see once the routine has returned -/
def afterClose (r : CState) : String × String :=
  let rx : RState := if r.rxClosed then Ibb.close ⟨true, 0, [], 0⟩ else ⟨true, 0, [], 0⟩
  (match readOut rx 8 with | .eof => "EOF" | .blocks => "BLOCK" | .data _ => "DATA",
   showReply (recv std rx ⟨true, 0, []⟩).2)

/-- (ret, read, data) after `Close` with the given fault (`none`, `flush` a data stanza is refused,
`send` the connection is broken, `reply` the peer answers the close request with an error,
`deadline` it never answers and the write deadline passes): `ok|err`, `EOF|BLOCK`, `inf|ack|skip` -/
def closeOutcome (fault : String) : Option (String × String × String) :=
  let p := closeProgram
  let fk : Option (Option Nat) :=
    if fault = "none" ∨ fault = "reply" then some none
    else if fault = "flush" then some (indexOf p .flush)
    else if fault = "send" ∨ fault = "deadline" then some (indexOf p .sendCloseIQ)
    else none
  fk.map fun k =>
    let r := run k p
    (if r.failed then "err" else "ok", (afterClose r).1, if fault = "send" then "skip" else (afterClose r).2)

/-- the same for a close request of the peer (`closeNoNotify`): `idle` nothing buffered, `unflushed`
written bytes not yet flushed, `failedwrite` the flush of the close path is refused.  The peer is
always answered with a result (an error of the flush concerns this stream only). -/
def peerCloseOutcome (variant : String) : Option (String × String × String) :=
  let p := closeNoNotifyProgram
  let fk : Option (Option Nat) :=
    if variant = "idle" ∨ variant = "unflushed" then some none
    else if variant = "failedwrite" then some (indexOf p .flush)
    else none
  fk.map fun k => ("ack", (afterClose (run k p)).1, (afterClose (run k p)).2)

/-- the probe table the model predicts, scenarios in the order of `harness/c15/facts.go` -/
def closeTable : List (String × Option (String × String × String)) :=
  [("none", closeOutcome "none"), ("flush", closeOutcome "flush"), ("send", closeOutcome "send"),
   ("reply", closeOutcome "reply"), ("deadline", closeOutcome "deadline"),
   ("peer:idle", peerCloseOutcome "idle"), ("peer:unflushed", peerCloseOutcome "unflushed"),
   ("peer:failedwrite", peerCloseOutcome "failedwrite")]

end XmppModel.IbbClose
