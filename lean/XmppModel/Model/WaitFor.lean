/-!
# Who waits for whom: a pending request, the serve goroutine and the handlers' locks (C09)

A local call (`ibb.Conn.Write` in acknowledged mode, any `UnmarshalIQ`-based helper) sends a
request and waits for the peer's answer.  The answer can only reach it through the serve
goroutine: `Serve` reads one stanza after the other; an answer is handed to the waiting call,
any other stanza is given to a handler that runs *on the serve goroutine* and takes the
mutexes `acq` of its package one after the other before it returns.  While it waits the call
keeps the mutexes `held`.

The state below is what matters for progress: is the call still waiting, what is the serve
goroutine doing (`todo = none`: at its loop head; `some l`: inside a handler that still has to
take the locks `l`), and what the peer has sent but Serve has not read yet.  `step` is the
only enabled transition (the waiting call itself can do nothing; the peer's stanzas are already
in `inbox`); `none` = nothing can move any more.  That is fine when the input has been read to
its end (Serve returns) and a wedge otherwise.

`held` and `acq` are regenerated from the Go source per handler package
(`Generated.C09.waitLocks`, harness/c09/waitfacts.go).
-/
namespace XmppModel.WaitFor

/-- what the peer sends: a stanza for a handler, or the answer the local call waits for -/
inductive Msg
  | stanza | reply
  deriving DecidableEq, Repr

structure St (α : Type) where
  /-- the local call has sent its request and waits, holding `held` -/
  awaiting : Bool
  /-- `none`: Serve is at its loop head; `some l`: a handler runs and still has to take `l` -/
  todo : Option (List α)
  /-- sent by the peer, not read yet -/
  inbox : List Msg
  deriving Repr

variable {α : Type} [DecidableEq α]

/-- the handler cannot take `l` now: the waiting call has it -/
def blocked (held : List α) (st : St α) (l : α) : Bool := st.awaiting && held.contains l

/-- the one enabled transition of the serve goroutine, if any -/
def step (held acq : List α) (st : St α) : Option (St α) :=
  match st.todo with
  | some [] => some { st with todo := none }                       -- the handler returns
  | some (l :: ls) => if blocked held st l then none else some { st with todo := some ls }
  | none =>
    match st.inbox with
    | [] => none                                                    -- end of input: Serve returns
    | .stanza :: r => some { st with todo := some acq, inbox := r } -- a handler starts
    | .reply :: r => some { st with awaiting := false, inbox := r } -- the answer is delivered

/-- run until nothing moves (or the fuel ends) -/
def run (held acq : List α) : Nat → St α → St α
  | 0, st => st
  | n + 1, st =>
    match step held acq st with
    | none => st
    | some st' => run held acq n st'

/-- Serve has read its input to the end and is at its loop head: it returns -/
def finished (st : St α) : Bool := st.todo.isNone && st.inbox.isEmpty

/-- nothing can move although Serve has not finished: the session is wedged -/
def wedged (held acq : List α) (st : St α) : Bool := (step held acq st).isNone && !finished st

/-- the two regenerated sets have nothing in common -/
def disjoint (held acq : List α) : Bool := acq.all fun l => !held.contains l

/-- steps the serve goroutine still has to do -/
def measure (acq : List α) (st : St α) : Nat :=
  st.inbox.length * (acq.length + 2) + (match st.todo with | none => 0 | some l => l.length + 1)

end XmppModel.WaitFor
