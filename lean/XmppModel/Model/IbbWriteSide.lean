import XmppModel.Prelude.Hex
/-!
# The write side of a connection under concurrent use (C15, round E)

`Conn.Write` / `Conn.Flush` / `Conn.Close` run on goroutines of the application, the peer's
`<close/>` is handled on the goroutine that serves the session (`closeNoNotify`), and both end in
`bufio.Writer.Flush`: hand `buf[0:n]` to the base64 encoder / stanza writer (one data stanza goes
out, with the IQ carrier the caller waits for its acknowledgement), and only THEN `n = 0`.  The two
halves are separate steps of this LTS, so two threads inside `Flush` at once are representable.

`guarded = true` is the repaired code: every use of the write side happens under `writeLock`
(regenerated fact `writeSideLocked`), the serving goroutine takes it with `TryLock` and leaves the
write side alone when the application is using it.  `guarded = false` is the pinned snapshot (the
serving goroutine flushed without the lock).
-/
namespace XmppModel.IbbWriteSide
open XmppModel

/-- threads: `false` the application, `true` the goroutine that serves the session -/
abbrev Tid := Bool

structure St where
  buf : Bytes := []            -- bufio.Writer: bytes accepted by Write and not flushed yet
  wire : Bytes := []           -- payload bytes of the data stanzas sent so far, in order
  written : Bytes := []        -- everything Write has accepted, in order
  lock : Option Tid := none    -- who holds writeLock
  snapApp : Option Bytes := none    -- the application is inside Flush with this `buf[0:n]`
  snapServe : Option Bytes := none  -- the same for the serving goroutine
  deriving DecidableEq, Repr

def St.snap (s : St) : Tid → Option Bytes
  | false => s.snapApp
  | true => s.snapServe

def St.setSnap (s : St) (t : Tid) (v : Option Bytes) : St :=
  match t with
  | false => { s with snapApp := v }
  | true => { s with snapServe := v }

inductive Act
  | write (c : Bytes)      -- application: Write(c) on a buffer with room (lock, append, unlock)
  | flushBegin (t : Tid)   -- t enters Flush: takes the lock (guarded) and hands `buf[0:n]` on
  | flushEnd (t : Tid)     -- the data stanza is out: `n = 0`, unlock
  | trySkip                -- serving goroutine: TryLock failed, it leaves the write side alone
  deriving DecidableEq, Repr

def step (guarded : Bool) (s : St) : Act → Option St
  | .write c =>
    if guarded && s.lock.isSome then none
    else some { s with buf := s.buf ++ c, written := s.written ++ c }
  | .flushBegin t =>
    if (s.snap t).isSome then none
    else if guarded then
      if s.lock.isSome then none else some ({ s with lock := some t }.setSnap t (some s.buf))
    else some (s.setSnap t (some s.buf))
  | .flushEnd t =>
    match s.snap t with
    | none => none
    | some l =>
      if guarded && s.lock != some t then none
      else
        let s' := { s with wire := s.wire ++ l, buf := s.buf.drop l.length }.setSnap t none
        some (if guarded then { s' with lock := none } else s')
  | .trySkip => if guarded && s.lock.isSome then some s else none

def run (guarded : Bool) : St → List Act → Option St
  | s, [] => some s
  | s, a :: as => match step guarded s a with
    | some s' => run guarded s' as
    | none => none

/-- the sequential history a concurrent run amounts to: the writes in the order in which they took
the lock (the type of the sequential packetiser's op list is `Ibb.SOp`; here only the chunks matter) -/
def writesOf : List Act → List Bytes
  | [] => []
  | .write c :: as => c :: writesOf as
  | _ :: as => writesOf as

/-- the invariant of the guarded system -/
def Inv (s : St) : Prop :=
  s.wire ++ s.buf = s.written ∧ ∀ t l, s.snap t = some l → s.lock = some t ∧ l = s.buf

/-! ### why the serving goroutine must not WAIT for the write lock

With the IQ carrier the application's `Flush` holds `writeLock` while it waits for the peer's
acknowledgement of its data stanza — and that acknowledgement is delivered by the goroutine that
serves the session, the same one that handles the peer's `<close/>`.  `serveStep tryLock` is one
step of that goroutine: it takes the next stanza of the peer from its inbox, or — if it is parked
on the write lock — does nothing until the lock is free. -/

inductive Stanza | close | ack
  deriving DecidableEq, Repr

structure DS where
  appInFlush : Bool := true     -- the application holds writeLock and waits for the acknowledgement
  inbox : List Stanza := []     -- sent by the peer, not handled yet (in order)
  serveParked : Bool := false   -- the serving goroutine waits for writeLock
  closeAnswered : Bool := false
  appReturned : Bool := false
  deriving DecidableEq, Repr

/-- `none`: the serving goroutine cannot move -/
def serveStep (tryLock : Bool) (s : DS) : Option DS :=
  if s.serveParked then
    if s.appInFlush then none else some { s with serveParked := false, closeAnswered := true }
  else match s.inbox with
    | [] => none
    | .ack :: rest => some { s with inbox := rest, appInFlush := false, appReturned := true }
    | .close :: rest =>
      if s.appInFlush && !tryLock then some { s with inbox := rest, serveParked := true }
      else some { s with inbox := rest, closeAnswered := true }

def serveRun (tryLock : Bool) : Nat → DS → DS
  | 0, s => s
  | n + 1, s => match serveStep tryLock s with
    | some s' => serveRun tryLock n s'
    | none => s

end XmppModel.IbbWriteSide
