import XmppModel.Model.Close
/-!
# Closing a session in its environment — property C10, round D

Three parts of the environment the models of `Model/Close.lean` abstract from:

* **`Tee`** — the connection of a session negotiated with `StreamConfig.TeeIn` / `TeeOut` is a
  `teeConn`: every write (the closing tag included) goes through `io.MultiWriter(conn, tee)`,
  which writes to the connection FIRST and then to the tee.  A failing tee writer makes the
  write report an error although the bytes are on the wire.
* **`WdHist`** — a transport that honours write deadlines.  A transmit call guards its writes
  with a watcher that moves the WRITE deadline into the past when the call's context ends and
  clears it when the call returns.  Whether the watcher is *joined* before the clear decides what
  deadline the call leaves behind — and so whether a later `Close` can write the closing tag.
* **`RdLts`** — a token reader held by the application across the end of `Serve`:
  `closeInputStream` (needs the input lock or not) against a holder of the input lock whose
  reader looks at the closed bit per token or once at creation.
-/
namespace XmppModel.Close

/-! ## the tee'd connection -/
namespace Tee

inductive Op | close | tx | peerClose
  deriving DecidableEq, Repr

inductive Res | ok | closedOut | ioErr | na
  deriving DecidableEq, Repr

inductive Item | el | close
  deriving DecidableEq, Repr

structure St where
  outClosed : Bool
  encDead : Bool
  served : Bool
  /-- writes of the closing tag the CONNECTION has seen -/
  attempts : Nat
  /-- what the connection has seen -/
  wire : List Item
  deriving DecidableEq, Repr

def init : St := ⟨false, false, false, 0, []⟩

/-- `teeConn.Write`: how many times the data reaches the connection and whether an error is
reported.  `fallback = true` is NOT the code: a write to the connection retried "directly" when
the multi-writer failed. -/
def write (fallback teeFails : Bool) : Nat × Bool :=
  if !teeFails then (1, false) else if fallback then (2, false) else (1, true)

/-- `closeSession`: test and set the bit, then one write of the tag through the tee'd connection -/
def closeOut (fb tf : Bool) (s : St) : St × Res :=
  if s.outClosed then (s, .ok)
  else
    let w := write fb tf
    ({ s with outClosed := true, attempts := s.attempts + w.1, wire := s.wire ++ List.replicate w.1 .close },
     if w.2 then .ioErr else .ok)

/-- `tf`: the tee writer fails during this operation -/
def step (fb tf : Bool) (s : St) : Op → St × Res
  | .close => closeOut fb tf s
  | .tx =>
    if s.outClosed then (s, .closedOut)
    else if s.encDead then (s, .ioErr)
    else
      let w := write fb tf
      ({ s with encDead := w.2, wire := s.wire ++ List.replicate w.1 .el }, if w.2 then .ioErr else .ok)
  | .peerClose =>
    -- Serve: deferred closeInputStream and Close; its result is Close's error
    if s.served then (s, .na)
    else closeOut fb tf { s with served := true }

/-- `fails i`: the tee writer fails during operation number `i` -/
def run (fb : Bool) (fails : Nat → Bool) : Nat → St → List Op → St × List Res
  | _, s, [] => (s, [])
  | i, s, op :: ops =>
    let r := step fb (fails i) s op
    let rest := run fb fails (i + 1) r.1 ops
    (rest.1, r.2 :: rest.2)

def closeCount (w : List Item) : Nat := (w.filter (· == .close)).length

/-- nothing follows the first closing tag -/
def final : List Item → Bool
  | [] => true
  | .close :: rest => rest.isEmpty
  | .el :: rest => final rest

/-! the table `harness facts` obtains by running real sessions negotiated with no tee, a working
tee, a failing `TeeOut` writer, computed from the model -/
def resName : Res → String
  | .ok => "ok" | .closedOut => "closedout" | .ioErr => "ioerr" | .na => "na"

def probeWays : List (String × List Op) :=
  [("Close", [.close]), ("Close+Close", [.close, .close]), ("Serve+peerClose", [.peerClose])]

def probeTable (fb : Bool) : List (String × List (String × String)) :=
  [("none", false), ("ok", false), ("failing", true)].map fun t =>
    (t.1, probeWays.map fun w =>
      let r := run fb (fun _ => t.2) 0 init w.2
      (w.1, s!"tags={r.1.attempts} res={String.intercalate "," (r.2.map resName)} closed={r.1.outClosed}"))

end Tee

/-! ## write deadlines -/
namespace WdHist

/-- what becomes of the context of a transmit call -/
inductive Fate
  /-- it outlives the call -/
  | alive
  /-- it was over before the call, the transport takes the write at once (before the watcher acts) -/
  | over
  /-- it ends while the write is blocked: the watcher makes the write fail -/
  | cancelled
  deriving DecidableEq, Repr

/-- `closeDeadline past`: `SetCloseDeadline(t)` with `t` already passed / still ahead when the
session is closed later -/
inductive Op | close | tx (f : Fate) | closeDeadline (past : Bool)
  deriving DecidableEq, Repr

inductive Res | ok | closedOut | failed
  deriving DecidableEq, Repr

structure St where
  outClosed : Bool
  encDead : Bool
  /-- the connection's write deadline is in the past -/
  wdPast : Bool
  tags : Nat
  wire : List Hist.Item
  /-- a close deadline has been set and has passed (it governs the READ side: `Serve`'s wait for
  the peer; it is no business of the write of the closing tag) -/
  cdPast : Bool
  deriving DecidableEq, Repr

def init : St := ⟨false, false, false, 0, [], false⟩

/-- the write deadline a guarded call leaves behind when its context has ended.  Joined (the
code: the cleanup waits for the watcher, which sets "past" and then clears): cleared.  Not
joined (`context.AfterFunc` whose callback may still be running when the cleanup clears): the
late "past" lands after the clear. -/
def leftPast (joined : Bool) : Bool := !joined

def step (joined : Bool) (s : St) : Op → St × Res
  | .close =>
    if s.outClosed then (s, .ok)
    -- the bit is set before the write; a write deadline in the past makes the write of the tag fail
    else if s.wdPast then ({ s with outClosed := true }, .failed)
    else ({ s with outClosed := true, tags := s.tags + 1, wire := s.wire ++ [.close] }, .ok)
  | .tx f =>
    if s.outClosed then (s, .closedOut)
    else if s.encDead then (s, .failed)
    else if s.wdPast then ({ s with encDead := true }, .failed)
    else match f with
      | .alive => ({ s with wire := s.wire ++ [.el] }, .ok)
      | .over => ({ s with wire := s.wire ++ [.el], wdPast := leftPast joined }, .ok)
      | .cancelled => ({ s with encDead := true }, .failed)
  | .closeDeadline p => ({ s with cdPast := p }, .ok)

/-- NOT the code: `closeSession` putting the close deadline on the connection as write deadline
for the write of the closing tag.  Once that deadline has passed the write fails at once. -/
def stepBounded (s : St) : Op → St × Res
  | .close =>
    if s.outClosed then (s, .ok)
    else if s.wdPast || s.cdPast then ({ s with outClosed := true }, .failed)
    else ({ s with outClosed := true, tags := s.tags + 1, wire := s.wire ++ [.close] }, .ok)
  | op => step true s op

def runBounded : St → List Op → St × List Res
  | s, [] => (s, [])
  | s, op :: ops =>
    let r := stepBounded s op
    let rest := runBounded r.1 ops
    (rest.1, r.2 :: rest.2)

def run (joined : Bool) : St → List Op → St × List Res
  | s, [] => (s, [])
  | s, op :: ops =>
    let r := step joined s op
    let rest := run joined r.1 ops
    (rest.1, r.2 :: rest.2)

/-! the probe table: one transmit call per entry point and context fate, then `Close` -/
def resName : Res → String
  | .ok => "ok" | .closedOut => "closedout" | .failed => "failed"

def probeRow (joined : Bool) : List (String × String) :=
  [("alive", Fate.alive), ("over", .over), ("cancelled", .cancelled)].map fun f =>
    let a := step joined init (.tx f.2)
    let r := run joined init [.tx f.2, .close]
    (f.1, s!"res={resName a.2} pairs={joined || f.2 != .over} cleared={!a.1.wdPast} tags={r.1.tags}")

def probeTable (joined : Bool) : List (String × List (String × String)) :=
  ["Send", "Encode", "EncodeElement", "SendIQ", "SendElement"].map fun e => (e, probeRow joined)

end WdHist

/-! ## a token reader held across the end of `Serve` -/
namespace RdLts

/-- actions: the holder takes a reader, reads through it, gives it back; `Serve`'s shutdown
(`closeInputStream`, then return) makes a step -/
inductive Act | hAcquire | hRead | hRelease | sStep
  deriving DecidableEq, Repr

inductive HPc
  | idle
  /-- holds the input lock; `cached`: the closed bit as it was when the reader was created -/
  | holding (cached : Bool)
  | released
  deriving DecidableEq, Repr

inductive SPc | running | locked | marked | done
  deriving DecidableEq, Repr

inductive Who | h | s
  deriving DecidableEq, Repr

structure St where
  bit : Bool
  inLock : Option Who
  hpc : HPc
  spc : SPc
  /-- tokens handed out by the held reader -/
  tokens : Nat
  /-- a token was handed out after `Serve` had returned -/
  bad : Bool
  deriving DecidableEq, Repr

def init : St := ⟨false, none, .idle, .running, 0, false⟩

/-- `perToken`: `lockReadCloser.Token` tests the bit on every call (the code) or uses the answer
cached at creation.  `shutdownLocks`: `closeInputStream` takes the input lock (the code). -/
def step (perToken shutdownLocks : Bool) (s : St) : Act → Option St
  | .hAcquire =>
    match s.hpc, s.inLock with
    | .holding _, _ => none
    | _, some _ => none
    | _, none => some { s with inLock := some .h, hpc := .holding s.bit }
  | .hRead =>
    match s.hpc with
    | .holding c =>
      if (if perToken then s.bit else c) then some s   -- ErrInputStreamClosed
      else some { s with tokens := s.tokens + 1, bad := s.bad || s.spc == .done }
    | .released => some s                               -- io.EOF of the closed handle
    | .idle => none
  | .hRelease =>
    match s.hpc with
    | .holding _ => some { s with inLock := none, hpc := .released }
    | _ => none
  | .sStep =>
    match s.spc with
    | .running =>
      if shutdownLocks then
        (match s.inLock with
         | none => some { s with inLock := some .s, spc := .locked }
         | some _ => none)
      else some { s with spc := .locked }
    | .locked => some { s with bit := true, spc := .marked }
    | .marked => some { s with inLock := if shutdownLocks then none else s.inLock, spc := .done }
    | .done => none

def run (p l : Bool) : St → List Act → St
  | s, [] => s
  | s, a :: as =>
    match step p l s a with
    | some s' => run p l s' as
    | none => run p l s as

end RdLts

end XmppModel.Close
