import XmppModel.Model.Close
/-!
# What the models of `Model/Close.lean` predict for the probe tables of `Generated/C10.lean`

`harness facts C10` runs the real session over a finite table (every way the streams get closed
× every transmit / read entry point; every path that writes the closing tag, seen from inside the
connection write) and emits what it saw.  Here the same tables are *computed from the models*:
`Hist` for the results of the entry points, `RwLts` (lock shape of the closers) for the state of
the session at the moment the closing tag is handed to the connection.  `Props/C10.lean` proves
the two equal.
-/
namespace XmppModel.Close.Probe
open XmppModel.Close

/-- what an entry point is for the history machine -/
inductive Entry
  /-- a transmit call; `waits`: on an open stream it goes on to wait for an answer of the peer
  (the probe gives it a context that ends) -/
  | tx (waits : Bool)
  | close
  | read
  deriving DecidableEq, Repr

/-- every transmit family of the property's text (and the variants that do not wait for an
answer), the token writer's three methods, `Close`, the token reader -/
def entries : List (String × Entry) :=
  [("Send", .tx false), ("SendElement", .tx false), ("Encode", .tx false), ("EncodeElement", .tx false),
   ("SendIQ(result)", .tx false), ("SendIQ", .tx true), ("SendIQElement", .tx true), ("EncodeIQ", .tx true),
   ("EncodeIQElement", .tx true), ("UnmarshalIQ", .tx true), ("UnmarshalIQElement", .tx true), ("IterIQ", .tx true),
   ("IterIQElement", .tx true), ("SendMessage(error)", .tx false), ("SendMessage", .tx true),
   ("SendMessageElement", .tx true), ("EncodeMessage", .tx true), ("EncodeMessageElement", .tx true),
   ("SendPresence(error)", .tx false), ("SendPresence", .tx true), ("SendPresenceElement", .tx true),
   ("EncodePresence", .tx true), ("EncodePresenceElement", .tx true), ("TokenWriter.EncodeToken", .tx false),
   ("TokenWriter.Flush", .tx false), ("TokenWriter.Close", .tx false), ("Close", .close),
   ("TokenReader.Token", .read)]

/-- a way to get the streams closed: whether `Serve` runs, and the history -/
structure Way where
  name : String
  serve : Bool
  ops : List Hist.Op

def ways : List Way :=
  [⟨"open", false, []⟩,
   ⟨"Close", false, [.close]⟩,
   ⟨"Close+Close", false, [.close, .close]⟩,
   ⟨"Serve+peerClose", true, [.peerClose]⟩,
   ⟨"Serve+handlerErr", true, [.handlerErr]⟩,
   ⟨"Serve+handlerStreamErr", true, [.handlerFails .wrapStream]⟩,
   ⟨"Serve+deadline", true, [.setDeadline .past]⟩,
   ⟨"Close+Serve+peerClose", true, [.close, .peerClose]⟩,
   ⟨"Close+Serve+handlerErr", true, [.close, .handlerErr]⟩,
   -- a transmit call abandoned half way (its payload reader failed), then `Close`: closed is closed,
   -- every entry point answers as after a plain `Close` (the output-closed error, not the
   -- unexported "earlier write was abandoned" one)
   ⟨"Abandon+Close", false, [.close]⟩]

def stateAfter (w : Way) : Hist.St := (Hist.run (Hist.init w.serve) w.ops).1

def resName (waits : Bool) : Hist.Res → String
  | .ok => if waits then "ctx" else "ok"
  | .closedOut => "closedout"
  | .closedIn => "closedin"
  | .na => "ok"

/-- error class and "did the call reach the connection" according to `Hist.step` -/
def cell (s : Hist.St) (e : String × Entry) : String × String × Bool :=
  match e.2 with
  | .tx waits =>
    let r := Hist.step s .tx
    (e.1, resName waits r.2, r.1.wire.length != s.wire.length)
  | .close =>
    let r := Hist.step s .close
    (e.1, resName false r.2, r.1.wire.length != s.wire.length)
  | .read =>
    let r := Hist.step s .read
    -- an open input stream: the reader goes to the connection (`na`: what it finds there is the peer's business)
    (e.1, resName false r.2, r.2 == .na)

def transmitTable : List (String × List (String × String × Bool)) :=
  ways.map fun w => (w.name, entries.map (cell (stateAfter w)))

/-! the closing tag seen from inside the connection write: `RwLts` with one closer, scheduled up to
its `writing` control point, the environment not yet letting the write through -/

def atWrite (heldDuringWrite : Bool) : RwLts.St :=
  RwLts.run heldDuringWrite (fun _ => .closer) RwLts.init [(0, false), (0, false), (0, false), (0, false)]

/-- (closed bit set, state mutex free, output lock held) while the closer is inside the write -/
def writeView (heldDuringWrite : Bool) : Bool × Bool × Bool :=
  let s := atWrite heldDuringWrite
  (s.closed, s.stateLock == none, s.outLock != none)

/-- closing tags on the wire after the history of a way -/
def tagsAfter (w : Way) : Nat := Hist.closeCount (stateAfter w).wire

def closeWriteTable : List (String × List Bool × Nat) :=
  (ways.filter fun w => w.name != "open").map fun w =>
    let v := writeView false
    (w.name, [true, v.1, v.2.1, v.2.2], tagsAfter w)

end XmppModel.Close.Probe
