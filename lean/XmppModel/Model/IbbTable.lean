import XmppModel.Model.Ibb
/-!
# The stream table of a Handler (C15, round D)

One `ibb.Handler` carries any number of streams.  `Handler.streams` maps a session id to the
connection that currently owns it; a data packet is handled by the connection the table holds
for its sid *at that moment* — nothing else.  The session id is chosen by the application
(`OpenIQ`) or by the peer and may be used again once the stream that had it is closed: the new
stream is a new connection (packet numbers from 0, empty buffer); the old connection keeps the
bytes it had received until its reader has drained them.

Connections are identified by a handle (creation order); the application keeps handles of closed
connections and may still read from them.
-/
namespace XmppModel.Ibb
open XmppModel

structure HState where
  next : Nat := 0                                  -- connections created so far
  conn : Nat → RState := fun _ => ⟨false, 0, [], 0⟩  -- by handle
  sidOf : Nat → Nat := fun _ => 0                  -- handle ↦ its session id
  table : Nat → Option Nat := fun _ => none        -- `Handler.streams`: sid ↦ handle

inductive HOp
  | open (sid : Nat)                       -- an open request for this sid (accepted iff the sid is free)
  | data (sid : Nat) (attr payload : Bytes)  -- the peer's data packet
  | closeSid (sid : Nat)                   -- the peer's `<close/>`
  | closeLocal (h : Nat)                   -- `Close` on that connection
  | read (h n : Nat)
  deriving DecidableEq, Repr

inductive HObs
  | opened (h : Nat) | reply (r : Reply) | closed | read (o : ReadOut)
  | refused        -- an open request for a session id that is in use: not-acceptable
  deriving DecidableEq, Repr

def fresh : RState := ⟨true, 0, [], 0⟩

def setConn (s : HState) (h : Nat) (v : RState) : HState :=
  { s with conn := fun i => if i = h then v else s.conn i }

def unregister (s : HState) (sid : Nat) : HState :=
  { s with table := fun x => if x = sid then none else s.table x }

def hstep (cd : Codec) (s : HState) : HOp → HState × HObs
  | .open sid =>
    -- a session id that is in use cannot be opened a second time: the request is refused and the
    -- stream that has the id is not touched (repaired code, round E)
    if (s.table sid).isSome then (s, .refused) else
    ({ next := s.next + 1,
       conn := fun i => if i = s.next then fresh else s.conn i,
       sidOf := fun i => if i = s.next then sid else s.sidOf i,
       table := fun x => if x = sid then some s.next else s.table x }, .opened s.next)
  | .data sid attr payload =>
    match s.table sid with
    | none => (s, .reply .itemNotFound)
    | some h =>
      let r := recvWire cd (s.conn h) ⟨true, attr, payload⟩
      (setConn s h r.1, .reply r.2)
  | .closeSid sid =>
    match s.table sid with
    | none => (s, .reply .itemNotFound)
    | some h => (unregister (setConn s h (close (s.conn h))) sid, .reply .ack)
  | .closeLocal h =>
    if (s.conn h).live then (unregister (setConn s h (close (s.conn h))) (s.sidOf h), .closed)
    else (s, .closed)
  | .read h n =>
    (setConn s h (read (s.conn h) n).1, .read (readOut (s.conn h) n))

def hrun (cd : Codec) : HState → List HOp → HState × List HObs
  | s, [] => (s, [])
  | s, o :: os =>
    let r := hstep cd s o
    let rest := hrun cd r.1 os
    (rest.1, r.2 :: rest.2)

/-! NOT the code (negation witness): a handler that remembers the connection of the last data
packet and uses it for every later packet with the same sid, without looking at the table -/
structure CState where
  h : HState := {}
  last : Option Nat := none

def cstep (cd : Codec) (c : CState) : HOp → CState × HObs
  | .data sid attr payload =>
    match c.last with
    | some h =>
      if c.h.sidOf h = sid then
        let r := recvWire cd (c.h.conn h) ⟨true, attr, payload⟩
        ({ c with h := setConn c.h h r.1 }, .reply r.2)
      else
        let r := hstep cd c.h (.data sid attr payload)
        ({ h := r.1, last := (c.h.table sid).or c.last }, r.2)
    | none =>
      let r := hstep cd c.h (.data sid attr payload)
      ({ h := r.1, last := c.h.table sid }, r.2)
  | op => let r := hstep cd c.h op; ({ c with h := r.1 }, r.2)

def crun (cd : Codec) : CState → List HOp → List HObs
  | _, [] => []
  | c, o :: os => let r := cstep cd c o; r.2 :: crun cd r.1 os

end XmppModel.Ibb
