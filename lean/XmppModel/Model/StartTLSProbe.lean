import XmppModel.Model.StartTLS
/-!
# C02 — the model's side of the probe tables

`harness facts C02` runs the real functions over complete finite domains and emits the tables
(`Generated/C02.lean`); here the same domains are enumerated in the same order and the model's
answer for one entry of each is defined.  `Props/C02.lean` proves table = domain.map model.
-/
namespace XmppModel.StartTLS

/-- the numbering of connection kinds on the protocol line and in the probe tables (the
connection of a `*tls.Conn` names the session's own domain) -/
def connKindOfCode (domain : Nat) : Nat → Option ConnKind
  | 0 => some .netConn
  | 1 => some .plainRW
  | 2 => some .stateMethod
  | 3 => some (.tlsConn (.dom domain))
  | _ => none

/-- what the harness observes of a trace: the writes and the ClientHello names -/
def Ev.observable : Ev → Bool
  | .wHdr _ | .wStartTLS _ | .wOther _ _ | .hello _ => true
  | _ => false

def product {α β : Type} (as : List α) (bs : List β) : List (α × β) :=
  as.flatMap fun a => bs.map fun b => (a, b)

/-! ### session.go: the state a session starts with -/

def startStateDomain : List (Nat × Nat) := product [0, 1, 2, 3] [0, 1, 2, 64]

/-- `negotiateSession` up to the first negotiator call -/
def startStateModel (i : Nat × Nat) : Option Nat :=
  (connKindOfCode 0 i.1).map fun c => (init ⟨0, 0, none, c⟩ (BitVec.ofNat 8 i.2) ⟨[], [], []⟩).state.toNat

/-! ### negotiator.go / features.go: the first features list, with and without the tee -/

def firstListShapes : List (List Item) :=
  [[], [⟨9, true, true⟩], [⟨0, false, true⟩], [⟨0, true, true⟩]]

/-- (tee variant, clear connection kind, first features list, the peer says proceed?) -/
def firstListDomain : List (Nat × Nat × List Item × Bool) :=
  (product [0, 1, 2, 3] (product [0, 1, 2] (product firstListShapes [false, true])))

/-- a whole `NewSession` with only STARTTLS configured: header, the list, then either silence or
`<proceed/>` followed, inside TLS, by a header and an empty list -/
def firstListModel (rr rt sk : Bool) (i : Nat × Nat × List Item × Bool) : Option (List Ev × Outcome) :=
  (connKindOfCode 0 i.2.1).map fun c =>
    let inp : Input :=
      { clear := [[.hdr true, .list i.2.2.1]] ++ (if i.2.2.2 then [[.proceed]] else []),
        prot := if i.2.2.2 then [.unit (.hdr true), .unit (.list [])] else [],
        oracle := [(0, ⟨0, false, false⟩)] }
    let r := run { rr := rr, rt := rt, sk := sk, others := [], tee := i.1 != 0 } ⟨0, 0, none, c⟩ 0 inp 40
    (r.1.filter Ev.observable, r.2)

/-! ### starttls.go: one call of `Negotiate` -/

/-- what one `Negotiate` call returns -/
inductive NegObs
  | ok (mask : Nat) (rw : Rw)
  | err (e : ErrClass)
  | other
  deriving Repr, DecidableEq

def negotiateAnswers : List (Option Unit) :=
  [none, some .proceed, some .failure, some .streamErr, some .tlsOther, some .foreign, some .space,
   some .malformed, some (.hdr true), some (.hdr false), some (.list [])]

/-- (explicit configuration?, the peer's answer; `none`: the input ends) -/
def negotiateDomain : List (Bool × Option Unit) := product [false, true] negotiateAnswers

/-- `negotiateOne` for STARTTLS on a clear-text stream whose peer sends `answer` next -/
def negotiateModel (i : Bool × Option Unit) : List Ev × NegObs :=
  let s0 := init ⟨0, 0, if i.1 then some .explicit else none, .netConn⟩ 0
    ⟨match i.2 with | some u => [[u]] | none => [], [], []⟩
  match negotiateOne ⟨0, true, startTLS⟩ ⟨0, false, false⟩ s0 with
  | .ok (m, rw) s => (s.trace.reverse.filter Ev.observable, .ok m.toNat rw)
  | .stop (.err e) s => (s.trace.reverse.filter Ev.observable, .err e)
  | .stop _ s => (s.trace.reverse.filter Ev.observable, .other)

/-! ### starttls.go: server names of histories over one feature value -/

def sniUniverse : List SniSess :=
  [⟨0, 1, false, .p⟩, ⟨1, 0, false, .p⟩, ⟨1, 1, true, .x⟩, ⟨2, 0, false, .f⟩, ⟨0, 2, false, .n⟩]

/-- every history of one or two sessions of the universe, with the default and with an explicit
configuration -/
def serverNameDomain : List (Bool × List SniSess) :=
  product [false, true] (sniUniverse.flatMap fun a => [a] :: sniUniverse.map fun b => [a, b])

def serverNameModel (i : Bool × List SniSess) : List (Option Name) :=
  sessions (if i.1 then some .explicit else none) i.2

end XmppModel.StartTLS
