import XmppModel.Model.StartTLS
/-!
# C02 — the model's side of the probe tables

`harness facts C02` runs the real functions over complete finite domains and emits the tables
(`Generated/C02.lean`); here the same domains are enumerated in the same order and the model's
answer for one entry of each is defined.  `Props/C02.lean` proves table = domain.map model.
-/
namespace XmppModel.StartTLS

/-- the numbering of connection kinds on the protocol line and in the probe tables (the
connection of a `*tls.Conn` names the session's own domain) -/
def connKindOfCode (domain : Nat) : Nat → Option ConnKind
  | 0 => some .netConn
  | 1 => some .plainRW
  | 2 => some .stateMethod
  | 3 => some (.tlsConn (.dom domain))
  -- WebSocket framing: on a net.Conn, on a plain io.ReadWriter, on a client `*websocket.Conn`
  -- opened for a `ws:` location by an `http:` / `https:` origin
  | 4 => some (.wsRaw true)
  | 5 => some (.wsRaw false)
  | 6 => some (.wsConn true .http .ws)
  | 7 => some (.wsConn true .https .ws)
  | 8 => some (.wsConn true .wss .ws)
  | _ => none

/-- what the harness observes of a trace: the writes and the ClientHello names -/
def Ev.observable : Ev → Bool
  | .wHdr _ | .wStartTLS _ | .wOther _ _ | .hello _ => true
  | _ => false

def product {α β : Type} (as : List α) (bs : List β) : List (α × β) :=
  as.flatMap fun a => bs.map fun b => (a, b)

/-! ### session.go: the state a session starts with -/

def startStateDomain : List (Nat × Nat) := product [0, 1, 2, 3] [0, 1, 2, 64]

/-- `negotiateSession` up to the first negotiator call -/
def startStateModel (i : Nat × Nat) : Option Nat :=
  (connKindOfCode 0 i.1).map fun c => (init ⟨0, 0, none, c⟩ (BitVec.ofNat 8 i.2) ⟨[], [], []⟩).state.toNat

/-! ### websocket/ws.go: the state a session created by `websocket.NewSession` starts with -/

def schemeOfCode : Nat → Option Scheme
  | 0 => some .http | 1 => some .https | 2 => some .ws | 3 => some .wss | _ => none

/-- (carrier: 0 `net.Conn` / 1 plain `io.ReadWriter` / 2 client `*websocket.Conn`, scheme of its
origin URL, scheme of its location URL) -/
def wsStartDomain : List (Nat × Nat × Nat) :=
  [(0, 0, 0), (1, 0, 0)] ++ (product [0, 1, 2, 3] [2, 3]).map fun p => (2, p.1, p.2)

def wsCarrier (i : Nat × Nat × Nat) : Option ConnKind :=
  match i.1 with
  | 0 => some (.wsRaw true)
  | 1 => some (.wsRaw false)
  | 2 => do pure (.wsConn true (← schemeOfCode i.2.1) (← schemeOfCode i.2.2))
  | _ => none

/-- `websocket.NewSession` up to the first negotiator call -/
def wsStartModel (i : Nat × Nat × Nat) : Option Nat :=
  (wsCarrier i).map fun c => (init ⟨0, 0, none, c⟩ 0 ⟨[], [], []⟩).state.toNat

/-! ### negotiator.go / features.go: the first features list, with and without the tee -/

def firstListShapes : List (List Item) :=
  [[], [⟨9, true, true⟩], [⟨0, false, true⟩], [⟨0, true, true⟩]]

/-- (tee variant, clear connection kind, first features list, the peer says proceed?) -/
def firstListDomain : List (Nat × Nat × List Item × Bool) :=
  (product [0, 1, 2, 3] (product [0, 1, 2, 4, 5, 6, 7, 8] (product firstListShapes [false, true])))

/-- a whole `NewSession` with only STARTTLS configured: header, the list, then either silence or
`<proceed/>` followed, inside TLS, by a header and an empty list -/
def firstListModel (rr rt sk : Bool) (i : Nat × Nat × List Item × Bool) : Option (List Ev × Outcome) :=
  (connKindOfCode 0 i.2.1).map fun c =>
    let inp : Input :=
      { clear := [[.hdr true, .list i.2.2.1]] ++ (if i.2.2.2 then [[.proceed]] else []),
        prot := if i.2.2.2 then [.unit (.hdr true), .unit (.list [])] else [],
        oracle := [(0, ⟨0, false, false⟩)] }
    let r := run { rr := rr, rt := rt, sk := sk, others := [], tee := i.1 != 0 } ⟨0, 0, none, c⟩ 0 inp 40
    (r.1.filter Ev.observable, r.2)

/-! ### starttls.go: one call of `Negotiate` -/

/-- what one `Negotiate` call returns -/
inductive NegObs
  | ok (mask : Nat) (rw : Rw)
  | err (e : ErrClass)
  | other
  deriving Repr, DecidableEq

def negotiateAnswers : List (Option Unit) :=
  [none, some .proceed, some .failure, some .streamErr, some .tlsOther, some .foreign, some .space,
   some .malformed, some (.hdr true), some (.hdr false), some (.list [])]

/-- (explicit configuration?, the peer's answer; `none`: the input ends) -/
def negotiateDomain : List (Bool × Option Unit) := product [false, true] negotiateAnswers

/-- `negotiateOne` for STARTTLS on a clear-text stream whose peer sends `answer` next -/
def negotiateModel (i : Bool × Option Unit) : List Ev × NegObs :=
  let s0 := init ⟨0, 0, if i.1 then some .explicit else none, .netConn⟩ 0
    ⟨match i.2 with | some u => [[u]] | none => [], [], []⟩
  match negotiateOne ⟨0, true, startTLS⟩ ⟨0, false, false⟩ s0 with
  | .ok (m, rw) s => (s.trace.reverse.filter Ev.observable, .ok m.toNat rw)
  | .stop (.err e) s => (s.trace.reverse.filter Ev.observable, .err e)
  | .stop _ s => (s.trace.reverse.filter Ev.observable, .other)

/-! ### starttls.go: server names of histories over one feature value -/

def sniUniverse : List SniSess :=
  [⟨0, 1, false, .p⟩, ⟨1, 0, false, .p⟩, ⟨1, 1, true, .x⟩, ⟨2, 0, false, .f⟩, ⟨0, 2, false, .n⟩]

/-- every history of one, two or three sessions of the universe (so also A,B,A and A,A,B), with the
default and with an explicit configuration -/
def serverNameDomain : List (Bool × List SniSess) :=
  product [false, true] (sniUniverse.flatMap fun a =>
    [a] :: sniUniverse.flatMap fun b => [a, b] :: sniUniverse.map fun c => [a, b, c])

def serverNameModel (i : Bool × List SniSess) : List (Option Name) :=
  sessions (if i.1 then some .explicit else none) i.2

/-! ### negotiator.go: the addresses in the peer's stream header -/

/-- the numbering of the kinds of `from` on the protocol line and in the tables: absent, the
remote address, another domain of the same length, another domain -/
def hfromOfCode : Nat → Option HFrom
  | 0 => some .absent
  | 1 => some .same
  | 2 => some .differ
  | 3 => some .differ
  | _ => none

/-- the `to`s of the probe: none, `user@d0`, `d0` (the own address of the c2s / s2s session),
another domain of the same shape, another localpart, a resourcepart, a domain of another shape,
another bare domain -/
def headerTos : List (Option Addr) :=
  [none, some ⟨1, 0, 0⟩, some ⟨0, 0, 0⟩, some ⟨1, 1, 0⟩, some ⟨2, 0, 0⟩, some ⟨1, 0, 1⟩, some ⟨1, 4, 0⟩,
   some ⟨0, 1, 0⟩]

/-- (s2s?, the header inside TLS?, kind of `from`, index of the `to` in `headerTos`); a foreign
`from` without `to` -/
def headerAddressDomain : List (Bool × Bool × Nat × Nat) :=
  product [false, true] (product [false, true]
    (product [0, 1] (List.range headerTos.length) ++ product [2, 3] [0]))

/-- a whole `NewSession` (own address `user@d0` or `d0`, remote `d1`, only STARTTLS configured):
header, STARTTLS required, `<proceed/>`, inside TLS a header and an empty list — the probed
header is the first or the second one.  Result: the session the model ends in and the outcome. -/
def headerAddressRun (rr rt sk : Bool) (i : Bool × Bool × Nat × Nat) : Option (Sess × Outcome) :=
  match hfromOfCode i.2.2.1, headerTos[i.2.2.2]? with
  | some f, some to =>
    let h : Unit := .hdrA f to
    let inp : Input :=
      { clear := [[if i.2.1 then .hdr true else h, .list [⟨0, true, true⟩]], [.proceed]],
        prot := [.unit (if i.2.1 then h else .hdr true), .unit (.list [])],
        oracle := [(0, ⟨0, false, false⟩)] }
    some (loop { rr := rr, rt := rt, sk := sk, others := [], tee := false } 40 false
      (init ⟨0, 1, none, .netConn⟩ (if i.1 then S2S else 0) inp))
  | _, _ => none

def headerAddressModel (rr rt sk : Bool) (i : Bool × Bool × Nat × Nat) : Option (List Ev × Outcome) :=
  (headerAddressRun rr rt sk i).map fun r => (r.1.trace.reverse.filter Ev.observable, r.2)

def headerLocalModel (rr rt sk : Bool) (i : Bool × Bool × Nat × Nat) : Nat × Nat × Nat :=
  match headerAddressRun rr rt sk i with
  | some r => (r.1.laddr.loc, r.1.laddr.dom, r.1.laddr.res)
  | none => (0, 0, 0)

/-- what the model answers over `headerAddressDomain`, written out (proved equal to
`headerAddressDomain.map headerAddressModel` for every value of the three features.go flags in
`Props/C02.lean`): the regenerated table is compared with this literal, so that a table that
differs is refuted by comparing two lists of constants -/
def headerAddressExpected : List ((Bool × Bool × Nat × Nat) × Option (List Ev × Outcome)) := [
  ((false, false, 0, 0), some ([.wHdr false, .wStartTLS false, .hello (.dom 0), .wHdr true], .done 5 true true)),
  ((false, false, 0, 1), some ([.wHdr false, .wStartTLS false, .hello (.dom 0), .wHdr true], .done 5 true true)),
  ((false, false, 0, 2), some ([.wHdr false], .stop (.err .proto))),
  ((false, false, 0, 3), some ([.wHdr false], .stop (.err .proto))),
  ((false, false, 0, 4), some ([.wHdr false], .stop (.err .proto))),
  ((false, false, 0, 5), some ([.wHdr false], .stop (.err .proto))),
  ((false, false, 0, 6), some ([.wHdr false], .stop (.err .proto))),
  ((false, false, 0, 7), some ([.wHdr false], .stop (.err .proto))),
  ((false, false, 1, 0), some ([.wHdr false, .wStartTLS false, .hello (.dom 0), .wHdr true], .done 5 true true)),
  ((false, false, 1, 1), some ([.wHdr false, .wStartTLS false, .hello (.dom 0), .wHdr true], .done 5 true true)),
  ((false, false, 1, 2), some ([.wHdr false], .stop (.err .proto))),
  ((false, false, 1, 3), some ([.wHdr false], .stop (.err .proto))),
  ((false, false, 1, 4), some ([.wHdr false], .stop (.err .proto))),
  ((false, false, 1, 5), some ([.wHdr false], .stop (.err .proto))),
  ((false, false, 1, 6), some ([.wHdr false], .stop (.err .proto))),
  ((false, false, 1, 7), some ([.wHdr false], .stop (.err .proto))),
  ((false, false, 2, 0), some ([.wHdr false], .stop (.err .proto))),
  ((false, false, 3, 0), some ([.wHdr false], .stop (.err .proto))),
  ((false, true, 0, 0), some ([.wHdr false, .wStartTLS false, .hello (.dom 0), .wHdr true], .done 5 true true)),
  ((false, true, 0, 1), some ([.wHdr false, .wStartTLS false, .hello (.dom 0), .wHdr true], .done 5 true true)),
  ((false, true, 0, 2), some ([.wHdr false, .wStartTLS false, .hello (.dom 0), .wHdr true], .stop (.err .proto))),
  ((false, true, 0, 3), some ([.wHdr false, .wStartTLS false, .hello (.dom 0), .wHdr true], .stop (.err .proto))),
  ((false, true, 0, 4), some ([.wHdr false, .wStartTLS false, .hello (.dom 0), .wHdr true], .stop (.err .proto))),
  ((false, true, 0, 5), some ([.wHdr false, .wStartTLS false, .hello (.dom 0), .wHdr true], .stop (.err .proto))),
  ((false, true, 0, 6), some ([.wHdr false, .wStartTLS false, .hello (.dom 0), .wHdr true], .stop (.err .proto))),
  ((false, true, 0, 7), some ([.wHdr false, .wStartTLS false, .hello (.dom 0), .wHdr true], .stop (.err .proto))),
  ((false, true, 1, 0), some ([.wHdr false, .wStartTLS false, .hello (.dom 0), .wHdr true], .done 5 true true)),
  ((false, true, 1, 1), some ([.wHdr false, .wStartTLS false, .hello (.dom 0), .wHdr true], .done 5 true true)),
  ((false, true, 1, 2), some ([.wHdr false, .wStartTLS false, .hello (.dom 0), .wHdr true], .stop (.err .proto))),
  ((false, true, 1, 3), some ([.wHdr false, .wStartTLS false, .hello (.dom 0), .wHdr true], .stop (.err .proto))),
  ((false, true, 1, 4), some ([.wHdr false, .wStartTLS false, .hello (.dom 0), .wHdr true], .stop (.err .proto))),
  ((false, true, 1, 5), some ([.wHdr false, .wStartTLS false, .hello (.dom 0), .wHdr true], .stop (.err .proto))),
  ((false, true, 1, 6), some ([.wHdr false, .wStartTLS false, .hello (.dom 0), .wHdr true], .stop (.err .proto))),
  ((false, true, 1, 7), some ([.wHdr false, .wStartTLS false, .hello (.dom 0), .wHdr true], .stop (.err .proto))),
  ((false, true, 2, 0), some ([.wHdr false, .wStartTLS false, .hello (.dom 0), .wHdr true], .stop (.err .proto))),
  ((false, true, 3, 0), some ([.wHdr false, .wStartTLS false, .hello (.dom 0), .wHdr true], .stop (.err .proto))),
  ((true, false, 0, 0), some ([.wHdr false, .wStartTLS false, .hello (.dom 0), .wHdr true], .done 69 true true)),
  ((true, false, 0, 1), some ([.wHdr false], .stop (.err .proto))),
  ((true, false, 0, 2), some ([.wHdr false, .wStartTLS false, .hello (.dom 0), .wHdr true], .done 69 true true)),
  ((true, false, 0, 3), some ([.wHdr false], .stop (.err .proto))),
  ((true, false, 0, 4), some ([.wHdr false], .stop (.err .proto))),
  ((true, false, 0, 5), some ([.wHdr false], .stop (.err .proto))),
  ((true, false, 0, 6), some ([.wHdr false], .stop (.err .proto))),
  ((true, false, 0, 7), some ([.wHdr false], .stop (.err .proto))),
  ((true, false, 1, 0), some ([.wHdr false, .wStartTLS false, .hello (.dom 0), .wHdr true], .done 69 true true)),
  ((true, false, 1, 1), some ([.wHdr false], .stop (.err .proto))),
  ((true, false, 1, 2), some ([.wHdr false, .wStartTLS false, .hello (.dom 0), .wHdr true], .done 69 true true)),
  ((true, false, 1, 3), some ([.wHdr false], .stop (.err .proto))),
  ((true, false, 1, 4), some ([.wHdr false], .stop (.err .proto))),
  ((true, false, 1, 5), some ([.wHdr false], .stop (.err .proto))),
  ((true, false, 1, 6), some ([.wHdr false], .stop (.err .proto))),
  ((true, false, 1, 7), some ([.wHdr false], .stop (.err .proto))),
  ((true, false, 2, 0), some ([.wHdr false], .stop (.err .proto))),
  ((true, false, 3, 0), some ([.wHdr false], .stop (.err .proto))),
  ((true, true, 0, 0), some ([.wHdr false, .wStartTLS false, .hello (.dom 0), .wHdr true], .done 69 true true)),
  ((true, true, 0, 1), some ([.wHdr false, .wStartTLS false, .hello (.dom 0), .wHdr true], .stop (.err .proto))),
  ((true, true, 0, 2), some ([.wHdr false, .wStartTLS false, .hello (.dom 0), .wHdr true], .done 69 true true)),
  ((true, true, 0, 3), some ([.wHdr false, .wStartTLS false, .hello (.dom 0), .wHdr true], .stop (.err .proto))),
  ((true, true, 0, 4), some ([.wHdr false, .wStartTLS false, .hello (.dom 0), .wHdr true], .stop (.err .proto))),
  ((true, true, 0, 5), some ([.wHdr false, .wStartTLS false, .hello (.dom 0), .wHdr true], .stop (.err .proto))),
  ((true, true, 0, 6), some ([.wHdr false, .wStartTLS false, .hello (.dom 0), .wHdr true], .stop (.err .proto))),
  ((true, true, 0, 7), some ([.wHdr false, .wStartTLS false, .hello (.dom 0), .wHdr true], .stop (.err .proto))),
  ((true, true, 1, 0), some ([.wHdr false, .wStartTLS false, .hello (.dom 0), .wHdr true], .done 69 true true)),
  ((true, true, 1, 1), some ([.wHdr false, .wStartTLS false, .hello (.dom 0), .wHdr true], .stop (.err .proto))),
  ((true, true, 1, 2), some ([.wHdr false, .wStartTLS false, .hello (.dom 0), .wHdr true], .done 69 true true)),
  ((true, true, 1, 3), some ([.wHdr false, .wStartTLS false, .hello (.dom 0), .wHdr true], .stop (.err .proto))),
  ((true, true, 1, 4), some ([.wHdr false, .wStartTLS false, .hello (.dom 0), .wHdr true], .stop (.err .proto))),
  ((true, true, 1, 5), some ([.wHdr false, .wStartTLS false, .hello (.dom 0), .wHdr true], .stop (.err .proto))),
  ((true, true, 1, 6), some ([.wHdr false, .wStartTLS false, .hello (.dom 0), .wHdr true], .stop (.err .proto))),
  ((true, true, 1, 7), some ([.wHdr false, .wStartTLS false, .hello (.dom 0), .wHdr true], .stop (.err .proto))),
  ((true, true, 2, 0), some ([.wHdr false, .wStartTLS false, .hello (.dom 0), .wHdr true], .stop (.err .proto))),
  ((true, true, 3, 0), some ([.wHdr false, .wStartTLS false, .hello (.dom 0), .wHdr true], .stop (.err .proto)))]

def headerLocalExpected : List ((Bool × Bool × Nat × Nat) × (Nat × Nat × Nat)) := [
  ((false, false, 0, 0), (1, 0, 0)),
  ((false, false, 0, 1), (1, 0, 0)),
  ((false, false, 0, 2), (1, 0, 0)),
  ((false, false, 0, 3), (1, 0, 0)),
  ((false, false, 0, 4), (1, 0, 0)),
  ((false, false, 0, 5), (1, 0, 0)),
  ((false, false, 0, 6), (1, 0, 0)),
  ((false, false, 0, 7), (1, 0, 0)),
  ((false, false, 1, 0), (1, 0, 0)),
  ((false, false, 1, 1), (1, 0, 0)),
  ((false, false, 1, 2), (1, 0, 0)),
  ((false, false, 1, 3), (1, 0, 0)),
  ((false, false, 1, 4), (1, 0, 0)),
  ((false, false, 1, 5), (1, 0, 0)),
  ((false, false, 1, 6), (1, 0, 0)),
  ((false, false, 1, 7), (1, 0, 0)),
  ((false, false, 2, 0), (1, 0, 0)),
  ((false, false, 3, 0), (1, 0, 0)),
  ((false, true, 0, 0), (1, 0, 0)),
  ((false, true, 0, 1), (1, 0, 0)),
  ((false, true, 0, 2), (1, 0, 0)),
  ((false, true, 0, 3), (1, 0, 0)),
  ((false, true, 0, 4), (1, 0, 0)),
  ((false, true, 0, 5), (1, 0, 0)),
  ((false, true, 0, 6), (1, 0, 0)),
  ((false, true, 0, 7), (1, 0, 0)),
  ((false, true, 1, 0), (1, 0, 0)),
  ((false, true, 1, 1), (1, 0, 0)),
  ((false, true, 1, 2), (1, 0, 0)),
  ((false, true, 1, 3), (1, 0, 0)),
  ((false, true, 1, 4), (1, 0, 0)),
  ((false, true, 1, 5), (1, 0, 0)),
  ((false, true, 1, 6), (1, 0, 0)),
  ((false, true, 1, 7), (1, 0, 0)),
  ((false, true, 2, 0), (1, 0, 0)),
  ((false, true, 3, 0), (1, 0, 0)),
  ((true, false, 0, 0), (0, 0, 0)),
  ((true, false, 0, 1), (0, 0, 0)),
  ((true, false, 0, 2), (0, 0, 0)),
  ((true, false, 0, 3), (0, 0, 0)),
  ((true, false, 0, 4), (0, 0, 0)),
  ((true, false, 0, 5), (0, 0, 0)),
  ((true, false, 0, 6), (0, 0, 0)),
  ((true, false, 0, 7), (0, 0, 0)),
  ((true, false, 1, 0), (0, 0, 0)),
  ((true, false, 1, 1), (0, 0, 0)),
  ((true, false, 1, 2), (0, 0, 0)),
  ((true, false, 1, 3), (0, 0, 0)),
  ((true, false, 1, 4), (0, 0, 0)),
  ((true, false, 1, 5), (0, 0, 0)),
  ((true, false, 1, 6), (0, 0, 0)),
  ((true, false, 1, 7), (0, 0, 0)),
  ((true, false, 2, 0), (0, 0, 0)),
  ((true, false, 3, 0), (0, 0, 0)),
  ((true, true, 0, 0), (0, 0, 0)),
  ((true, true, 0, 1), (0, 0, 0)),
  ((true, true, 0, 2), (0, 0, 0)),
  ((true, true, 0, 3), (0, 0, 0)),
  ((true, true, 0, 4), (0, 0, 0)),
  ((true, true, 0, 5), (0, 0, 0)),
  ((true, true, 0, 6), (0, 0, 0)),
  ((true, true, 0, 7), (0, 0, 0)),
  ((true, true, 1, 0), (0, 0, 0)),
  ((true, true, 1, 1), (0, 0, 0)),
  ((true, true, 1, 2), (0, 0, 0)),
  ((true, true, 1, 3), (0, 0, 0)),
  ((true, true, 1, 4), (0, 0, 0)),
  ((true, true, 1, 5), (0, 0, 0)),
  ((true, true, 1, 6), (0, 0, 0)),
  ((true, true, 1, 7), (0, 0, 0)),
  ((true, true, 2, 0), (0, 0, 0)),
  ((true, true, 3, 0), (0, 0, 0))]

/-! ### addresses are values: a header parsed into a copy of the stream info -/

def copyUniverse : List Addr :=
  [⟨1, 0, 0⟩, ⟨1, 1, 0⟩, ⟨2, 0, 0⟩, ⟨0, 0, 0⟩, ⟨0, 1, 0⟩, ⟨1, 4, 0⟩, ⟨1, 0, 1⟩, ⟨0, 4, 1⟩]

def infoCopyDomain : List (Addr × Addr) := product copyUniverse copyUniverse

/-- `newIn := *in; newIn.FromStartElement(header)`: the copy holds the header's address, the value
it was copied from still holds its own (the model's sessions are values; this is what that means
for the code) -/
def infoCopyModel (i : Addr × Addr) : Addr × Addr := (infoTo (some i.2) i.1, i.1)

/-! ### sasl.go: the authentication feature, for every set of mechanisms -/

/-- `xmpp.SASL(…)`: requires a secured stream, prohibited once authenticated — whatever
mechanisms it is configured with -/
def saslFeature (mechanisms : Nat) : Feature := ⟨7, Secure, Authn, true⟩

/-- every non-empty subset of five mechanisms -/
def saslMaskDomain : List Nat := List.range' 1 31

def saslMaskModel (m : Nat) : Nat × Nat × Bool :=
  ((saslFeature m).nec.toNat, (saslFeature m).proh.toNat, (saslFeature m).negotiable)

end XmppModel.StartTLS
