import XmppModel.Prelude.Xml
import XmppModel.Model.Jid
/-!
# The XML encodings of a JID on the token level — property C11

`MarshalXML` writes three tokens: the start element it is given, the string form as character
data, the matching end element (`encoding/xml` prints nothing for empty character data, so the
zero JID is re-read as `<j></j>`).  `MarshalXMLAttr` makes one attribute.  `UnmarshalXML`
lets `encoding/xml` collect the character data that stands **directly** inside the element
(comments and child elements are skipped, CDATA sections and text are concatenated, nothing
is trimmed) and parses exactly that string; on failure the receiver keeps its value.
`UnmarshalXMLAttr` parses the attribute value, except that an empty value is accepted and
leaves the receiver alone.
-/
namespace XmppModel.Jid
open XmppModel.Xml

def strBytes (s : String) : Bytes := s.toUTF8.data.toList
def bytesStr? (b : Bytes) : Option String := String.fromUTF8? ⟨b.toArray⟩

/-- the tokens `MarshalXML(e, start)` produces, as a decoder reads them back; `none` only if
the string form were not UTF-8 (never for an address the package returns) -/
def marshalElemToks (name : Name) (attrs : List Attr) (j : Jid) : Option (List Tok) :=
  (bytesStr? j.toString).map fun t =>
    if t = "" then [.start name attrs, .stop name] else [.start name attrs, .chars t, .stop name]

def marshalAttrTok (name : Name) (j : Jid) : Option Attr :=
  (bytesStr? j.toString).map fun t => ⟨name, t⟩

/-- the character data directly inside an element, given the tokens between its start and end
tag: `chars` tokens at nesting depth 0 concatenated, everything else skipped -/
def charDataOf : Nat → List Tok → Bytes
  | _, [] => []
  | d, .start .. :: ts => charDataOf (d + 1) ts
  | 0, .stop _ :: _ => []
  | d + 1, .stop _ :: ts => charDataOf d ts
  | 0, .chars t :: ts => strBytes t ++ charDataOf 0 ts
  | d, _ :: ts => charDataOf d ts

/-- `UnmarshalXML` on the tokens between the start and the end tag -/
def unmarshalElemToks (N : Norm) (old : Jid) (inner : List Tok) : Jid × Bool :=
  unmarshalElem N old (charDataOf 0 inner)

/-- `UnmarshalXMLAttr` -/
def unmarshalAttrTok (N : Norm) (old : Jid) (a : Attr) : Jid × Bool :=
  unmarshalAttr N old (strBytes a.value)

/-- the zero value `JID{}` -/
def zero : Jid := ⟨[], 0, 0⟩

end XmppModel.Jid
