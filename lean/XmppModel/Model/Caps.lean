import XmppModel.Prelude.Hex
/-!
# Model of `disco.Info.AppendHash` / `Info.Hash` (XEP-0115 §5.1) — property C20

`verImpl` is the byte string the Go code writes into the hash function, transcribed from
`disco/info.go` (after the `fix:` commits recorded in `KNOWN_FINDINGS.txt`):

* identities are sorted by `(category, type, lang)` and written `cat/type/lang/name<`;
* features are sorted and written `var<`;
* every form is reduced to its `FORM_TYPE` (first value of the first field whose `var` is
  `FORM_TYPE`, empty when there is none) and its other fields; those fields are sorted by
  `var`; the forms are sorted by `FORM_TYPE`; for each form `FORM_TYPE<`, then for each field
  `var<` followed by its values, sorted, each followed by `<`.

Strings are byte lists (`Bytes`): Go compares strings byte-wise, which is what `lexLe` does.
Go's `sort.Slice`/`sort.SliceStable`/`sort.Strings` are modelled by `List.mergeSort` (a
stable sort); for pairwise distinct keys every correct sort returns the same list (that is
`Props/C20.lean : C20_sort_unique`).  The hash function and base64 are parameters.
-/
namespace XmppModel.Caps

/-- byte-wise lexicographic `≤` on strings (Go's `<=` on `string`) -/
def lexLe : Bytes → Bytes → Bool
  | [], _ => true
  | _ :: _, [] => false
  | a :: as, b :: bs => a < b || (a == b && lexLe as bs)

structure Identity where
  cat : Bytes
  typ : Bytes
  lang : Bytes
  name : Bytes
  deriving DecidableEq, Repr

/-- a data-form field as `AppendHash` sees it: `FieldData.Var` and `FieldData.Raw` -/
structure Field where
  var : Bytes
  values : List Bytes
  deriving DecidableEq, Repr

structure Form where
  fields : List Field
  deriving DecidableEq, Repr

structure Info where
  ids : List Identity
  feats : List Bytes
  forms : List Form
  deriving DecidableEq, Repr

/-- the fields of an identity that can be used as sort keys -/
inductive IdSel | category | type | lang | name
  deriving DecidableEq, Repr

def IdSel.get : IdSel → Identity → Bytes
  | .category, i => i.cat | .type, i => i.typ | .lang, i => i.lang | .name, i => i.name

/-- The sort keys of `AppendHash`, in the order of comparison (regenerated from the source
as `Generated.C20.identityKeys`; `Props/C20.lean` proves them equal). -/
def identityKeys : List IdSel := [.category, .type, .lang]

/-- lexicographic `≤` on lists of strings, each compared with `lexLe` (the cascade
`if a.k1 != b.k1 { return a.k1 < b.k1 } …` of the Go comparison function) -/
def keysLe : List Bytes → List Bytes → Bool
  | [], _ => true
  | _ :: _, [] => false
  | a :: as, b :: bs => if a = b then keysLe as bs else lexLe a b

/-- the Go field names (what the fact extractor reads from the source) -/
def IdSel.goName : IdSel → String
  | .category => "Category" | .type => "Type" | .lang => "Lang" | .name => "Name"

/-- the arguments of `fmt.Fprintf(h, "%s/%s/%s/%s<", …)` in order -/
def identityArgs : List IdSel := [.category, .type, .lang, .name]

def idKey (i : Identity) : List Bytes := identityKeys.map (·.get i)

def idLe (a b : Identity) : Bool := keysLe (idKey a) (idKey b)

def lt : Bytes := [0x3c]      -- '<'
def slash : Bytes := [0x2f]   -- '/'

/-- `"FORM_TYPE"` -/
def formTypeVar : Bytes := [0x46, 0x4f, 0x52, 0x4d, 0x5f, 0x54, 0x59, 0x50, 0x45]

def renderId (i : Identity) : Bytes :=
  i.cat ++ slash ++ i.typ ++ slash ++ i.lang ++ slash ++ i.name ++ lt

def renderFeat (f : Bytes) : Bytes := f ++ lt

def sortStrings (l : List Bytes) : List Bytes := l.mergeSort lexLe

def renderField (f : Field) : Bytes :=
  f.var ++ lt ++ (sortStrings f.values).flatMap renderFeat

def fieldLe (a b : Field) : Bool := lexLe a.var b.var

/-- `vals, _ := form.Raw("FORM_TYPE"); if len(vals) > 0 { formType = vals[0] }` -/
def Form.formType (f : Form) : Bytes :=
  match f.fields.find? (fun fd => fd.var == formTypeVar) with
  | some fd =>
    match fd.values with
    | v :: _ => v
    | [] => []     -- a FORM_TYPE field without value: the empty string, as in Go
  | none => []

/-- the fields that are hashed: every field whose `var` is not `FORM_TYPE` -/
def Form.dataFields (f : Form) : List Field := f.fields.filter (fun fd => fd.var != formTypeVar)

def formLe (a b : Form) : Bool := lexLe a.formType b.formType

def renderForm (f : Form) : Bytes :=
  f.formType ++ lt ++ (f.dataFields.mergeSort fieldLe).flatMap renderField

/-- the byte string written to the hash -/
def verImpl (i : Info) : Bytes :=
  (i.ids.mergeSort idLe).flatMap renderId ++
  (sortStrings i.feats).flatMap renderFeat ++
  (i.forms.mergeSort formLe).flatMap renderForm

/-- `Info.AppendHash(dst, h)`: `hash` is `h.Write; h.Sum(nil)`, `b64` is
`base64.StdEncoding` (both parameters) -/
def appendHash (hash b64 : Bytes → Bytes) (dst : Bytes) (i : Info) : Bytes :=
  dst ++ b64 (hash (verImpl i))

/-- `Info.Hash(h)` -/
def hashStr (hash b64 : Bytes → Bytes) (i : Info) : Bytes := appendHash hash b64 [] i

/-! ## Specification level

"The same sets in another order": identities, features and forms permuted; inside a form
the fields permuted; inside a field the values permuted. -/

/-- element-wise relation between two lists of the same length -/
inductive All₂ {α β} (R : α → β → Prop) : List α → List β → Prop
  | nil : All₂ R [] []
  | cons {a b l l'} : R a b → All₂ R l l' → All₂ R (a :: l) (b :: l')

def FieldEqv (f g : Field) : Prop := f.var = g.var ∧ f.values.Perm g.values

def FormEqv (F G : Form) : Prop := ∃ l, F.fields.Perm l ∧ All₂ FieldEqv l G.fields

def InfoEqv (i j : Info) : Prop :=
  i.ids.Perm j.ids ∧ i.feats.Perm j.feats ∧ ∃ l, i.forms.Perm l ∧ All₂ FormEqv l j.forms

/-- A form whose fields are a *set* keyed by `var` and whose `FORM_TYPE` has at most one
value (XEP-0115 §5.4 3.5 declares anything else ill-formed). -/
def Form.WF (F : Form) : Prop :=
  F.fields.Pairwise (fun a b => a.var ≠ b.var) ∧
  ∀ fd ∈ F.fields, fd.var = formTypeVar → fd.values.length ≤ 1

instance (F : Form) : Decidable F.WF := by unfold Form.WF; infer_instance

/-- Identities pairwise distinct in (category, type, lang), forms pairwise distinct in
`FORM_TYPE` (XEP-0115 §5.4 3.3–3.5: duplicates make the response ill-formed; the XEP does not
order items with equal keys), every form well formed. -/
def Info.WF (i : Info) : Prop :=
  i.ids.Pairwise (fun a b => idKey a ≠ idKey b) ∧
  i.forms.Pairwise (fun a b => a.formType ≠ b.formType) ∧
  ∀ F ∈ i.forms, F.WF

instance (i : Info) : Decidable i.WF := by unfold Info.WF; infer_instance

/-- "`s` is `l` sorted by `le`" — what XEP-0115 §5.1 asks for with the word *sort*, without
fixing an algorithm. -/
def IsSort {α} (le : α → α → Bool) (l s : List α) : Prop :=
  s.Perm l ∧ s.Pairwise (fun a b => le a b = true)

/-- §5.1 step 7 for one field other than `FORM_TYPE`: the `var`, `<`, then the values
sorted, each followed by `<`. -/
def FieldSpec (fd : Field) (r : Bytes) : Prop :=
  ∃ vals, IsSort lexLe fd.values vals ∧ r = fd.var ++ lt ++ vals.flatMap renderFeat

/-- §5.1 step 7 for one form: the `FORM_TYPE` value, `<`, then the other fields sorted by
`var`, each rendered by `FieldSpec`. -/
def FormSpec (F : Form) (r : Bytes) : Prop :=
  ∃ fields rs, IsSort fieldLe F.dataFields fields ∧ All₂ FieldSpec fields rs ∧
    r = F.formType ++ lt ++ rs.flatten

/-- XEP-0115 §5.1 steps 1–7 as a relation between an info value and a verification string
(before hashing): identities sorted by category, type, lang and written
`category/type/lang/name<`; features sorted, each followed by `<`; forms sorted by
`FORM_TYPE`, each rendered by `FormSpec`. -/
def Spec (i : Info) (s : Bytes) : Prop :=
  ∃ ids feats forms rs,
    IsSort idLe i.ids ids ∧ IsSort lexLe i.feats feats ∧ IsSort formLe i.forms forms ∧
    All₂ FormSpec forms rs ∧
    s = ids.flatMap renderId ++ feats.flatMap renderFeat ++ rs.flatten


/-! ## Size: what is hashed, whatever the order (round D)

`verGiven` writes the items in the order in which they are given, nothing sorted; `Info.size`
counts every hashed string once plus one separator each.  `Props/C20.lean` proves that the
bytes of `verImpl` are a rearrangement of those of `verGiven` (sorting moves whole items, it
never drops, repeats or cuts one) and that `verImpl` has `Info.size` bytes - for **every**
info, equal keys included; the harness demands the length of what the real code hashes. -/

def renderFieldGiven (f : Field) : Bytes := f.var ++ lt ++ f.values.flatMap renderFeat

def renderFormGiven (F : Form) : Bytes := F.formType ++ lt ++ F.dataFields.flatMap renderFieldGiven

def verGiven (i : Info) : Bytes :=
  i.ids.flatMap renderId ++ i.feats.flatMap renderFeat ++ i.forms.flatMap renderFormGiven

def Identity.size (i : Identity) : Nat :=
  i.cat.length + i.typ.length + i.lang.length + i.name.length + 4

def strSize (s : Bytes) : Nat := s.length + 1

def Field.size (f : Field) : Nat := f.var.length + 1 + (f.values.map strSize).sum

def Form.size (F : Form) : Nat := F.formType.length + 1 + (F.dataFields.map Field.size).sum

def Info.size (i : Info) : Nat :=
  (i.ids.map Identity.size).sum + (i.feats.map strSize).sum + (i.forms.map Form.size).sum


/-! ## Calls on a value the caller keeps (round E)

`AppendHash` has a value receiver, but the slices inside `disco.Info` (and inside its
`form.Data` values) are shared with the caller: an implementation that sorts one of them
*where it is* changes what the caller - and every later or concurrent call - sees.
`InPlace` says which levels an implementation orders in place; `Info.after p i` is the
caller's value after one call; `calls p n i` the strings hashed by `n` successive calls on the
same value.  `implInPlace` is what the code does (regenerated fact `argumentWrites`, a probe:
the real `Hash` on unsorted two-item values, the caller's value compared before and after). -/

structure InPlace where
  ids : Bool
  feats : Bool
  forms : Bool
  fields : Bool
  values : Bool
  deriving DecidableEq, Repr

/-- nothing is ordered in place: the call is a pure function of the value -/
def InPlace.pure : InPlace := ⟨false, false, false, false, false⟩

def Field.after (p : InPlace) (f : Field) : Field :=
  if p.values then ⟨f.var, sortStrings f.values⟩ else f

def Form.after (p : InPlace) (F : Form) : Form :=
  ⟨if p.fields then (F.fields.map (Field.after p)).mergeSort fieldLe else F.fields.map (Field.after p)⟩

def Info.after (p : InPlace) (i : Info) : Info :=
  ⟨if p.ids then i.ids.mergeSort idLe else i.ids,
   if p.feats then sortStrings i.feats else i.feats,
   if p.forms then (i.forms.map (Form.after p)).mergeSort formLe else i.forms.map (Form.after p)⟩

/-- the code (after `fix: disco: Info.Hash sorted the caller's identities and features in
place`): every level is copied before it is sorted -/
def implInPlace : InPlace := InPlace.pure

/-- the strings hashed by `n` successive calls on one value kept by the caller -/
def calls (p : InPlace) : Nat → Info → List Bytes
  | 0, _ => []
  | n + 1, i => verImpl i :: calls p n (i.after p)

/-- the caller's value after `n` calls -/
def afterCalls (p : InPlace) : Nat → Info → Info
  | 0, i => i
  | n + 1, i => afterCalls p n (i.after p)

/-- the probe values of the fact `argumentWrites`, one per level, each unsorted at that level
only: two identities, two features, two forms, two fields of one form, two values of one
field, two values of a FORM_TYPE field -/
def writeProbes : List Info :=
  [⟨[⟨[0x62], [], [], []⟩, ⟨[0x61], [], [], []⟩], [], []⟩,
   ⟨[], [[0x62], [0x61]], []⟩,
   ⟨[], [], [⟨[⟨formTypeVar, [[0x62]]⟩]⟩, ⟨[⟨formTypeVar, [[0x61]]⟩]⟩]⟩,
   ⟨[], [], [⟨[⟨[0x62], [[0x31]]⟩, ⟨[0x61], [[0x31]]⟩]⟩]⟩,
   ⟨[], [], [⟨[⟨formTypeVar, [[0x74]]⟩, ⟨[0x76], [[0x62], [0x61]]⟩]⟩]⟩,
   ⟨[], [], [⟨[⟨formTypeVar, [[0x62], [0x61]]⟩]⟩]⟩]

/-- which probe values an implementation with in-place behaviour `p` leaves changed -/
def writeTable (p : InPlace) : List Bool := writeProbes.map fun i => decide (i.after p ≠ i)


/-! ## The XEP's own vocabulary (round E, review C20-3)

`Spec` shares `renderId` and `Form.formType` with `verImpl`.  These two definitions are written
from the text of XEP-0115 5.1 without looking at the code: step 2 ("category / type / lang /
name <") as an explicit intercalation, and the `FORM_TYPE` of a form as *the* value of *the*
field named `FORM_TYPE` - defined only when there is exactly one such field with exactly one
value (`none` otherwise: the XEP does not say what such a form contributes). -/

def xepIdentity (i : Identity) : Bytes :=
  ([i.cat, i.typ, i.lang, i.name].intersperse slash).flatten ++ lt

def Form.xepType (F : Form) : Option Bytes :=
  match F.fields.filter (fun fd => fd.var == formTypeVar) with
  | [fd] => match fd.values with
    | [v] => some v
    | _ => none
  | _ => none


/-! ## Operations on the forms between decoding and hashing (round F)

`Hash` reads the values of a form *as the peer sent them* (`FieldData.Raw`).  The operations
of `form.Data` an application performs on an extension form of a reply - encoding it, reading
typed values, `Set`, `Submit` (which returns a NEW form) - must leave those alone.  `writeBack`
is what an implementation does that stores the typed / normalised values in their place
(`norm f` = the values the type of `f` makes of its wire values: boolean `1` ↦ `true`, an
address re-serialised, a single-valued type cut to its first value). -/

def Form.writeBack (norm : Field → List Bytes) (F : Form) : Form :=
  ⟨F.fields.map fun f => ⟨f.var, norm f⟩⟩

def Info.afterFormOps (writes : Bool) (norm : Field → List Bytes) (i : Info) : Info :=
  if writes then { i with forms := i.forms.map (Form.writeBack norm) } else i

/-- the code: no operation of `form.Data` writes typed values over the wire values
(regenerated fact `formOpWrites`, a probe of the real operations) -/
def implFormOpsWrite : Bool := false

/-- the operations probed by the fact, in its order -/
def formOpNames : List String :=
  ["marshal", "token-reader", "read", "submit", "set-submit", "submit-marshal"]

/-- boolean fields: the lexical forms `1` / `0` become `true` / `false` -/
def normBool (f : Field) : List Bytes :=
  f.values.map fun v => if v = [0x31] then [0x74, 0x72, 0x75, 0x65] else if v = [0x30] then [0x66, 0x61, 0x6c, 0x73, 0x65] else v

/-- the kinds of hashed position of the octet probe, in the order of the fact -/
def octetKinds : List String := ["category", "type", "lang", "name", "feature", "form-type", "var", "value"]


/-- XEP-0115 5.1 step 7 for one form, in the XEP's vocabulary: the value of its `FORM_TYPE`
field (which must be defined), `<`, then every *other* field sorted by `var`, each rendered
by `FieldSpec` -/
def XepFormSpec (F : Form) (r : Bytes) : Prop :=
  ∃ t fields rs, F.xepType = some t ∧
    IsSort fieldLe (F.fields.filter fun fd => fd.var != formTypeVar) fields ∧
    All₂ FieldSpec fields rs ∧ r = t ++ lt ++ rs.flatten

/-- XEP-0115 5.1 steps 1-7 in the XEP's vocabulary (`xepIdentity`, `Form.xepType`; nothing
shared with `verImpl` but the byte order `lexLe` and the key cascade `idLe`, both tied to the
code by the probe tables): identities sorted and written `category/type/lang/name<`, features
sorted each followed by `<`, forms sorted by their `FORM_TYPE` value -/
def XepSpec (i : Info) (s : Bytes) : Prop :=
  ∃ ids feats forms rs,
    IsSort idLe i.ids ids ∧ IsSort lexLe i.feats feats ∧
    forms.Perm i.forms ∧
    forms.Pairwise (fun a b => ∃ x y, a.xepType = some x ∧ b.xepType = some y ∧ lexLe x y = true) ∧
    All₂ XepFormSpec forms rs ∧
    s = ids.flatMap xepIdentity ++ feats.flatMap (fun f => f ++ lt) ++ rs.flatten


/-! ## Probe domains (the regenerated facts of `Generated/C20.lean` are tables over them) -/

/-- for every ordered pair of distinct positions `(i, j)` of `u`: does `le u[i] u[j]` hold, i.e.
does a stable sort by `le` leave `[u[i], u[j]]` in that order? -/
def orderTable {α} (u : List α) (le : α → α → Bool) : List (Nat × Nat × Bool) :=
  u.zipIdx.flatMap fun xi => u.zipIdx.filterMap fun yj =>
    if xi.2 = yj.2 then none else some (xi.2, yj.2, le xi.1 yj.1)

/-- `""`, `"B"`, `"a"`, `"ab"`, `"b"`, `"é"`: upper before lower case (byte order, no folding),
a prefix before its extension, `"ab"` before `"b"` (not by length), non-ASCII last -/
def probeStrings : List Bytes := [[], [0x42], [0x61], [0x61, 0x62], [0x62], [0xc3, 0xa9]]

/-- all sixteen identities with category, type, lang ∈ {a, b} and name ∈ {m, n} (every order of
the cascade and the equal-key ties are told apart), then six that differ in the category only,
over `probeStrings` (round E, review C20-5: case folding, normalisation, length-first or any
other change of the *string* order inside the identity comparator shows here) -/
def probeIds : List Identity :=
  ([[0x61], [0x62]].flatMap fun c => [[0x61], [0x62]].flatMap fun t => [[0x61], [0x62]].flatMap fun l =>
    [[0x6d], [0x6e]].map fun n => ⟨c, t, l, n⟩) ++
  probeStrings.map fun c => ⟨c, [0x74], [], []⟩

/-- the form `{FORM_TYPE = s, v = [s]}` -/
def probeForm (s : Bytes) : Form := ⟨[⟨formTypeVar, [s]⟩, ⟨[0x76], [s]⟩]⟩

/-- the field `{var = s, values = [s]}` -/
def probeField (s : Bytes) : Field := ⟨s, [s]⟩

end XmppModel.Caps
