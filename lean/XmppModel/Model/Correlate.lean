/-!
# Correlated waits of `xmpp.Session` (C06) — labelled transition system

Model of `session.go`: `sendResp` (requesters) and the response branch of
`handleInputStream` (serve loop), after the repair "sendResp registers a context that is
cancelled when the call returns".

Threads
* any number of requesters `i : Nat`, each with a fixed id `cfg.ids i` and stanza kind
  `cfg.kinds i` (ids may collide: the table is keyed by id only, as in the code);
* the serve loop (one);
* the environment: the peer (any stanza sequence: unknown ids, wrong kinds, duplicates),
  the callers' contexts (cancel at any time), the outcome of the transmission.

Program counters of a requester (`RPc`)

    fresh → sending → waiting → leaving o → done o closed?
      call     sendOk     recv / timeout   dereg        close (only for o = reply k)
                sendFail ─────────────────┘

`leaving o`: the `select` (or the failed `SendElement`) has fixed the outcome, the deferred
`delete(s.sentStanzas, id)` has not run yet.  `dereg` is that delete together with the
return (and, in the repaired code, the cancellation of the registered context).

Serve loop (`SPc`): `idle` (blocked reading the peer), `offering j k` (stanza number `k`
matched requester `j` at lookup time; before or inside the hand-off `select`),
`waitClose j k` (handed over, blocked until the caller closes the response).

`cfg.derived = true` is the repaired code (the registered context is done once the call has
returned); `false` is the pinned snapshot, kept to state the negation witness.
-/
namespace XmppModel.Correlate

inductive Kind | iq | message | presence
  deriving DecidableEq, Repr, Inhabited

/-- namespace of a start element name as the lookup sees it: none (a request built without a
namespace; the encoder adds the stream's on the way out), the stream's stanza namespace
(`jabber:client` on a client stream), or the other stanza namespace -/
inductive Ns | empty | stream | other
  deriving DecidableEq, Repr, Inhabited

/-- a top-level element read by the serve loop: local name (stanza kind), namespace (never
`empty`: the decoder resolves it), id attribute and whether its type attribute is `result` or
`error` (only those are looked up; a `get`/`set`/`chat`/… stanza never consults the table) -/
structure Stanza where
  kind : Kind
  id : Nat
  resp : Bool
  ns : Ns := .stream
  bad : Bool := false    -- reading its content fails half way (malformed or truncated input, a rejected token)
  deriving DecidableEq, Repr, Inhabited

/-- `readerChan.stanzaName == start.Name || readerChan.stanzaName == xml.Name{Local: start.Name.Local}`
on the namespace part: equal, or the request carried none.  The local names must be equal in
both disjuncts (`kinds j = st.kind` in `lookup`). -/
def nsMatch (reg inc : Ns) : Bool := reg == inc || reg == .empty

inductive Outcome
  | reply (k : Nat)   -- the response handed over for peer stanza number `k`
  | ctxErr
  | sendErr
  deriving DecidableEq, Repr, Inhabited

inductive RPc
  | fresh | sending | waiting
  | leaving (o : Outcome)
  | done (o : Outcome) (closed : Bool)
  deriving DecidableEq, Repr, Inhabited

inductive SPc
  | idle
  | offering (j k : Nat)
  | waitClose (j k : Nat)
  | dead                    -- `Serve` has returned (a write it had to make failed)
  deriving DecidableEq, Repr, Inhabited

structure Cfg where
  ids : Nat → Nat
  kinds : Nat → Kind
  derived : Bool
  spaces : Nat → Ns := fun _ => .empty   -- namespace of the start element the request was sent with

structure St where
  rpc : Nat → RPc
  cancelled : Nat → Bool
  table : Nat → Option Nat
  spc : SPc
  hist : List Stanza        -- every stanza the serve loop has read, in order
  hlog : List Nat           -- numbers of the stanzas given to the handler (latest first)
  dropped : List Nat        -- responses discarded because the waiter's context was done (always empty since the round E fix)
  broken : Bool := false    -- a transmission stopped inside an element: every later write fails (`errOutputBroken`)
  outClosed : Bool := false -- the output stream was closed (`Close`): every later write fails (`ErrOutputStreamClosed`)

def upd {α} (f : Nat → α) (i : Nat) (v : α) : Nat → α := fun j => if j = i then v else f j

@[simp] theorem upd_same {α} (f : Nat → α) (i : Nat) (v : α) : upd f i v i = v := by simp [upd]
theorem upd_other {α} (f : Nat → α) {i j : Nat} (v : α) (h : j ≠ i) : upd f i v j = f j := by
  simp [upd, h]

def init : St :=
  { rpc := fun _ => .fresh, cancelled := fun _ => false, table := fun _ => none,
    spc := .idle, hist := [], hlog := [], dropped := [] }

inductive Act
  | call (i : Nat) | sendOk (i : Nat) | sendFail (i : Nat) | cancel (i : Nat)
  | recv (i : Nat) | timeout (i : Nat) | dereg (i : Nat) | close (i : Nat)
  | readErr (i : Nat)       -- the caller reads the response it holds and hits the error in its content:
                            -- the response closes itself (errCloser), the caller's own Close is then a no-op
  | read (st : Stanza) | abandon
  | closeOut                -- the application closes the output stream
  deriving DecidableEq, Repr

/-- is the context registered for requester `i` done? -/
def ctxDone (cfg : Cfg) (s : St) (i : Nat) : Bool :=
  s.cancelled i || (cfg.derived && match s.rpc i with | .done _ _ => true | _ => false)

/-- an incoming get/set IQ that no handler answers is answered by the serve loop itself: it has to
write -/
def autoReply (st : Stanza) : Bool := st.kind == .iq && !st.resp

/-- the lookup of `handleInputStream`: only `result`/`error` stanzas, entry present, name equal -/
def lookup (cfg : Cfg) (s : St) (st : Stanza) : Option Nat :=
  if st.resp then
    match s.table st.id with
    | some j => if cfg.kinds j = st.kind ∧ nsMatch (cfg.spaces j) st.ns = true then some j else none
    | none => none
  else none

def step (cfg : Cfg) (s : St) : Act → Option St
  | .call i =>
    match s.rpc i with
    | .fresh => some { s with rpc := upd s.rpc i .sending, table := upd s.table (cfg.ids i) (some i) }
    | _ => none
  | .sendOk i =>
    match s.rpc i with
    | .sending => if s.broken || s.outClosed then none else some { s with rpc := upd s.rpc i .waiting }
    | _ => none
  | .sendFail i =>
    -- on a closed output the call fails before it writes; otherwise the failure (the payload
    -- reader, the connection) happens after the start element went out and leaves it unfinished
    match s.rpc i with
    | .sending => some { s with rpc := upd s.rpc i (.leaving .sendErr), broken := s.broken || !s.outClosed }
    | _ => none
  | .cancel i => some { s with cancelled := upd s.cancelled i true }
  | .recv i =>
    match s.rpc i, s.spc with
    | .waiting, .offering j k =>
      if j = i then some { s with rpc := upd s.rpc i (.leaving (.reply k)), spc := .waitClose i k } else none
    | _, _ => none
  | .timeout i =>
    match s.rpc i with
    | .waiting => if s.cancelled i then some { s with rpc := upd s.rpc i (.leaving .ctxErr) } else none
    | _ => none
  | .dereg i =>
    match s.rpc i with
    | .leaving o => some { s with rpc := upd s.rpc i (.done o false), table := upd s.table (cfg.ids i) none }
    | _ => none
  | .close i =>
    match s.rpc i with
    | .done (.reply k) false =>
      -- the serve loop discards the rest of the element; if that cannot be read `Serve` returns the error
      let isBad := match s.hist[k]? with | some st => st.bad | none => false
      some { s with rpc := upd s.rpc i (.done (.reply k) true),
                    spc := if s.spc = .waitClose i k then (if isBad then .dead else .idle) else s.spc,
                    outClosed := s.outClosed || (isBad && s.spc == .waitClose i k) }
    | _ => none
  | .readErr i =>
    match s.rpc i with
    | .done (.reply k) false =>
      match s.hist[k]? with
      | some st =>
        if st.bad then
          some { s with rpc := upd s.rpc i (.done (.reply k) true),
                        spc := if s.spc = .waitClose i k then .dead else s.spc,
                        outClosed := s.outClosed || s.spc == .waitClose i k }
        else none
      | none => none
    | _ => none
  | .read st =>
    match s.spc with
    | .idle =>
      let k := s.hist.length
      match lookup cfg s st with
      | some j => some { s with hist := s.hist ++ [st], spc := .offering j k }
      | none =>
        -- the handler sees it; if the serve loop then has to write its own reply on an output
        -- that cannot take it, `Serve` returns that error (and closes the output)
        -- (the same when the rest of the element cannot be read: discarding it fails)
        if st.bad || (autoReply st && (s.broken || s.outClosed)) then
          some { s with hist := s.hist ++ [st], hlog := k :: s.hlog, spc := .dead, outClosed := true }
        else some { s with hist := s.hist ++ [st], hlog := k :: s.hlog }
    | _ => none
  | .abandon =>
    match s.spc with
    | .offering j k =>
      if ctxDone cfg s j then
        let isBad := match s.hist[k]? with | some st => st.bad | none => false
        -- round E (repo fix "a response whose caller stopped waiting … is passed to the handler"):
        -- nobody waits for it any more, so the handler gets it like every unmatched response
        -- (`dropped` is kept in the state; nothing is ever put into it any more)
        some { s with spc := if isBad then .dead else .idle, hlog := k :: s.hlog,
                      outClosed := s.outClosed || isBad }
      else none
    | _ => none
  | .closeOut => some { s with outClosed := true }

def run (cfg : Cfg) : St → List Act → Option St
  | s, [] => some s
  | s, a :: as => match step cfg s a with
    | some s' => run cfg s' as
    | none => none

/-- reachable states: any schedule, any length, any number of requesters -/
inductive Reach (cfg : Cfg) : St → Prop
  | init : Reach cfg init
  | step {s s' a} : Reach cfg s → step cfg s a = some s' → Reach cfg s'

/-- the response a requester holds (number of the peer stanza it was made from) -/
def RPc.held : RPc → Option Nat
  | .leaving (.reply k) => some k
  | .done (.reply k) _ => some k
  | _ => none

/-- … as long as it has not been closed -/
def RPc.heldOpen : RPc → Option Nat
  | .leaving (.reply k) => some k
  | .done (.reply k) false => some k
  | _ => none

/-- requester `i` holds the response made from peer stanza `k` -/
def holds (s : St) (i k : Nat) : Prop :=
  s.rpc i = .leaving (.reply k) ∨ ∃ c, s.rpc i = .done (.reply k) c

/-- … and has not closed it yet -/
def holdsOpen (s : St) (i k : Nat) : Prop :=
  s.rpc i = .leaving (.reply k) ∨ s.rpc i = .done (.reply k) false

/-- the stanza matches what requester `i` registered -/
def matchesReq (cfg : Cfg) (i : Nat) (st : Stanza) : Prop :=
  st.resp = true ∧ st.id = cfg.ids i ∧ st.kind = cfg.kinds i ∧ nsMatch (cfg.spaces i) st.ns = true

/-! ### the receipts helper (`receipts.Handler`), repaired code

`sent : id ↦ chan` (buffered, capacity 1).  Handler (`HandleMessage`, `received` branch,
runs on the serve goroutine): lookup + delete under the mutex, then a send that can never
block because the entry — the only way to reach the channel — was removed before.  Waiter
(`SendMessageElement`): register, transmit, then `select` on the channel and the context;
on cancellation or transmission failure it removes its entry (no `close`). -/
namespace Receipts

inductive WPc
  | fresh | sending | waiting
  | done (ok : Bool)            -- `true`: receipt seen; `false`: context / transmission error
  deriving DecidableEq, Repr, Inhabited

structure RSt where
  wpc : Nat → WPc
  cancelled : Nat → Bool
  table : Nat → Option Nat     -- id ↦ waiter
  buf : Nat → Nat              -- tokens in waiter `i`'s channel
  hpc : Option Nat             -- handler between its delete and its send to waiter `j`
  unhandled : List Nat         -- ids reported through `Unhandled`
  overflow : Bool              -- a send found the buffer full (would block the serve loop)
  broken : Bool := false       -- a transmission failed inside its element: later transmissions fail at once

inductive RAct
  | call (i : Nat) | sendOk (i : Nat) | sendFail (i : Nat) | cancel (i : Nat)
  | take (i : Nat) | timeout (i : Nat)
  | receipt (id : Nat)         -- handler: lookup + delete under the mutex
  | deliver                    -- handler: the channel send
  deriving DecidableEq, Repr

def rinit : RSt :=
  { wpc := fun _ => .fresh, cancelled := fun _ => false, table := fun _ => none,
    buf := fun _ => 0, hpc := none, unhandled := [], overflow := false }

def rstep (ids : Nat → Nat) (s : RSt) : RAct → Option RSt
  | .call i => match s.wpc i with
    | .fresh => some { s with wpc := upd s.wpc i .sending, table := upd s.table (ids i) (some i) }
    | _ => none
  | .sendOk i => match s.wpc i with
    | .sending => if s.broken then none else some { s with wpc := upd s.wpc i .waiting }
    | _ => none
  | .sendFail i => match s.wpc i with
    | .sending => some { s with wpc := upd s.wpc i (.done false),
                                table := upd s.table (ids i) none, broken := true }
    | _ => none
  | .cancel i => some { s with cancelled := upd s.cancelled i true }
  | .take i => match s.wpc i with
    | .waiting => if 0 < s.buf i then some { s with wpc := upd s.wpc i (.done true), buf := upd s.buf i (s.buf i - 1) } else none
    | _ => none
  | .timeout i => match s.wpc i with
    | .waiting => if s.cancelled i then
        some { s with wpc := upd s.wpc i (.done false),
                      table := upd s.table (ids i) none }
      else none
    | _ => none
  | .receipt id => match s.hpc with
    | some _ => none
    | none => match s.table id with
      | some j => some { s with table := upd s.table id none, hpc := some j }
      | none => some { s with unhandled := id :: s.unhandled }
  | .deliver => match s.hpc with
    | some j => some { s with hpc := none, buf := upd s.buf j (s.buf j + 1),
                              overflow := s.overflow || decide (1 ≤ s.buf j) }
    | none => none

inductive RReach (ids : Nat → Nat) : RSt → Prop
  | init : RReach ids rinit
  | step {s s' a} : RReach ids s → rstep ids s a = some s' → RReach ids s'

def rrun (ids : Nat → Nat) : RSt → List RAct → Option RSt
  | s, [] => some s
  | s, a :: as => match rstep ids s a with
    | some s' => rrun ids s' as
    | none => none

end Receipts

end XmppModel.Correlate
