import XmppModel.Prelude.Hex
/-!
# Stream header printing and a start-tag reader (property C12)

`printHeader` is `internal/stream.Send`: the header is printed with format strings, the
values that are not under the library's control (`id`, `to`, `from`, `xml:lang`) go through
`xml.EscapeText` (`escapeText`).

`readHeader` is a minimal XML start-tag reader: an optional XML declaration, `<name`, then
attributes `name='value'` / `name="value"` with the five predefined entities and numeric
character references, then `>` or `/>`; element and attribute names are resolved the way
`encoding/xml` reports them (`xmlns`, `xmlns:p`, the reserved `xml` prefix, the default
namespace for the element only).  It is what "a peer parsing the header" means in the
round-trip theorem, and it is compared with `encoding/xml` on every header the library
emits during a run.

Everything works on `List Char` (Unicode code points); UTF-8 is outside the model.
-/
namespace XmppModel.Header

abbrev Str := List Char

/-! name and value constants (kept as definitions so that proofs can treat them as atoms) -/
def kId : Str := "id".toList
def kTo : Str := "to".toList
def kFrom : Str := "from".toList
def kXmlLang : Str := "xml:lang".toList
def kXmlnsStream : Str := "xmlns:stream".toList
def kXmlnsColon : Str := "xmlns:".toList
def kXmlns : Str := "xmlns".toList
def kVersion : Str := "version".toList
def kStreamStream : Str := "stream:stream".toList
def kOpen : Str := "open".toList
def kOneZero : Str := "1.0".toList
def kXml : Str := "xml".toList
def kStream : Str := "stream".toList
def kLang : Str := "lang".toList
def kSlashGt : Str := "/>".toList
def kGt : Str := ">".toList

/-- `isInCharacterRange` of `encoding/xml` -/
def xmlChar (c : Char) : Bool :=
  let n := c.toNat
  n == 0x09 || n == 0x0A || n == 0x0D || (0x20 ≤ n && n ≤ 0xD7FF) ||
  (0xE000 ≤ n && n ≤ 0xFFFD) || (0x10000 ≤ n && n ≤ 0x10FFFF)

/-- what `xml.EscapeText` writes for one code point -/
def escChar (c : Char) : Str :=
  if c = '"' then "&#34;".toList
  else if c = '\'' then "&#39;".toList
  else if c = '&' then "&amp;".toList
  else if c = '<' then "&lt;".toList
  else if c = '>' then "&gt;".toList
  else if c = '\t' then "&#x9;".toList
  else if c = '\n' then "&#xA;".toList
  else if c = '\r' then "&#xD;".toList
  else if xmlChar c then [c]
  else ['�']

def escapeText (s : Str) : Str := s.flatMap escChar

/-- what a reader gets back for one code point: itself, or U+FFFD if it is not an XML
character -/
def fixChar (c : Char) : Char := if xmlChar c then c else '�'

/-! ## printing -/

structure HdrArgs where
  ws : Bool
  s2s : Bool
  id : Str
  to : Str
  src : Str     -- the `from` attribute
  lang : Str
  deriving DecidableEq, Repr

def nsClient : Str := "jabber:client".toList
def nsServer : Str := "jabber:server".toList
def nsStream : Str := "http://etherx.jabber.org/streams".toList
def nsFraming : Str := "urn:ietf:params:xml:ns:xmpp-framing".toList
def nsXML : Str := "http://www.w3.org/XML/1998/namespace".toList
def xmlDecl : Str := "<?xml version=\"1.0\" encoding=\"UTF-8\"?>".toList

def contentNS (s2s : Bool) : Str := if s2s then nsServer else nsClient

/-- ` name=<q>value<q>` with the value printed as it is -/
def printRaw (name : Str) (q : Char) (v : Str) : Str := ' ' :: (name ++ '=' :: q :: (v ++ [q]))

/-- ` name='escaped value'`, nothing when the value is empty -/
def printOpt (name : Str) (v : Str) : Str :=
  if v = [] then [] else printRaw name '\'' (escapeText v)

/-- the attributes that are not under the library's control -/
def printOpts (a : HdrArgs) : Str :=
  printOpt kId a.id ++ (printOpt kTo a.to ++ (printOpt kFrom a.src ++
    printOpt kXmlLang a.lang))

/-- `internal/stream.Send` (version is always `stream.DefaultVersion`): the format strings
`<open xmlns="urn:ietf:params:xml:ns:xmpp-framing" version='%s'` and
`<?xml …?><stream:stream xmlns='%s' xmlns:stream='http://etherx.jabber.org/streams' version='%s'`
followed by the optional attributes and `/>` or `>` -/
def printHeader (a : HdrArgs) : Str :=
  if a.ws then
    '<' :: (kOpen ++ (printRaw kXmlns '"' nsFraming ++
      (printRaw kVersion '\'' kOneZero ++ (printOpts a ++ kSlashGt))))
  else
    xmlDecl ++ '<' :: (kStreamStream ++ (printRaw kXmlns '\'' (contentNS a.s2s) ++
      (printRaw kXmlnsStream '\'' nsStream ++
        (printRaw kVersion '\'' kOneZero ++ (printOpts a ++ kGt)))))

/-! ## reading -/

def hexVal? (c : Char) : Option Nat :=
  if '0' ≤ c ∧ c ≤ '9' then some (c.toNat - 48)
  else if 'a' ≤ c ∧ c ≤ 'f' then some (c.toNat - 87)
  else if 'A' ≤ c ∧ c ≤ 'F' then some (c.toNat - 55)
  else none

def decVal? (c : Char) : Option Nat :=
  if '0' ≤ c ∧ c ≤ '9' then some (c.toNat - 48) else none

def numOf (base : Nat) (dig : Char → Option Nat) : Str → Option Nat
  | [] => none
  | cs => cs.foldl (fun acc c => match acc, dig c with
      | some n, some d => some (n * base + d)
      | _, _ => none) (some 0)

/-- the character an entity (the text between `&` and `;`) stands for -/
def decodeEntity (e : Str) : Option Char :=
  if e = "lt".toList then some '<'
  else if e = "gt".toList then some '>'
  else if e = "amp".toList then some '&'
  else if e = "apos".toList then some '\''
  else if e = "quot".toList then some '"'
  else match e with
    | '#' :: 'x' :: ds => (numOf 16 hexVal? ds).bind fun n =>
        if n < 0x110000 ∧ xmlChar (Char.ofNat n) then some (Char.ofNat n) else none
    | '#' :: ds => (numOf 10 decVal? ds).bind fun n =>
        if n < 0x110000 ∧ xmlChar (Char.ofNat n) then some (Char.ofNat n) else none
    | _ => none

/-- reader state inside an attribute value: the text so far, the entity being read, and
whether the previous raw character was a carriage return -/
structure VS where
  acc : Str := []
  ent : Option Str := none
  prevCR : Bool := false
  deriving DecidableEq, Repr

/-- an attribute value up to the closing quote `q`, one code point per step;
returns the value and what follows the quote.  As in `encoding/xml`, a raw carriage return
is read as a line feed and a line feed that directly follows a raw carriage return is
dropped (`\r\n` and `\r` become `\n`); character references are not touched by this. -/
def readValue (q : Char) : Str → VS → Option (Str × Str)
  | [], _ => none
  | c :: cs, st =>
    match st.ent with
    | none =>
      if c = q then some (st.acc, cs)
      else if c = '&' then readValue q cs { st with ent := some [], prevCR := false }
      else if c = '<' then none
      else if c = '\r' then readValue q cs { st with acc := st.acc ++ ['\n'], prevCR := true }
      else if c = '\n' ∧ st.prevCR = true then readValue q cs { st with prevCR := false }
      else if xmlChar c then readValue q cs { st with acc := st.acc ++ [c], prevCR := false }
      else none
    | some e =>
      if c = ';' then
        match decodeEntity e with
        | some d => readValue q cs { acc := st.acc ++ [d], ent := none, prevCR := false }
        | none => none
      else if e.length ≥ 8 then none
      else readValue q cs { st with ent := some (e ++ [c]) }

/-- what a reader makes of raw text with respect to line ends: `\r\n` and `\r` become `\n`
(`prev`: the previous raw character was a carriage return) -/
def normCR : Bool → Str → Str
  | _, [] => []
  | prev, c :: cs =>
    if c = '\r' then '\n' :: normCR true cs
    else if c = '\n' ∧ prev = true then normCR false cs
    else c :: normCR false cs

def isSpace (c : Char) : Bool := c = ' ' || c = '\t' || c = '\n' || c = '\r'

def isNameChar (c : Char) : Bool :=
  !(isSpace c || c = '=' || c = '>' || c = '/' || c = '<' || c = '\'' || c = '"' || c = '&')

structure RawTag where
  name : Str
  attrs : List (Str × Str)
  selfClosing : Bool
  deriving DecidableEq, Repr

/-- an attribute must be followed by white space or the end of the tag -/
def followOK (s : Str) : Bool :=
  match s with
  | c :: _ => isSpace c || c = '>' || c = '/'
  | [] => false

/-- attributes up to `>` / `/>`; `fuel` bounds the number of attributes -/
def readAttrs : Nat → Str → Option (List (Str × Str) × Bool)
  | 0, _ => none
  | fuel + 1, s =>
    if (s.dropWhile isSpace).head? = some '>' then some ([], false)
    else if (s.dropWhile isSpace).take 2 = ['/', '>'] then some ([], true)
    else if (s.dropWhile isSpace).takeWhile isNameChar = [] then none
    else
      match ((s.dropWhile isSpace).dropWhile isNameChar) with
      | '=' :: q :: s2 =>
        if q = '\'' ∨ q = '"' then
          match readValue q s2 {} with
          | some (v, s3) =>
            if followOK s3 then
              (readAttrs fuel s3).map fun r => (((s.dropWhile isSpace).takeWhile isNameChar, v) :: r.1, r.2)
            else none
          | none => none
        else none
      | _ => none

/-- drop `prefix` from the front of `s` -/
def stripPrefix (pre : Str) (s : Str) : Option Str :=
  if pre.isPrefixOf s then some (s.drop pre.length) else none

/-- what follows the first `?>` -/
def afterDeclEnd : Str → Str
  | [] => []
  | c :: r => if c = '?' ∧ r.head? = some '>' then r.drop 1 else afterDeclEnd r

/-- skip an XML declaration `<?xml … ?>` if the input starts with one -/
def skipDecl (s : Str) : Str :=
  match s with
  | '<' :: '?' :: 'x' :: 'm' :: 'l' :: rest => afterDeclEnd rest
  | _ => s

def readTag (s : Str) : Option RawTag :=
  match (skipDecl s).dropWhile isSpace with
  | '<' :: s1 =>
    if s1.takeWhile isNameChar = [] then none
    else (readAttrs ((s1.dropWhile isNameChar).length + 1) (s1.dropWhile isNameChar)).map fun r =>
      ⟨s1.takeWhile isNameChar, r.1, r.2⟩
  | _ => none

/-! ## namespace resolution (the names `encoding/xml` reports) -/

structure QName where
  space : Str
  loc : Str
  deriving DecidableEq, Repr

structure Start where
  name : QName
  attrs : List (QName × Str)
  deriving DecidableEq, Repr

def splitName (n : Str) : Str × Str :=
  match n.span (· ≠ ':') with
  | (p, ':' :: l) => if p = [] ∨ l = [] then ([], n) else (p, l)
  | _ => ([], n)

def lookupNS (attrs : List (Str × Str)) (pfx : Str) : Option Str :=
  (attrs.find? fun a => a.1 = kXmlnsColon ++ pfx).map (·.2)

def defaultNS (attrs : List (Str × Str)) : Str :=
  ((attrs.find? fun a => a.1 = kXmlns).map (·.2)).getD []

/-- `Decoder.translate` for the element name of a start tag at the top of a document -/
def resolveElem (attrs : List (Str × Str)) (name : Str) : QName :=
  if (splitName name).1 = [] then ⟨defaultNS attrs, (splitName name).2⟩
  else if (splitName name).1 = kXml then ⟨nsXML, (splitName name).2⟩
  else match lookupNS attrs (splitName name).1 with
    | some u => ⟨u, (splitName name).2⟩
    | none => ⟨(splitName name).1, (splitName name).2⟩

/-- `Decoder.translate` for an attribute name -/
def resolveAttr (attrs : List (Str × Str)) (a : Str × Str) : QName × Str :=
  if (splitName a.1).1 = [] then (⟨[], (splitName a.1).2⟩, a.2)
  else if (splitName a.1).1 = kXmlns then (⟨kXmlns, (splitName a.1).2⟩, a.2)
  else if (splitName a.1).1 = kXml then (⟨nsXML, (splitName a.1).2⟩, a.2)
  else match lookupNS attrs (splitName a.1).1 with
    | some u => (⟨u, (splitName a.1).2⟩, a.2)
    | none => (⟨(splitName a.1).1, (splitName a.1).2⟩, a.2)

def resolve (t : RawTag) : Start :=
  ⟨resolveElem t.attrs t.name, t.attrs.map (resolveAttr t.attrs)⟩

def readHeader (s : Str) : Option Start := (readTag s).map resolve

/-! ## what the arguments say the header is -/

def optAttr (space loc : Str) (v : Str) : List (QName × Str) :=
  if v = [] then [] else [(⟨space, loc⟩, v.map fixChar)]

/-- the start element a parser must see for these arguments -/
def expected (a : HdrArgs) : Start :=
  if a.ws then
    ⟨⟨nsFraming, kOpen⟩,
      [(⟨[], kXmlns⟩, nsFraming), (⟨[], kVersion⟩, kOneZero)] ++
      optAttr [] kId a.id ++ optAttr [] kTo a.to ++ optAttr [] kFrom a.src ++
      optAttr nsXML kLang a.lang⟩
  else
    ⟨⟨nsStream, kStream⟩,
      [(⟨[], kXmlns⟩, contentNS a.s2s), (⟨kXmlns, kStream⟩, nsStream),
       (⟨[], kVersion⟩, kOneZero)] ++
      optAttr [] kId a.id ++ optAttr [] kTo a.to ++ optAttr [] kFrom a.src ++
      optAttr nsXML kLang a.lang⟩

/-- same element, attributes compared as a set (attribute order is not significant) -/
def sameStart (x y : Start) : Bool :=
  x.name == y.name && x.attrs.length == y.attrs.length &&
  x.attrs.all (fun a => y.attrs.contains a) && y.attrs.all (fun a => x.attrs.contains a)

end XmppModel.Header
