/-!
# The transport below the encoder (round D)

`conn.Write` (conn.go) sits between the XML encoder's buffered writer and the transport the
session was given.  A transport answers a `Write(b)` with `(n, err)`: it has accepted the first
`n` bytes.  The layer's duty (io.Writer): the bytes the transport accepted during one call are
exactly `b.take nReported` - each byte once, in order.  Then, whatever the transport does,
the wire is a prefix of what the encoder flushed, and all of it if nothing was reported.
-/
namespace XmppModel.Transport

inductive ErrKind | temp | timeout | perm
  deriving DecidableEq, Repr

/-- the transport's answer to one `Write`: it accepts `min n len` bytes and returns `err` -/
structure Resp where
  n : Nat
  err : Option ErrKind
  deriving DecidableEq, Repr

/-- result of one `Write` of the layer: bytes that reached the wire, reported count, reported
error, answers the transport has left -/
abbrev Res (α : Type) := List α × Nat × Option ErrKind × List Resp

/-- `conn.Write` as the code has it: ONE attempt, the transport's answer handed up
(a transport without scripted answers left accepts everything) -/
def writeOnce {α : Type} (script : List Resp) (b : List α) : Res α :=
  match script with
  | [] => (b, b.length, none, [])
  | r :: rest => (b.take r.n, min r.n b.length, r.err, rest)

def retryable : Option ErrKind → Bool
  | some .temp => true
  | _ => false

/-- a retry that submits the WHOLE buffer again and reports the last attempt's count (not what
the code does: see `retry_all_duplicates`) -/
def writeRetryAll {α : Type} : Nat → List Resp → List α → Res α
  | 0, s, b => writeOnce s b
  | t + 1, s, b =>
    let r := writeOnce s b
    if retryable r.2.2.1 then
      let r2 := writeRetryAll t r.2.2.2 b
      (r.1 ++ r2.1, r2.2.1, r2.2.2.1, r2.2.2.2)
    else r

/-- a retry that submits what was NOT accepted and reports the sum (as good as giving up) -/
def writeRetryRest {α : Type} : Nat → List Resp → List α → Res α
  | 0, s, b => writeOnce s b
  | t + 1, s, b =>
    let r := writeOnce s b
    if retryable r.2.2.1 then
      let r2 := writeRetryRest t r.2.2.2 (b.drop r.2.1)
      (r.1 ++ r2.1, r.2.1 + r2.2.1, r2.2.2.1, r2.2.2.2)
    else r

/-- the duty of the layer for one call -/
def Exact {α : Type} (write : List Resp → List α → Res α) : Prop :=
  ∀ s b, (write s b).1 = b.take (write s b).2.1

/-- the encoder's buffered writer handing its chunks down; after the first reported error or
short count nothing more is handed down (`bufio.Writer`: the error is sticky) -/
def flushChunks {α : Type} (write : List Resp → List α → Res α) : List Resp → List (List α) → List α × Bool
  | _, [] => ([], true)
  | s, c :: cs =>
    let r := write s c
    if r.2.2.1.isSome || r.2.1 < c.length then (r.1, false)
    else
      let rest := flushChunks write r.2.2.2 cs
      (r.1 ++ rest.1, rest.2)

/-! ### the relation the differential run is judged by (counts; the bytes are the oracle's) -/

/-- does the scripted answer `(n, kind)` to write number `at` amount to a fault -/
def fired (chunks : List Nat) (at_ n : Nat) (kind : String) : Bool :=
  match chunks[at_]? with
  | none => false
  | some c => kind != "short" || n < c

/-- observed: status of the call, bytes the transport accepted during it, status of the next
call.  Admissible for a layer that hands every byte on once: success ⇒ everything is out;
failure ⇒ only because the transport reported one, and not more than everything; the next call
succeeds only on a stream that is not inside an element -/
def admissibleObs (chunks : List Nat) (at_ n : Nat) (kind status : String) (accepted : Nat) (next : String) : Bool :=
  let total := chunks.sum
  (if status == "ok" then accepted == total else fired chunks at_ n kind && accepted ≤ total)
  && (next != "ok" || status == "ok" || accepted == 0)
  && (fired chunks at_ n kind || (status == "ok" && next == "ok"))

def errOf (kind : String) : Option ErrKind :=
  if kind == "temp" then some .temp else if kind == "timeout" then some .timeout
  else if kind == "perm" then some .perm else none

/-- the script the harness plays: everything accepted up to write `at`, then `(n, kind)` -/
def scriptOf (chunks : List Nat) (at_ n : Nat) (kind : String) : List Resp :=
  (chunks.take at_).map (fun c => ⟨c, none⟩) ++ [⟨n, errOf kind⟩]

/-- what the model of the code shows on that script: (status, accepted) -/
def modelObs (chunks : List Nat) (at_ n : Nat) (kind : String) : String × Nat :=
  let r := flushChunks writeOnce (scriptOf chunks at_ n kind) (chunks.map fun c => List.replicate c ())
  (if r.2 then "ok" else "err", r.1.length)

end XmppModel.Transport
