/-!
# Labelled transition system of concurrent transmit calls — property C05 (atomicity)

Any number of calls (indexed by `Nat`, no bound) share one output.  Call `i` wants to put the
block `job i` on the wire (the sequential model's output for that call, item by item: tokens or
bytes, the type is a parameter).  Every transmit entry point of `session.go` has the shape

    s.out.Lock(); defer s.out.Unlock(); write item 1; …; write item k; flush

(`TokenWriter` hands the held lock to the caller, who may do anything else between two writes:
other calls cannot move while it holds the lock, so those actions are not steps of this system).
`step s i` is the next action of call `i`, `none` when it is blocked or finished.  A schedule is
any list of call indices.

`locks i = false` describes a call that does *not* take the lock (what a transmit path without
`s.out.Lock()` would be); the atomicity theorem is about systems where every call locks, and the
negation witness in `Props/C05.lean` shows it fails as soon as one does not.
-/
namespace XmppModel.SendLts

inductive Pc
  | idle
  | holding (pos : Nat)
  | done
  deriving DecidableEq, Repr

structure St (α : Type) where
  wire : List α
  lock : Option Nat
  pc : Nat → Pc
  /-- completed calls, oldest first -/
  finished : List Nat

def init (α : Type) : St α := { wire := [], lock := none, pc := fun _ => .idle, finished := [] }

def setPc (pc : Nat → Pc) (i : Nat) (v : Pc) : Nat → Pc := fun j => if j = i then v else pc j

/-- one action of call `i` -/
def step {α : Type} (job : Nat → List α) (locks : Nat → Bool) (s : St α) (i : Nat) : Option (St α) :=
  match s.pc i with
  | .idle =>
    if locks i then
      match s.lock with
      | none => some { s with lock := some i, pc := setPc s.pc i (.holding 0) }
      | some _ => none
    else some { s with pc := setPc s.pc i (.holding 0) }
  | .holding k =>
    match (job i)[k]? with
    | some x => some { s with wire := s.wire ++ [x], pc := setPc s.pc i (.holding (k + 1)) }
    | none =>
      some { s with lock := if locks i then none else s.lock, pc := setPc s.pc i .done,
                    finished := s.finished ++ [i] }
  | .done => none

/-- run a schedule; steps of blocked or finished calls are skipped (the scheduler may pick
them, nothing happens) -/
def run {α : Type} (job : Nat → List α) (locks : Nat → Bool) (s : St α) : List Nat → St α
  | [] => s
  | i :: is =>
    match step job locks s i with
    | some s' => run job locks s' is
    | none => run job locks s is

/-- the part of the wire written by the call that currently holds the lock -/
def open_ {α : Type} (job : Nat → List α) (s : St α) : List α :=
  match s.lock with
  | none => []
  | some i => match s.pc i with
    | .holding k => (job i).take k
    | _ => []

/-- the invariant: the wire is the concatenation of the complete blocks of the finished calls
(in completion order) followed by the prefix written so far by the lock holder; only the
holder is inside its critical section -/
structure Inv {α : Type} (job : Nat → List α) (s : St α) : Prop where
  wire_eq : s.wire = s.finished.flatMap job ++ open_ job s
  holder : ∀ i k, s.pc i = .holding k → s.lock = some i
  held : ∀ i, s.lock = some i → ∃ k, s.pc i = .holding k
  fin_done : ∀ i, i ∈ s.finished ↔ s.pc i = .done
  nodup : s.finished.Nodup

end XmppModel.SendLts
