/-!
# The field loop of the SCRAM client in mellium.im/sasl v0.3.2 (known finding of C09)

`scramClientNext` parses the server-first message with

    remain := challenge
    for {
        field, remain = nextParam(remain)            // split at the next ','
        if len(field) < 3 || field[1] != '=' { continue }
        switch field[0] { 'i': Atoi … return on error; 's': base64 … return on error;
                          'r': …; 'm': return error }
        if remain == nil { break }
    }

The `continue` skips the `remain == nil` exit, and `nextParam(nil)` returns `(nil, nil)`
again: a message whose *last* field is malformed never leaves the loop.  This is dependency
code (it cannot be repaired in mellium/xmpp); the model describes it as it is, so that the
driver predicts the observed stall, and the property theorem is stated for the inputs on
which the loop terminates (`Props/C09.lean`).
-/
namespace XmppModel.ScramLoop

abbrev Bytes := List UInt8

/-- the fields `nextParam` yields one after the other (always at least one) -/
def fields : Bytes → List Bytes
  | [] => [[]]
  | b :: bs =>
    if b == 44 then [] :: fields bs
    else match fields bs with
      | f :: fs => (b :: f) :: fs
      | [] => [[b]]

def malformed (f : Bytes) : Bool :=
  match f with
  | _ :: e :: _ :: _ => e != 61
  | _ => true

def isDigit (b : UInt8) : Bool := 48 ≤ b && b ≤ 57

/-- `strconv.Atoi` succeeds (sign, at least one digit, at most 18 digits — longer numbers
overflow or are rejected; the model is conservative and calls them failures) -/
def atoiOk (v : Bytes) : Bool :=
  let v := (v.reverse.dropWhile (· == 0)).reverse
  let d := match v with
    | 43 :: r => r
    | 45 :: r => r
    | r => r
  !d.isEmpty && d.all isDigit && d.length ≤ 18

def b64Char (b : UInt8) : Bool :=
  (65 ≤ b && b ≤ 90) || (97 ≤ b && b ≤ 122) || isDigit b || b == 43 || b == 47

/-- `base64.StdEncoding.Decode` succeeds: newlines ignored, length a multiple of four, at most
two `=` and only at the very end -/
def b64Ok (v : Bytes) : Bool :=
  let v := v.filter fun b => b != 10 && b != 13
  let body := (v.reverse.dropWhile (· == 61)).reverse
  let pad := v.length - body.length
  v.length % 4 == 0 && pad ≤ 2 && body.all b64Char && (body.length + pad) % 4 == 0 &&
    !(pad > 0 && body.length % 4 == 0) && body.length % 4 != 1

/-- a well-formed field that makes `scramClientNext` return at once -/
def earlyReturn (f : Bytes) : Bool :=
  match f with
  | 109 :: _ => true                         -- m=
  | 105 :: _ :: v => !atoiOk v               -- i=
  | 115 :: _ :: v => !b64Ok v                -- s=
  | _ => false

inductive Verdict
  | returns | loops
  deriving DecidableEq, Repr

/-- does the field loop terminate on these fields? -/
def run : List Bytes → Verdict
  | [] => .returns
  | [f] => if malformed f then .loops else .returns
  | f :: rest => if malformed f then run rest else if earlyReturn f then .returns else run rest

def serverFirst (msg : Bytes) : Verdict := run (fields msg)

end XmppModel.ScramLoop
