import XmppModel.Prelude.Xml
import XmppModel.Model.Encoder
/-!
# Value forms (round D): from the value given to `Encode` / `EncodeElement` to the tokens
handed to the session's encoder (`internal/marshal`: `EncodeXML`, `EncodeXMLElement`,
`valueReader`, `rawTokenReader`, `resolvedTokenReader`).

A value may offer any subset of four encoding methods (`Caps`); `dispatch` is the order in
which the code asks for them.  Values that make their own tokens (`WriteXML`, `TokenReader()`,
`Token()`) have them passed on as they are.  Everything else is *printed* by `encoding/xml`
(`MarshalXML` or reflection) and read back; the bytes are an XML document of their own, so the
names are read back **resolved** against that document (`Encoder.resolve [""]`: the parser's
namespace resolution, namespace declarations dropped).  Reading them back *raw* would hand on
prefixes in the place of namespaces (`rawBack`).
-/
namespace XmppModel.ValueForms
open XmppModel XmppModel.Xml XmppModel.Encoder

/-- which encoding methods a value has -/
structure Caps where
  writerTo : Bool      -- xmlstream.WriterTo   (WriteXML)
  marshaler : Bool     -- xmlstream.Marshaler  (TokenReader())
  tokenReader : Bool   -- xml.TokenReader      (Token())
  xmlMarshaler : Bool  -- xml.Marshaler        (MarshalXML)
  deriving DecidableEq, Repr

/-- where the tokens come from -/
inductive Source | writeXML | marshalerToks | readerToks | marshalXML | reflection
  deriving DecidableEq, Repr

/-- one letter per source, as the probe reports it -/
def Source.letter : Source → String
  | .writeXML => "w" | .marshalerToks => "m" | .readerToks => "r" | .marshalXML => "x" | .reflection => "p"

/-- the order of `EncodeXML` / `valueReader` / `tokenDecoder` -/
def dispatch (c : Caps) : Source :=
  if c.writerTo then .writeXML
  else if c.marshaler then .marshalerToks
  else if c.tokenReader then .readerToks
  else if c.xmlMarshaler then .marshalXML
  else .reflection

/-- a value is encoded by one of the methods it offers; by reflection only if it offers none
(the property does not say which one when a value offers several) -/
def admissible (c : Caps) : Source → Bool
  | .writeXML => c.writerTo
  | .marshalerToks => c.marshaler
  | .readerToks => c.tokenReader
  | .marshalXML => c.xmlMarshaler
  | .reflection => !(c.writerTo || c.marshaler || c.tokenReader || c.xmlMarshaler)

def Caps.ofBits (w m r x : Bool) : Caps := ⟨w, m, r, x⟩

def allCaps : List Caps :=
  [false, true].flatMap fun w => [false, true].flatMap fun m => [false, true].flatMap fun r =>
    [false, true].map fun x => ⟨w, m, r, x⟩

def Caps.code (c : Caps) : String :=
  (if c.writerTo then "w" else "-") ++ (if c.marshaler then "m" else "-") ++
  (if c.tokenReader then "r" else "-") ++ (if c.xmlMarshaler then "x" else "-")

/-- is the value printed by `encoding/xml` and read back -/
def Source.printed : Source → Bool
  | .marshalXML | .reflection => true
  | _ => false

/-- the tokens handed to the session's encoder for a value whose own tokens / whose printed
document's tokens (in any spelling) are `ts` -/
def handed (src : Source) (ts : List Tok) : List Tok :=
  if src.printed then resolve [""] ts else ts

/-- the form names of the harness's lines -/
def sourceOfForm (form : String) : Source :=
  if form == "writerto" then .writeXML
  else if form == "marshaler" then .marshalerToks
  else if form == "xmlm" || form == "xmlmp" || form == "wrapm" then .marshalXML
  else if form.startsWith "struct" then .reflection
  else .readerToks

/-! ### what reading the printed bytes back RAW would hand on (not what the code does) -/

/-- the prefix `encoding/xml` prints for an attribute namespace (`xml` for the XML namespace,
else something derived from the URL: a parameter) -/
def attrPrefix (pfx : String → String) (space : String) : String :=
  if space == "http://www.w3.org/XML/1998/namespace" then "xml" else pfx space

/-- a printed start element read with `RawToken`: the attribute's *prefix* sits where the
namespace belongs (and the declaration `xmlns:prefix` is one more attribute) -/
def rawBackAttrs (pfx : String → String) : List Attr → List Attr
  | [] => []
  | a :: as =>
    if a.name.space == "" then a :: rawBackAttrs pfx as
    else if a.name.space == "http://www.w3.org/XML/1998/namespace" then
      ⟨⟨"xml", a.name.loc⟩, a.value⟩ :: rawBackAttrs pfx as
    else ⟨⟨"xmlns", pfx a.name.space⟩, a.name.space⟩ :: ⟨⟨pfx a.name.space, a.name.loc⟩, a.value⟩ :: rawBackAttrs pfx as

end XmppModel.ValueForms
