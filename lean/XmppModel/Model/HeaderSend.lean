import XmppModel.Model.Header
/-!
# `internal/stream.Send` as a sequence of calls (property C12, round D)

`Send` assembles the header in a buffer and hands the buffer to the connection with one write
(`bufio.NewWriter(rw)` … `Flush`).  A *history* is a list of calls, each with its arguments and
with whether the connection takes the write.  `scratch` is what the buffer holds when a call
begins.  `perCall = true` is the code: the buffer is made by the call, so it is empty whatever
happened before.  `perCall = false` is the variant with one recycled buffer that is emptied after
a successful write only (what a pooled buffer without a reset on the error path does).
-/
namespace XmppModel.HeaderSend
open XmppModel.Header

structure Call where
  args : HdrArgs
  writeOk : Bool
  deriving DecidableEq, Repr

/-- one call: (buffer left behind, bytes the connection received — `none`: the write failed) -/
def send (perCall : Bool) (scratch : Str) (c : Call) : Str × Option Str :=
  let buf := (if perCall then [] else scratch) ++ printHeader c.args
  if c.writeOk then ([], some buf) else (buf, none)

/-- what the connections receive, call by call -/
def run (perCall : Bool) : Str → List Call → List (Option Str)
  | _, [] => []
  | st, c :: cs => (send perCall st c).2 :: run perCall (send perCall st c).1 cs

/-- with a buffer per call every call writes its own header and nothing else, whatever the
buffer held before and whatever happened to earlier calls -/
theorem run_perCall (cs : List Call) : ∀ st : Str,
    run true st cs = cs.map fun c => if c.writeOk then some (printHeader c.args) else none := by
  induction cs with
  | nil => intro st; rfl
  | cons c cs ih =>
    intro st
    simp only [run, List.map_cons, ih]
    cases h : c.writeOk <;> simp [send, h]

end XmppModel.HeaderSend
