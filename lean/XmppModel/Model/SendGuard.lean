/-!
# Where the broken-element guard is evaluated — property C05 (round C)

`Model/SendLts.lean` has calls that always finish.  Here a call may *stop inside its element*
(`failAt i = some k`: the payload reader fails after `k` items were written) and every call
first asks whether the stream is inside an unfinished element (`outputBroken`: encoder depth
≠ 0) and refuses to write if so.  The question is **when** it asks:

* `early i = false` — under the output lock (`s.out.Lock(); defer s.out.Unlock(); if
  s.outputBroken() { return errOutputBroken }; write …`): the shape of `Encode`,
  `EncodeElement`, `send` and of the token writer's first `EncodeToken` (regenerated facts
  `entryGuard`, `holderGuard`, theorem `C05_gen_broken_guard`).  Taking the lock and asking are
  one step of this system: nobody else can move the encoder between them.
* `early i = true` — before it queues for the lock ("fail fast").  The answer may be stale by
  the time the lock is obtained.

`inside` is the encoder's depth ≠ 0; `nested` lists the calls that wrote their first item
while `inside` was true, i.e. whose element is not a top-level element of the stream.
-/
namespace XmppModel.SendGuard

inductive Pc
  | idle
  /-- passed the guard, waiting for the lock (only calls with `early = true`) -/
  | checked
  | holding (pos : Nat)
  | done
  | refused
  | failed
  deriving DecidableEq, Repr

structure St (α : Type) where
  wire : List α
  lock : Option Nat
  pc : Nat → Pc
  /-- the encoder is inside an element (depth ≠ 0) -/
  inside : Bool
  /-- calls whose first item was written inside another call's unfinished element -/
  nested : List Nat
  finished : List Nat

def init (α : Type) : St α :=
  { wire := [], lock := none, pc := fun _ => .idle, inside := false, nested := [], finished := [] }

def setPc (pc : Nat → Pc) (i : Nat) (v : Pc) : Nat → Pc := fun j => if j = i then v else pc j

structure Prog (α : Type) where
  job : Nat → List α
  /-- the call stops (error from its payload) when it is about to write item `k` -/
  failAt : Nat → Option Nat
  early : Nat → Bool

/-- the lock holder at position `k` of its job -/
def holdStep {α : Type} (p : Prog α) (s : St α) (i k : Nat) : St α :=
  if p.failAt i = some k then
    -- the error is returned, the deferred Unlock runs, the encoder stays where it is
    { s with lock := none, pc := setPc s.pc i .failed }
  else
    match (p.job i)[k]? with
    | some x =>
      { s with wire := s.wire ++ [x], pc := setPc s.pc i (.holding (k + 1)),
               inside := decide (k + 1 < (p.job i).length),
               nested := if k = 0 ∧ s.inside = true then s.nested ++ [i] else s.nested }
    | none => { s with lock := none, pc := setPc s.pc i .done, finished := s.finished ++ [i] }

/-- one action of call `i`; `none` when it is blocked or has returned -/
def step {α : Type} (p : Prog α) (s : St α) (i : Nat) : Option (St α) :=
  match s.pc i with
  | .idle =>
    if p.early i then
      -- unlocked look at the encoder, whoever is writing
      some { s with pc := setPc s.pc i (if s.inside then .refused else .checked) }
    else
      match s.lock with
      | some _ => none
      | none =>
        if s.inside then some { s with pc := setPc s.pc i .refused }
        else some { s with lock := some i, pc := setPc s.pc i (.holding 0) }
  | .checked =>
    match s.lock with
    | some _ => none
    | none => some { s with lock := some i, pc := setPc s.pc i (.holding 0) }
  | .holding k => some (holdStep p s i k)
  | _ => none

def run {α : Type} (p : Prog α) (s : St α) : List Nat → St α
  | [] => s
  | i :: is =>
    match step p s i with
    | some s' => run p s' is
    | none => run p s is

/-- invariant of systems in which every call asks under the lock -/
structure Inv {α : Type} (p : Prog α) (s : St α) : Prop where
  holder : ∀ i k, s.pc i = .holding k → s.lock = some i
  fresh : ∀ i, s.pc i = .holding 0 → s.inside = false
  nested : s.nested = []
  /-- `inside` is what the holder's position says -/
  pos : ∀ i k, s.pc i = .holding (k + 1) → s.inside = decide (k + 1 < (p.job i).length)
  no_checked : ∀ i, s.pc i ≠ .checked
  /-- the encoder is inside an element only while the holder is, or after a call stopped there -/
  why_inside : s.inside = true → (∃ i k, s.lock = some i ∧ s.pc i = .holding (k + 1)) ∨ ∃ j, s.pc j = .failed
  /-- nobody is refused without a call that failed -/
  why_refused : ∀ i, s.pc i = .refused → ∃ j, s.pc j = .failed

end XmppModel.SendGuard
