import XmppModel.Prelude.Xml
/-!
# The serve loop (properties C07 and C08)

Executable model of `Session.Serve` / `handleInputStream` (session.go), the stream-level
token filter `reader.Token` (internal/stream/reader.go), `xmlstream.InnerElement`,
`earlyCloser`, the `stickyReader` added by the repair of C08, `responseChecker` and the
default `service-unavailable` reply.

Input of the model: the tokens the `encoding/xml` decoder of the session produces after the
stream header (the decoder itself is not modelled; the token list ending means the decoder
reported an error: truncated or malformed XML), and one *handler program* per invocation: a
list of `read` / `write tokens` steps and a return value.  A handler ignores the errors of its
reads (the worst case: a handler that returns the error ends the session anyway).

The WebSocket framing flag is modelled as a relabelling of the input (`wsInput`).  Modelled in
separate entry points further down: pending
correlated requests (`serveP`), a closed / broken output and the close deadline (`serveC`), a
connection that refuses writes (`serveW`).
-/
namespace XmppModel.Serve
open XmppModel.Xml

def nsStream : String := "http://etherx.jabber.org/streams"
def nsClient : String := "jabber:client"
def nsServer : String := "jabber:server"
def nsStanzas : String := "urn:ietf:params:xml:ns:xmpp-stanzas"
/-- namespace of the defined stream error conditions and of `<text/>` -/
def nsStreams : String := "urn:ietf:params:xml:ns:xmpp-streams"

/-- error classes with which the session can end -/
inductive Err
  | chardata                      -- non-whitespace text at stream level
  | restart                       -- `<stream:stream>` after negotiation
  | unknownElem                   -- other element in the stream namespace
  | streamError (cond : String)   -- a stream error sent by the peer (returned as such)
  | badFormat                     -- end tag in the stream namespace other than `</stream:stream>`
  | procInst | comment | directive
  | decoder                       -- `encoding/xml` reported an error (token list ran out)
  | badState                      -- first token of an element neither start tag nor text
  | handler                       -- the handler returned an error
  | badJid                        -- the request's from address does not parse
  | outputClosed                  -- a write was attempted after the local side closed its output
  | outputBroken                  -- a write was attempted after an earlier one left an element open
  | deadline                      -- the close deadline has passed
  | writeFault                    -- the connection refused a write
  deriving DecidableEq, Repr, Inhabited

def Err.name : Err → String
  | .chardata => "chardata" | .restart => "restart" | .unknownElem => "unknown-element"
  | .streamError c => "se:" ++ c | .badFormat => "se:bad-format"
  | .procInst => "procinst" | .comment => "comment" | .directive => "directive"
  | .decoder => "decoder" | .badState => "bad-state" | .handler => "handler" | .badJid => "bad-jid"
  | .outputClosed => "output-closed" | .outputBroken => "output-broken" | .deadline => "deadline"
  | .writeFault => "write-fault"

/-- condition of the stream error `sendError` writes before closing -/
def Err.cond : Err → String
  | .streamError c => c
  | .badFormat => "bad-format"
  | _ => "undefined-condition"

def isWsChar (c : Char) : Bool := c == ' ' || c == '\t' || c == '\r' || c == '\n'
/-- `len(bytes.TrimLeft(b, " \t\r\n")) == 0` -/
def isWs (s : String) : Bool := s.toList.all isWsChar

/-- result of one `Token()` call -/
inductive Rd
  | tok (t : Tok)
  | err (e : Err)
  | eof
  deriving DecidableEq, Repr, Inhabited

/-- a non-token result, remembered by the `stickyReader` -/
inductive Fail
  | err (e : Err)
  | eof
  deriving DecidableEq, Repr, Inhabited

def Fail.rd : Fail → Rd
  | .err e => .err e
  | .eof => .eof

/-- the tokens after the end tag of an element whose start tag was just read (`d` = open nested
elements): `d.Skip()` / `DecodeElement` of `encoding/xml`; `none` = the input ends first -/
def skipElem : Nat → List Tok → Option (List Tok)
  | _, [] => none
  | d, .start .. :: ts => skipElem (d + 1) ts
  | 0, .stop _ :: ts => some ts
  | d + 1, .stop _ :: ts => skipElem d ts
  | d, _ :: ts => skipElem d ts

/-- the loop of `stream.Error.UnmarshalXML` over the children of a received `<stream:error>`:
a child in the stream-error namespace other than `<text/>` is the *condition* (its local name;
the last one wins), `<text/>` is decoded and consumed, a child in any other namespace — an
**application-specific condition** (RFC 6120 §4.9.4) — is skipped as a whole, at any position,
with whatever it contains; text, comments … between the children are ignored; the end tag of
the error ends the loop.  `cur` = the condition found so far ("" = none); the fuel is the number
of tokens (every round consumes at least one). -/
def seCondF : Nat → String → List Tok → Option String
  | 0, _, _ => none
  | _, _, [] => none
  | _, cur, .stop _ :: _ => some cur
  | f + 1, cur, .start n _ :: ts =>
    (match skipElem 0 ts with
     | some rest => seCondF f (if n.space == nsStreams && n.loc != "text" then n.loc else cur) rest
     | none => none)
  | f + 1, cur, _ :: ts => seCondF f cur ts

/-- condition carried by a stream error whose start tag has just been read; `none` when the
error element is not closed in the remaining input (the decoder then reports a syntax error) -/
def seCond (ts : List Tok) : Option String := seCondF (ts.length + 1) "" ts

/-- does the element whose start tag was just read close in `ts`? (`d` = open nested elements) -/
def closes : Nat → List Tok → Bool
  | _, [] => false
  | d, .start .. :: ts => closes (d + 1) ts
  | 0, .stop _ :: _ => true
  | d + 1, .stop _ :: ts => closes d ts
  | d, _ :: ts => closes d ts

/-- namespace of the WebSocket framing elements `<open/>` and `<close/>` (RFC 7395) -/
def nsFraming : String := "urn:ietf:params:xml:ns:xmpp-framing"

/-- local name (in the stream namespace) that stands for the `<close/>` framing element of a
session that uses the WebSocket subprotocol, see `wsInput`.  It contains a space, so no XML
decoder can produce it: on the tokens of a real input the arm of `verdict` that tests it is
dead unless `wsInput true` put it there. -/
def wsCloseMark : String := "ws close"

/-- The framing check of `reader.Token` (`r.ws && t.Name.Space == wsNamespace && !r.negotiating`,
the first thing it does with a start tag): on a session that uses the WebSocket subprotocol
(`ws = true`) a *top-level* start tag in the framing namespace named `close` is the peer's closing
element (`io.EOF`); any other one — `<open/>` = a stream restart, and also a `<close/>` *inside*
another element — is `ErrUnexpectedRestart`, with the depth counted up like for every start tag.
The model represents that check as a relabelling of the session's input in front of `verdict`
(`d` = number of elements open at this token): the top-level `close` becomes a stream-namespace
start tag named `wsCloseMark`, every other framing start tag becomes `<stream:stream>` (for which
`verdict` answers exactly `ErrUnexpectedRestart` with the depth counted up).  End tags are not
touched (the reader only tests start tags).  With `ws = false` nothing is relabelled: framing
elements are ordinary content on a TCP stream. -/
def wsTok (ws : Bool) (d : Nat) : Tok → Tok
  | .start n as =>
    if ws && n.space == nsFraming then
      (if n.loc == "close" && d == 0 then .start ⟨nsStream, wsCloseMark⟩ as
       else .start ⟨nsStream, "stream"⟩ as)
    else .start n as
  | t => t

/-- nesting after a token, as `reader.Token` counts it (`depth++` / `depth--`) -/
def depthStep (d : Nat) : Tok → Nat
  | .start .. => d + 1
  | .stop _ => d - 1
  | _ => d

/-- the input of a session as its stream reader classifies it (see `wsTok`), from nesting `d` on -/
def wsInputD (ws : Bool) : Nat → List Tok → List Tok
  | _, [] => []
  | d, t :: ts => wsTok ws d t :: wsInputD ws (depthStep d t) ts

def wsInput (ws : Bool) (inp : List Tok) : List Tok := wsInputD ws 0 inp

/-- `reader.Token` (internal/stream/reader.go) on one token at nesting `depth`, for
`negotiating = false`: new depth and verdict.  The WebSocket flag is handled by `wsInput`.
`rest` is only used to decode a received stream error. -/
def verdict (depth : Nat) (t : Tok) (rest : List Tok) : Nat × Rd :=
  match t with
  | .chars s => (depth, if depth == 0 && !isWs s then .err .chardata else .tok t)
  | .start n _ =>
    (depth + 1,
      if n.space != nsStream then .tok t
      else if n.loc == "error" then
        (if closes 0 rest then
          match seCond rest with
          | some c => .err (.streamError c)
          | none => .err .decoder
         else .err .decoder)
      else if n.loc == "stream" then .err .restart
      else if n.loc == wsCloseMark then .eof
      else .err .unknownElem)
  | .stop n =>
    (depth - 1,
      if n.space != nsStream then .tok t
      else if n.loc == "stream" then .eof
      else .err .badFormat)
  | .procInst .. => (depth, .err .procInst)
  | .comment _ => (depth, .err .comment)
  | .directive _ => (depth, .err .directive)

/-- reading state while one element is handled: the decoder's remaining tokens, the depth of
the long-lived reader installed after negotiation (`dIn`), the depth of the fresh reader of
this `handleInputStream` call (`dOut`), and the first non-token result (`stickyReader`) -/
structure RS where
  inp : List Tok
  dIn : Nat
  dOut : Nat
  sticky : Option Fail
  deriving Repr

/-- one `Token()` call on `stickyReader{intstream.Reader(lockReadCloser{s.in.d})}` -/
def RS.next (s : RS) : Rd × RS :=
  match s.sticky with
  | some f => (f.rd, s)
  | none =>
    match s.inp with
    | [] => (.err .decoder, { s with sticky := some (.err .decoder) })
    | t :: rest =>
      match verdict s.dIn t rest with
      | (dIn', .tok t1) =>
        (match verdict s.dOut t1 rest with
         | (dOut', .tok t2) => (.tok t2, { inp := rest, dIn := dIn', dOut := dOut', sticky := none })
         | (dOut', .err e) => (.err e, { inp := rest, dIn := dIn', dOut := dOut', sticky := some (.err e) })
         | (dOut', .eof) => (.eof, { inp := rest, dIn := dIn', dOut := dOut', sticky := some .eof }))
      | (dIn', .err e) => (.err e, { inp := rest, dIn := dIn', dOut := s.dOut, sticky := some (.err e) })
      | (dIn', .eof) => (.eof, { inp := rest, dIn := dIn', dOut := s.dOut, sticky := some .eof })

/-- what a handler observes for one `Token()` call -/
inductive Obs
  | tok (t : Tok)
  | err
  | eof
  deriving DecidableEq, Repr, Inhabited

/-- state of `earlyCloser{InnerElement(r)}`: `cnt` open nested elements, `fin` = the end tag of
the element has been returned -/
structure ES where
  rs : RS
  cnt : Nat
  fin : Bool
  deriving Repr

def ES.read (e : ES) : Obs × ES :=
  if e.fin then (.eof, e) else
  match e.rs.next with
  | (.tok t, rs') =>
    (match t with
     | .start .. => (.tok t, { rs := rs', cnt := e.cnt + 1, fin := false })
     | .stop _ =>
       if e.cnt == 0 then (.tok t, { rs := rs', cnt := 0, fin := true })
       else (.tok t, { rs := rs', cnt := e.cnt - 1, fin := false })
     | _ => (.tok t, { e with rs := rs' }))
  | (.err _, rs') => (.err, { e with rs := rs' })
  | (.eof, rs') => (.eof, { e with rs := rs' })

/-! ### the handler's writer: `responseChecker` -/

/-- `getIDTyp`: the last unqualified `id` / `type` attributes seen before both are known -/
def getIdTypAux : List Attr → Option String → Option String → Option String × Option String
  | [], i, t => (i, t)
  | a :: as, i, t =>
    if a.name.space != "" then getIdTypAux as i t else
    let i' := if a.name.loc == "id" then some a.value else i
    let t' := if a.name.loc == "type" then some a.value else t
    if i'.isSome && t'.isSome then (i', t') else getIdTypAux as i' t'

def getId (as : List Attr) : String := ((getIdTypAux as none none).1).getD ""
def getTyp (as : List Attr) : String := ((getIdTypAux as none none).2).getD ""

def isIq (n : Name) : Bool := n.loc == "iq" && (n.space == nsClient || n.space == nsServer)
def isIqEmptySpace (n : Name) : Bool :=
  n.loc == "iq" && (n.space == "" || n.space == nsClient || n.space == nsServer)
def isReplyTyp (t : String) : Bool := t == "result" || t == "error"
def isRequestTyp (t : String) : Bool := t == "get" || t == "set"

/-- the reply detector's test on a start tag (without the level condition) -/
def isReplyStart (reqId : String) (n : Name) (as : List Attr) : Bool :=
  isIqEmptySpace n && getId as == reqId && isReplyTyp (getTyp as)

structure WS where
  level : Int
  wrote : Bool
  out : List Tok
  deriving Repr

def WS.init : WS := { level := 0, wrote := false, out := [] }

/-- `responseChecker.EncodeToken` -/
def WS.enc (reqId : String) (w : WS) (t : Tok) : WS :=
  match t with
  | .start n as =>
    { level := w.level + 1,
      wrote := w.wrote || (decide (w.level < 1) && isReplyStart reqId n as),
      out := w.out ++ [t] }
  | .stop _ => { w with level := w.level - 1, out := w.out ++ [t] }
  | _ => { w with out := w.out ++ [t] }

def WS.encAll (reqId : String) (w : WS) (ts : List Tok) : WS := ts.foldl (WS.enc reqId) w

/-! ### handler programs -/

inductive Op
  | read
  | write (ts : List Tok)
  deriving Repr, Inhabited

/-- what the handler returns: nil, an error of its own, `io.EOF`, or (`readErr`) the error of
its first failed read if there was one (its own error otherwise) -/
inductive Ret | ok | fail | eof | readErr
  /-- the handler returns a `stanza.Error` value -/
  | stanzaErr
  /-- the handler returns the stream error `stream.PolicyViolation` -/
  | streamErr
  /-- errors that *wrap* a sentinel (`fmt.Errorf("…: %w", x)`) or join it with another error:
  they are not identical to the sentinel, `errors.Is` / `errors.As` still find it -/
  | wrapEof | wrapUeof | wrapStanza | wrapStream | joinEof
  /-- the handler returns the error of `jid.Parse` on the stanza's to / from attribute (what the
  multiplexer's routers do when `stanza.NewIQ` / `NewMessage` / `NewPresence` fail) -/
  | addrErr
  deriving DecidableEq, Repr, Inhabited

structure Prog where
  ops : List Op
  ret : Ret
  /-- the handler first closes the session's output (`Session.Close`), before reading or
  writing anything: a local close between two elements -/
  close : Bool := false
  /-- the handler first calls `SetCloseDeadline`, once per entry, in this order: 1 = a time in the
  future, 2 = a time in the past, 3 = a time in the near future and then waits until it has
  passed (0 = no call) -/
  dls : List Nat := []
  /-- the handler first edits the `*xml.StartElement` it was handed in place (it is a pointer to
  the serve loop's own variable): which edit (type / name / id / attributes …, see
  harness/c08/proto.go `mutate`); 0 = none.  Nothing in the model reads this field: what the
  session does with an element is decided by what the *peer sent* -/
  edit : Nat := 0
  deriving Repr, Inhabited

def Prog.nop : Prog := { ops := [], ret := .ok }

def runOps (reqId : String) : List Op → ES → WS → List Obs → List Obs × ES × WS
  | [], e, w, acc => (acc.reverse, e, w)
  | .read :: ops, e, w, acc =>
    let (o, e') := e.read
    runOps reqId ops e' w (o :: acc)
  | .write ts :: ops, e, w, acc => runOps reqId ops e (w.encAll reqId ts) acc

/-- `xmlstream.Copy(discard, rw)` after the handler returned: read to the end of the element.
`none` = reached EOF (the element is finished), `some e` = a read failed.  The fuel is the
number of remaining tokens plus two (never exhausted, see `Lemmas/Serve.lean`). -/
def discardF : Nat → ES → Option Err × ES
  | 0, e => (some .decoder, e)
  | fuel + 1, e =>
    if e.fin then (none, e) else
    match e.rs.next with
    | (.err x, rs') => (some x, { e with rs := rs' })
    | (.eof, rs') => (none, { e with rs := rs' })
    | (.tok t, rs') =>
      (match t with
       | .start .. => discardF fuel { rs := rs', cnt := e.cnt + 1, fin := false }
       | .stop _ =>
         if e.cnt == 0 then (none, { rs := rs', cnt := 0, fin := true })
         else discardF fuel { rs := rs', cnt := e.cnt - 1, fin := false }
       | _ => discardF fuel { e with rs := rs' })

def discard (e : ES) : Option Err × ES := discardF (e.rs.inp.length + 2) e

/-! ### one `handleInputStream` call -/

structure Cfg where
  /-- the stream's content namespace (`s.in.XMLNS`) -/
  ns : String
  /-- `s.LocalAddr().Bare().String()` -/
  localBare : String
  /-- `jid.Parse(v)` followed by `String()`: `none` when the address does not parse (oracle) -/
  jidCanon : String → Option String

/-- `stanza.Is(name, ns)` -/
def isStanza (n : Name) (ns : String) : Bool :=
  (n.loc == "iq" || n.loc == "message" || n.loc == "presence") && (ns == "" || n.space == ns)

/-- the from normalisation: the first unqualified `from` is blanked when it equals the
session's own bare address -/
def blankFirstFrom (lb : String) : List Attr → List Attr
  | [] => []
  | a :: as =>
    if a.name.loc == "from" && a.name.space == "" then
      (if a.value == lb then { a with value := "" } :: as else a :: as)
    else a :: blankFirstFrom lb as

def blankFrom (cfg : Cfg) (n : Name) (as : List Attr) : List Attr :=
  if isStanza n cfg.ns then blankFirstFrom cfg.localBare as else as

/-- value of the first unqualified `from` attribute ("" when absent) -/
def firstFrom (as : List Attr) : String :=
  ((as.find? (fun a => a.name.loc == "from" && a.name.space == "")).map (·.value)).getD ""

def attr (l v : String) : Attr := ⟨⟨"", l⟩, v⟩

/-- value of the first unqualified attribute `l` ("" when absent) -/
def attrVal (as : List Attr) (l : String) : String :=
  ((as.find? (fun a => a.name.loc == l && a.name.space == "")).map (·.value)).getD ""

/-- the automatic reply: `stanza.IQ{ID, Type: error, To}.Wrap(stanza.Error{cancel, service-unavailable})` -/
def defaultReply (id : String) (to : Option String) : List Tok :=
  [ .start ⟨"", "iq"⟩
      ([attr "type" "error"] ++ (match to with | some c => [attr "to" c] | none => [])
        ++ (if id != "" then [attr "id" id] else [])),
    .start ⟨"", "error"⟩ [attr "type" "cancel"],
    .start ⟨nsStanzas, "service-unavailable"⟩ [],
    .stop ⟨nsStanzas, "service-unavailable"⟩,
    .stop ⟨"", "error"⟩,
    .stop ⟨"", "iq"⟩ ]

/-- address of the automatic reply: `none` = the from attribute does not parse -/
def replyTo (cfg : Cfg) (as : List Attr) : Option (Option String) :=
  let f := firstFrom as
  if f == "" then some none else
  match cfg.jidCanon f with
  | some c => some (if c == "" then none else some c)
  | none => none

structure Inv where
  start : Tok
  view : List Obs
  deriving Repr

inductive Stop
  | clean
  | error (e : Err)
  deriving DecidableEq, Repr, Inhabited

inductive Step
  /-- `handleInputStream` returned nil: the serve loop goes on -/
  | next (inv : Option Inv) (written : List Tok) (rs : RS)
  /-- `Serve` ends -/
  | stop (inv : Option Inv) (written : List Tok) (res : Stop)
  deriving Repr

/-- the tokens all `write` steps of a program pass to the encoder, in order -/
def writesOf : List Op → List Tok
  | [] => []
  | .read :: ops => writesOf ops
  | .write ts :: ops => ts ++ writesOf ops

/-- what the session adds after the handler returned nil: the automatic error for an
unanswered get/set IQ (`none` = the from address does not parse), nothing otherwise.
`as` are the attributes after the from normalisation, `wrote` the reply detector's flag. -/
def autoReply (cfg : Cfg) (n : Name) (as : List Attr) (wrote : Bool) : Option (List Tok) :=
  if isIq n && isRequestTyp (getTyp as) && !wrote then
    (replyTo cfg as).map (defaultReply (getId as))
  else some []

/-- `handleInputStream` after the start tag `n as` has been read (`rs1` = reading state after it) -/
def handleElem (cfg : Cfg) (n : Name) (as : List Attr) (rs1 : RS) (prog : Prog) : Step :=
  let as' := blankFrom cfg n as
  let id := getId as'
  let (view, es1, ws1) := runOps id prog.ops { rs := rs1, cnt := 0, fin := false } WS.init []
  let inv : Inv := { start := .start n as', view := view }
  match prog.ret with
  | .fail => .stop (some inv) ws1.out (.error .handler)
  | .eof => .stop (some inv) ws1.out (.error .handler)
  | .stanzaErr => .stop (some inv) ws1.out (.error .handler)
  | .streamErr => .stop (some inv) ws1.out (.error (.streamError "policy-violation"))
  -- only an error IDENTICAL to io.EOF is special (and is turned into an error); anything that
  -- merely wraps io.EOF is an ordinary handler error; `sendError` finds a wrapped stream error
  -- with errors.As and returns the handler's value
  | .wrapEof => .stop (some inv) ws1.out (.error .handler)
  | .wrapUeof => .stop (some inv) ws1.out (.error .handler)
  | .wrapStanza => .stop (some inv) ws1.out (.error .handler)
  | .joinEof => .stop (some inv) ws1.out (.error .handler)
  | .wrapStream => .stop (some inv) ws1.out (.error (.streamError "policy-violation"))
  | .addrErr => .stop (some inv) ws1.out (.error .badJid)
  | .readErr =>
    (match es1.rs.sticky with
     | some (.err e) => .stop (some inv) ws1.out (.error e)
     | _ => .stop (some inv) ws1.out (.error .handler))
  | .ok =>
    match autoReply cfg n as' ws1.wrote with
    | none => .stop (some inv) ws1.out (.error .badJid)
    | some d =>
      match discard es1 with
      | (none, es2) => .next (some inv) (ws1.out ++ d) es2.rs
      | (some e, _) => .stop (some inv) (ws1.out ++ d) (.error e)

def handleInputStream (cfg : Cfg) (rs : RS) (prog : Prog) : Step :=
  match ({ rs with dOut := 0, sticky := none } : RS).next with
  | (.eof, _) => .stop none [] .clean
  | (.err e, _) => .stop none [] (.error e)
  | (.tok (.chars _), rs1) => .next none [] rs1
  | (.tok (.start n as), rs1) => handleElem cfg n as rs1 prog
  | (.tok _, _) => .stop none [] (.error .badState)

/-! ### the serve loop -/

structure Out where
  invs : List Inv
  written : List Tok
  result : Stop
  deriving Repr

/-- `Serve`: the k-th invocation runs the k-th program (`Prog.nop` when the list is used up).
Fuel: every iteration that continues consumes at least one token. -/
def serveF (cfg : Cfg) : Nat → RS → List Prog → Out
  | 0, _, _ => { invs := [], written := [], result := .error .decoder }
  | fuel + 1, rs, progs =>
    match handleInputStream cfg rs (progs.headD Prog.nop) with
    | .stop inv w res => { invs := inv.toList, written := w, result := res }
    | .next inv w rs' =>
      let o := serveF cfg fuel rs' (if inv.isSome then progs.tail else progs)
      { invs := inv.toList ++ o.invs, written := w ++ o.written, result := o.result }

def RS.init (inp : List Tok) : RS := { inp := inp, dIn := 0, dOut := 0, sticky := none }

def serve (cfg : Cfg) (inp : List Tok) (progs : List Prog) : Out :=
  serveF cfg (inp.length + 1) (RS.init inp) progs

/-! ### the multiplexer in front (C07): what `mux.ServeMux.HandleXMPP` does with an IQ

Only the part of the multiplexer that matters for replies is modelled here (the lookup
cascades are `Model/Mux.lean`): no top-level patterns; either an IQ handler is registered for
the wildcard payload of each of the four defined types (`reg`), or nothing is registered. -/

inductive Payload
  | none                 -- the iq has no child element (only white space)
  | elem (n : Name)      -- first child element
  | bad                  -- text, a stream-level construct or a decoder error comes first
  deriving DecidableEq, Repr

/-- first token of `decl.TrimLeftSpace(xmlstream.Inner(t))` -/
def firstPayload : List Tok → Payload
  | [] => .bad
  | .chars s :: ts => if isWs s then firstPayload ts else .bad
  | .start n _ :: _ => if n.space == nsStream then .bad else .elem n
  | .stop n :: _ => if n.space == nsStream then .bad else .none
  | _ :: _ => .bad

/-- number of `Token` calls `iqRouter` makes before it knows the payload -/
def payloadReads : List Tok → Nat
  | .chars s :: ts => if isWs s then payloadReads ts + 1 else 1
  | _ => 1

def Prog.writesOnly (p : Prog) : Prog :=
  { p with ops := p.ops.filter fun o => match o with | .write _ => true | .read => false }

def isDefinedIqTyp (t : String) : Bool := isRequestTyp t || isReplyTyp t

/-- `iqFallback`: the request with to/from swapped, type error, service-unavailable -/
def fallbackReply (n : Name) (id : String) (to frm : Option String) : List Tok :=
  [ .start ⟨n.space, "iq"⟩
      ([attr "type" "error"] ++ (match to with | some c => [attr "to" c] | none => [])
        ++ (match frm with | some c => [attr "from" c] | none => [])
        ++ (if id != "" then [attr "id" id] else [])),
    .start ⟨"", "error"⟩ [attr "type" "cancel"],
    .start ⟨nsStanzas, "service-unavailable"⟩ [],
    .stop ⟨nsStanzas, "service-unavailable"⟩,
    .stop ⟨"", "error"⟩,
    .stop ⟨n.space, "iq"⟩ ]

/-- address attribute as `stanza.NewIQ` reads it: `some none` = absent or empty -/
def addrOf (cfg : Cfg) (as : List Attr) (l : String) : Option (Option String) :=
  let v := attrVal as l
  if v == "" then some none else
  match cfg.jidCanon v with
  | some c => some (if c == "" then none else some c)
  | none => none

/-- the program the session's handler effectively runs when it is a `mux.ServeMux` whose
stanza namespace is the stream's: `p` is the program of the registered IQ handler -/
def muxEffective (reg : Bool) (cfg : Cfg) (n : Name) (as : List Attr) (body : List Tok) (p : Prog) : Prog :=
  if !isStanza n cfg.ns then Prog.nop
  else
    -- every router first turns the start element into a stanza value: an address that does not
    -- parse ends the routing with the parse error, whatever the type and wherever the attribute
    -- stands among the others; nothing is written
    match addrOf cfg as "from", addrOf cfg as "to" with
    | some frm, some to =>
      if n.loc != "iq" then Prog.nop else
      let typ := getTyp as
      let run : Prog :=
        if reg && isDefinedIqTyp typ then p.writesOnly
        else if isReplyTyp typ then Prog.nop
        else { ops := [.write (fallbackReply n (getId as) frm to)], ret := .ok }
      (match firstPayload body with
       | .bad => { ops := List.replicate (payloadReads body) .read, ret := .readErr }
       | .none => if typ == "result" then run else { ops := [], ret := .eof }
       | .elem _ => run)
    | _, _ => { ops := [], ret := .addrErr }

/-- which IQ handlers a `mux.ServeMux` has: one handler registered (`mux.IQ(typ, payload, h)`) for
each of the listed types, for one payload name or (`none`) for the wildcard payload -/
structure MuxReg where
  types : List String
  payload : Option Name
  deriving Repr

/-- `ServeMux.IQHandler(typ, payloadName)` finds a registered handler (the lookup cascade exact
name → local name → namespace → wildcard finds, for a registration with a full name, exactly
that name; for the wildcard registration, everything) -/
def MuxReg.has (r : MuxReg) (typ : String) (pl : Payload) : Bool :=
  r.types.contains typ &&
    (match r.payload with
     | none => true
     | some n => pl == .elem n)

/-- `muxEffective` for a multiplexer with the registrations `r`: whether the recording handler or
the fallback runs is decided per request, by its type and the name of its payload -/
def muxEffectiveG (r : MuxReg) (cfg : Cfg) (n : Name) (as : List Attr) (body : List Tok) (p : Prog) : Prog :=
  muxEffective (r.has (getTyp as) (firstPayload body)) cfg n as body p

/-- `Serve(nil)`: the session's `nopHandler` reads nothing, writes nothing and returns nil -/
def nilHandlerProg : Prog := Prog.nop

/-- `iq.Result(nil)`: the reply a handler builds from the IQ `stanza.NewIQ` parsed — the request
with to/from swapped, type result and **the id exactly as it was read** -/
def resultReply (n : Name) (id : String) (to frm : Option String) : List Tok :=
  [ .start ⟨n.space, "iq"⟩
      ([attr "type" "result"] ++ (match to with | some c => [attr "to" c] | none => [])
        ++ (match frm with | some c => [attr "from" c] | none => [])
        ++ (if id != "" then [attr "id" id] else [])),
    .stop ⟨n.space, "iq"⟩ ]

/-- the program the session's handler effectively runs when it is a `mux.ServeMux` with an IQ
handler registered for the wildcard payload of get and set that answers with `iq.Result(nil)`
— what most IQ handlers do: the reply is built from the parsed `stanza.IQ`, not from the start
element (nothing is registered for result / error) -/
def muxAnswering (cfg : Cfg) (n : Name) (as : List Attr) (body : List Tok) : Prog :=
  if !isStanza n cfg.ns then Prog.nop
  else
    match addrOf cfg as "from", addrOf cfg as "to" with
    | some frm, some to =>
      if n.loc != "iq" then Prog.nop else
      let typ := getTyp as
      let run : Prog :=
        if isRequestTyp typ then { ops := [.write (resultReply n (getId as) frm to)], ret := .ok }
        else if isReplyTyp typ then Prog.nop
        else { ops := [.write (fallbackReply n (getId as) frm to)], ret := .ok }
      (match firstPayload body with
       | .bad => { ops := List.replicate (payloadReads body) .read, ret := .readErr }
       | .none => if typ == "result" then run else { ops := [], ret := .eof }
       | .elem _ => run)
    | _, _ => { ops := [], ret := .addrErr }

/-- the first element of the input with the from normalisation applied, and the tokens after
its start tag -/
def firstElem (cfg : Cfg) : List Tok → Option (Name × List Attr × List Tok)
  | .start n as :: body => some (n, blankFrom cfg n as, body)
  | _ => none

/-! ### a stream error where a stream header is expected (`internal/stream.Expect`)

While a header is expected the same `reader.Token` runs in negotiating mode behind
`decl.Skip` (which drops a leading XML declaration).  Only the clause of C08 that concerns it is
modelled: a stream error in that position is returned as that error. -/

/-- class of the error negotiation ends with when the peer's first element is a stream error
("other" for anything else: a header, another element, malformed input) -/
def expectHeader1 : List Tok → String
  | .start n as :: rest =>
    if n.space == nsStream && n.loc == "error" then
      (match (verdict 0 (.start n as) rest).2 with
       | .err (.streamError c) => (Err.streamError c).name
       | _ => "other")
    else "other"
  | _ => "other"

def expectHeader : List Tok → String
  | .procInst t i :: ts => if t == "xml" then expectHeader1 ts else expectHeader1 (.procInst t i :: ts)
  | ts => expectHeader1 ts

/-! ### pending local requests (the `sentStanzas` table)

`SendIQ` & co. register the id and the start-tag name of a request that waits for its
response.  Only an incoming element of type result or error consults the table; when it
matches, the element is handed to the waiter (no handler runs, nothing is written), the rest of
it is discarded and the entry disappears with the waiter. -/

structure Pend where
  id : String
  name : Name
  deriving DecidableEq, Repr

/-- how a local request that expects a response (`sendResp` behind `SendIQ`, `SendIQElement`, the
waiting variants of `SendMessage` / `SendPresence`) stands when the input is served: it is still
waiting, its transmission failed (the call returned the error), or the caller's context ended
while it waited (the call returned `ctx.Err()`) -/
inductive Fate | waiting | sendFailed | gaveUp
  deriving DecidableEq, Repr, Inhabited

structure Req where
  id : String
  name : Name
  fate : Fate
  deriving DecidableEq, Repr

/-- `sendResp` as far as the `sentStanzas` table is concerned: the entry `id ↦ name` is put into
the map *before* the request is transmitted (replacing an entry with the same id) and a deferred
`delete(s.sentStanzas, id)` runs when the call returns — after a failed transmission, after the
caller gave up waiting, or after the response was handed over.  Only a call that is still
waiting has an entry. -/
def sendRespTable (tbl : List Pend) (r : Req) : List Pend :=
  let ins := tbl.filter (fun p => p.id != r.id) ++ [⟨r.id, r.name⟩]
  match r.fate with
  | .waiting => ins
  | _ => ins.filter (fun p => p.id != r.id)

/-- the table after a history of local requests, oldest first -/
def tableOf (reqs : List Req) : List Pend := reqs.foldl sendRespTable []

/-- `readerChan, ok := s.sentStanzas[id]; ok && name == start.Name || name == {Local: start.Name.Local}` -/
def pendMatch (pend : List Pend) (id : String) (n : Name) : Option Pend :=
  match pend.find? (fun p => p.id == id) with
  | some p => if p.name == n || p.name == ⟨"", n.loc⟩ then some p else none
  | none => none

/-- is the next element handed to a waiter: the matching entry and the reading state after the
start tag -/
def deliveredTo (cfg : Cfg) (pend : List Pend) (rs : RS) : Option (Pend × RS) :=
  match ({ rs with dOut := 0, sticky := none } : RS).next with
  | (.tok (.start n as), rs1) =>
    let as' := blankFrom cfg n as
    if isReplyTyp (getTyp as') then (pendMatch pend (getId as') n).map fun p => (p, rs1) else none
  | _ => none

/-- `handleInputStream` with the pending table: the step, the table afterwards and the id of
the request whose waiter got the element -/
def handleInputStreamP (cfg : Cfg) (pend : List Pend) (rs : RS) (prog : Prog) : Step × List Pend × Option String :=
  match deliveredTo cfg pend rs with
  | some (p, rs1) =>
    (match discard { rs := rs1, cnt := 0, fin := false } with
     | (none, es2) => (.next none [] es2.rs, pend.filter (fun q => q.id != p.id), some p.id)
     | (some e, _) => (.stop none [] (.error e), pend, some p.id))
  | none => (handleInputStream cfg rs prog, pend, none)

structure OutP where
  out : Out
  delivered : List String
  deriving Repr

def serveFP (cfg : Cfg) : Nat → List Pend → RS → List Prog → OutP
  | 0, _, _, _ => { out := { invs := [], written := [], result := .error .decoder }, delivered := [] }
  | fuel + 1, pend, rs, progs =>
    match handleInputStreamP cfg pend rs (progs.headD Prog.nop) with
    | (.stop inv w res, _, dl) => { out := { invs := inv.toList, written := w, result := res }, delivered := dl.toList }
    | (.next inv w rs', pend', dl) =>
      let o := serveFP cfg fuel pend' rs' (if inv.isSome then progs.tail else progs)
      { out := { invs := inv.toList ++ o.out.invs, written := w ++ o.out.written, result := o.out.result },
        delivered := dl.toList ++ o.delivered }

def serveP (cfg : Cfg) (pend : List Pend) (inp : List Tok) (progs : List Prog) : OutP :=
  serveFP cfg (inp.length + 1) pend (RS.init inp) progs

/-! ### the state of the output: open, left inside an element, closed

After `Session.Close` every write fails (`ErrOutputStreamClosed`), including the flush after
the handler.  A handler that returns nil after a write that left an element open, or that the
encoder refused (an end tag without a start tag), ends the session with `errOutputBroken`; after
a `Send` call of the application that was abandoned inside an element every *later* writer fails
with `errOutputBroken`, and a handler that tried to write ends the session with it.
In both states a reply the handler tries to write is refused and therefore does not count as
the reply (the automatic reply is due, and ends the session), and
`sendError` / `Close` return what they always return: the state of the output never changes
the value `Serve` returns for the way the *input* ended. -/

inductive OutSt | opn | broken | closed
  deriving DecidableEq, Repr, Inhabited

def Step.dropWritten : Step → Step
  | .next i _ rs => .next i [] rs
  | .stop i _ r => .stop i [] r

def Step.written : Step → List Tok
  | .next _ w _ => w
  | .stop _ w _ => w

def Step.mapWritten (f : List Tok → List Tok) : Step → Step
  | .next i w rs => .next i (f w) rs
  | .stop i w r => .stop i (f w) r

/-- what `encoding/xml`'s encoder does with the tokens of one writer, starting at nesting `d`:
an end tag with nothing open is refused (not written, the encoder is marked failed);
result: final nesting, failed, tokens on the wire -/
def encWire : Nat → List Tok → Nat × Bool × List Tok
  | d, [] => (d, false, [])
  | d, .start n as :: ts => let r := encWire (d + 1) ts; (r.1, r.2.1, .start n as :: r.2.2)
  | 0, .stop _ :: ts => let r := encWire 0 ts; (r.1, true, r.2.2)
  | d + 1, .stop n :: ts => let r := encWire d ts; (r.1, r.2.1, .stop n :: r.2.2)
  | d, t :: ts => let r := encWire d ts; (r.1, r.2.1, t :: r.2.2)

/-- did this writer leave the output inside an element (or make the encoder fail) -/
def leavesBroken (ts : List Tok) : Bool := (encWire 0 ts).1 != 0 || (encWire 0 ts).2.1

/-- `handleElem` for any state of the output at entry; the handler may close the output first -/
def handleElemC (cfg : Cfg) (st : OutSt) (n : Name) (as : List Attr) (rs1 : RS) (prog : Prog) : Step :=
  let st1 : OutSt := if prog.close then .closed else st
  if st1 == .opn then
    -- a handler that returns nil with an element of its own still open (or one of whose tokens
    -- the encoder refused) has left the stream inside an element: the session ends at once
    (if prog.ret == .ok && leavesBroken (writesOf prog.ops) then
      .stop (some { start := .start n (blankFrom cfg n as),
                    view := (runOps (getId (blankFrom cfg n as)) prog.ops { rs := rs1, cnt := 0, fin := false } WS.init []).1 })
        (encWire 0 (writesOf prog.ops)).2.2 (.error .outputBroken)
     else (handleElem cfg n as rs1 prog).mapWritten fun w => (encWire 0 w).2.2) else
  match prog.ret with
  | .ok =>
    let as' := blankFrom cfg n as
    let id := getId as'
    let (view, es1, ws1) := runOps id prog.ops { rs := rs1, cnt := 0, fin := false } WS.init []
    let inv : Inv := { start := .start n as', view := view }
    -- every token a handler tries to write in this state is refused, and a reply that was
    -- refused is not a reply: a get/set IQ is still unanswered whatever the handler attempted
    let needs := isIq n && isRequestTyp (getTyp as')
    -- (every token was refused: the handler leaves a writer that failed on an output that is
    -- still open - the first thing the session looks at after the handler returned)
    if st1 == .broken && !(writesOf prog.ops).isEmpty then .stop (some inv) [] (.error .outputBroken)
    else if needs && (replyTo cfg as').isNone then .stop (some inv) [] (.error .badJid)
    else if needs then .stop (some inv) [] (.error (if st1 == .closed then .outputClosed else .outputBroken))
    else if st1 == .closed && !(writesOf prog.ops).isEmpty then .stop (some inv) [] (.error .outputClosed)
    else
      match discard es1 with
      | (none, es2) => .next (some inv) [] es2.rs
      | (some e, _) => .stop (some inv) [] (.error e)
  | _ => (handleElem cfg n as rs1 prog).dropWritten

def handleInputStreamC (cfg : Cfg) (st : OutSt) (rs : RS) (prog : Prog) : Step :=
  match ({ rs with dOut := 0, sticky := none } : RS).next with
  | (.tok (.start n as), rs1) => handleElemC cfg st n as rs1 prog
  | _ => handleInputStream cfg rs prog

/-- state of the output after an invocation that wrote `w` (as handed to the encoder) -/
def outAfter (st : OutSt) (prog : Prog) (w : List Tok) : OutSt :=
  if prog.close then .closed
  else match st with
    | .opn => if leavesBroken w then .broken else .opn
    | s => s

/-- has the deadline of this `SetCloseDeadline` call passed when the handler returns -/
def isPastDl (d : Nat) : Bool := d == 2 || d == 3

/-- the input context after a sequence of `SetCloseDeadline` calls: every call **replaces** the
context (`context.WithDeadline(context.Background(), t)`, the old one is cancelled and dropped),
so a later deadline extends or shortens an earlier one — also one that has already passed;
`e` = has the context ended before the calls -/
def expiredAfter : List Nat → Bool → Bool
  | [], e => e
  | d :: ds, e => expiredAfter ds (if isPastDl d then true else if d == 1 then false else e)

/-- `Serve` with the state of the output and the close deadline: `expired` = the input context
has ended (`SetCloseDeadline` with a time in the past), checked before every element; a
deadline in the future changes nothing -/
def serveFC (cfg : Cfg) : Nat → OutSt → Bool → RS → List Prog → Out
  | 0, _, _, _, _ => { invs := [], written := [], result := .error .decoder }
  | fuel + 1, st, expired, rs, progs =>
    if expired then { invs := [], written := [], result := .error .deadline } else
    let p := progs.headD Prog.nop
    match handleInputStreamC cfg st rs p with
    | .stop inv w res => { invs := inv.toList, written := w, result := res }
    | .next inv w rs' =>
      let o := serveFC cfg fuel (if inv.isSome then outAfter st p (handleInputStream cfg rs p).written else st)
        (inv.isSome && expiredAfter p.dls false) rs' (if inv.isSome then progs.tail else progs)
      { invs := inv.toList ++ o.invs, written := w ++ o.written, result := o.result }

def serveC (cfg : Cfg) (closed : Bool) (inp : List Tok) (progs : List Prog) : Out :=
  serveFC cfg (inp.length + 1) (if closed then .closed else .opn) false (RS.init inp) progs

/-- `serveC` after the application called `SetCloseDeadline` (once per entry of `pre`) before
`Serve` started -/
def serveCD (cfg : Cfg) (closed : Bool) (pre : List Nat) (inp : List Tok) (progs : List Prog) : Out :=
  serveFC cfg (inp.length + 1) (if closed then .closed else .opn) (expiredAfter pre false) (RS.init inp) progs

/-- `serveCD` for any state of the output when `Serve` starts (`broken`: an earlier `Send` was
abandoned inside an element) -/
def serveCS (cfg : Cfg) (st : OutSt) (pre : List Nat) (inp : List Tok) (progs : List Prog) : Out :=
  serveFC cfg (inp.length + 1) st (expiredAfter pre false) (RS.init inp) progs

/-! ### a connection that refuses writes

The encoder is buffered: what a handler (or the automatic reply) wrote reaches the connection in
one `Write` when `handleInputStream` flushes, and the closing tag is one more `Write`.  `left` =
number of writes the connection still accepts.  A refused flush ends the session with the write
error (the reply was lost: the stream is terminated, nothing after it is served); nothing that
was in the buffer reaches the peer.  Once a write was refused the encoder stays failed, so it
makes no difference whether the connection refuses one write or all later ones. -/

def serveFW (cfg : Cfg) : Nat → Nat → RS → List Prog → Out
  | 0, _, _, _ => { invs := [], written := [], result := .error .decoder }
  | fuel + 1, left, rs, progs =>
    match handleInputStream cfg rs (progs.headD Prog.nop) with
    | .stop inv w res =>
      if !w.isEmpty && left == 0 then { invs := inv.toList, written := [], result := .error .writeFault }
      else
        let left' := if w.isEmpty then left else left - 1
        -- the closing tag (after the stream error, which stays in the buffer) is a write too
        { invs := inv.toList, written := w, result := if left' == 0 then .error .writeFault else res }
    | .next inv w rs' =>
      if w.isEmpty then
        let o := serveFW cfg fuel left rs' (if inv.isSome then progs.tail else progs)
        { invs := inv.toList ++ o.invs, written := o.written, result := o.result }
      else if left == 0 then { invs := inv.toList, written := [], result := .error .writeFault }
      else
        let o := serveFW cfg fuel (left - 1) rs' (if inv.isSome then progs.tail else progs)
        { invs := inv.toList ++ o.invs, written := w ++ o.written, result := o.result }

def serveW (cfg : Cfg) (left : Nat) (inp : List Tok) (progs : List Prog) : Out :=
  serveFW cfg (inp.length + 1) left (RS.init inp) progs

/-! ### tokens of the regenerated verdict table (`Generated/C08.lean`) -/

/-- the token (and what follows it) a kind name of the fact table stands for -/
def factTok : String → Option (Tok × List Tok)
  | "ws" => some (.chars " \n", [])
  | "text" => some (.chars "x", [])
  | "comment" => some (.comment "c", [])
  | "pi-xml" => some (.procInst "xml" "version=\"1.0\"", [])
  | "pi-XML" => some (.procInst "XML" "x", [])
  | "pi-stylesheet" => some (.procInst "xml-stylesheet" "href=\"a\"", [])
  | "pi-x" => some (.procInst "x" "y", [])
  | "directive" => some (.directive "DOCTYPE x", [])
  | "stream-error" => some (.start ⟨nsStream, "error"⟩ [],
      [.start ⟨nsStreams, "host-gone"⟩ [], .stop ⟨nsStreams, "host-gone"⟩, .stop ⟨nsStream, "error"⟩])
  | "restart" => some (.start ⟨nsStream, "stream"⟩ [], [])
  | "stream-other" => some (.start ⟨nsStream, "features"⟩ [], [.stop ⟨nsStream, "features"⟩])
  | "plain" => some (.start ⟨"urn:e", "e"⟩ [], [.stop ⟨"urn:e", "e"⟩])
  | "close" => some (.stop ⟨nsStream, "stream"⟩, [])
  -- elements of the WebSocket framing namespace: ordinary content on a TCP stream, stream level
  -- on a session that uses the WebSocket subprotocol (`factVerdictW true`)
  | "framing-open" => some (.start ⟨nsFraming, "open"⟩ [], [.stop ⟨nsFraming, "open"⟩])
  | "framing-close" => some (.start ⟨nsFraming, "close"⟩ [], [.stop ⟨nsFraming, "close"⟩])
  | "framing-other" => some (.start ⟨nsFraming, "stream"⟩ [], [.stop ⟨nsFraming, "stream"⟩])
  | "framing-close-attrs" => some (.start ⟨nsFraming, "close"⟩ [attr "see-other-uri" "wss://o.example/"], [.stop ⟨nsFraming, "close"⟩])
  | "close-other-ns" => some (.start ⟨"urn:other", "close"⟩ [], [.stop ⟨"urn:other", "close"⟩])
  -- received stream errors with application-specific conditions (children in another namespace)
  | "se-app-after" => some (.start ⟨nsStream, "error"⟩ [],
      [.start ⟨nsStreams, "conflict"⟩ [], .stop ⟨nsStreams, "conflict"⟩,
       .start ⟨"urn:example", "replaced-by-new-login"⟩ [], .stop ⟨"urn:example", "replaced-by-new-login"⟩,
       .stop ⟨nsStream, "error"⟩])
  | "se-app-first" => some (.start ⟨nsStream, "error"⟩ [],
      [.start ⟨"urn:example", "app"⟩ [], .start ⟨"urn:example", "detail"⟩ [], .chars "x",
       .stop ⟨"urn:example", "detail"⟩, .stop ⟨"urn:example", "app"⟩,
       .start ⟨nsStreams, "host-gone"⟩ [], .stop ⟨nsStreams, "host-gone"⟩, .stop ⟨nsStream, "error"⟩])
  | "se-app-text" => some (.start ⟨nsStream, "error"⟩ [],
      [.start ⟨nsStreams, "not-authorized"⟩ [], .stop ⟨nsStreams, "not-authorized"⟩,
       .start ⟨nsStreams, "text"⟩ [⟨⟨"http://www.w3.org/XML/1998/namespace", "lang"⟩, "en"⟩], .chars "bye",
       .stop ⟨nsStreams, "text"⟩,
       .start ⟨"urn:example", "too-many"⟩ [], .start ⟨"urn:example", "n"⟩ [], .chars "3", .stop ⟨"urn:example", "n"⟩,
       .start ⟨"urn:example", "n"⟩ [], .stop ⟨"urn:example", "n"⟩, .stop ⟨"urn:example", "too-many"⟩,
       .stop ⟨nsStream, "error"⟩])
  | "se-text-first" => some (.start ⟨nsStream, "error"⟩ [],
      [.start ⟨nsStreams, "text"⟩ [], .chars "bye", .stop ⟨nsStreams, "text"⟩,
       .start ⟨nsStreams, "system-shutdown"⟩ [], .stop ⟨nsStreams, "system-shutdown"⟩, .stop ⟨nsStream, "error"⟩])
  | "se-app-only" => some (.start ⟨nsStream, "error"⟩ [],
      [.start ⟨"urn:example", "only"⟩ [], .stop ⟨"urn:example", "only"⟩, .stop ⟨nsStream, "error"⟩])
  | "se-empty" => some (.start ⟨nsStream, "error"⟩ [], [.stop ⟨nsStream, "error"⟩])
  | _ => none

def Rd.name : Rd → String
  | .tok _ => "tok"
  | .err e => e.name
  | .eof => "eof"

/-- the model's verdict for a kind of the fact table at a depth -/
def factVerdict (kind : String) (depth : Nat) : Option String :=
  (factTok kind).map fun p => (verdict depth p.1 p.2).2.name

/-- the same on a session with the WebSocket flag `ws` -/
def factVerdictW (ws : Bool) (kind : String) (depth : Nat) : Option String :=
  (factTok kind).map fun p => (verdict depth (wsTok ws depth p.1) (wsInputD ws (depthStep depth p.1) p.2)).2.name

/-! ### shapes of the detector probe (`Generated/C07.lean`, harness/c07 `ProbeToks`) -/

def probeId : String := "pq"

def probeName : Nat → Name
  | 0 => ⟨"", "iq"⟩ | 1 => ⟨nsClient, "iq"⟩ | 2 => ⟨nsServer, "iq"⟩ | 3 => ⟨"urn:other", "iq"⟩
  | _ => ⟨"", "message"⟩

def probeAttrs (idC typC : Nat) : List Attr :=
  (match typC with
   | 0 => [attr "type" "result"] | 1 => [attr "type" "error"] | 2 => [attr "type" "get"]
   | 3 => [attr "type" "set"] | 4 => [] | _ => [attr "type" "foo"]) ++
  (match idC with
   | 0 => [attr "id" probeId] | 1 => [attr "id" ("other-" ++ probeId)] | _ => [])

def wrapProbe : Nat → List Tok → List Tok
  | 0, ts => ts
  | l + 1, ts => wrapProbe l ([.start ⟨"urn:w", "w" ++ toString l⟩ []] ++ ts ++ [.stop ⟨"urn:w", "w" ++ toString l⟩])

/-- the tokens of one probe shape: an element (name class, id class, type class) wrapped in
`level` other elements -/
def probeToks (level nameC idC typC : Nat) : List Tok :=
  wrapProbe level [.start (probeName nameC) (probeAttrs idC typC), .stop (probeName nameC)]

/-- the model's verdict for a probe shape: does the detector's flag end up set -/
def probeVerdict (level nameC idC typC : Nat) : Bool :=
  (WS.init.encAll probeId (probeToks level nameC idC typC)).wrote

/-! ### what the peer sees: top-level elements written -/

/-- split a token list into its top-level elements (text between elements is dropped; an
unclosed last element is returned as it is) -/
def splitTopAux : List Tok → Nat → List Tok → List (List Tok) → List (List Tok)
  | [], _, cur, acc => (if cur.isEmpty then acc else cur.reverse :: acc).reverse
  | t :: ts, d, cur, acc =>
    match t with
    | .start .. => splitTopAux ts (d + 1) (t :: cur) acc
    | .stop _ =>
      if d ≤ 1 then splitTopAux ts 0 [] ((t :: cur).reverse :: acc)
      else splitTopAux ts (d - 1) (t :: cur) acc
    | _ => if d == 0 then splitTopAux ts d cur acc else splitTopAux ts d (t :: cur) acc

def splitTop (ts : List Tok) : List (List Tok) := splitTopAux ts 0 [] []

/-- is this top-level element a reply to request `id`: an iq (client, server or no namespace)
with that id and type result or error -/
def isReplyElem (id : String) : List Tok → Bool
  | .start n as :: _ => isReplyStart id n as
  | _ => false

/-- the replies to request `id` among the top-level elements of `ts` -/
def replies (id : String) (ts : List Tok) : List (List Tok) := (splitTop ts).filter (isReplyElem id)

def hasSU (ts : List Tok) : Bool :=
  ts.any fun t => match t with | .start n _ => n.loc == "service-unavailable" | _ => false

def nStarts (ts : List Tok) : Nat := (ts.filter Tok.isStart).length

/-- protocol summary of one written top-level element: local name, type, id, to, whether it
carries a service-unavailable condition, number of start tags -/
def elemSummary : List Tok → String
  | .start n as :: rest =>
    ",".intercalate [hexF n.loc, hexF (attrVal as "type"), hexF (attrVal as "id"), hexF (attrVal as "to"),
      (if hasSU rest then "1" else "0"), toString (nStarts rest + 1)]
  | _ => "?"

def writtenSummary (ts : List Tok) : List String := (splitTop ts).map elemSummary

/-! ### a connection that refuses writes, with the multiplexer as the session's handler -/

/-- the programs a `mux.ServeMux` (IQ handlers registered for the wildcard payload of the four
defined types: `reg`; or nothing registered) effectively runs for the top-level elements `els` of
a session, in order: `muxEffective` of each element with the registered handler's program -/
def muxProgs (reg : Bool) (cfg : Cfg) : List (List Tok) → List Prog → List Prog
  | [], _ => []
  | el :: els, ps =>
    (match firstElem cfg el with
     | some (n, as, body) => muxEffective reg cfg n as body (ps.headD Prog.nop)
     | none => ps.headD Prog.nop) :: muxProgs reg cfg els ps.tail

/-- `serveW` with the multiplexer in front -/
def serveWM (reg : Bool) (cfg : Cfg) (left : Nat) (inp : List Tok) (progs : List Prog) : Out :=
  serveW cfg left inp (muxProgs reg cfg (splitTop inp) progs)

end XmppModel.Serve
