/-!
# Panic skeletons (property C09)

Go code has partial operations (single-value type assertion, nil dereference, index out of
range, `panic(…)`, …); a total Lean function has none.  The *panic skeleton* of a Go
function makes them explicit: it keeps the control flow, the values whose dynamic *kind*
decides whether a partial operation faults (the dynamic type of an `xml.Token`, the
nil-ness of a `*xml.StartElement`), the guards that test those kinds, and every other
partial operation as an unconditional `hazard`.  Everything else is abstracted:

* a value that comes from outside (a token read from the peer's stream, the result of
  `Iter.Current()`) is `havoc x ks` – any kind of the set `ks`, chosen by the environment;
* a condition the skeleton does not understand is a `choice`, decided by the environment.

`exec` is the (fuel-bounded, oracle-driven) concrete semantics: the oracle list supplies
the environment's choices, so quantifying over all oracles and all fuels is quantifying
over all peer inputs and all schedules of unknown conditions.  `check` is an abstract
interpreter (one set of possible kinds per variable, refined by dominating guards, joined
at merges, loops closed by a verified invariant).  The soundness theorem lives in
`Lemmas/Skeleton.lean`.

The skeletons themselves are regenerated from the Go source on every run by
`harness/c09` (go/ast + go/types) into `Generated/C09.lean`.
-/
namespace XmppModel.Skeleton

/-- Dynamic kind of a tracked value: the seven possible dynamic types of an `xml.Token`
(`nil` interface included) and, for pointers, `nil` / `ptr` (non-nil). -/
/- For a tracked slice / string variable the same eight values stand for its *length class*:
kind number k (`Kind.toNat`) = length k for k ≤ 6, kind 7 (`ptr`) = length ≥ 7.  A comparison
`len(x) op c` becomes `ifKind`, a constant index `x[c]` becomes `require x {c+1, …, 7}`; the
checker and its soundness theorem do not care what the eight values mean. -/
inductive Kind
  | nil | start | stop | chars | comment | procInst | directive | ptr
  deriving DecidableEq, Repr, Inhabited

abbrev Var := Nat
abbrev Site := Nat
abbrev KSet := List Kind

def allKinds : KSet :=
  [.nil, .start, .stop, .chars, .comment, .procInst, .directive, .ptr]

theorem mem_allKinds (k : Kind) : k ∈ allKinds := by cases k <;> decide

/-- `Kind` ↔ bit position, for the protocol / generated encoding of kind sets. -/
def Kind.toNat : Kind → Nat
  | .nil => 0 | .start => 1 | .stop => 2 | .chars => 3 | .comment => 4
  | .procInst => 5 | .directive => 6 | .ptr => 7

def Kind.ofNat? : Nat → Option Kind
  | 0 => some .nil | 1 => some .start | 2 => some .stop | 3 => some .chars
  | 4 => some .comment | 5 => some .procInst | 6 => some .directive | 7 => some .ptr
  | _ => none

/-- kind set of a bit mask (bit `i` set ⇔ kind number `i` is a member) -/
def ksOfMask (m : Nat) : KSet := allKinds.filter fun k => m.testBit k.toNat

def maskOfKs (ks : KSet) : Nat :=
  (allKinds.filter (fun k => decide (k ∈ ks))).foldl (fun m k => m + 2 ^ k.toNat) 0

/-- The skeleton IR. -/
inductive Stmt
  | skip
  | seq (a b : Stmt)
  /-- `x :=` a value of some kind in `ks`, chosen by the environment -/
  | havoc (x : Var) (ks : KSet)
  /-- `x := y` -/
  | copy (x y : Var)
  /-- a partial operation on `x` that faults unless `kind x ∈ ks` (unchecked assertion,
  dereference) -/
  | require (x : Var) (ks : KSet) (site : Site)
  /-- branch on `kind x ∈ ks` (comma-ok assertion, type switch case, nil test) -/
  | ifKind (x : Var) (ks : KSet) (thn els : Stmt)
  /-- a condition the skeleton does not interpret -/
  | choice (a b : Stmt)
  /-- `for { body }`: left only by `brk` / `ret` (conditions are inside the body) -/
  | loop (site : Site) (body : Stmt)
  /-- `switch` / `select`: a `break` inside leaves the block, `continue` passes through -/
  | block (body : Stmt)
  | ret | brk | cont
  /-- any other partial operation (index, slice, `make`, `panic`, `Must…`, send on a channel
  that may be closed, assertion the translator does not understand): may fault -/
  | hazard (site : Site)
  deriving Repr, Inhabited

/-! ## Concrete semantics -/

/-- concrete state: the kind of every variable and what is left of the environment's
choices -/
structure CState where
  σ : Var → Kind
  orc : List Nat

def upd (σ : Var → Kind) (x : Var) (k : Kind) : Var → Kind := fun y => if y = x then k else σ y

inductive Out
  | norm (st : CState)
  | brk (st : CState)
  | cont (st : CState)
  | ret
  | panic (site : Site)
  /-- fuel or oracle exhausted, or the oracle proposed a kind outside the `havoc` set -/
  | stuck

def Out.panicSite : Out → Option Site
  | .panic s => some s
  | _ => none

/-- Fuel-bounded execution.  Every node costs one unit of fuel, so a single induction on
the fuel covers all recursive calls. -/
def exec : Nat → Stmt → CState → Out
  | 0, _, _ => .stuck
  | _ + 1, .skip, st => .norm st
  | n + 1, .seq a b, st =>
    match exec n a st with
    | .norm st' => exec n b st'
    | o => o
  | _ + 1, .havoc x ks, st =>
    match st.orc with
    | [] => .stuck
    | c :: rest =>
      match Kind.ofNat? c with
      | none => .stuck
      | some k => if k ∈ ks then .norm ⟨upd st.σ x k, rest⟩ else .stuck
  | _ + 1, .copy x y, st => .norm ⟨upd st.σ x (st.σ y), st.orc⟩
  | _ + 1, .require x ks site, st => if st.σ x ∈ ks then .norm st else .panic site
  | n + 1, .ifKind x ks t e, st => if st.σ x ∈ ks then exec n t st else exec n e st
  | n + 1, .choice a b, st =>
    match st.orc with
    | [] => .stuck
    | c :: rest => if c = 0 then exec n a ⟨st.σ, rest⟩ else exec n b ⟨st.σ, rest⟩
  | n + 1, .loop site body, st =>
    match exec n body st with
    | .norm st' => exec n (.loop site body) st'
    | .cont st' => exec n (.loop site body) st'
    | .brk st' => .norm st'
    | o => o
  | n + 1, .block body, st =>
    match exec n body st with
    | .brk st' => .norm st'
    | o => o
  | _ + 1, .ret, _ => .ret
  | _ + 1, .brk, st => .brk st
  | _ + 1, .cont, st => .cont st
  | _ + 1, .hazard site, st =>
    match st.orc with
    | [] => .stuck
    | c :: rest => if c = 0 then .norm ⟨st.σ, rest⟩ else .panic site

/-! ## Abstract interpreter -/

/-- abstract store: entry `i` = the kinds variable `i` may have; a variable beyond the end
of the list may have any kind -/
abbrev AStore := List KSet

def get (a : AStore) (x : Var) : KSet :=
  match a[x]? with
  | some ks => ks
  | none => allKinds

def inter (cur ks : KSet) : KSet := cur.filter fun k => decide (k ∈ ks)
def diff (cur ks : KSet) : KSet := cur.filter fun k => !decide (k ∈ ks)
def subset (cur ks : KSet) : Bool := cur.all fun k => decide (k ∈ ks)

def join (a b : AStore) : AStore := List.zipWith (· ++ ·) a b

/-- `leq a b`: every concrete store described by `a` is described by `b` -/
def leq (a b : AStore) : Bool :=
  (List.range b.length).all fun i => subset (get a i) (get b i)

def joinO : Option AStore → Option AStore → Option AStore
  | none, y => y
  | x, none => x
  | some a, some b => some (join a b)

def leqO : Option AStore → AStore → Bool
  | none, _ => true
  | some a, b => leq a b

/-- abstract result: the stores with which control may leave the statement normally, by
`break`, by `continue` (`none` = cannot) -/
structure Res where
  norm : Option AStore
  brk : Option AStore
  cont : Option AStore
  deriving Repr

def Res.bot : Res := ⟨none, none, none⟩

def Res.join (r s : Res) : Res := ⟨joinO r.norm s.norm, joinO r.brk s.brk, joinO r.cont s.cont⟩

/-- candidate loop invariant: `k` rounds of "join what comes back" -/
def iterInv (f : AStore → Res) : Nat → AStore → AStore
  | 0, a => a
  | k + 1, a =>
    let r := f a
    let a1 := match r.norm with | some b => join a b | none => a
    let a2 := match r.cont with | some b => join a1 b | none => a1
    iterInv f k a2

/-- rounds of invariant inference before the candidate is verified (kind sets only grow and
have at most eight members; two rounds suffice for all idioms met so far) -/
def invRounds : Nat := 3

/-- The checker: abstract result and the list of sites it could not prove safe (a `loop`
whose candidate invariant does not verify is reported with the loop's own site). -/
def check : Stmt → AStore → Res × List Site
  | .skip, a => (⟨some a, none, none⟩, [])
  | .seq s t, a =>
    let (r1, e1) := check s a
    match r1.norm with
    | none => (r1, e1)
    | some a1 =>
      let (r2, e2) := check t a1
      (⟨r2.norm, joinO r1.brk r2.brk, joinO r1.cont r2.cont⟩, e1 ++ e2)
  | .havoc x ks, a => (⟨some (a.set x ks), none, none⟩, [])
  | .copy x y, a => (⟨some (a.set x (get a y)), none, none⟩, [])
  | .require x ks site, a =>
    if subset (get a x) ks then (⟨some a, none, none⟩, [])
    else (⟨some (a.set x (inter (get a x) ks)), none, none⟩, [site])
  | .ifKind x ks t e, a =>
    let at_ := inter (get a x) ks
    let ae := diff (get a x) ks
    let (rt, et) := if at_.isEmpty then (Res.bot, []) else check t (a.set x at_)
    let (re, ee) := if ae.isEmpty then (Res.bot, []) else check e (a.set x ae)
    (rt.join re, et ++ ee)
  | .choice s t, a =>
    let (r1, e1) := check s a
    let (r2, e2) := check t a
    (r1.join r2, e1 ++ e2)
  | .loop site body, a =>
    let inv := iterInv (fun a' => (check body a').1) invRounds a
    let (r, e) := check body inv
    let ok := leq a inv && leqO r.norm inv && leqO r.cont inv
    (⟨r.brk, none, none⟩, if ok then e else e ++ [site])
  | .block body, a =>
    let (r, e) := check body a
    (⟨joinO r.norm r.brk, none, r.cont⟩, e)
  | .ret, _ => (Res.bot, [])
  | .brk, a => (⟨none, some a, none⟩, [])
  | .cont, a => (⟨none, none, some a⟩, [])
  | .hazard site, a => (⟨some a, none, none⟩, [site])

/-- number of variables of a skeleton (one more than the largest variable mentioned) -/
def nvars : Stmt → Nat
  | .seq a b | .choice a b => max (nvars a) (nvars b)
  | .havoc x _ | .require x _ _ => x + 1
  | .copy x y => max (x + 1) (y + 1)
  | .ifKind x _ t e => max (x + 1) (max (nvars t) (nvars e))
  | .loop _ b | .block b => nvars b
  | _ => 0

/-- the abstract store "every variable may have any kind" -/
def top (n : Nat) : AStore := List.replicate n allKinds

/-- sites of a skeleton that the checker cannot prove panic-free, starting from "every
variable may have any kind" -/
def flagged (s : Stmt) : List Site := (check s (top (nvars s))).2

def safe (s : Stmt) : Bool := (flagged s).isEmpty

/-! ## Protocol / generated encoding

Prefix notation, tokens separated by `.`; kind sets as bit masks:

    k | s A B | h x mask | c x y | r x mask site | i x mask T E | o A B | l site B | b B | R | B | C | z site
-/

def encode : Stmt → List String
  | .skip => ["k"]
  | .seq a b => "s" :: encode a ++ encode b
  | .havoc x ks => ["h", toString x, toString (maskOfKs ks)]
  | .copy x y => ["c", toString x, toString y]
  | .require x ks site => ["r", toString x, toString (maskOfKs ks), toString site]
  | .ifKind x ks t e => ["i", toString x, toString (maskOfKs ks)] ++ encode t ++ encode e
  | .choice a b => "o" :: encode a ++ encode b
  | .loop site b => ["l", toString site] ++ encode b
  | .block b => "b" :: encode b
  | .ret => ["R"] | .brk => ["B"] | .cont => ["C"]
  | .hazard site => ["z", toString site]

/-- prefix parser; the fuel bounds the nesting depth (the token count is enough) -/
def decodeAux : Nat → List String → Option (Stmt × List String)
  | 0, _ => none
  | _ + 1, [] => none
  | n + 1, t :: ts =>
    match t, ts with
    | "k", rest => some (.skip, rest)
    | "R", rest => some (.ret, rest)
    | "B", rest => some (.brk, rest)
    | "C", rest => some (.cont, rest)
    | "s", rest => do
      let (a, r1) ← decodeAux n rest
      let (b, r2) ← decodeAux n r1
      pure (.seq a b, r2)
    | "o", rest => do
      let (a, r1) ← decodeAux n rest
      let (b, r2) ← decodeAux n r1
      pure (.choice a b, r2)
    | "h", x :: m :: rest => do
      let x ← x.toNat?; let m ← m.toNat?
      pure (.havoc x (ksOfMask m), rest)
    | "c", x :: y :: rest => do
      let x ← x.toNat?; let y ← y.toNat?
      pure (.copy x y, rest)
    | "r", x :: m :: site :: rest => do
      let x ← x.toNat?; let m ← m.toNat?; let site ← site.toNat?
      pure (.require x (ksOfMask m) site, rest)
    | "i", x :: m :: rest => do
      let x ← x.toNat?; let m ← m.toNat?
      let (a, r1) ← decodeAux n rest
      let (b, r2) ← decodeAux n r1
      pure (.ifKind x (ksOfMask m) a b, r2)
    | "l", site :: rest => do
      let site ← site.toNat?
      let (b, r1) ← decodeAux n rest
      pure (.loop site b, r1)
    | "b", rest => do
      let (b, r1) ← decodeAux n rest
      pure (.block b, r1)
    | "z", site :: rest => do
      let site ← site.toNat?
      pure (.hazard site, rest)
    | _, _ => none

def decode (s : String) : Option Stmt :=
  let ts := s.splitOn "."
  match decodeAux (ts.length + 1) ts with
  | some (st, []) => some st
  | _ => none

end XmppModel.Skeleton
