import XmppModel.Model.Ibb
/-!
# Receiver histories with flow control (C15, round E)

A receiver history is any interleaving of incoming data packets (good or bad), `Read` calls of
any size and `SetReadBuffer` calls, starting from ANY receiver state — in particular with the
default limit of 262144 bytes, or any other limit.  `flowRun` runs `recv` / `read` / `setMax` over
such a history and records the replies, the packets that were acknowledged and the bytes the
reader got.
-/
namespace XmppModel.Ibb
open XmppModel

inductive FOp
  | pkt (p : Packet)
  | read (n : Nat)
  | setMax (n bs : Nat)
  deriving DecidableEq, Repr

structure FRes where
  st : RState
  replies : List Reply      -- one per packet, in order
  acked : List Packet       -- the packets that were acknowledged, in order
  delivered : Bytes         -- what the Read calls returned, concatenated
  deriving DecidableEq, Repr

def flowRun (cd : Codec) : RState → List FOp → FRes
  | s, [] => ⟨s, [], [], []⟩
  | s, .pkt p :: os =>
    let r := recv cd s p
    let rest := flowRun cd r.1 os
    ⟨rest.st, r.2 :: rest.replies, if r.2 = .ack then p :: rest.acked else rest.acked, rest.delivered⟩
  | s, .read n :: os =>
    let r := read s n
    let rest := flowRun cd r.1 os
    ⟨rest.st, rest.replies, rest.acked, r.2 ++ rest.delivered⟩
  | s, .setMax n bs :: os => flowRun cd (setMax s n bs) os

/-- a packet fits the receive buffer at this moment -/
def fits (s : RState) (d : Bytes) : Prop := s.maxBuf = 0 ∨ s.buf.length + d.length ≤ s.maxBuf

instance (s : RState) (d : Bytes) : Decidable (fits s d) := by unfold fits; exact inferInstance

/-- a sequence of `Read` calls -/
def readAll : RState → List Nat → RState
  | s, [] => s
  | s, n :: ns => readAll (read s n).1 ns

end XmppModel.Ibb
