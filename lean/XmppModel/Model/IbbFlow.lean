import XmppModel.Model.Ibb
/-!
# Receiver histories with flow control (C15, round E)

A receiver history is any interleaving of incoming data packets (good or bad), `Read` calls of
any size and `SetReadBuffer` calls, starting from ANY receiver state — in particular with the
default limit of 262144 bytes, or any other limit.  `flowRun` runs `recv` / `read` / `setMax` over
such a history and records the replies, the packets that were acknowledged and the bytes the
reader got.
-/
namespace XmppModel.Ibb
open XmppModel

inductive FOp
  | pkt (p : Packet)
  | read (n : Nat)
  | setMax (n bs : Nat)
  deriving DecidableEq, Repr

structure FRes where
  st : RState
  replies : List Reply      -- one per packet, in order
  acked : List Packet       -- the packets that were acknowledged, in order
  delivered : Bytes         -- what the Read calls returned, concatenated
  deriving DecidableEq, Repr

def flowRun (cd : Codec) : RState → List FOp → FRes
  | s, [] => ⟨s, [], [], []⟩
  | s, .pkt p :: os =>
    let r := recv cd s p
    let rest := flowRun cd r.1 os
    ⟨rest.st, r.2 :: rest.replies, if r.2 = .ack then p :: rest.acked else rest.acked, rest.delivered⟩
  | s, .read n :: os =>
    let r := read s n
    let rest := flowRun cd r.1 os
    ⟨rest.st, rest.replies, rest.acked, r.2 ++ rest.delivered⟩
  | s, .setMax n bs :: os => flowRun cd (setMax s n bs) os

/-- a packet fits the receive buffer at this moment -/
def fits (s : RState) (d : Bytes) : Prop := s.maxBuf = 0 ∨ s.buf.length + d.length ≤ s.maxBuf

instance (s : RState) (d : Bytes) : Decidable (fits s d) := by unfold fits; exact inferInstance

/-- a sequence of `Read` calls -/
def readAll : RState → List Nat → RState
  | s, [] => s
  | s, n :: ns => readAll (read s n).1 ns

/-- the histories with every stanza that does not name the stream (other sid, other sender) removed -/
def dropForeign : List FOp → List FOp
  | [] => []
  | .pkt p :: os => if p.known then .pkt p :: dropForeign os else dropForeign os
  | o :: os => o :: dropForeign os

/-! ### who a stanza comes from

A stream is identified by its session id together with the entity it was opened with.  Kinds of
senders, as probed on the real code by `harness facts` (`senderProbe`): 0 the stream's peer (same full
address), 1 another resource of the peer's account, 2 the peer's bare address, 3 a third party, 4 the
peer's server, 5 no `from` at all — the entity on the other side of the XMPP session itself, which
stamps the address on everything it delivers for somebody else. -/

def senderIsPeer (kind : Nat) : Bool := kind == 0 || kind == 5

/-- the model's answers to one probe: a data packet (number 0, `QQ==`) and then a close request that
name the stream's session id and come from a sender of that kind -/
def senderModel (kind : Nat) : Nat × String × String :=
  let r := recv std ⟨true, 0, [], 0⟩ ⟨senderIsPeer kind, 0, [81, 81, 61, 61]⟩
  (kind, showReply r.2, showReply (closeRequest r.1 (senderIsPeer kind)).2)

end XmppModel.Ibb
