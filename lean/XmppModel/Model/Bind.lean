/-!
# Resource binding (`bind.go`) — property C12

Both roles of the `urn:ietf:params:xml:ns:xmpp-bind` feature as functions from what the
peer / the application's callback does to what is sent, which address the session reports
afterwards, the error returned and whether the `Ready` bit is set.

Parameters: `encoding/xml` (the reply arrives classified: which element, whether its id is
the request's, its type, what its `<jid/>` holds), `jid.Parse` (addresses arrive as
canonical strings or as "invalid"), the random resource (`attr.RandomID`).
-/
namespace XmppModel.Bind

/-- the resourcepart of a canonical address string: what follows the first `/`
(localparts and domainparts cannot contain one) -/
def resourcepartL (j : List Char) : List Char :=
  match j.dropWhile (· ≠ '/') with
  | [] => []
  | _ :: r => r

def resourcepart (j : String) : String := String.ofList (resourcepartL j.toList)

/-! ## initiating side -/

/-- content of `<jid/>` in a reply -/
inductive JidField
  | absent            -- no `<bind/>`, no `<jid/>`, or an empty one: the zero JID
  | valid (j : String)
  | invalid           -- text that `jid.Parse` refuses
  deriving DecidableEq, Repr

inductive Reply
  | eof
  | nonElement                     -- a token that is not a start element
  | otherElement                   -- an element that is not `{jabber:client}iq`
  | iq (idMatches : Bool) (type : String) (jid : JidField) (errCond : Option String)
  deriving DecidableEq, Repr

inductive CErr
  | none | eof | badFormat | jidError | undefinedCondition
  | stanzaError (cond : String) | badRequest
  deriving DecidableEq, Repr

def CErr.toString : CErr → String
  | .none => "nil" | .eof => "eof" | .badFormat => "stream:bad-format" | .jidError => "jiderr"
  | .undefinedCondition => "stream:undefined-condition"
  | .stanzaError c => "stanza:" ++ c | .badRequest => "stanza:bad-request"

structure CRes where
  /-- the resourcepart asked for: `none` = no `<resource/>` element in the request -/
  requested : Option String
  err : CErr
  /-- `LocalAddr()` afterwards -/
  addr : String
  ready : Bool
  deriving DecidableEq, Repr

/-- the request: `<resource/>` carries the session's own resourcepart, and is left out
when there is none -/
def request (addr : String) : Option String :=
  if resourcepart addr = "" then none else some (resourcepart addr)

/-- the initiating side of `bind` -/
def client (addr : String) (r : Reply) : CRes :=
  let fail (e : CErr) : CRes := ⟨request addr, e, addr, false⟩
  match r with
  | .eof => fail .eof
  | .nonElement => fail .badFormat
  | .otherElement => fail .badFormat
  | .iq idOK type jid errCond =>
    match jid with
    | .invalid => fail .jidError
    | .absent =>
      if ¬ idOK then fail .undefinedCondition
      else if type = "result" then fail .badFormat
      else if type = "error" then
        match errCond with
        | some c => fail (.stanzaError c)
        | none => fail (.stanzaError "undefined-condition")
      else fail .badRequest
    | .valid j =>
      if ¬ idOK then fail .undefinedCondition
      else if type = "result" then ⟨request addr, .none, j, true⟩
      else if type = "error" then
        match errCond with
        | some c => fail (.stanzaError c)
        | none => fail (.stanzaError "undefined-condition")
      else fail .badRequest

/-! ## receiving side -/

/-- what the application's callback (or the default) does with a request -/
inductive Callback
  | default                      -- no callback: bare remote address + random resource
  | address (j : String)         -- the callback chose this address
  | stanzaError (cond : String)  -- the callback refused with a stanza error
  | failure                      -- the callback failed with another error
  deriving DecidableEq, Repr

inductive Assigned
  | jid (j : String)
  /-- bare remote address with a random resource: the `k`-th value the random source
  (`attr.RandomID`) handed out.  The source is an oracle that yields a value it never yielded
  before on every CALL (trusted: 64 random bits), so distinct `k` are distinct resources. -/
  | random (k : Nat)
  deriving DecidableEq, Repr

/-- the reply IQ -/
structure ReplyIQ where
  type : String
  id : String
  /-- `to` / `from` of the reply (`""` = absent) -/
  to : String
  src : String
  assigned : Option Assigned
  cond : Option String
  deriving DecidableEq, Repr

structure SRes where
  /-- the reply; `none` = nothing sent -/
  reply : Option ReplyIQ
  /-- arguments the callback was called with: remote address, requested resource -/
  cbArgs : Option (String × String)
  err : Option String
  ready : Bool
  deriving DecidableEq, Repr

def addrOf : JidField → String
  | .valid j => j
  | _ => ""

/-- the receiving side of `bind`: `reqRes = none` when the request has no `<resource/>`;
`reqTo` / `reqFrom` are the request's `to` / `from` attributes.  A request whose addresses do
not parse is not answered.  The reply is addressed back: its `to` is the request's `from`,
its `from` the request's `to`. -/
def server (remote : String) (reqId : String) (reqRes : Option String) (reqTo reqFrom : JidField)
    (cb : Callback) (fresh : Nat := 0) : SRes :=
  if reqTo = .invalid ∨ reqFrom = .invalid then ⟨none, none, some "jiderr", false⟩ else
  let args := some (remote, reqRes.getD "")
  let rep (t : String) (a : Option Assigned) (c : Option String) : ReplyIQ :=
    ⟨t, reqId, addrOf reqFrom, addrOf reqTo, a, c⟩
  match cb with
  | .default => ⟨some (rep "result" (some (.random fresh)) none), none, none, true⟩
  | .address j => ⟨some (rep "result" (some (.jid j)) none), args, none, true⟩
  | .stanzaError c => ⟨some (rep "error" none (some c)), args, some ("stanza:" ++ c), false⟩
  | .failure => ⟨none, args, some "cberr", false⟩

/-! ### many sessions on one feature value: the random source is called once per session -/

structure Req where
  remote : String
  reqId : String
  reqRes : Option String
  reqTo : JidField
  reqFrom : JidField
  cb : Callback
  deriving Repr

/-- does serving this request call the random source? -/
def Req.drawsRandom (r : Req) : Bool :=
  r.cb == .default && !(r.reqTo == .invalid || r.reqFrom == .invalid)

/-- the sessions served one after the other (in the order in which they reach the callback),
`k` random values having been handed out before -/
def serveAll : Nat → List Req → List SRes
  | _, [] => []
  | k, r :: rs =>
    server r.remote r.reqId r.reqRes r.reqTo r.reqFrom r.cb k ::
      serveAll (if r.drawsRandom then k + 1 else k) rs

/-- the random values that were assigned -/
def randomIds : List SRes → List Nat
  | [] => []
  | r :: rs =>
    match r.reply with
    | some ⟨_, _, _, _, some (.random k), _⟩ => k :: randomIds rs
    | _ => randomIds rs

end XmppModel.Bind
