/-!
# Resource binding (`bind.go`) — property C12

Both roles of the `urn:ietf:params:xml:ns:xmpp-bind` feature as functions from what the
peer / the application's callback does to what is sent, which address the session reports
afterwards, the error returned and whether the `Ready` bit is set.

Parameters: `encoding/xml` (the reply arrives classified: which element, whether its id is
the request's, its type, what its `<jid/>` holds), `jid.Parse` (addresses arrive as
canonical strings or as "invalid"), the random resource (`attr.RandomID`).
-/
namespace XmppModel.Bind

/-- the resourcepart of a canonical address string: what follows the first `/`
(localparts and domainparts cannot contain one) -/
def resourcepartL (j : List Char) : List Char :=
  match j.dropWhile (· ≠ '/') with
  | [] => []
  | _ :: r => r

def resourcepart (j : String) : String := String.ofList (resourcepartL j.toList)

/-! ## initiating side -/

/-- content of `<jid/>` in a reply -/
inductive JidField
  | absent            -- no `<bind/>`, no `<jid/>`, or an empty one: the zero JID
  | valid (j : String)
  | invalid           -- text that `jid.Parse` refuses
  deriving DecidableEq, Repr

inductive Reply
  | eof
  | nonElement                     -- a token that is not a start element
  | otherElement                   -- an element that is not `{jabber:client}iq`
  | iq (idMatches : Bool) (type : String) (jid : JidField) (errCond : Option String)
  deriving DecidableEq, Repr

inductive CErr
  | none | eof | badFormat | jidError | undefinedCondition
  | stanzaError (cond : String) | badRequest
  deriving DecidableEq, Repr

def CErr.toString : CErr → String
  | .none => "nil" | .eof => "eof" | .badFormat => "stream:bad-format" | .jidError => "jiderr"
  | .undefinedCondition => "stream:undefined-condition"
  | .stanzaError c => "stanza:" ++ c | .badRequest => "stanza:bad-request"

structure CRes where
  /-- the resourcepart asked for: `none` = no `<resource/>` element in the request -/
  requested : Option String
  err : CErr
  /-- `LocalAddr()` afterwards -/
  addr : String
  ready : Bool
  deriving DecidableEq, Repr

/-- the request: `<resource/>` carries the session's own resourcepart, and is left out
when there is none -/
def request (addr : String) : Option String :=
  if resourcepart addr = "" then none else some (resourcepart addr)

/-- the initiating side of `bind` -/
def client (addr : String) (r : Reply) : CRes :=
  let fail (e : CErr) : CRes := ⟨request addr, e, addr, false⟩
  match r with
  | .eof => fail .eof
  | .nonElement => fail .badFormat
  | .otherElement => fail .badFormat
  | .iq idOK type jid errCond =>
    match jid with
    | .invalid => fail .jidError
    | .absent =>
      if ¬ idOK then fail .undefinedCondition
      else if type = "result" then fail .badFormat
      else if type = "error" then
        match errCond with
        | some c => fail (.stanzaError c)
        | none => fail (.stanzaError "undefined-condition")
      else fail .badRequest
    | .valid j =>
      if ¬ idOK then fail .undefinedCondition
      else if type = "result" then ⟨request addr, .none, j, true⟩
      else if type = "error" then
        match errCond with
        | some c => fail (.stanzaError c)
        | none => fail (.stanzaError "undefined-condition")
      else fail .badRequest

/-! ## receiving side -/

/-- what the application's callback (or the default) does with a request -/
inductive Callback
  | default                      -- no callback: bare remote address + random resource
  | address (j : String)         -- the callback chose this address
  | stanzaError (cond : String)  -- the callback refused with a stanza error
  | failure                      -- the callback failed with another error
  deriving DecidableEq, Repr

inductive Assigned
  | jid (j : String)
  /-- bare remote address with a random resource: the `k`-th value the random source
  (`attr.RandomID`) handed out.  The source is an oracle that yields a value it never yielded
  before on every CALL (trusted: 64 random bits), so distinct `k` are distinct resources. -/
  | random (k : Nat)
  deriving DecidableEq, Repr

/-- the reply IQ -/
structure ReplyIQ where
  type : String
  id : String
  /-- `to` / `from` of the reply (`""` = absent) -/
  to : String
  src : String
  assigned : Option Assigned
  cond : Option String
  deriving DecidableEq, Repr

structure SRes where
  /-- the reply; `none` = nothing sent -/
  reply : Option ReplyIQ
  /-- arguments the callback was called with: remote address, requested resource -/
  cbArgs : Option (String × String)
  err : Option String
  ready : Bool
  deriving DecidableEq, Repr

def addrOf : JidField → String
  | .valid j => j
  | _ => ""

/-- the receiving side of `bind`: `reqRes = none` when the request has no `<resource/>`;
`reqTo` / `reqFrom` are the request's `to` / `from` attributes.  A request whose addresses do
not parse is not answered.  The reply is addressed back: its `to` is the request's `from`,
its `from` the request's `to`. -/
def server (remote : String) (reqId : String) (reqRes : Option String) (reqTo reqFrom : JidField)
    (cb : Callback) (fresh : Nat := 0) : SRes :=
  if reqTo = .invalid ∨ reqFrom = .invalid then ⟨none, none, some "jiderr", false⟩ else
  let args := some (remote, reqRes.getD "")
  let rep (t : String) (a : Option Assigned) (c : Option String) : ReplyIQ :=
    ⟨t, reqId, addrOf reqFrom, addrOf reqTo, a, c⟩
  match cb with
  | .default => ⟨some (rep "result" (some (.random fresh)) none), none, none, true⟩
  | .address j => ⟨some (rep "result" (some (.jid j)) none), args, none, true⟩
  | .stanzaError c => ⟨some (rep "error" none (some c)), args, some ("stanza:" ++ c), false⟩
  | .failure => ⟨none, args, some "cberr", false⟩

/-! ### the stanza's own attributes (round E)

`bind.go` reads the `<iq/>` that carries the request / the reply through `stanza.NewIQ`: the id,
type, to and from of a stanza are its UNQUALIFIED attributes; an attribute with one of these local
names in a namespace (a foreign prefix, `xml:`, a prefix bound to the stanza's own namespace) is a
different attribute.  Later attributes overwrite earlier ones (`NewIQ` is a loop of assignments;
well-formed XML has no duplicates).  `jid.Parse` is the parameter `pj`. -/

structure Attr where
  space : String
  loc : String
  value : String
  deriving DecidableEq, Repr

def Attr.own (a : Attr) : Bool := a.space == ""

/-- the value of the stanza's own attribute `loc`; `none` = absent -/
def iqField (attrs : List Attr) (loc : String) : Option String :=
  ((attrs.filter fun a => a.own && a.loc == loc).getLast?).map (·.value)

/-- the lookup `attr.Get` does: the first attribute with that LOCAL name, whatever its namespace
(what bind.go did before the repair) -/
def anyNsField (attrs : List Attr) (loc : String) : Option String :=
  (attrs.find? fun a => a.loc == loc).map (·.value)

def strOf : Option String → String
  | some v => v
  | none => ""

/-- an address attribute: absent and empty are "no address", otherwise `jid.Parse` decides -/
def addrField (pj : String → Option String) : Option String → JidField
  | none => .absent
  | some v => if v = "" then .absent else
    match pj v with
    | some c => .valid c
    | none => .invalid

/-- the receiving side on the request's start element -/
def serverA (pj : String → Option String) (remote : String) (attrs : List Attr)
    (reqRes : Option String) (cb : Callback) (fresh : Nat := 0) : SRes :=
  server remote (strOf (iqField attrs "id")) reqRes (addrField pj (iqField attrs "to"))
    (addrField pj (iqField attrs "from")) cb fresh

/-- the initiating side: how a reply `{jabber:client}iq` with these attributes, this `<jid/>` and
this error condition is classified (the request's id is `reqId`) -/
def replyA (reqId : String) (attrs : List Attr) (jid : JidField) (errCond : Option String) : Reply :=
  .iq (strOf (iqField attrs "id") == reqId) (strOf (iqField attrs "type")) jid errCond

/-! ### many sessions on one feature value: the random source is called once per session -/

structure Req where
  remote : String
  reqId : String
  reqRes : Option String
  reqTo : JidField
  reqFrom : JidField
  cb : Callback
  deriving Repr

/-- does serving this request call the random source? -/
def Req.drawsRandom (r : Req) : Bool :=
  r.cb == .default && !(r.reqTo == .invalid || r.reqFrom == .invalid)

/-- the sessions served one after the other (in the order in which they reach the callback),
`k` random values having been handed out before -/
def serveAll : Nat → List Req → List SRes
  | _, [] => []
  | k, r :: rs =>
    server r.remote r.reqId r.reqRes r.reqTo r.reqFrom r.cb k ::
      serveAll (if r.drawsRandom then k + 1 else k) rs

/-- the random values that were assigned -/
def randomIds : List SRes → List Nat
  | [] => []
  | r :: rs =>
    match r.reply with
    | some ⟨_, _, _, _, some (.random k), _⟩ => k :: randomIds rs
    | _ => randomIds rs

end XmppModel.Bind
