/-!
# The serve loop's progress (property C09, "returns once the input ends")

`Session.Serve` (session.go) calls `handleInputStream` until it reports an error or EOF.
One call reads one top-level token through the stream reader (internal/stream/reader.go):

* end of input → `io.EOF` → Serve returns;
* whitespace → next iteration;
* a start element → the handler runs on the element's inner tokens, then the rest of the
  element is discarded (`xmlstream.Copy(discard, rw)`) → next iteration, unless the handler
  or the reader reported an error (comment / processing instruction / directive / stream
  error anywhere inside) → Serve sends a stream error and returns;
* anything else at top level → error → Serve returns.

The handler is a parameter (`fails`: does it return an error for this element?).  How much of
the element it reads does not matter for what is left: the loop discards the remainder.
-/
namespace XmppModel.ServeLoop

/-- token classes as the stream reader sees them -/
inductive Tk
  | start | stop | chars | bad
  deriving DecidableEq, Repr

/-- number of tokens up to and including the end tag that closes the element whose start tag
was just read (`d` = how many nested elements are open inside it); the whole input if it
ends first -/
def extent : Nat → List Tk → Nat
  | _, [] => 0
  | d, .start :: ts => 1 + extent (d + 1) ts
  | 0, .stop :: _ => 1
  | d + 1, .stop :: ts => 1 + extent d ts
  | d, _ :: ts => 1 + extent d ts

inductive Step
  | eof | next | stop
  deriving DecidableEq, Repr

/-- one `handleInputStream` call: verdict and what is left of the input -/
def serveStep (fails : List Tk → Bool) : List Tk → Step × List Tk
  | [] => (.eof, [])
  | .chars :: ts => (.next, ts)
  | .start :: ts =>
    let k := extent 0 ts
    let elem := ts.take k
    (if elem.contains .bad || fails elem then .stop else .next, ts.drop k)
  | _ :: ts => (.stop, ts)

inductive Outcome
  | eof | stopped | fuelOut
  deriving DecidableEq, Repr

structure Run where
  iterations : Nat
  outcome : Outcome
  rest : List Tk
  deriving Repr

/-- the `for` loop of Serve, with an explicit iteration budget -/
def serveAux (fails : List Tk → Bool) : Nat → List Tk → Nat → Run
  | 0, ts, it => ⟨it, .fuelOut, ts⟩
  | f + 1, ts, it =>
    match serveStep fails ts with
    | (.eof, rest) => ⟨it + 1, .eof, rest⟩
    | (.stop, rest) => ⟨it + 1, .stopped, rest⟩
    | (.next, rest) => serveAux fails f rest (it + 1)

/-- Serve on a finite input: a budget of one iteration per token plus one for the EOF -/
def serve (fails : List Tk → Bool) (input : List Tk) : Run :=
  serveAux fails (input.length + 1) input 0

end XmppModel.ServeLoop
