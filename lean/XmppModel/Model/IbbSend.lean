import XmppModel.Model.Ibb
/-!
# The sending side of an in-band bytestream (C15): executable packetiser

`Conn.Write` → `bufio.Writer` of `blockSize` bytes → `base64.NewEncoder` → `stanzaWriter.Write`
(one data stanza per call, numbered consecutively).  The model tracks the *raw* bytes of every
stanza (`chunks`); the payload on the wire is `stdEnc chunk` because the stream encoder encodes
every piece it hands down separately: three-byte fringe groups, interior pieces of at most 768
bytes whose length is a multiple of three, and the padded rest at `Close`.

* `bufWrite` is `bufio.Writer.Write`: fits → buffer; buffer empty and too large → hand the whole
  slice down; otherwise fill the buffer, flush it, and treat the rest the same way (at most once
  more, because the buffer is then empty).
* `encWrite` is `encoder.Write`: complete the leading fringe, emit interior pieces, keep the
  trailing fringe (< 3 bytes).
* `Flush` flushes only the bufio buffer (up to two bytes may stay in the encoder); `Close`
  flushes, closes the encoder (emits the padded rest) and sends `<close/>`; afterwards `Write`
  fails and `Flush`/`Close` do nothing.
-/
namespace XmppModel.Ibb
open XmppModel

inductive SOp
  | write (b : Bytes) | flush | close
  deriving DecidableEq, Repr

structure SState where
  bs : Nat                 -- size of the bufio buffer (`blockSize`, at least 1)
  wbuf : Bytes             -- bytes in the bufio buffer
  ebuf : Bytes             -- bytes held back by the base64 stream encoder (< 3)
  chunks : List Bytes      -- raw content of the data stanzas sent so far, in order
  closed : Bool
  deriving DecidableEq, Repr

def sinit (bs : Nat) : SState := ⟨bs, [], [], [], false⟩

/-- interior pieces: at most 768 bytes, a multiple of three; `fuel` bounds the recursion
(`p.length` always suffices) -/
def interior : Nat → Bytes → List Bytes × Bytes
  | 0, p => ([], p)
  | f + 1, p =>
    if 3 ≤ p.length then
      let nn := min 768 (p.length - p.length % 3)
      let r := interior f (p.drop nn)
      (p.take nn :: r.1, r.2)
    else ([], p)

/-- `encoder.Write`: emitted pieces and the new held-back bytes -/
def encWrite (ebuf p : Bytes) : List Bytes × Bytes :=
  if ebuf = [] then interior p.length p
  else
    let k := min (3 - ebuf.length) p.length
    let e' := ebuf ++ p.take k
    let p' := p.drop k
    if e'.length < 3 then ([], e')
    else
      let r := interior p'.length p'
      (e' :: r.1, r.2)

/-- hand bytes down to the encoder -/
def down (s : SState) (p : Bytes) : SState :=
  let r := encWrite s.ebuf p
  { s with chunks := s.chunks ++ r.1, ebuf := r.2 }

def bufFlush (s : SState) : SState :=
  if s.wbuf = [] then s else { down s s.wbuf with wbuf := [] }

def bufWrite (s : SState) (p : Bytes) : SState :=
  let avail := s.bs - s.wbuf.length
  if p.length ≤ avail then { s with wbuf := s.wbuf ++ p }
  else if s.wbuf = [] then down s p
  else
    let s1 := bufFlush { s with wbuf := s.wbuf ++ p.take avail }
    let t := p.drop avail
    if t.length ≤ s1.bs then { s1 with wbuf := t } else down s1 t

def sstep (s : SState) : SOp → SState
  | .write b => if s.closed then s else bufWrite s b
  | .flush => if s.closed then s else bufFlush s
  | .close =>
    if s.closed then s else
    let s1 := bufFlush s
    let s2 := if s1.ebuf = [] then s1 else { s1 with chunks := s1.chunks ++ [s1.ebuf], ebuf := [] }
    { s2 with closed := true }

def srun (s : SState) (ops : List SOp) : SState := ops.foldl sstep s

/-- the data stanzas of a chunk list, numbered from `n` -/
def mkPackets : Nat → List Bytes → List Packet
  | _, [] => []
  | n, c :: cs => ⟨true, n % 65536, stdEnc c⟩ :: mkPackets (n + 1) cs

/-- the bytes accepted by `Write` (writes after `Close` fail) -/
def writtenOf : Bool → List SOp → Bytes
  | _, [] => []
  | true, _ :: _ => []
  | false, .write b :: ops => b ++ writtenOf false ops
  | false, .flush :: ops => writtenOf false ops
  | false, .close :: _ => []

/-! ### one endpoint: both directions of a stream -/

/-- what can happen at one end of an open stream -/
inductive EOp
  | write (b : Bytes) | flush            -- local writer
  | packet (p : Packet) | read (n : Nat) -- incoming data stanza, local reader
  | close                                -- `Close` or the peer's `<close/>`: ends both directions
  deriving DecidableEq, Repr

structure Endpoint where
  tx : SState
  rx : RState
  deriving DecidableEq, Repr

def estep (cd : Codec) (e : Endpoint) : EOp → Endpoint
  | .write b => { e with tx := sstep e.tx (.write b) }
  | .flush => { e with tx := sstep e.tx .flush }
  | .packet p => { e with rx := (recv cd e.rx p).1 }
  | .read n => { e with rx := (read e.rx n).1 }
  | .close => { tx := sstep e.tx .close, rx := close e.rx }

def erun (cd : Codec) (e : Endpoint) (ops : List EOp) : Endpoint := ops.foldl (estep cd) e

/-- the writer's view of a history -/
def txOps : List EOp → List SOp
  | [] => []
  | .write b :: ops => .write b :: txOps ops
  | .flush :: ops => .flush :: txOps ops
  | .close :: ops => .close :: txOps ops
  | _ :: ops => txOps ops

/-- the reader's view of a history, replayed on the receiver alone -/
def rxRun (cd : Codec) : RState → List EOp → RState
  | s, [] => s
  | s, .packet p :: ops => rxRun cd (recv cd s p).1 ops
  | s, .read n :: ops => rxRun cd (read s n).1 ops
  | s, .close :: ops => rxRun cd (close s) ops
  | s, _ :: ops => rxRun cd s ops

end XmppModel.Ibb
