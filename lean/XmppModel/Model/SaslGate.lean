import XmppModel.Model.Sasl
/-!
# Around the two SASL loops (property C03, round E)

* the **gates** of the feature (`newSASL`: `Necessary: Secure`, `Prohibited: Authn`;
  `features.go` `StreamFeature.allowed`) and what the result of `Negotiate` does to the session
  state (`features.go` / `session.go`: `s.state |= mask`, only when `Negotiate` returned no
  error) — the `Authn` bit *of the session* as a function of the state the session started in,
  the feature's masks and the outcome of the exchange;
* the **options of the negotiator** handed to the selected mechanism (`sasl.Credentials`,
  `sasl.RemoteMechanisms`, `sasl.TLSState` iff `ConnectionState().Version != 0`) — what decides
  whether a `-PLUS` mechanism can bind the channel;
* **many sessions on one feature value with an explicit shared component**: everything a
  session's quantum could leave behind for the others (a variable of `newSASL` captured by the
  closures, a package-level variable) is a store `σ`; the set `W` of variables that are written
  is a parameter that the regenerated fact `saslSharedWrites` instantiates.
-/
namespace XmppModel.Sasl

/-! ## gates -/

/-- `Secure`, `Authn` (session.go: `1 << iota`) -/
def secureBit : Nat := 1
def authnBit : Nat := 2

/-- `StreamFeature.allowed`: all necessary bits and none of the prohibited ones -/
def allowed (nec proh state : Nat) : Bool := (state &&& nec == nec) && (state &&& proh == 0)

/-- the masks `newSASL` gives the feature, whatever the role and the mechanisms -/
def saslNecessary : Nat := secureBit
def saslProhibited : Nat := authnBit

/-- `s.state |= mask` after a `Negotiate` that returned no error; a `Negotiate` that returned
an error ends the session attempt, the state keeps its bits -/
def stateAfter (state : Nat) (authn : Bool) (err : Err) : Nat :=
  if err = .none then state ||| (if authn then authnBit else 0) else state

/-- a session in state `state` whose only way to the `Authn` bit is the SASL feature with masks
`nec` / `proh`: the exchange runs iff the feature is allowed; `none`: `Negotiate` never ran -/
def clientGated (nec proh state : Nat) (cm : List (String × Mech)) (adv : List String)
    (peer : List CEv) : Option CRes :=
  if allowed nec proh state then some (clientNeg cm adv peer) else none

def serverGated (nec proh state : Nat) (cfg : List (String × Mech)) (peer : List SEv) : Option SRes :=
  if allowed nec proh state then some (serverNeg cfg peer) else none

def clientStateAfter (nec proh state : Nat) (cm : List (String × Mech)) (adv : List String)
    (peer : List CEv) : Nat :=
  match clientGated nec proh state cm adv peer with
  | some r => stateAfter state r.authn r.err
  | none => state

def serverStateAfter (nec proh state : Nat) (cfg : List (String × Mech)) (peer : List SEv) : Nat :=
  match serverGated nec proh state cfg peer with
  | some r => stateAfter state r.authn r.err
  | none => state

/-! ## the options of the negotiator -/

/-- the part of `tls.ConnectionState` the mechanisms look at -/
structure ConnState where
  version : Nat
  unique : Bytes
  deriving DecidableEq, Repr

/-- `sasl.NewClient(selected, opts…)` / `sasl.NewServer(selected, permissions, opts…)` as the
mechanism sees it through its negotiator -/
structure NegOpts where
  tls : Option ConnState
  remote : List String
  user : String
  pass : String
  ident : String
  deriving DecidableEq, Repr

/-- `if connState := session.ConnectionState(); connState.Version != 0 { opts = append(opts,
sasl.TLSState(connState)) }`; `none`: the session's connection reports no TLS state at all -/
def tlsOpt (cs : Option ConnState) : Option ConnState :=
  match cs with
  | some s => if s.version = 0 then none else some s
  | none => none

def clientOpts (cs : Option ConnState) (adv : List String) (localpart pass ident : String) : NegOpts :=
  { tls := tlsOpt cs, remote := adv, user := localpart, pass := pass, ident := ident }

/-- `SASLServer` builds the feature with empty identity and password; the receiving side hands
no remote mechanism list to the negotiator -/
def serverOpts (cs : Option ConnState) (localpart : String) : NegOpts :=
  { tls := tlsOpt cs, remote := [], user := localpart, pass := "", ident := "" }

/-- the connection kinds of the probe `saslNegOpts` (harness/c03/probes.go `connOfKind`) -/
def connOfKind : Nat → Option ConnState
  | 1 => some ⟨0, []⟩
  | 2 => some ⟨771, [7, 8, 9]⟩
  | 3 => some ⟨772, []⟩
  | _ => none

/-- a row of the probe table `saslNegOpts` as the model predicts it: what the recording
mechanism reports for role / connection kind / advertised list (the probe's sessions use the
local part `user`, password `pw`, identity `ident`; a mechanism that sees no TLS state reports
version 0 and no tls-unique data) -/
def optsRow (role : String) (kind : Nat) (adv : List String) :
    Option ((Bool × Nat × List Nat) × List String × (String × String × String)) :=
  let enc (o : NegOpts) :=
    ((match o.tls with
      | some s => (true, s.version, s.unique.map (·.toNat))
      | none => (false, 0, [])), o.remote, (o.user, o.pass, o.ident))
  if role = "cli" then some (enc (clientOpts (connOfKind kind) adv "user" "pw" "ident"))
  else if role = "srv" then some (enc (serverOpts (connOfKind kind) ""))
  else none

/-! ### channel binding: the flag a SCRAM client of the dependency announces

`mellium.im/sasl` (trusted base, transcribed from `getGS2Header` / `NewClient`): a `-PLUS`
mechanism whose negotiator has a TLS state and whose own name is in the remote list binds the
channel (`p=tls-unique` below TLS 1.3, `p=tls-exporter` from TLS 1.3 on); with a TLS state but
without the name in the remote list it says `y`; everything else says `n`. -/
inductive Gs2
  | n | y | pUnique | pExporter
  deriving DecidableEq, Repr

def Gs2.toString : Gs2 → String
  | .n => "n" | .y => "y" | .pUnique => "p=tls-unique" | .pExporter => "p=tls-exporter"

/-- `strings.HasSuffix(name, "-PLUS")` -/
def isPlus (name : String) : Bool := !serverSupported name

def gs2Flag (o : NegOpts) (name : String) : Gs2 :=
  match o.tls with
  | none => .n
  | some s =>
    if !isPlus name then .n
    else if o.remote.contains name then (if 772 ≤ s.version then .pExporter else .pUnique)
    else .y

/-- a row of the probe table `saslScramGs2` as the model predicts it: `select` picks the
mechanism, `clientOpts` builds its negotiator, the dependency derives the flag -/
def gs2Row (kind : Nat) (cm adv : List String) : String × String :=
  match select (cm.map fun n => (n, (fun _ => ({ kind := .more } : StepRes)))) adv with
  | some (name, _) =>
    if name = "" then ("-", "-")
    else (name, (gs2Flag (clientOpts (connOfKind kind) adv "user" "pw" "") name).toString)
  | none => ("-", "-")

/-! ### the conditions of `<failure/>` (`internal/saslerr`) -/

/-- the defined conditions (`saslerr.Condition`, RFC 6120 §6.5) -/
def definedConds : List String :=
  ["aborted", "account-disabled", "credentials-expired", "encryption-required", "incorrect-encoding",
   "invalid-authzid", "invalid-mechanism", "malformed-request", "mechanism-too-weak", "not-authorized",
   "temporary-auth-failure"]

/-- `saslerr.Error.Error()` of a decoded `<failure/>` without text: the condition, `none` when
the child is not a defined condition or missing -/
def failureText (cond : String) : String := if definedConds.contains cond then cond else "none"

/-- the conditions `negotiateServer` sends (`sendSASLError`) -/
def serverFailureConds : List String := ["invalid-mechanism", "aborted", "malformed-request", "not-authorized"]

/-! ## many sessions, with a shared component -/

/-- What the sessions on one feature value could share.  `σ` is the store; `init` its value
when the feature value is built; `read` how the store enters a quantum (the negotiator state
the quantum starts from — a cached `selected`/`server`, a pooled buffer that still holds
another session's payload …); `write v` what a quantum leaves in variable `v` of the store.
`read_init`: a store nobody has written to is neutral (Go's zero values). -/
structure Shared (σ : Type) where
  init : σ
  read : σ → Option SCur → Option SCur
  write : String → σ → SSess → σ
  read_init : ∀ c, read init c = c

def SSess.withCur (f : Option SCur → Option SCur) : SSess → SSess
  | .running cur rest sent perms n => .running (f cur) rest sent perms n
  | .finished r => .finished r

/-- one quantum of a session in the presence of the store: `W` are the variables of the store
that the code writes -/
def stepShared {σ : Type} (sh : Shared σ) (W : List String) (cfg : List (String × Mech))
    (g : σ) (s : SSess) : σ × SSess :=
  let s' := SSess.step cfg (s.withCur (sh.read g))
  (W.foldl (fun g v => sh.write v g s') g, s')

def runSchedShared {σ : Type} (sh : Shared σ) (W : List String) (cfg : List (String × Mech)) :
    σ → List SSess → List Nat → σ × List SSess
  | g, ss, [] => (g, ss)
  | g, ss, i :: sched =>
    match ss[i]? with
    | none => runSchedShared sh W cfg g ss sched
    | some s =>
      runSchedShared sh W cfg (stepShared sh W cfg g s).1 (ss.set i (stepShared sh W cfg g s).2) sched

/-- a store that mirrors a plausible regression: the negotiator state of the last quantum is
kept in a variable outside `negotiateServer` (`"cur"`), and a quantum that has none of its own
starts from it -/
def leakyShared : Shared (Option SCur) where
  init := none
  read := fun g cur => match cur with | some c => some c | none => g
  write := fun _ g s => match s with
    | .running (some c) _ _ _ _ => some c
    | _ => g
  read_init := by intro c; cases c <;> rfl

/-- what is compared of a session: finished?, `Authn`, the permission verdicts -/
def sessSummary : SSess → Option (Bool × List PermCall)
  | .finished r => some (r.authn, r.perms)
  | .running .. => none

end XmppModel.Sasl

namespace XmppModel.Sasl

/-! ## the initiating side in small steps, many sessions on one `xmpp.SASL` value

A client library negotiates all its connections with one `xmpp.SASL(identity, password, …)`
value.  A quantum of a session is: the selection of the mechanism, its `Start` and the
`<auth/>` element; then one peer element per quantum. -/

inductive CSess
  /-- before `selectmechanism:` -/
  | init (adv : List String) (peer : List CEv)
  /-- inside `for more { … }` -/
  | looping (name : String) (mech : Mech) (hist : List Bytes) (rest : List CEv) (sent : List CSent) (n : Nat)
  /-- the mechanism is done, the closing element is awaited (`if !success { … }`) -/
  | closing (name : String) (hist : List Bytes) (rest : List CEv) (sent : List CSent) (n : Nat)
  | finished (r : CRes)

/-- put what was done before the last quantum in front of its result -/
def CRes.prefixed (r : CRes) (name : String) (sent : List CSent) (n : Nat) : CRes :=
  { r with used := some name, sent := sent ++ r.sent, consumed := r.consumed + n }

/-- what one peer element does to the `for more` loop -/
inductive COut
  | stop (r : CRes)
  | more (hist : List Bytes) (resp : Bytes)
  | done (hist : List Bytes) (resp : Bytes)

def cevent (mech : Mech) (hist : List Bytes) : CEv → COut
  | .challenge p =>
    match p.decodeClient with
    | none => .stop (fail .b64 hist 1)
    | some c =>
      match (mech (hist ++ [c])).kind with
      | .more => .more (hist ++ [c]) (mech (hist ++ [c])).resp
      | .done => .done (hist ++ [c]) (mech (hist ++ [c])).resp
      | .authnErr => .stop (fail .authnErr (hist ++ [c]) 1)
      | .otherErr => .stop (fail (stepErr (mech (hist ++ [c]))) (hist ++ [c]) 1)
  | .success p =>
    match p.decodeClient with
    | none => .stop (fail .b64 hist 1)
    | some c =>
      match (mech (hist ++ [c])).kind with
      | .more => .stop (fail .unexpected (hist ++ [c]) 1)
      | .done => .stop { authn := true, hist := hist ++ [c], consumed := 1 }
      | .authnErr => .stop (fail .authnErr (hist ++ [c]) 1)
      | .otherErr => .stop (fail (stepErr (mech (hist ++ [c]))) (hist ++ [c]) 1)
  | .failure b => .stop (fail (failErr b) hist 1)
  | .other => .stop (fail .unexpected hist 1)
  | .otherNs => .stop (fail .unexpected hist 1)
  | .space => .stop (fail .unexpected hist 1)

def CSess.step (cm : List (String × Mech)) : CSess → CSess
  | .finished r => .finished r
  | .init adv peer =>
    match select cm adv with
    | none => .finished (fail .nomech [] 0)
    | some (name, mech) =>
      if name = "" then .finished (fail .nomech [] 0) else
      match (mech []).kind with
      | .authnErr => .finished { fail .authnErr [] 0 with used := some name }
      | .otherErr => .finished { fail (stepErr (mech [])) [] 0 with used := some name }
      | .more => .looping name mech [] peer [.auth name (mech []).resp] 0
      | .done => .closing name [] peer [.auth name (mech []).resp] 0
  | .looping name _ hist [] sent n => .finished ((fail .eof hist 0).prefixed name sent n)
  | .looping name mech hist (ev :: rest) sent n =>
    match cevent mech hist ev with
    | .stop r => .finished (r.prefixed name sent n)
    | .more h resp => .looping name mech h rest (sent ++ [.response resp]) (n + 1)
    | .done h resp => .closing name h rest (sent ++ [.response resp]) (n + 1)
  | .closing name hist rest sent n => .finished ((readFinal hist rest).prefixed name sent n)

def CSess.iter (cm : List (String × Mech)) : Nat → CSess → CSess
  | 0, s => s
  | k + 1, s => CSess.iter cm k (s.step cm)

/-- the product of initiating sessions -/
def runSchedC (cm : List (String × Mech)) : List CSess → List Nat → List CSess
  | ss, [] => ss
  | ss, i :: sched => runSchedC cm (ss.modify i (CSess.step cm)) sched

/-- what initiating sessions could share (a cached selection, a negotiator kept across
connections, a response buffer): how the store enters a quantum, what a quantum leaves -/
structure SharedC (σ : Type) where
  init : σ
  read : σ → CSess → CSess
  write : String → σ → CSess → σ
  read_init : ∀ s, read init s = s

def stepSharedC {σ : Type} (sh : SharedC σ) (W : List String) (cm : List (String × Mech))
    (g : σ) (s : CSess) : σ × CSess :=
  let s' := CSess.step cm (sh.read g s)
  (W.foldl (fun g v => sh.write v g s') g, s')

def runSchedSharedC {σ : Type} (sh : SharedC σ) (W : List String) (cm : List (String × Mech)) :
    σ → List CSess → List Nat → σ × List CSess
  | g, ss, [] => (g, ss)
  | g, ss, i :: sched =>
    match ss[i]? with
    | none => runSchedSharedC sh W cm g ss sched
    | some s =>
      runSchedSharedC sh W cm (stepSharedC sh W cm g s).1 (ss.set i (stepSharedC sh W cm g s).2) sched

/-- the regression a package-level "last selection" would be: a session that has not selected
yet takes over the running exchange of another one -/
def leakySharedC : SharedC (Option (String × Mech × List Bytes)) where
  init := none
  read := fun g s => match g, s with
    | some (name, mech, hist), .init _ peer => .looping name mech hist peer [] 0
    | _, s => s
  write := fun _ g s => match s with
    | .looping name mech hist _ _ _ => some (name, mech, hist)
    | _ => g
  read_init := by intro s; rfl

def csessSummary : CSess → Option (Bool × Err × List CSent)
  | .finished r => some (r.authn, r.err, r.sent)
  | _ => none

end XmppModel.Sasl
