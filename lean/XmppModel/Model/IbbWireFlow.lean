import XmppModel.Model.IbbCarrier
import XmppModel.Model.IbbFlow
/-!
# Receiver histories on the wire level (C15, round G)

The same histories as `Model/IbbFlow.lean`, but a packet is what arrives: a carrier stanza whose IBB
data child stands among any other children (`Model/IbbCarrier.lean`; an `<iq/>` is the case of no
other children), its `seq` attribute is text (`recvWire`), its body is character data in pieces
(`Model/IbbBody.lean`).  `absPacket` is the packet the receiver function `recv` sees; `wireRun`
runs the wire-level functions, and `Props/C15.lean` proves it equal to `flowRun` on the abstraction.
-/
namespace XmppModel.Ibb
open XmppModel

inductive WOp
  | stanza (before after : List Nat) (p : BodyPacket)
  | read (n : Nat)
  | setMax (n bs : Nat)
  deriving DecidableEq, Repr

/-- what `recv` sees of a packet on the wire: the number its attribute denotes and the whole
character data; an attribute that is no numeral makes a packet that is refused in every state,
like one that is not the stream's -/
def absPacket (p : BodyPacket) : Packet :=
  match parseSeqAttr p.seqAttr with
  | .num n => ⟨p.known, n, bodyText p.body⟩
  | .malformed => ⟨false, 0, bodyText p.body⟩

def WOp.abs : WOp → FOp
  | .stanza _ _ p => .pkt (absPacket p)
  | .read n => .read n
  | .setMax n bs => .setMax n bs

/-- state, acknowledged packets (as `recv` sees them), bytes the reader got -/
def wireRun (cd : Codec) : RState → List WOp → RState × List Packet × Bytes
  | s, [] => (s, [], [])
  | s, .stanza b a p :: os =>
    match recvMessage cd s (carrierChildren b a p) with
    | .handled s' r =>
      let rest := wireRun cd s' os
      (rest.1, if r = .ack then absPacket p :: rest.2.1 else rest.2.1, rest.2.2)
    | _ => wireRun cd s os
  | s, .read n :: os =>
    let rest := wireRun cd (read s n).1 os
    (rest.1, rest.2.1, (read s n).2 ++ rest.2.2)
  | s, .setMax n bs :: os => wireRun cd (setMax s n bs) os

end XmppModel.Ibb
