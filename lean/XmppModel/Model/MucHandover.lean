/-! muc/muc.go, `(*Client).handlePresence`, case available presence: the `selectJoin:` hand-over
of a self-presence to a pending `Join` (C09: the handler runs on the serve goroutine with
`Client.managedM` held; if it does not return, Serve is wedged and every call on the room
blocks).

`Channel.join` is a channel of capacity 1 that holds the request of the `Join` call that is
waiting.  The handler takes the request out; a request for ANOTHER occupant JID (a change of
nickname is pending, this presence is for the nickname still held) is put back and the presence
goes to the user callback; a request for this occupant JID is answered if the call still
listens; if the call has given up (`<-jc.done`) the handler looks again (`goto selectJoin`),
because a later `Join` may have put its own request into the channel meanwhile.

The loop has no bound of its own.  The model is fuel-bounded (`none` = still looping); `later`
is the environment: the requests later `Join` calls put into the channel while the handler
runs (each only enters an empty channel). -/
namespace XmppModel.MucHandover

/-- a request parked in `Channel.join` -/
structure Req where
  same : Bool   -- jc.key == the occupant JID of the presence being handled
  live : Bool   -- the joining call still receives on jc.j (otherwise its context is done)
deriving DecidableEq, Repr

inductive Out
  | handed    -- the presence completed a Join (`jc.j <- p.From`), the handler returns at once
  | forward   -- nothing to complete: the presence goes on to the user callback
deriving DecidableEq, Repr

/-- The loop: result = (outcome, content of `Channel.join` afterwards). -/
def selectJoin : Nat → Option Req → List Req → Option (Out × Option Req)
  | 0, _, _ => none
  | _ + 1, none, _ => some (.forward, none)                      -- default:
  | n + 1, some jc, later =>
    if !jc.same then some (.forward, some jc)                     -- put back; break
    else if jc.live then some (.handed, none)                     -- jc.j <- p.From
    else match later with                                         -- <-jc.done: goto selectJoin
      | [] => selectJoin n none []
      | r :: rest => selectJoin n (some r) rest

/-- The same loop with `continue` instead of `break` behind the put-back (a request for another
    nickname is taken out and put back for ever): the model can express the wedge. -/
def selectJoinSpin : Nat → Option Req → List Req → Option (Out × Option Req)
  | 0, _, _ => none
  | _ + 1, none, _ => some (.forward, none)
  | n + 1, some jc, later =>
    if !jc.same then selectJoinSpin n (some jc) later
    else if jc.live then some (.handed, none)
    else match later with
      | [] => selectJoinSpin n none []
      | r :: rest => selectJoinSpin n (some r) rest

end XmppModel.MucHandover
