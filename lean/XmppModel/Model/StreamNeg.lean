import XmppModel.Prelude.Xml
/-!
# Stream header acceptance and the address checks across restarts (property C12)

`expect` is `internal/stream.Expect` together with the token filters it reads through
(`decl.Skip`, the negotiating `reader`) and `stream.Info.FromStartElement` /
`stream.ParseVersion`.  `negStep` is one pass of the stream (re)start in `negotiator`
(`negotiator.go`) for either role.

Parameters: the token list of the peer's document comes from `encoding/xml`; `jid.Parse` is
the function `parseJid` (canonical string of a valid address, `none` if invalid); addresses
are compared as canonical strings (`jid.JID.Equal` is octet equality of the parts).
-/
namespace XmppModel.StreamNeg
open XmppModel.Xml

def nsStream : String := "http://etherx.jabber.org/streams"
def nsFraming : String := "urn:ietf:params:xml:ns:xmpp-framing"
def nsXML : String := "http://www.w3.org/XML/1998/namespace"
def nsClient : String := "jabber:client"
def nsServer : String := "jabber:server"

/-- a token of the peer's document, or the point where the XML stops being well-formed -/
inductive HTok
  | tok (t : Tok)
  | syntaxErr
  deriving DecidableEq, Repr

inductive HErr
  | eof | xmlSyntax | chardata | procInst | comment | directive | unknownStream
  | streamError (cond : String)        -- a stream error sent by the peer, returned as such
  | invalidNamespace | unsupportedVersion | badFormat | improperAddressing
  | addrMismatch
  | writeErr | ctxErr
  deriving DecidableEq, Repr

def HErr.toString : HErr → String
  | .eof => "eof" | .xmlSyntax => "xmlsyntax" | .chardata => "chardata" | .procInst => "procinst"
  | .comment => "comment" | .directive => "directive" | .unknownStream => "unknownstream"
  | .streamError c => "stream:" ++ c
  | .invalidNamespace => "stream:invalid-namespace" | .unsupportedVersion => "stream:unsupported-version"
  | .badFormat => "stream:bad-format" | .improperAddressing => "stream:improper-addressing"
  | .addrMismatch => "addrmismatch"
  | .writeErr => "write" | .ctxErr => "ctx"

/-- `stream.Info` (addresses as canonical strings, `""` = the zero JID) -/
structure Info where
  name : Name := ⟨"", ""⟩
  xmlns : String := ""
  to : String := ""
  src : String := ""     -- `From`
  id : String := ""
  version : Nat × Nat := (0, 0)
  lang : String := ""
  deriving DecidableEq, Repr

/-- `strconv.ParseUint(s, 10, 8)` -/
def parseUint8 (cs : List Char) : Option Nat :=
  if cs = [] ∨ ¬ cs.all Char.isDigit then none else
  let n := cs.foldl (fun acc c => acc * 10 + (c.toNat - 48)) 0
  if n ≤ 255 then some n else none

/-- `strings.Split(s, ".")` -/
def splitOnDot : List Char → List (List Char)
  | [] => [[]]
  | c :: cs =>
    match splitOnDot cs with
    | [] => [[c]]   -- unreachable
    | p :: ps => if c = '.' then [] :: p :: ps else (c :: p) :: ps

/-- `stream.ParseVersion` -/
def parseVersion (s : String) : Option (Nat × Nat) :=
  match splitOnDot s.toList with
  | [a, b] => do
    let x ← parseUint8 a
    let y ← parseUint8 b
    pure (x, y)
  | _ => none

/-- `Info.FromStartElement`: attributes are applied in order, the first bad one ends it -/
def applyAttrs (parseJid : String → Option String) : List Attr → Info → Except HErr Info
  | [], i => .ok i
  | a :: as, i =>
    if a.name = ⟨"", "xmlns"⟩ then applyAttrs parseJid as { i with xmlns := a.value }
    else if a.name = ⟨"", "to"⟩ then
      if a.value = "" then applyAttrs parseJid as i else
      match parseJid a.value with
      | some j => applyAttrs parseJid as { i with to := j }
      | none => .error .improperAddressing
    else if a.name = ⟨"", "from"⟩ then
      if a.value = "" then applyAttrs parseJid as i else
      match parseJid a.value with
      | some j => applyAttrs parseJid as { i with src := j }
      | none => .error .improperAddressing
    else if a.name = ⟨"", "id"⟩ then applyAttrs parseJid as { i with id := a.value }
    else if a.name = ⟨"", "version"⟩ then
      match parseVersion a.value with
      | some v => applyAttrs parseJid as { i with version := v }
      | none => .error .badFormat
    else if a.name = ⟨nsXML, "lang"⟩ ∨ a.name = ⟨"xml", "lang"⟩ then
      applyAttrs parseJid as { i with lang := a.value }
    else applyAttrs parseJid as i

/-- what `FromStartElement` records for a start element with one attribute (addresses taken
as they are): ([xmlns, to, from, id, lang], major, minor), `none` on error -/
def applyOne (space loc value : String) : Option (List String × Nat × Nat) :=
  match applyAttrs some [⟨⟨space, loc⟩, value⟩] {} with
  | .ok i => some ([i.xmlns, i.to, i.src, i.id, i.lang], i.version.1, i.version.2)
  | .error _ => none

/-- the stream information the probe `attrKeepGrid` starts from: everything established -/
def keepInfo : Info :=
  ⟨⟨"", ""⟩, "jabber:client", "est.example", "u@est.example/r", "old", (1, 0), "en"⟩

/-- what `FromStartElement` leaves in an ESTABLISHED stream information (`keepInfo`) for a start
element with one attribute; `jid.Parse` refuses exactly `a@@b` on the probe's values -/
def applyKeep (space loc value : String) : Option (List String × Nat × Nat) :=
  match applyAttrs (fun v => if v = "a@@b" then none else some v) [⟨⟨space, loc⟩, value⟩] keepInfo with
  | .ok i => some ([i.xmlns, i.to, i.src, i.id, i.lang], i.version.1, i.version.2)
  | .error _ => none

def isWhite (s : String) : Bool := s.toList.all fun c => c = ' ' || c = '\t' || c = '\r' || c = '\n'

/-- the condition of a `<stream:error>`: the local name of its first child element -/
def errorCondition : List HTok → String
  | [] => ""
  | .tok (.start n _) :: _ => n.loc
  | _ :: ts => errorCondition ts

/-- `xmlstream.Skip` after the WebSocket `<open>` start tag: the rest of the element must
be there -/
def skipElement : Nat → List HTok → Except HErr Unit
  | _, [] => .error .eof
  | _, .syntaxErr :: _ => .error .xmlSyntax
  | d, .tok (.start ..) :: ts => skipElement (d + 1) ts
  | 0, .tok (.stop _) :: _ => .ok ()
  | d + 1, .tok (.stop _) :: ts => skipElement d ts
  | d, _ :: ts => skipElement d ts

/-- the checks of `Expect` on the parsed stream information -/
def finalCheck (recv ws : Bool) (i : Info) : Except HErr Info :=
  if i.version ≠ (1, 0) then .error .unsupportedVersion
  else if ¬ ws ∧ i.xmlns ≠ nsClient ∧ i.xmlns ≠ nsServer then .error .invalidNamespace
  else if ¬ recv ∧ i.id = "" then .error .badFormat
  else .ok i

/-- the checks on the stream-open element once it has been found -/
def acceptStart (recv ws : Bool) (parseJid : String → Option String) (i0 : Info)
    (n : Name) (attrs : List Attr) (rest : List HTok) : Except HErr Info :=
  if n.space = nsStream ∧ n.loc = "error" then .error (.streamError (errorCondition rest))
  else if n.space = nsStream ∧ n.loc ≠ "stream" then .error .unknownStream
  else if ¬ ws ∧ (n.loc ≠ "stream" ∨ n.space ≠ nsStream) then .error .invalidNamespace
  else if ws ∧ (n.loc ≠ "open" ∨ n.space ≠ nsFraming) then .error .invalidNamespace
  else
    match (if ws then skipElement 0 rest else .ok ()) with
    | .error e => .error e
    | .ok () =>
      match applyAttrs parseJid attrs { i0 with name := n } with
      | .error e => .error e
      | .ok i => finalCheck recv ws i

/-- the loop of `Expect` over the filtered tokens -/
def expectLoop (recv ws : Bool) (parseJid : String → Option String) (i0 : Info) :
    List HTok → Except HErr Info
  | [] => .error .eof
  | .syntaxErr :: _ => .error .xmlSyntax
  | .tok (.chars t) :: ts => if isWhite t then expectLoop recv ws parseJid i0 ts else .error .chardata
  | .tok (.procInst ..) :: _ => .error .procInst
  | .tok (.comment _) :: _ => .error .comment
  | .tok (.directive _) :: _ => .error .directive
  | .tok (.stop n) :: ts =>
    if n.space = nsStream then (if n.loc = "stream" then .error .eof else .error .badFormat)
    else expectLoop recv ws parseJid i0 ts
  | .tok (.start n attrs) :: ts => acceptStart recv ws parseJid i0 n attrs ts

/-- `decl.Skip`: an XML declaration as the very first token is dropped -/
def skipDecl : List HTok → List HTok
  | .tok (.procInst "xml" _) :: ts => ts
  | ts => ts

/-- `Expect` -/
def expect (recv ws : Bool) (parseJid : String → Option String) (i0 : Info) (toks : List HTok) :
    Except HErr Info :=
  expectLoop recv ws parseJid i0 (skipDecl toks)

/-! ## the negotiator's stream (re)start -/

/-- what the session remembers between streams: `s.in.Info.To` / `From` -/
structure Addrs where
  to : String     -- `LocalAddr()`
  src : String    -- `RemoteAddr()`
  deriving DecidableEq, Repr

/-- the header the library sends for this stream: to, from, content namespace -/
structure OutHdr where
  to : String
  src : String
  xmlns : String
  deriving DecidableEq, Repr

def outNS (ws s2s : Bool) : String := if ws then nsFraming else if s2s then nsServer else nsClient

/-- receiving side: the header's origin is the established one, or none is known yet on a
client-to-server stream -/
def originOK (s2s : Bool) (a : Addrs) (i : Info) : Prop := (s2s = false ∧ a.src = "") ∨ a.src = i.src

/-- receiving side: the header's location is the established one, or none is known yet -/
def locationOK (a : Addrs) (i : Info) : Prop := a.to = "" ∨ a.to = i.to

/-- initiating side: the header comes from the location we connected to and, if it names a
recipient at all, names our origin -/
def peerOK (a : Addrs) (i : Info) : Prop := a.src = i.src ∧ (i.to = "" ∨ a.to = i.to)

instance (s2s : Bool) (a : Addrs) (i : Info) : Decidable (originOK s2s a i) := by
  unfold originOK; exact inferInstance
instance (a : Addrs) (i : Info) : Decidable (locationOK a i) := by
  unfold locationOK; exact inferInstance
instance (a : Addrs) (i : Info) : Decidable (peerOK a i) := by
  unfold peerOK; exact inferInstance

/-- one stream (re)start.  Receiving: expect the peer's header, compare with what is
established, answer with `to` = their `from`, `from` = their `to`.  Initiating: send
`to` = location, `from` = origin first, then expect and compare.  (The two comparisons of
either role return the same error, so they are modelled as one test.) -/
def negStep (recv ws s2s : Bool) (parseJid : String → Option String) (a : Addrs)
    (toks : List HTok) : Except HErr (Addrs × Info × OutHdr) :=
  match expect recv ws parseJid { to := a.to, src := a.src } toks with
  | .error e => .error e
  | .ok i =>
    if recv then
      if originOK s2s a i ∧ locationOK a i then .ok (⟨i.to, i.src⟩, i, ⟨i.src, i.to, outNS ws s2s⟩)
      else .error .addrMismatch
    else
      if peerOK a i then .ok (⟨i.to, i.src⟩, i, ⟨a.src, a.to, outNS ws s2s⟩)
      else .error .addrMismatch

/-- a whole negotiation: the verdict for every header until the first refusal -/
def negRun (recv ws s2s : Bool) (parseJid : String → Option String) :
    Addrs → List (List HTok) → List (Except HErr (Info × OutHdr))
  | _, [] => []
  | a, h :: hs =>
    match negStep recv ws s2s parseJid a h with
    | .error e => [.error e]
    | .ok (a', i, o) => .ok (i, o) :: negRun recv ws s2s parseJid a' hs

/-- the addresses the session reports when negotiation ends: those of the last header that
was accepted; a header that is refused leaves them as they were -/
def negEnd (recv ws s2s : Bool) (parseJid : String → Option String) :
    Addrs → List (List HTok) → Addrs
  | a, [] => a
  | a, h :: hs =>
    match negStep recv ws s2s parseJid a h with
    | .error _ => a
    | .ok (a', _, _) => negEnd recv ws s2s parseJid a' hs

/-! ### the header exchange in a hostile environment -/

/-- one write on a connection that accepts `b` more writes (`none`: healthy):
the remaining budget, or `none` if the write fails -/
def takeWrite : Option Nat → Option (Option Nat)
  | none => some none
  | some 0 => none
  | some (b + 1) => some (some b)

/-- `negRun` on a connection that fails after a number of writes and with a context that is
done before the header with index `cancel` is awaited.  The context is looked at by
`negotiateSession` after every negotiator step (feature negotiation; installing the tee
connection when TeeIn/TeeOut are configured) and by `Expect` before it reads.  Receiving:
expect, check, write the header, write the features list.  Initiating: write the header,
expect, check — so a context that is already done when the very first stream starts is
noticed only after the first header went out, unless the tee step comes first.  Apart from
that TeeIn/TeeOut change nothing.  Returns the verdicts and the addresses the session reports
at the end. -/
def negRunE (recv ws s2s : Bool) (parseJid : String → Option String) (tee : Bool) (cancel : Option Nat) :
    Nat → Option Nat → Addrs → List (List HTok) → List (Except HErr (Info × OutHdr)) × Addrs
  | _, _, a, [] => ([], a)
  | k, b, a, h :: hs =>
    if recv then
      if cancel = some k then ([.error .ctxErr], a) else
      match negStep true ws s2s parseJid a h with
      | .error e => ([.error e], a)
      | .ok (a', i, o) =>
        match takeWrite b with
        | none => ([.error .writeErr], a')
        | some b1 =>
          match takeWrite b1 with
          | none => ([.error .writeErr], a')
          | some b2 =>
            (.ok (i, o) :: (negRunE recv ws s2s parseJid tee cancel (k + 1) b2 a' hs).1,
              (negRunE recv ws s2s parseJid tee cancel (k + 1) b2 a' hs).2)
    else
      if cancel = some k ∧ (0 < k ∨ tee = true) then ([.error .ctxErr], a) else
      match takeWrite b with
      | none => ([.error .writeErr], a)
      | some b1 =>
        if cancel = some k then ([.error .ctxErr], a) else
        match negStep false ws s2s parseJid a h with
        | .error e => ([.error e], a)
        | .ok (a', i, o) =>
          (.ok (i, o) :: (negRunE recv ws s2s parseJid tee cancel (k + 1) b1 a' hs).1,
            (negRunE recv ws s2s parseJid tee cancel (k + 1) b1 a' hs).2)

end XmppModel.StreamNeg
