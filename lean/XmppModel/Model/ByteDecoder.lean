import XmppModel.Model.StartTLS
/-!
# Byte level: a decoder with read-ahead over an arbitrarily chunked byte stream (C02)

`Model/StartTLS.lean` works with *units* delivered in *segments* (what one `Read` returns, as
whole units).  Here the peer's clear-text stream is bytes, cut into chunks anywhere — also in
the middle of a unit.  `encoding/xml` is a parameter: a `Tokeniser` says, for the bytes from a
unit boundary on, whether a complete unit is a prefix of them (and how long it is); the
contract is that a longer input does not change an answer already given (`stable`) and that a
unit has at least one byte (`pos`).

* `pullB` — the decoder: answer from the buffer if a complete unit is there, else append the next
  chunk to the buffer and try again;
* `tokAll`, `absChunks` — the abstraction to the unit level: the complete units in the buffer,
  and for every chunk the units that are *completed* by it (a unit split across reads belongs to
  the read that completes it; the harness spells scripts exactly so);
* `pullU` — what `pull` of `Model/StartTLS.lean` does in clear text, on units.
-/
namespace XmppModel.StartTLS

abbrev Bs := List UInt8

structure Tokeniser where
  next : Bs → Option (StartTLS.Unit × Nat)
  pos : ∀ b u n, next b = some (u, n) → 0 < n ∧ n ≤ b.length
  stable : ∀ b c u n, next b = some (u, n) → next (b ++ c) = some (u, n)

/-- next unit from a buffer `b` and the chunks still to be read: the unit, the buffer and the
chunks afterwards; `none`: the stream ends before a unit is complete -/
def pullB (tk : Tokeniser) : List Bs → Bs → Option (StartTLS.Unit × Bs × List Bs)
  | [], b =>
    match tk.next b with
    | some (u, n) => some (u, b.drop n, [])
    | none => none
  | c :: cs, b =>
    match tk.next b with
    | some (u, n) => some (u, b.drop n, c :: cs)
    | none => pullB tk cs (b ++ c)

/-- all complete units at the front of `b`, and the bytes of the incomplete one behind them -/
def tokAll (tk : Tokeniser) (b : Bs) : List StartTLS.Unit × Bs :=
  match h : tk.next b with
  | none => ([], b)
  | some (u, n) =>
    let r := tokAll tk (b.drop n)
    (u :: r.1, r.2)
termination_by b.length
decreasing_by
  have := tk.pos b u n h
  simp only [List.length_drop]
  omega

/-- the segmentation a chunking induces: every chunk contributes the units it completes; `p` are
the bytes of an incomplete unit carried over from the reads before -/
def absChunks (tk : Tokeniser) : Bs → List Bs → List (List StartTLS.Unit)
  | _, [] => []
  | p, c :: cs => (tokAll tk (p ++ c)).1 :: absChunks tk (tokAll tk (p ++ c)).2 cs

/-- one segment the peer sends, as a decoder with a bounded read-ahead reads it: reads of at most
`n + 1` bytes (`encoding/xml` reads through a `bufio.Reader` of 4096 bytes, and fills it only when
it is empty) -/
def cutEvery (n : Nat) (b : Bs) : List Bs :=
  if b.length ≤ n + 1 then [b] else b.take (n + 1) :: cutEvery n (b.drop (n + 1))
termination_by b.length
decreasing_by
  simp only [List.length_drop]
  omega

/-- the reads a peer's segments arrive in when a read returns at most `n + 1` bytes -/
def boundedReads (n : Nat) (cs : List Bs) : List Bs := cs.flatMap (cutEvery n)

/-- `pull` in clear text at the unit level: from the read-ahead, else the next non-empty segment -/
def pullU : List StartTLS.Unit → List (List StartTLS.Unit) →
    Option (StartTLS.Unit × List StartTLS.Unit × List (List StartTLS.Unit))
  | u :: rest, segs => some (u, rest, segs)
  | [], segs => pullClear segs

end XmppModel.StartTLS
