import XmppModel.Prelude.Xml
/-!
# Model of the transmit path of `session.go` — property C05

Three layers.

* `encTok` / `encode`: transcription of `stanzaEncoder.EncodeToken` (session.go): explicit
  depth counter (Go `int`, modelled as `Int`: an unmatched end tag drives it negative exactly as
  in the code), completion of stanza start elements at depth 1 (namespace, empty `id`/`from`
  dropped, `from` added when the encoder has an address, random `id` added when missing) and
  removal of `xmlns` attributes from namespaced start elements at any depth.  The random id is
  a parameter `fresh` (`attr.RandomID()` — 16 hex digits, trusted to be non-empty).
* the entry points (`send`, `SendElement`, `Encode`, `EncodeElement`, `TokenWriter`): which
  token list each one hands to the encoder (`inner` is `xmlstream.Inner`; `replaceOuter` is
  `internal/marshal`'s element writer used by `EncodeXMLElement`).
* `canon`: what the peer sees after `encoding/xml` printed the tokens and parsed them again
  inside a stream whose default namespace is the content namespace (inheritance of the default
  namespace, namespace declarations no longer attributes, adjacent character data merged, empty
  character data gone).  `encoding/xml` itself is trusted; `canon` is the part of its
  behaviour the correspondence check relies on and is validated on every line.
-/
namespace XmppModel.Encoder
open XmppModel.Xml

def nsClient : String := "jabber:client"
def nsServer : String := "jabber:server"

/-- configuration of a `stanzaEncoder`: content namespace and the local address as a string
(`""` when `se.from` is the zero JID: client-to-server streams) -/
structure Cfg where
  ns : String
  from_ : String
  deriving DecidableEq, Repr

/-! ### where the encoder's address comes from

A negotiated session holds two stream infos.  `LocalAddr()` returns the `to` of the INPUT
stream info: for a received session that was not told its address this is what the peer's
header asked for.  The `from` of the output info is something else (what the session's own
header carried). -/
structure Addrs where
  inTo : String
  inFrom : String
  outFrom : String
  outTo : String
  deriving DecidableEq, Repr

/-- what `(*Session).LocalAddr()` reports -/
def Addrs.localAddr (a : Addrs) : String := a.inTo

inductive FromSource | localAddr | remoteAddr | outFrom | outTo | other
  deriving DecidableEq, Repr

/-- the expression assigned to `se.from` (regenerated fact) -/
def FromSource.ofExpr : String → FromSource
  | "s.LocalAddr()" => .localAddr
  | "s.in.Info.To" => .localAddr
  | "s.RemoteAddr()" => .remoteAddr
  | "s.in.Info.From" => .remoteAddr
  | "s.out.Info.From" => .outFrom
  | "s.out.Info.To" => .outTo
  | _ => .other

def FromSource.pick : FromSource → Addrs → String
  | .localAddr, a => a.inTo
  | .remoteAddr, a => a.inFrom
  | .outFrom, a => a.outFrom
  | .outTo, a => a.outTo
  | .other, _ => ""

/-- `negotiateSession`: the configuration of the session's `stanzaEncoder` (an address only
on server-to-server streams) -/
def sessionCfg (src : FromSource) (ns : String) (a : Addrs) : Cfg :=
  ⟨ns, if ns == nsServer then src.pick a else ""⟩

def stanzaLocal (l : String) : Bool := l == "iq" || l == "message" || l == "presence"

/-- `isStanzaEmptySpace` of session.go -/
def isStanzaEmptySpace (n : Name) : Bool :=
  stanzaLocal n.loc && (n.space == nsClient || n.space == nsServer || n.space == "")

/-- the stanza attribute `l`: the attribute WITHOUT a namespace of that local name (round E,
after `fix: the stanza encoder takes any attribute with the local name id, from or xmlns …`;
the code before the fix switched on `attr.Name.Local` alone, see `keepAttrLocal`) -/
def isPlain (a : Attr) (l : String) : Bool := a.name.space == "" && a.name.loc == l

/-- the attribute loop of the depth-1 branch keeps everything but `id=""` and `from=""` -/
def keepAttr (a : Attr) : Bool := !((isPlain a "id" || isPlain a "from") && a.value == "")

/-- `foundID` / `foundFrom`: some attribute of that full name with a non-empty value -/
def found (as : List Attr) (l : String) : Bool := as.any fun a => isPlain a l && a.value != ""

/-- the code before the round E fix: identification by local name, whatever the namespace -/
def keepAttrLocal (a : Attr) : Bool := !((a.name.loc == "id" || a.name.loc == "from") && a.value == "")
def foundLocal (as : List Attr) (l : String) : Bool := as.any fun a => a.name.loc == l && a.value != ""

def fromAttr (cfg : Cfg) : Attr := ⟨⟨"", "from"⟩, cfg.from_⟩
def idAttr (fresh : String) : Attr := ⟨⟨"", "id"⟩, fresh⟩

/-- attributes of a completed stanza start element -/
def completeAttrs (cfg : Cfg) (fresh : String) (as : List Attr) : List Attr :=
  as.filter keepAttr
    ++ (if cfg.from_ != "" && !found as "from" then [fromAttr cfg] else [])
    ++ (if !found as "id" then [idAttr fresh] else [])

def notXmlns (a : Attr) : Bool := !(a.name.space == "" && a.name.loc == "xmlns")

/-- the duplicate-`xmlns` loop: runs for every start element -/
def dropXmlns (n : Name) (as : List Attr) : List Attr :=
  if n.space != "" then as.filter notXmlns else as

def fillNs (cfg : Cfg) (n : Name) : Name := if n.space == "" then { n with space := cfg.ns } else n

/-- start element written when the depth *after* the increment is `d` -/
def encStart (cfg : Cfg) (fresh : String) (d : Int) (n : Name) (as : List Attr) : Tok :=
  if d == 1 && isStanzaEmptySpace n then
    .start (fillNs cfg n) (dropXmlns (fillNs cfg n) (completeAttrs cfg fresh as))
  else .start n (dropXmlns n as)

/-- the encoder before the round E fix (attributes identified by local name only): NOT what the
code does any more, see `C05_local_name_matching_fails` -/
def encStartLocal (cfg : Cfg) (fresh : String) (d : Int) (n : Name) (as : List Attr) : Tok :=
  let dropL (m : Name) (l : List Attr) : List Attr :=
    if m.space != "" then l.filter (fun a => a.name.loc != "xmlns") else l
  if d == 1 && isStanzaEmptySpace n then
    .start (fillNs cfg n) (dropL (fillNs cfg n)
      (as.filter keepAttrLocal
        ++ (if cfg.from_ != "" && !foundLocal as "from" then [fromAttr cfg] else [])
        ++ (if !foundLocal as "id" then [idAttr fresh] else [])))
  else .start n (dropL n as)

/-- the variant that runs the duplicate-`xmlns` loop first, on the name the caller gave (before
the stamping step assigns the stream namespace): NOT what the code does, see
`C05_early_filter_duplicates_xmlns` -/
def encStartEarly (cfg : Cfg) (fresh : String) (d : Int) (n : Name) (as : List Attr) : Tok :=
  if d == 1 && isStanzaEmptySpace n then
    .start (fillNs cfg n) (completeAttrs cfg fresh (dropXmlns n as))
  else .start n (dropXmlns n as)

/-- end element written when the depth *before* the decrement is `d` -/
def encStop (cfg : Cfg) (d : Int) (n : Name) : Tok :=
  if d == 1 && n.space == "" && isStanzaEmptySpace n then .stop { n with space := cfg.ns } else .stop n

/-- one call of `stanzaEncoder.EncodeToken`: new depth and the token passed on -/
def encTok (cfg : Cfg) (fresh : String) (d : Int) : Tok → Int × Tok
  | .start n as => (d + 1, encStart cfg fresh (d + 1) n as)
  | .stop n => (d - 1, encStop cfg d n)
  | t => (d, t)

def encode (cfg : Cfg) (fresh : String) : Int → List Tok → Int × List Tok
  | d, [] => (d, [])
  | d, t :: ts =>
    let r := encTok cfg fresh d t
    let rest := encode cfg fresh r.1 ts
    (rest.1, r.2 :: rest.2)

/-- what happens to a token strictly inside a top-level element: only the `xmlns` removal -/
def stripTok : Tok → Tok
  | .start n as => .start n (dropXmlns n as)
  | t => t

/-! ### entry points -/

/-- `xmlstream.Inner` read to exhaustion: the tokens up to (not including) the first end
element that closes more than was opened; everything after it is left unread -/
def inner : Nat → List Tok → List Tok
  | _, [] => []
  | d, .start n as :: ts => .start n as :: inner (d + 1) ts
  | 0, .stop _ :: _ => []
  | d + 1, .stop n :: ts => .stop n :: inner d ts
  | d, t :: ts => t :: inner d ts

def endOf : Tok → Option Tok
  | .start n _ => some (.stop n)
  | _ => none

inductive TxErr | notStart | eof | closed
  deriving DecidableEq, Repr

/-- `Session.Send`: first token must be a start element; its content up to the matching end
is copied, the end element is regenerated from the start -/
def sendToks : List Tok → Except TxErr (List Tok)
  | .start n as :: ts => .ok (.start n as :: inner 0 ts ++ [.stop n])
  | [] => .error .eof
  | _ => .error .notStart

/-- `Session.SendElement`: the whole token stream is the payload -/
def sendElementToks (n : Name) (as : List Attr) (ts : List Tok) : List Tok :=
  .start n as :: ts ++ [.stop n]

def notDefaultDecl (a : Attr) : Bool := !(a.name.space == "" && a.name.loc == "xmlns")

/-- the element writer of `marshal.EncodeXMLElement`: every start element at depth 0 of the
encoding of the value takes the name of `start` and `start`'s attributes followed by its own (as
`encoding/xml`'s `EncodeElement` does; its own default-namespace declaration is dropped: the
namespace is now that of `start`); the matching end element is renamed -/
def replaceOuter (n : Name) (as : List Attr) : Nat → List Tok → List Tok
  | _, [] => []
  | 0, .start _ own :: ts => .start n (as ++ own.filter notDefaultDecl) :: replaceOuter n as 1 ts
  | d + 1, .start m own :: ts => .start m own :: replaceOuter n as (d + 2) ts
  | 0, .stop m :: ts => .stop m :: replaceOuter n as 0 ts
  | 1, .stop _ :: ts => .stop n :: replaceOuter n as 0 ts
  | d + 2, .stop m :: ts => .stop m :: replaceOuter n as (d + 1) ts
  | d, t :: ts => t :: replaceOuter n as d ts

/-- `getIDTyp` of session.go: scan the attributes (those without a namespace), remember the last `id` and `type` seen, stop
as soon as both have been seen; result: index of the id attribute, id, type -/
def getIDTyp : List Attr → Nat → Option Nat → Bool → String → String → Option Nat × String × String
  | [], _, idIdx, _, id, typ => (idIdx, id, typ)
  | a :: as, i, idIdx, seenTyp, id, typ =>
    let idIdx' := if isPlain a "id" then some i else idIdx
    let id' := if isPlain a "id" then a.value else id
    let seenTyp' := seenTyp || isPlain a "type"
    let typ' := if isPlain a "type" then a.value else typ
    if idIdx'.isSome && seenTyp' then (idIdx', id', typ') else getIDTyp as (i + 1) idIdx' seenTyp' id' typ'

def setValueAt : List Attr → Nat → String → List Attr
  | [], _, _ => []
  | a :: as, 0, v => { a with value := v } :: as
  | a :: as, i + 1, v => a :: setValueAt as i v

/-- the id bookkeeping of `SendIQ` / `SendMessage` / `SendPresence`: an id attribute is
appended when there is none and an empty one is filled with a random id -/
def ensureId (fresh : String) (as : List Attr) : List Attr :=
  match getIDTyp as 0 none false "" "" with
  | (none, _, _) => as ++ [⟨⟨"", "id"⟩, fresh⟩]
  | (some i, id, _) => if id == "" then setValueAt as i fresh else as

inductive Kind | iq | message | presence
  deriving DecidableEq, Repr

def Kind.loc : Kind → String
  | .iq => "iq" | .message => "message" | .presence => "presence"

def kindName (k : Kind) (n : Name) : Bool :=
  n.loc == k.loc && (n.space == "" || n.space == nsClient || n.space == nsServer)

inductive StanzaErr | notStart | eof | wrongKind
  deriving DecidableEq, Repr

/-- `SendIQ`/`SendMessage`/`SendPresence` up to the call of `SendElement`: the tokens handed to
the encoder (whether the call then waits for a reply does not change what is written) -/
def stanzaSendToks (k : Kind) (fresh : String) : List Tok → Except StanzaErr (List Tok)
  | .start n as :: ts =>
    if kindName k n then .ok (sendElementToks n (ensureId fresh as) (inner 0 ts)) else .error .wrongKind
  | [] => .error .eof
  | _ => .error .notStart

/-- tokens reaching the underlying `xml.Encoder` for a call on a fresh (depth 0) encoder -/
def wireToks (cfg : Cfg) (fresh : String) (ts : List Tok) : List Tok := (encode cfg fresh 0 ts).2

/-- number of top-level elements in a token list read at depth `d` (start tokens at depth 0) -/
def topCount : Nat → List Tok → Nat
  | _, [] => 0
  | 0, .start _ _ :: ts => 1 + topCount 1 ts
  | d + 1, .start _ _ :: ts => topCount (d + 2) ts
  | d, .stop _ :: ts => topCount (d - 1) ts
  | d, _ :: ts => topCount d ts

/-! ### buffering: `xml.Encoder` writes into a buffer that only `Flush` moves to the connection -/

inductive Op
  | write (t : Tok)
  | flush
  deriving DecidableEq, Repr

structure Out where
  wire : List Tok
  buf : List Tok
  deriving DecidableEq, Repr

def exec : Out → List Op → Out
  | o, [] => o
  | o, .write t :: ops => exec { o with buf := o.buf ++ [t] } ops
  | o, .flush :: ops => exec { wire := o.wire ++ o.buf, buf := [] } ops

/-- every transmit entry point: encode the tokens, then flush (`send`, `EncodeXML`,
`EncodeXMLElement`, `lockWriteCloser.Close`, `handleInputStream`'s `w.Flush()`) -/
def txProg (ts : List Tok) : List Op := ts.map .write ++ [.flush]

/-- `marshal.EncodeXML` / `EncodeXMLElement` as they are: a value that writes its own tokens
(`xmlstream.WriterTo`) is not followed by a flush (known finding, see KNOWN_FINDINGS.txt) -/
def encodeProg (writerTo : Bool) (ts : List Tok) : List Op :=
  ts.map .write ++ (if writerTo then [] else [.flush])

/-- does the call return with its element on the connection? -/
def flushesAtReturn (entry form : String) : Bool := !((entry == "enc" || entry == "encel") && form == "writerto")


/-! ### token writers that flush in the middle of an element -/

/-- what a `TokenWriter` user does with the writer: encode a token, or flush -/
inductive TwOp
  | tok (t : Tok)
  | flush
  deriving DecidableEq, Repr

/-- `lockWriteCloser.EncodeToken` / `Flush` on top of the stanza encoder.  `Flush` goes straight
to the underlying encoder (`stanzaEncoder` embeds it and has no `Flush` of its own): the depth
is not touched -/
def twRun (cfg : Cfg) (fresh : String) : Int → List TwOp → Int × List Op
  | d, [] => (d, [])
  | d, .tok t :: ops =>
    let r := encTok cfg fresh d t
    let rest := twRun cfg fresh r.1 ops
    (rest.1, .write r.2 :: rest.2)
  | d, .flush :: ops =>
    let rest := twRun cfg fresh d ops
    (rest.1, .flush :: rest.2)

def twToks : List TwOp → List Tok
  | [] => []
  | .tok t :: ops => t :: twToks ops
  | .flush :: ops => twToks ops

def writes : List Op → List Tok
  | [] => []
  | .write t :: ops => t :: writes ops
  | .flush :: ops => writes ops

/-- insert a flush before the token positions listed in `pos` (position = index of the next
token; the length of the list = after the last token) -/
def withFlushes (pos : List Nat) : Nat → List Tok → List TwOp
  | i, [] => if pos.contains i then [.flush] else []
  | i, t :: ts => (if pos.contains i then [.flush] else []) ++ .tok t :: withFlushes pos (i + 1) ts

/-! ### a call that fails half way, and the call after it -/

/-- result of the next transmit call -/
inductive NextRes
  | wrote (ts : List Tok)
  | refused
  deriving DecidableEq, Repr

/-- The first call handed `ts.take k` to the encoder and then failed (its reader failed, the
encoder refused a token, or the connection failed).  `aborted` is what the session remembers
about it: the encoder is inside an element, or (`refusedTok`) the underlying writer refused
the token after the prefix, after which the depth counter is not trusted.  With `guard = true` (the code after the repair)
the next transmit call is refused when the previous one was aborted; with `guard = false`
(before) it encodes its element at whatever depth the encoder was left.  Result: the tokens
the first call left in the encoder, and what the second call does. -/
def faultThenNext (guard : Bool) (cfg : Cfg) (fresh : String) (ts : List Tok) (k : Nat) (us : List Tok)
    (refusedTok : Bool := false) : List Tok × NextRes :=
  let first := encode cfg fresh 0 (ts.take k)
  if guard && (first.1 != 0 || refusedTok) then (first.2, .refused)
  else (first.2, .wrote (encode cfg fresh first.1 us).2)

/-! ### what the peer parses (`encoding/xml` printer + parser, trusted) -/

def isNsDecl (a : Attr) : Bool := a.name.space == "xmlns" || (a.name.space == "" && a.name.loc == "xmlns")

/-- default namespace in force for an element: its own name's namespace if it has one, else an
`xmlns` attribute it carries, else the inherited one -/
def defaultNs (inherited : String) (n : Name) (as : List Attr) : String :=
  if n.space != "" then n.space else
  match as.find? (fun a => a.name.space == "" && a.name.loc == "xmlns") with
  | some a => a.value
  | none => inherited

def mergeChars : List Tok → List Tok
  | [] => []
  | .chars a :: ts =>
    match mergeChars ts with
    | .chars b :: r => .chars (a ++ b) :: r
    | r => if a == "" then r else .chars a :: r
  | t :: ts => t :: mergeChars ts

/-- resolve names against the stack of default namespaces (`stack.head` is in force) -/
def resolve : List String → List Tok → List Tok
  | _, [] => []
  | st, .start n as :: ts =>
    let cur := match st with | s :: _ => s | [] => ""
    let d := defaultNs cur n as
    .start { n with space := d } (as.filter (fun a => !isNsDecl a)) :: resolve (d :: st) ts
  | st, .stop n :: ts =>
    match st with
    | s :: rest => .stop { n with space := if n.space != "" then n.space else s } :: resolve rest ts
    | [] => .stop n :: resolve [] ts
  | st, t :: ts => t :: resolve st ts

/-! attribute order carries no meaning in XML: both sides of the correspondence sort the
attributes before comparing, so a rewrite that emits them in another order is not an alarm
(the theorems about order are about the model, the tie is modulo order) -/

def attrKey (a : Attr) : String := a.name.space ++ "\x00" ++ a.name.loc ++ "\x00" ++ a.value

def insertAttr (a : Attr) : List Attr → List Attr
  | [] => [a]
  | b :: bs => if attrKey a < attrKey b then a :: b :: bs else b :: insertAttr a bs

def sortAttrs : List Attr → List Attr
  | [] => []
  | a :: as => insertAttr a (sortAttrs as)

def normAttrs (ts : List Tok) : List Tok :=
  ts.map fun
    | .start n as => .start n (sortAttrs as)
    | t => t

/-- canonical form of a token list as the peer's decoder reports it when the tokens were
printed at the top level of a stream with default namespace `ns` -/
def canon (ns : String) (ts : List Tok) : List Tok := normAttrs (resolve [ns] (mergeChars ts))

/-! ### token writer handles (round 6)

`Session.TokenWriter()` takes the output lock and returns a handle; `Close` flushes, releases
the lock and marks the handle closed (`lwc.err = io.EOF`).  A handle can be used again after
that (write after close, explicit `Close` plus deferred `Close`).  `guard = true` is the code:
the closed handle remembers.  `guard = false`: the handle forgets that it was closed, every
operation acts on the shared encoder and lock as if the handle still owned them. -/
namespace Handles

inductive HOp | enc (t : Tok) | flush | close
  deriving DecidableEq, Repr

inductive HRes | ok | eof
  deriving DecidableEq, Repr

structure Sess where
  wire : List Tok
  buf : List Tok
  /-- who holds the output lock -/
  holder : Option Nat
  /-- handles that were closed -/
  closed : List Nat
  deriving DecidableEq, Repr

def init : Sess := ⟨[], [], none, []⟩

/-- `TokenWriter()` (returns once the lock is free) -/
def acquire (s : Sess) (h : Nat) : Sess := { s with holder := some h }

def step (guard : Bool) (s : Sess) (h : Nat) (op : HOp) : Sess × HRes :=
  if guard && s.closed.contains h then
    match op with
    | .enc _ => (s, .eof)
    | _ => (s, .ok)
  else
    match op with
    | .enc t => ({ s with buf := s.buf ++ [t] }, .ok)
    | .flush => ({ s with wire := s.wire ++ s.buf, buf := [] }, .ok)
    | .close => ({ wire := s.wire ++ s.buf, buf := [], holder := none, closed := h :: s.closed }, .ok)

def run (guard : Bool) : Sess → List (Nat × HOp) → Sess × List HRes
  | s, [] => (s, [])
  | s, x :: xs =>
    let r := step guard s x.1 x.2
    let rest := run guard r.1 xs
    (rest.1, r.2 :: rest.2)

end Handles

end XmppModel.Encoder
