import XmppModel.Prelude.Hex
/-!
# Model of `jid/jid.go` and `jid/unsafe.go` — property C11

A JID is the packed representation of the Go type: `data` (localpart, domainpart and
resourcepart concatenated) and the two lengths `ll`, `dl`.  Everything is on bytes (Go strings
are byte strings).

What lives in external libraries is a parameter (`Norm`): the PRECIS profiles
`UsernameCaseMapped` (`nL`) and `OpaqueString` (`nR`), `idna.Display.ToUnicode` (`idna`) and
the two IP-literal tests built on `net.ParseIP` (`ip6`, `ip4`).  UTF-8 validity is Lean's own
`ByteArray.validateUTF8` (the correspondence check compares it with Go's `utf8.Valid` on
every generated string).  The theorems of `Props/C11.lean` hold for every `Norm` satisfying
explicit hypotheses (`Norm.Good`); the harness tests each hypothesis on the real libraries
for every generated input.
-/
namespace XmppModel.Jid

def cAt : UInt8 := 0x40      -- '@'
def cSlash : UInt8 := 0x2f   -- '/'
def cDot : UInt8 := 0x2e     -- '.'

/-- the characters `localChecks` forbids: `"&'/:<>@` (regenerated from the source as
`Generated.C11.forbidden`) -/
def forbidden : Bytes := [0x22, 0x26, 0x27, 0x2f, 0x3a, 0x3c, 0x3e, 0x40]

/-- the length limit of every part (regenerated as `Generated.C11.limits`) -/
def maxPart : Nat := 1023

/-- the length checks of `localChecks`, `normalizeDomainpart`, `resourceChecks` on a part whose
normalised form has `n` bytes: (n, local accepted, domain accepted, resource accepted) -/
def partLenTable (ns : List Nat) : List (Nat × Bool × Bool × Bool) :=
  ns.map fun n => (n, !decide (n > maxPart), !(decide (n < 1) || decide (n > maxPart)), !decide (n > maxPart))

def validUtf8 (b : Bytes) : Bool := (ByteArray.mk b.toArray).validateUTF8

structure Jid where
  data : Bytes
  ll : Nat
  dl : Nat
  deriving DecidableEq, Repr

/-- the representation invariant: the two lengths fit in `data` (Go would panic slicing
otherwise; every constructor establishes it) -/
def Jid.WF (j : Jid) : Prop := j.ll + j.dl ≤ j.data.length

instance (j : Jid) : Decidable j.WF := by unfold Jid.WF; infer_instance

def Jid.localpart (j : Jid) : Bytes := j.data.take j.ll
def Jid.domainpart (j : Jid) : Bytes := (j.data.drop j.ll).take j.dl
def Jid.resourcepart (j : Jid) : Bytes := j.data.drop (j.ll + j.dl)

/-- `Bare()` -/
def Jid.bare (j : Jid) : Jid := ⟨j.data.take (j.ll + j.dl), j.ll, j.dl⟩
/-- `Domain()` -/
def Jid.domain (j : Jid) : Jid := ⟨(j.data.drop j.ll).take j.dl, 0, j.dl⟩

/-- `localpart@domainpart/resourcepart` with the separators only where a part is present -/
def assemble (l d r : Bytes) : Bytes :=
  (if l = [] then [] else l ++ [cAt]) ++ d ++ (if r = [] then [] else cSlash :: r)

/-- `String()`, transcribed: the separator `@` is written iff `locallen > 0`, the separator
`/` iff the string so far is shorter than `data` plus the `@`. -/
def Jid.toString (j : Jid) : Bytes :=
  let s := j.domainpart
  let s := if j.ll > 0 then j.localpart ++ [cAt] ++ s else s
  let addsep := if j.ll > 0 then 1 else 0
  if s.length ≠ j.data.length + addsep then s ++ [cSlash] ++ j.resourcepart else s

/-- `Equal`: octet-for-octet comparison of `data`, and both lengths -/
def Jid.equal (a b : Jid) : Bool := a.data == b.data && a.ll == b.ll && a.dl == b.dl

/-- the value `NewUnsafe` builds / the value `New` returns for normalised parts -/
def mk (l d r : Bytes) : Jid := ⟨l ++ d ++ r, l.length, d.length⟩

/-! ## Splitting -/

/-- cut at the first occurrence of `c`: `(before, after)`, `none` when `c` does not occur
(`strings.Index` + the two slices) -/
def splitFirst (c : UInt8) : Bytes → Option (Bytes × Bytes)
  | [] => none
  | x :: xs =>
    if x = c then some ([], xs)
    else match splitFirst c xs with
      | some (a, b) => some (x :: a, b)
      | none => none

inductive Err
  | noLocal | noResource | utf8 | domainLen | domainDot | unstable | norm | forbiddenLocal | longLocal | longResource
  deriving DecidableEq, Repr

/-- `splitString(s, safe)` -/
def split (safe : Bool) (s : Bytes) : Except Err (Bytes × Bytes × Bytes) :=
  match splitFirst cSlash s with
  | some (pre, res) =>
    if safe ∧ res = [] then .error .noResource
    else splitAt safe pre res
  | none => splitAt safe s []
where
  /-- the second step: the first `@` of what precedes the first `/` -/
  splitAt (safe : Bool) (pre res : Bytes) : Except Err (Bytes × Bytes × Bytes) :=
    match splitFirst cAt pre with
    | none => .ok ([], pre, res)
    | some (l, d) => if safe ∧ l = [] then .error .noLocal else .ok (l, d, res)

/-! ## Normalisation -/

/-- the external functions -/
structure Norm where
  nL : Bytes → Option Bytes     -- precis.UsernameCaseMapped
  nR : Bytes → Option Bytes     -- precis.OpaqueString
  idna : Bytes → Option Bytes   -- idna.Display.ToUnicode
  ip6 : Bytes → Bool            -- "[…]" whose inside net.ParseIP accepts as a non-IPv4 address
  ip4 : Bytes → Bool            -- net.ParseIP accepts it as an IPv4 address

/-- `strings.TrimSuffix(d, ".")` -/
def trimDot (d : Bytes) : Bytes :=
  match d.getLast? with
  | some c => if c = cDot then d.dropLast else d
  | none => d

def endsWithDot (d : Bytes) : Bool := d.getLast? == some cDot

/-- `normalizeDomainpart` (after the two `fix:` commits: when ToUnicode changed the string the
result is normalised once more and must be unchanged; a result that still ends in a dot is
rejected) -/
def normDomain (N : Norm) (d : Bytes) : Except Err Bytes :=
  if validUtf8 d = false then .error .utf8
  else if N.ip6 d then .ok d
  else if N.ip4 d then .ok d
  else match N.idna (trimDot d) with
    | none => .error .norm
    | some d' =>
      -- second pass: the result must be a fixed point (skipped when nothing changed)
      if d' ≠ trimDot d ∧ N.idna d' ≠ some d' then .error .unstable
      else if endsWithDot d' then .error .domainDot
      else if d'.length < 1 ∨ d'.length > maxPart then .error .domainLen
      else .ok d'

/-- enforce a profile, then require the result to be a fixed point of the profile (what the
code does for the localpart since `fix: jid: reject a localpart whose normalized form is not
stable`: `UsernameCaseMapped` of golang.org/x/text is not idempotent) -/
def stab (f : Bytes → Option Bytes) (x : Bytes) : Option Bytes :=
  match f x with
  | some y => if f y = some y then some y else none
  | none => none

/-- the external functions as the code applies them: `N` is the library, `N.code` adds the
fixed-point test on the enforced localpart.  `New`, `Parse`, `WithLocal`, the XML decoders of
the Go package are `new N.code`, `parse N.code`, … -/
def Norm.code (N : Norm) : Norm := { N with nL := stab N.nL }

def hasForbidden (l : Bytes) : Bool := l.any (· ∈ forbidden)

/-- a part that is normalised only when it is not empty -/
def normOpt (f : Bytes → Option Bytes) (x : Bytes) : Except Err Bytes :=
  if x = [] then .ok []
  else match f x with
    | some y => .ok y
    | none => .error .norm

/-- `New(localpart, domainpart, resourcepart)`: UTF-8 check of local- and resourcepart,
`normalizeDomainpart`, the two PRECIS profiles, `localChecks`, `resourceChecks`, in the order
of the Go function -/
def new (N : Norm) (l d r : Bytes) : Except Err Jid :=
  if validUtf8 l = false ∨ validUtf8 r = false then .error .utf8
  else match normDomain N d with
    | .error e => .error e
    | .ok d' =>
      match normOpt N.nL l with
      | .error e => .error e
      | .ok l' =>
        match normOpt N.nR r with
        | .error e => .error e
        | .ok r' =>
          if l'.length > maxPart then .error .longLocal
          else if hasForbidden l' then .error .forbiddenLocal
          else if r'.length > maxPart then .error .longResource
          else .ok (mk l' d' r')

/-- `Parse(s)` -/
def parse (N : Norm) (s : Bytes) : Except Err Jid :=
  match split true s with
  | .error e => .error e
  | .ok (l, d, r) => new N l d r

/-- `MustParse(s)`: `Parse`, the error turned into a panic (`none`) -/
def mustParse (N : Norm) (s : Bytes) : Option Jid :=
  match parse N s with
  | .ok j => some j
  | .error _ => none

/-- `ParseUnsafe(s)`: the value is built even when the split reports an error (the parts are
then empty) -/
def parseUnsafe (s : Bytes) : Jid × Bool :=
  match split false s with
  | .ok (l, d, r) => (mk l d r, true)
  | .error _ => (mk [] [] [], false)

/-- `j.WithLocal(l)` -/
def withLocal (N : Norm) (j : Jid) (l : Bytes) : Except Err Jid :=
  if l ≠ [] ∧ validUtf8 l = false then .error .utf8
  else match normOpt N.nL l with
    | .error e => .error e
    | .ok l' =>
      if l'.length > maxPart then .error .longLocal
      else if hasForbidden l' then .error .forbiddenLocal
      else .ok ⟨l' ++ j.data.drop j.ll, l'.length, j.dl⟩

/-- `j.WithDomain(d)` -/
def withDomain (N : Norm) (j : Jid) (d : Bytes) : Except Err Jid :=
  match normDomain N d with
  | .error e => .error e
  | .ok d' => .ok ⟨j.data.take j.ll ++ d' ++ j.data.drop (j.ll + j.dl), j.ll, d'.length⟩

/-- `j.WithResource(r)` -/
def withResource (N : Norm) (j : Jid) (r : Bytes) : Except Err Jid :=
  if r ≠ [] ∧ validUtf8 r = false then .error .utf8
  else match normOpt N.nR r with
    | .error e => .error e
    | .ok r' =>
      if r'.length > maxPart then .error .longResource
      else .ok ⟨j.data.take (j.ll + j.dl) ++ r', j.ll, j.dl⟩

/-! ## XML encodings (token level: the attribute value / the character data) -/

/-- `MarshalXMLAttr` / the chardata written by `MarshalXML` -/
def marshal (j : Jid) : Bytes := j.toString

/-- `UnmarshalXMLAttr` into `old`: an empty value leaves the receiver alone; a value that
does not parse stores the zero JID and reports the error -/
def unmarshalAttr (N : Norm) (old : Jid) (v : Bytes) : Jid × Bool :=
  if v = [] then (old, true)
  else match parse N v with
    | .ok j => (j, true)
    | .error _ => (⟨[], 0, 0⟩, false)

/-- `UnmarshalXML` into `old`: the receiver changes only when the chardata parses -/
def unmarshalElem (N : Norm) (old : Jid) (v : Bytes) : Jid × Bool :=
  match parse N v with
  | .ok j => (j, true)
  | .error _ => (old, false)

end XmppModel.Jid
