import XmppModel.Prelude.Hex
/-!
# In-band bytestreams (C15)

Receiver: `recv` is `ibb.handlePayload` after the repair (sid lookup, sequence check, complete
base64 decode into a scratch buffer, size check on the decoded length, and only then the
commit: `seq++`, append, acknowledge, wake the reader).  Sender: the *relation* `Emits` —
what any packetisation (bufio + base64 encoder + one data stanza per encoder write) must
satisfy; the harness evaluates it on the packets tapped from the real sender.

The base64 codec is a parameter of the receiver theorems (`Codec`); `std` is the executable
instance (standard alphabet, `=` padding, CR/LF ignored like Go's decoder) for which the two
codec laws are proved (`Lemmas/Ibb.lean`); its agreement with `encoding/base64` on malformed
input is checked by correspondence.
-/
namespace XmppModel.Ibb
open XmppModel

structure Codec where
  enc : Bytes → Bytes
  dec : Bytes → Option Bytes

inductive Reply | ack | itemNotFound | unexpectedRequest | badRequest | resourceConstraint
  deriving DecidableEq, Repr, Inhabited

structure RState where
  live : Bool          -- sid registered and stream not closed
  seq : Nat            -- next expected packet number (uint16 in the code)
  buf : Bytes          -- bytes delivered to the read buffer and not read yet
  maxBuf : Nat         -- 0 = unlimited
  deriving DecidableEq, Repr

structure Packet where
  known : Bool         -- the packet names the stream: its sid AND its sender (the `from` of the
                       -- carrier stanza) are the stream's — a stream is identified by the session
                       -- id together with the entity it was opened with
  seq : Nat
  payload : Bytes
  deriving DecidableEq, Repr

def recv (cd : Codec) (s : RState) (p : Packet) : RState × Reply :=
  if !(p.known && s.live) then (s, .itemNotFound)
  else if p.seq ≠ s.seq then (s, .unexpectedRequest)
  else match cd.dec p.payload with
    | none => (s, .badRequest)
    | some d =>
      if s.maxBuf > 0 ∧ s.buf.length + d.length > s.maxBuf then (s, .resourceConstraint)
      else ({ s with seq := (s.seq + 1) % 65536, buf := s.buf ++ d }, .ack)

def recvAll (cd : Codec) : RState → List Packet → RState × List Reply
  | s, [] => (s, [])
  | s, p :: ps =>
    let r := recv cd s p
    let rest := recvAll cd r.1 ps
    (rest.1, r.2 :: rest.2)

/-- the reader takes `n` bytes (all if fewer) -/
def read (s : RState) (n : Nat) : RState × Bytes := ({ s with buf := s.buf.drop n }, s.buf.take n)

/-- peer's or local close: later packets find no stream; buffered bytes stay readable -/
def close (s : RState) : RState := { s with live := false }

/-- a `<close/>` request from the network: it closes the stream iff it names it (sid and sender, as
for data packets) and the stream is live; otherwise item-not-found and nothing happens -/
def closeRequest (s : RState) (forStream : Bool) : RState × Reply :=
  if forStream && s.live then (close s, .ack) else (s, .itemNotFound)

/-- a local `Close` has sent its close request and waits for the answer.  `up`: the routine keeps
the receiving side up while it waits (`IbbClose.receivesWhileWaiting` of the close routine); then
nothing changes for the receiver — packets of the peer that were in flight, and what the peer
flushes when it handles the request, are accepted like any other until the answer is in -/
def closeBegin (up : Bool) (s : RState) : RState := if up then s else close s

/-- `Read` on the receiving side: data if any, else end-of-file once closed, else it blocks -/
inductive ReadOut | data (b : Bytes) | eof | blocks
  deriving DecidableEq, Repr

def readOut (s : RState) (n : Nat) : ReadOut :=
  if s.buf ≠ [] then .data (s.buf.take n) else if s.live then .blocks else .eof

/-- `Conn.SetReadBuffer(max)` on a connection whose negotiated block size is `bs`: zero (or less)
means unlimited, a positive value below the block size is raised to the block size, anything else
is taken as it is — in particular it is NOT raised to whatever the buffer once grew to -/
def clampLimit (n bs : Nat) : Nat := if 0 < n ∧ n < bs then bs else n

def setMax (s : RState) (n bs : Nat) : RState := { s with maxBuf := clampLimit n bs }

/-! ### the accepting side: listener life cycle

`Handler.l` holds at most one listener per local address.  An incoming `<open/>` is answered
`result` iff a listener is registered at that moment (else `not-acceptable`); the new stream is
registered and handed to a waiting `Accept`, or the handler waits until `Accept` is called or the
listener is closed (then the stream is dropped again). -/

structure LState where
  listening : Bool := false
  pending : Option Nat := none     -- sid of the stream the handler is trying to hand over
  acceptors : Nat := 0             -- `Accept` calls that are waiting
  streams : List Nat := []         -- registered sids
  expecting : Option Nat := none   -- an `Expect` call is waiting for this sid (repaired code: the
                                   -- entry of a call that has returned is never handed a stream)
  deriving DecidableEq, Repr

inductive LOp
  | listen | closeL | accept | open (sid : Nat)
  | expect (sid : Nat)             -- `Expect` is called for this sid
  | cancelExpect                   -- its context ends: the call returns the context's error
  deriving DecidableEq, Repr

/-- result of a step: the new state, the reply to an open request (`some true` = result, `some
false` = not-acceptable), and how many `Accept` calls return a connection / an error now -/
structure LOut where
  st : LState
  reply : Option Bool := none
  conns : Nat := 0
  errs : Nat := 0
  xconn : Bool := false   -- the waiting `Expect` call returns the connection
  xerr : Bool := false    -- the waiting `Expect` call returns an error
  deriving DecidableEq, Repr

def lstep (s : LState) : LOp → LOut
  | .listen => { st := { s with listening := true } }
  | .closeL =>
    { st := { s with listening := false, pending := none, acceptors := 0, expecting := none,
                     streams := match s.pending with | some sid => s.streams.erase sid | none => s.streams },
      errs := s.acceptors, xerr := s.expecting.isSome }
  | .expect sid =>
    if !s.listening then { st := s, xerr := true }   -- closed listener: the call returns at once
    else { st := { s with expecting := some sid }, xerr := s.expecting.isSome }  -- a second call replaces the first
  | .cancelExpect => { st := { s with expecting := none }, xerr := s.expecting.isSome }
  | .accept =>
    if !s.listening then { st := s, errs := 1 }
    else match s.pending with
      | some _ => { st := { s with pending := none }, conns := 1 }
      | none => { st := { s with acceptors := s.acceptors + 1 } }
  | .open sid =>
    if !s.listening then { st := s, reply := some false }
    else if s.pending.isSome then { st := s }     -- the serve loop is still inside the previous hand-off
    else if s.expecting = some sid then           -- `Expect` takes precedence over `Accept`
      { st := { s with expecting := none, streams := sid :: s.streams }, reply := some true, xconn := true }
    else if s.acceptors > 0 then
      { st := { s with acceptors := s.acceptors - 1, streams := sid :: s.streams }, reply := some true, conns := 1 }
    else { st := { s with pending := some sid, streams := sid :: s.streams }, reply := some true }

/-- `open`: a connection is returned iff the peer answered the open request with a result
(repaired code: an error reply is returned as that error) -/
def openResult (peerAccepts : Bool) : Option Unit := if peerAccepts then some () else none

/-! ### sender relation -/

/-- numbers `start, start+1, …` modulo 65536 -/
def seqsFrom : Nat → List Packet → Bool
  | _, [] => true
  | n, p :: ps => p.seq == n % 65536 && p.known && seqsFrom (n + 1) ps

def decodeAll (cd : Codec) : List Packet → Option Bytes
  | [] => some []
  | p :: ps => do
    let d ← cd.dec p.payload
    let r ← decodeAll cd ps
    pure (d ++ r)

/-- what the data stanzas of one direction must look like, given the bytes written so far and
whether `Close` has completed -/
def emits (cd : Codec) (written : Bytes) (closed : Bool) (ps : List Packet) : Bool :=
  seqsFrom 0 ps &&
  match decodeAll cd ps with
  | none => false
  | some d => if closed then d == written else d.isPrefixOf written

/-! ### standard base64 (executable; the laws are proved in `Lemmas/Ibb.lean`) -/

/-- the i-th letter of `A–Z a–z 0–9 + /` -/
def encChar (n : Nat) : UInt8 :=
  if n < 26 then (65 + n).toUInt8 else if n < 52 then (71 + n).toUInt8
  else if n < 62 then (n - 4).toUInt8 else if n = 62 then 43 else 47

def decChar (c : UInt8) : Option Nat :=
  let n := c.toNat
  if 65 ≤ n ∧ n ≤ 90 then some (n - 65)
  else if 97 ≤ n ∧ n ≤ 122 then some (n - 71)
  else if 48 ≤ n ∧ n ≤ 57 then some (n + 4)
  else if n = 43 then some 62
  else if n = 47 then some 63
  else none

def stdEnc : Bytes → Bytes
  | [] => []
  | [a] => [encChar (a.toNat / 4), encChar (a.toNat % 4 * 16), 61, 61]
  | [a, b] => [encChar (a.toNat / 4), encChar (a.toNat % 4 * 16 + b.toNat / 16), encChar (b.toNat % 16 * 4), 61]
  | a :: b :: c :: rest =>
    encChar (a.toNat / 4) :: encChar (a.toNat % 4 * 16 + b.toNat / 16) ::
    encChar (b.toNat % 16 * 4 + c.toNat / 64) :: encChar (c.toNat % 64) :: stdEnc rest

/-- groups of four characters; `=` padding only in the last group (trailing bits are not
checked, like Go's non-strict decoder) -/
def stdDecGroups : Bytes → Option Bytes
  | [] => some []
  | w :: x :: y :: z :: rest =>
    if rest = [] ∧ z = 61 then
      if y = 61 then do
        let s0 ← decChar w; let s1 ← decChar x
        pure [(s0 * 4 + s1 / 16).toUInt8]
      else do
        let s0 ← decChar w; let s1 ← decChar x; let s2 ← decChar y
        pure [(s0 * 4 + s1 / 16).toUInt8, (s1 % 16 * 16 + s2 / 4).toUInt8]
    else do
      let s0 ← decChar w; let s1 ← decChar x; let s2 ← decChar y; let s3 ← decChar z
      let r ← stdDecGroups rest
      pure ((s0 * 4 + s1 / 16).toUInt8 :: (s1 % 16 * 16 + s2 / 4).toUInt8 :: (s2 % 4 * 64 + s3).toUInt8 :: r)
  | _ => none

/-- CR and LF are skipped, as by `encoding/base64` -/
def stdDec (b : Bytes) : Option Bytes := stdDecGroups (b.filter fun c => c ≠ 10 ∧ c ≠ 13)

def std : Codec := ⟨stdEnc, stdDec⟩

/-! ### the packet on the wire: the `seq` attribute is text

`handlePayload` sees the attribute through `strconv.ParseUint(text, 10, 16)`.  The model splits
this in two: *which natural number the text denotes* (`parseSeqAttr`: a non-empty string of ASCII
digits, of any length — the number is NOT reduced modulo anything) and the comparison with the
expected number in `recv` (`p.seq ≠ s.seq` over `Nat`).  A numeral above 65535 therefore denotes a
number that is never the expected one and is refused as out of sequence; text that is no numeral
(also a missing attribute) is a malformed packet (`bad-request`). -/

/-- value of a string of ASCII digits (accumulator `acc`); `none` if some byte is not a digit -/
def digitsVal : Bytes → Nat → Option Nat
  | [], acc => some acc
  | c :: cs, acc =>
    if 48 ≤ c.toNat ∧ c.toNat ≤ 57 then digitsVal cs (acc * 10 + (c.toNat - 48)) else none

inductive SeqAttr
  | num (n : Nat)   -- a decimal numeral (leading zeros allowed), its value unbounded
  | malformed       -- empty, a sign, blanks, hex / float notation, any other text
  deriving DecidableEq, Repr

def parseSeqAttr (b : Bytes) : SeqAttr :=
  if b = [] then .malformed else match digitsVal b 0 with
    | some n => .num n
    | none => .malformed

structure WirePacket where
  known : Bool
  seqAttr : Bytes      -- the attribute text
  payload : Bytes
  deriving DecidableEq, Repr

/-- `handlePayload` on the packet as received: sid / closed check first, then the attribute,
then everything `recv` does with the number it denotes -/
def recvWire (cd : Codec) (s : RState) (w : WirePacket) : RState × Reply :=
  if !(w.known && s.live) then (s, .itemNotFound)
  else match parseSeqAttr w.seqAttr with
    | .malformed => (s, .badRequest)
    | .num n => recv cd s ⟨w.known, n, w.payload⟩

/-- decimal numeral of a number (most significant digit first), for the theorems -/
def decimalDigits : Nat → Nat → List Nat
  | 0, _ => []
  | fuel + 1, n => if n < 10 then [n] else decimalDigits fuel (n / 10) ++ [n % 10]

/-- the attribute texts on which the real `handlePayload` is probed by `harness facts` (the same
list, in the same order, is in `harness/c15/facts.go`) -/
def seqAttrUniverse : List Bytes :=
  [
   [48],  -- '0'
   [49],  -- '1'
   [50],  -- '2'
   [54, 53, 53, 51, 53],  -- '65535'
   [54, 53, 53, 51, 54],  -- '65536'
   [54, 53, 53, 51, 55],  -- '65537'
   [54, 53, 53, 51, 56],  -- '65538'
   [49, 51, 49, 48, 55, 50],  -- '131072'
   [49, 51, 49, 48, 55, 51],  -- '131073'
   [52, 50, 57, 52, 57, 54, 55, 50, 57, 54],  -- '4294967296'
   [52, 50, 57, 52, 57, 54, 55, 50, 57, 55],  -- '4294967297'
   [49, 56, 52, 52, 54, 55, 52, 52, 48, 55, 51, 55, 48, 57, 53, 53, 49, 54, 49, 54],  -- '18446744073709551616'
   [49, 56, 52, 52, 54, 55, 52, 52, 48, 55, 51, 55, 48, 57, 53, 53, 49, 54, 49, 55],  -- '18446744073709551617'
   [48, 48],  -- '00'
   [48, 49],  -- '01'
   [48, 48, 48, 49],  -- '0001'
   [48, 48, 48, 48, 48, 48, 48, 48, 48, 48, 48, 48, 48, 48, 48, 48, 48, 48, 48, 48, 49],  -- '000000000000000000001'
   [],  -- ''
   [45, 49],  -- '-1'
   [45, 48],  -- '-0'
   [43, 49],  -- '+1'
   [32, 49],  -- ' 1'
   [49, 32],  -- '1 '
   [48, 120, 49],  -- '0x1'
   [49, 46, 48],  -- '1.0'
   [49, 101, 48],  -- '1e0'
   [111, 110, 101],  -- 'one'
   [217, 161]  -- '١'
  ]

def showReply : Reply → String
  | .ack => "ack" | .itemNotFound => "inf" | .unexpectedRequest => "unx"
  | .badRequest => "bad" | .resourceConstraint => "res"

/-- the model's answer to one probe: a live stream that expects packet `expected`, a packet with
that attribute text and the payload `QQ==` -/
def seqAttrModel (expected : Nat) (attr : Bytes) : String :=
  showReply (recvWire std ⟨true, expected, [], 0⟩ ⟨true, attr, [81, 81, 61, 61]⟩).2

end XmppModel.Ibb
