/-!
# URI references as the payload decoders split them (C19, upload slots)

`upload.Slot` carries its two URLs as attribute strings; `Slot.UnmarshalXML` turns them into
components with `net/url.Parse`.  This is the component split of that parser (RFC 3986 §3 /
appendix B, with Go's scheme scanner and its `///` rule), over characters, and its inverse
`join`.  Escaping inside a component, host validation and user-info syntax are *not* modelled:
components are raw (escaped) substrings, which is what `EscapedPath`, `RawQuery` and
`EscapedFragment` return for a printed URL.
-/
namespace XmppModel.Url

structure Parts where
  scheme : Option (List Char)   -- without the ':'
  auth   : Option (List Char)   -- after "//"
  path   : List Char            -- path, or the opaque part of `mailto:x`
  query  : Option (List Char)   -- after '?'  (`some []` = a bare "?")
  frag   : Option (List Char)   -- after '#'
deriving DecidableEq, Repr

def opt (pre : List Char) : Option (List Char) → List Char
  | none => []
  | some x => pre ++ x

/-- recomposition (RFC 3986 §5.3) -/
def join (p : Parts) : List Char :=
  ((match p.scheme with | none => [] | some s => s ++ [':']) ++ (opt ['/', '/'] p.auth ++ (p.path ++ opt ['?'] p.query)))
    ++ opt ['#'] p.frag

/-- cut at the first `c` (which is dropped); `none` when there is no `c` (`strings.Cut`) -/
def cut (c : Char) : List Char → List Char × Option (List Char)
  | [] => ([], none)
  | x :: xs => if x = c then ([], some xs) else ((x :: (cut c xs).1), (cut c xs).2)

/-- split before the first `c` (which is kept) -/
def upTo (c : Char) : List Char → List Char × List Char
  | [] => ([], [])
  | x :: xs => if x = c then ([], x :: xs) else ((x :: (upTo c xs).1), (upTo c xs).2)

def schemeChar (c : Char) : Bool := c.isAlphanum || c == '+' || c == '-' || c == '.'

/-- Go's `getScheme`: a letter, then letters / digits / `+-.`, then ':'; any other character
before the first ':' means "no scheme"; a leading ':' is an error (`none`). -/
def getScheme (s : List Char) : Option (Option (List Char) × List Char) :=
  match s with
  | [] => some (none, [])
  | c :: _ =>
    if c = ':' then none
    else if !c.isAlpha then some (none, s)
    else match cut ':' s with
      | (pre, some rest) => if pre.all schemeChar then some (some pre, rest) else some (none, s)
      | (_, none) => some (none, s)

/-- what `url.Parse` does after the fragment and the scheme are taken off -/
def splitRest (scheme : Option (List Char)) (r1 : List Char) (frag : Option (List Char)) : Option Parts :=
  let r2 := (cut '?' r1).1
  let query := (cut '?' r1).2
  match r2 with
  | '/' :: '/' :: r3 =>
    if scheme.isNone && r3.head? == some '/' then
      some ⟨scheme, none, r2, query, frag⟩          -- Go: "///…" without a scheme is a path
    else some ⟨scheme, some (upTo '/' r3).1, (upTo '/' r3).2, query, frag⟩
  | '/' :: _ => some ⟨scheme, none, r2, query, frag⟩
  | _ =>
    if scheme.isNone && (cut '/' r2).1.contains ':' then none   -- "first path segment in URL cannot contain colon"
    else some ⟨scheme, none, r2, query, frag⟩                  -- relative, rootless or opaque

/-- `url.Parse` as far as component boundaries go. -/
def split (s : List Char) : Option Parts :=
  match getScheme (cut '#' s).1 with
  | none => none
  | some (scheme, r1) => splitRest scheme r1 (cut '#' s).2

/-- components that `join` writes unambiguously -/
structure WF (p : Parts) : Prop where
  scheme_head : ∀ s, p.scheme = some s → ∃ c t, s = c :: t ∧ c.isAlpha = true
  scheme_chars : ∀ s, p.scheme = some s → ∀ c ∈ s, schemeChar c = true
  auth_chars : ∀ a, p.auth = some a → ∀ c ∈ a, c ≠ '/' ∧ c ≠ '?' ∧ c ≠ '#'
  path_chars : ∀ c ∈ p.path, c ≠ '?' ∧ c ≠ '#'
  query_chars : ∀ q, p.query = some q → ∀ c ∈ q, c ≠ '#'
  /-- with an authority, or without a scheme, the path is empty or absolute -/
  path_abs : (p.auth ≠ none ∨ p.scheme = none) → p.path = [] ∨ ∃ t, p.path = '/' :: t
  /-- without an authority the path does not look like one -/
  no_fake_auth : p.auth = none → ∀ t, p.path ≠ '/' :: '/' :: t
  /-- Go reads "///x" without a scheme as a path -/
  auth_nonempty : p.scheme = none → p.auth ≠ some []

end XmppModel.Url
