import XmppModel.Prelude.Xml
/-!
# C19 — well-formedness beyond nesting: attribute names of a start tag (round E, review C19-1)

`encoding/xml`'s *decoder* hands out a start tag that repeats an attribute; a conforming XML
parser refuses the document.  So "well-formed" is nesting (`balanced`) **and**, per start tag, a
non-empty name and pairwise distinct attribute names.

What the encoder prints for a start token (`printer.writeStart`): a namespace declaration
`xmlns="<space>"` whenever the name carries a namespace, then the attributes as they are.  A
token that came out of a decoder carries its namespace in the name *and* as an `xmlns`
attribute; writing it again as it is declares the namespace twice (`bookmarks.Channel` before
the fix).  The library's idiom (`session.go` "prevent duplicate xmlns attributes",
`internal/marshal.resolvedTokenReader`, `bookmarks.extensionsReader`) drops the declarations
from decoded tokens before encoding them: `stripTok`.
-/
namespace XmppModel.Reencode
open XmppModel XmppModel.Xml

def distinct : List Name → Bool
  | [] => true
  | n :: ns => !(ns.any fun m => decide (m = n)) && distinct ns

def attrNames (as : List Attr) : List Name := as.map (·.name)

/-- a start tag a conforming parser accepts (as far as names go) -/
def wfTok : Tok → Bool
  | .start n as => decide (n.loc ≠ "") && distinct (attrNames as)
  | _ => true

def xmlnsName : Name := ⟨"", "xmlns"⟩

/-- a namespace declaration as the decoder reports it: `xmlns="…"` or `xmlns:p="…"` -/
def isDecl (a : Attr) : Bool := decide (a.name.space = "xmlns") || decide (a.name = xmlnsName)

/-- the declaration the encoder writes in front of the attributes -/
def declOf (n : Name) : List Attr := if n.space = "" then [] else [⟨xmlnsName, n.space⟩]

/-- the start tag a parser reads back from what the encoder printed for the token -/
def printTok : Tok → Tok
  | .start n as => .start n (declOf n ++ as)
  | t => t

/-- decoded tokens made fit for encoding again: declarations dropped -/
def stripTok : Tok → Tok
  | .start n as => .start n (as.filter (fun a => !isDecl a))
  | t => t

/-- well-formed token list: nesting and every start tag -/
def wfToks (ts : List Tok) : Bool := balanced ts && ts.all wfTok

/-- the observation of the `wf` lines: is what the encoder prints for these tokens free of
repeated attributes and empty names -/
def printedWf (ts : List Tok) : Bool := (ts.map printTok).all wfTok

end XmppModel.Reencode
