import XmppModel.Model.Ibb
/-!
# The body of a `<data/>` element is XML character data (C15, round D)

On the wire the base64 text of a data packet is the *character data* of the `<data/>` element.
XML lets a sender serialise character data in several pieces: runs of plain text, CDATA
sections, numeric character references (comments and processing instructions are not allowed in an
XMPP stream at all: the session refuses them before any handler runs).  An XML parser reports
them as several character-data tokens.  The payload of the packet is ALL of it, in order
(`ibb/payloads.go`, `dataPayload.UnmarshalXML`: a `,chardata` field accumulates every piece).
-/
namespace XmppModel.Ibb
open XmppModel

inductive Seg
  | text (b : Bytes)       -- a run of plain text
  | cdata (b : Bytes)      -- `<![CDATA[ … ]]>`
  | charRefs (b : Bytes)   -- `&#N;` / `&#xH;`, one reference per byte
  deriving DecidableEq, Repr

def Seg.content : Seg → Bytes
  | .text b => b
  | .cdata b => b
  | .charRefs b => b

/-- the character data of the element: every piece, in order -/
def bodyText : List Seg → Bytes
  | [] => []
  | s :: ss => s.content ++ bodyText ss

structure BodyPacket where
  known : Bool
  seqAttr : Bytes
  body : List Seg
  deriving DecidableEq, Repr

/-- `handlePayload` on a packet whose body arrives in pieces -/
def recvBody (cd : Codec) (s : RState) (w : BodyPacket) : RState × Reply :=
  recvWire cd s ⟨w.known, w.seqAttr, bodyText w.body⟩

/-- NOT the code: a reader that keeps only the last piece of character data (negation witness) -/
def lastPiece : List Seg → Bytes
  | [] => []
  | [s] => s.content
  | _ :: s :: ss => lastPiece (s :: ss)

/-- pieces as `(kind, bytes)` pairs, kind 0 text / 1 CDATA / anything else character references
(the form in which `harness facts` emits its probe table) -/
def Seg.ofCode : Nat × Bytes → Seg
  | (0, b) => .text b
  | (1, b) => .cdata b
  | (_, b) => .charRefs b

/-- the serialisations on which the real handler is probed by `harness facts` (the same list, in
the same order, is `bodyUniverse` in `harness/c15/facts.go`).  `QUJD` `REVG` `R0hJ` are the base64
of `ABC` `DEF` `GHI`. -/
def bodyUniverse : List (List (Nat × Bytes)) :=
  let qujd : Bytes := [81, 85, 74, 68]
  let revg : Bytes := [82, 69, 86, 71]
  let r0hj : Bytes := [82, 48, 104, 74]
  [ [(0, qujd)],
    [(0, qujd), (1, revg)],
    [(1, qujd), (0, revg)],
    [(0, qujd), (1, revg), (0, r0hj)],
    [(1, qujd), (1, revg)],
    [(1, qujd ++ revg)],
    [(0, [81, 85]), (1, [74, 68])],
    [(2, qujd)],
    [(0, qujd), (2, revg)],
    [(0, qujd), (1, []), (0, revg)],
    [(0, qujd), (1, [82, 69])],
    [(0, [81, 33, 74, 68]), (1, revg)],
    [(1, [81, 81, 61, 61])],
    [(0, [81, 81]), (1, [61, 61])],
    [(1, [])],
    [] ]

/-- the model's answer to one probe: a fresh stream, packet 0 with that body; the reply and what a
reader then gets -/
def bodyModel (ss : List (Nat × Bytes)) : String × Bytes :=
  let r := recvBody std ⟨true, 0, [], 0⟩ ⟨true, [48], ss.map Seg.ofCode⟩
  (showReply r.2, r.1.buf)

end XmppModel.Ibb
