/-!
# The listener's table of expected streams (C06)

Model of `ibb/listen.go` `Expect` / `Accept` / `Close` and the hand-off in `ibb.go`
`handleOpen`, after the repairs "an open request for a stream whose Expect call has given up …".

`expected : key ↦ entry` holds at most one waiting `Expect` call per stream.  A later call for
the same stream cancels the earlier one and takes the slot; a call that returns removes the
slot only if it is still its own.  An open request is handed to the call in the slot (which is
removed), else to a waiting `Accept`, else the serve loop waits in the hand-off until an
`Accept` comes or the listener is closed.
-/
namespace XmppModel.CorrExpect

inductive Op
  | expect (i k : Nat)      -- `Expect` call number `i` for stream `k`
  | cancel (i : Nat)        -- the context of call `i` ends
  | openReq (k : Nat)       -- the peer asks to open stream `k`
  | accept
  | close
  deriving DecidableEq, Repr

/-- a call returns -/
inductive Ev
  | conn (i k : Nat)        -- `Expect` call `i` got stream `k`
  | err (i : Nat)           -- `Expect` call `i` returned an error (context / replaced / closed)
  | accConn (k : Nat)       -- an `Accept` got stream `k`
  | accErr
  deriving DecidableEq, Repr

structure St where
  table : List (Nat × Nat) := []   -- stream ↦ waiting call (at most one entry per stream)
  acceptors : Nat := 0             -- waiting `Accept` calls
  pending : Option Nat := none     -- an open request that waits in the hand-off to `Accept`
  closed : Bool := false
  deriving DecidableEq, Repr

def slot (t : List (Nat × Nat)) (k : Nat) : Option Nat := (t.find? fun e => e.1 == k).map (·.2)

def drop (t : List (Nat × Nat)) (k : Nat) : List (Nat × Nat) := t.filter fun e => e.1 != k

/-- the deferred clean-up of `Expect`: remove the slot of stream `k` only if call `i` still owns it -/
def forget (t : List (Nat × Nat)) (k i : Nat) : List (Nat × Nat) := t.filter fun e => !(e.1 == k && e.2 == i)

def step (s : St) : Op → St × List Ev
  | .expect i k =>
    if s.closed then (s, [.err i])   -- registers, sees the closed listener, forgets its slot again
    else match slot s.table k with
      | some j => ({ s with table := (k, i) :: forget (drop s.table k) k j }, [.err j])
      | none => ({ s with table := (k, i) :: s.table }, [])
  | .cancel i =>
    match s.table.find? fun e => e.2 == i with
    | some (k, _) => ({ s with table := forget s.table k i }, [.err i])
    | none => (s, [])
  | .openReq k =>
    if s.closed then (s, [])         -- refused: no listener
    else if s.pending.isSome then (s, [])   -- (queued behind the hand-off: not generated)
    else match slot s.table k with
      | some i => ({ s with table := drop s.table k }, [.conn i k])
      | none =>
        if s.acceptors > 0 then ({ s with acceptors := s.acceptors - 1 }, [.accConn k])
        else ({ s with pending := some k }, [])
  | .accept =>
    if s.closed then (s, [.accErr])
    else match s.pending with
      | some k => ({ s with pending := none }, [.accConn k])
      | none => ({ s with acceptors := s.acceptors + 1 }, [])
  | .close =>
    ({ table := [], acceptors := 0, pending := none, closed := true },
      s.table.map (fun e => Ev.err e.2) ++ List.replicate s.acceptors Ev.accErr)

def run : St → List Op → List (List Ev)
  | _, [] => []
  | s, o :: os => let (s', ev) := step s o; ev :: run s' os

def final : St → List Op → St
  | s, [] => s
  | s, o :: os => final (step s o).1 os

end XmppModel.CorrExpect
