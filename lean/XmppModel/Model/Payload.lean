import XmppModel.Prelude.Xml
/-!
# C19 — payload writers and readers: the generic part

* `Node`: element trees as a decoder sees them; `flatten` is the token stream of a tree,
  `parse` the stack machine that rebuilds trees from a token stream (what
  `encoding/xml`'s decoder + `DecodeElement` do structurally: nesting with matching names).
* `Skel`: the combinator skeleton of a `TokenReader` method (`xmlstream.Wrap`,
  `MultiReader`, `Token`, a slice filled by `append` in loops/conditions, calls to
  other writers).  `Gen s ts` says that `ts` is a token stream the skeleton can produce;
  `balancedSkel` is the syntactic check the regenerated skeletons must pass.

`encoding/xml` itself (printing, escaping, tokenising, reflection) is not modelled.
-/
namespace XmppModel.Payload
open XmppModel XmppModel.Xml

/-! ### element trees -/

inductive Node
  | elem (name : Name) (attrs : List Attr) (kids : List Node)
  | text (s : String)
  deriving Repr, Inhabited

mutual
/-- the token stream of a tree -/
def flatten : Node → List Tok
  | .elem n as ks => Tok.start n as :: (flattenL ks ++ [Tok.stop n])
  | .text s => [Tok.chars s]
/-- the token stream of a forest -/
def flattenL : List Node → List Tok
  | [] => []
  | k :: ks => flatten k ++ flattenL ks
end

/-- an open element of the parser: its name, attributes and the siblings read before it
(most recent first) -/
structure Frame where
  name : Name
  attrs : List Attr
  before : List Node

/-- Stack machine rebuilding a forest from a token stream.  `acc` holds the nodes of the
current level, most recent first.  End tags must match the open element (as
`encoding/xml` enforces); comments, processing instructions and directives are skipped. -/
def parseAux : List Frame → List Node → List Tok → Option (List Node)
  | [], acc, [] => some acc.reverse
  | _ :: _, _, [] => none
  | stk, acc, .start n as :: ts => parseAux (⟨n, as, acc⟩ :: stk) [] ts
  | [], _, .stop _ :: _ => none
  | f :: stk, acc, .stop m :: ts =>
    if f.name = m then parseAux stk (.elem f.name f.attrs acc.reverse :: f.before) ts else none
  | stk, acc, .chars s :: ts => parseAux stk (.text s :: acc) ts
  | stk, acc, .comment _ :: ts => parseAux stk acc ts
  | stk, acc, .procInst _ _ :: ts => parseAux stk acc ts
  | stk, acc, .directive _ :: ts => parseAux stk acc ts

/-- parse a complete token stream into a forest -/
def parse (ts : List Tok) : Option (List Node) := parseAux [] [] ts

/-! ### what decoders observe -/

/-- concatenated character data directly inside an element (what a `string` field or a
`,chardata` field receives) -/
def textOf : List Node → String
  | [] => ""
  | .text s :: ks => s ++ textOf ks
  | .elem .. :: ks => textOf ks

/-- child elements with the given local name (struct tags without a namespace and the
hand-written decoders match on the local name only) -/
def kidsNamed (loc : String) : List Node → List (List Attr × List Node)
  | [] => []
  | .elem n as ks :: rest => if n.loc = loc then (as, ks) :: kidsNamed loc rest else kidsNamed loc rest
  | .text _ :: rest => kidsNamed loc rest

/-- a text child, omitted when empty (what survives printing and re-tokenising) -/
def textKid (s : String) : List Node := if s = "" then [] else [.text s]

/-- `<loc>s</loc>` without attributes -/
def leaf (sp loc s : String) : Node := .elem ⟨sp, loc⟩ [] (textKid s)

/-- attribute with an empty namespace -/
def at' (loc v : String) : Attr := ⟨⟨"", loc⟩, v⟩

/-- last attribute with the given local name (struct-tag attribute fields: every matching
attribute is copied in order, so the last one wins) -/
def attrLast (attrs : List Attr) (loc : String) : Option String :=
  attrs.foldl (fun acc a => if a.name.loc = loc then some a.value else acc) none

/-! ### sibling order

The order of differently named children is a free choice of a writer (no decoder of the
library depends on it), the order of equally named children is not (values, fields,
options, items).  The correspondence therefore compares trees after a *stable* sort of
every child list by element name (text first). -/

def nodeKey : Node → String × String
  | .elem n _ _ => (n.space, n.loc)
  | .text _ => ("", "")

def keyLe (a b : Node) : Bool :=
  let ka := nodeKey a; let kb := nodeKey b
  if ka.1 = kb.1 then !(kb.2 < ka.2) else !(kb.1 < ka.1)

mutual
def canonNode : Node → Node
  | .elem n as ks => .elem n as ((canonList ks).mergeSort keyLe)
  | .text s => .text s
def canonList : List Node → List Node
  | [] => []
  | k :: ks => canonNode k :: canonList ks
end

/-! ### writer skeletons -/

inductive Skel
  | empty                 -- a nil reader
  | chars                 -- xmlstream.Token(xml.CharData(…))
  | wrap (inner : Skel)   -- xmlstream.Wrap(inner, start) / stanza.X.Wrap(inner)
  | seq (a b : Skel)      -- xmlstream.MultiReader(a, b)
  | many (s : Skel)       -- xmlstream.MultiReader(slice...) with every element produced by `s`
  | alt (a b : Skel)      -- one of two readers, chosen by a condition
  | ext                   -- a reader balanced by hypothesis (another writer, a caller's payload)
  | startTok              -- a lone start token
  | stopTok               -- a lone end token
  | unknown               -- anything the extractor does not understand
  deriving Repr, DecidableEq, Inhabited

/-- `Gen s ts`: the skeleton can produce the token stream `ts` -/
inductive Gen : Skel → List Tok → Prop
  | empty : Gen .empty []
  | chars (s : String) : Gen .chars [Tok.chars s]
  | wrap {i ts} (n : Name) (as : List Attr) : Gen i ts → Gen (.wrap i) (Tok.start n as :: ts ++ [Tok.stop n])
  | seq {a b ts us} : Gen a ts → Gen b us → Gen (.seq a b) (ts ++ us)
  | manyNil {s} : Gen (.many s) []
  | manyCons {s ts us} : Gen s ts → Gen (.many s) us → Gen (.many s) (ts ++ us)
  | altL {a b ts} : Gen a ts → Gen (.alt a b) ts
  | altR {a b ts} : Gen b ts → Gen (.alt a b) ts
  | ext {ts} : balanced ts = true → Gen .ext ts
  | startTok (n : Name) (as : List Attr) : Gen .startTok [Tok.start n as]
  | stopTok (n : Name) : Gen .stopTok [Tok.stop n]
  | unknown (ts : List Tok) : Gen .unknown ts

/-- the syntactic check: only combinators that preserve nesting -/
def balancedSkel : Skel → Bool
  | .empty => true
  | .chars => true
  | .wrap i => balancedSkel i
  | .seq a b => balancedSkel a && balancedSkel b
  | .many s => balancedSkel s
  | .alt a b => balancedSkel a && balancedSkel b
  | .ext => true
  | .startTok => false
  | .stopTok => false
  | .unknown => false

end XmppModel.Payload
