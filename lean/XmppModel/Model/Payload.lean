import XmppModel.Prelude.Xml
/-!
# C19 — payload writers and readers: the generic part

* `Node`: element trees as a decoder sees them; `flatten` is the token stream of a tree,
  `parse` the stack machine that rebuilds trees from a token stream (what
  `encoding/xml`'s decoder + `DecodeElement` do structurally: nesting with matching names).
* `Skel`: the combinator skeleton of a `TokenReader` method (`xmlstream.Wrap`,
  `MultiReader`, `Token`, a slice filled by `append` in loops/conditions, calls to
  other writers).  `Gen s ts` says that `ts` is a token stream the skeleton can produce;
  `balancedSkel` is the syntactic check the regenerated skeletons must pass.

`encoding/xml` itself (printing, escaping, tokenising, reflection) is not modelled.
-/
namespace XmppModel.Payload
open XmppModel XmppModel.Xml

/-! ### element trees -/

inductive Node
  | elem (name : Name) (attrs : List Attr) (kids : List Node)
  | text (s : String)
  deriving Repr, Inhabited

mutual
/-- the token stream of a tree -/
def flatten : Node → List Tok
  | .elem n as ks => Tok.start n as :: (flattenL ks ++ [Tok.stop n])
  | .text s => [Tok.chars s]
/-- the token stream of a forest -/
def flattenL : List Node → List Tok
  | [] => []
  | k :: ks => flatten k ++ flattenL ks
end

/-- an open element of the parser: its name, attributes and the siblings read before it
(most recent first) -/
structure Frame where
  name : Name
  attrs : List Attr
  before : List Node

/-- Stack machine rebuilding a forest from a token stream.  `acc` holds the nodes of the
current level, most recent first.  End tags must match the open element (as
`encoding/xml` enforces); comments, processing instructions and directives are skipped. -/
def parseAux : List Frame → List Node → List Tok → Option (List Node)
  | [], acc, [] => some acc.reverse
  | _ :: _, _, [] => none
  | stk, acc, .start n as :: ts => parseAux (⟨n, as, acc⟩ :: stk) [] ts
  | [], _, .stop _ :: _ => none
  | f :: stk, acc, .stop m :: ts =>
    if f.name = m then parseAux stk (.elem f.name f.attrs acc.reverse :: f.before) ts else none
  | stk, acc, .chars s :: ts => parseAux stk (.text s :: acc) ts
  | stk, acc, .comment _ :: ts => parseAux stk acc ts
  | stk, acc, .procInst _ _ :: ts => parseAux stk acc ts
  | stk, acc, .directive _ :: ts => parseAux stk acc ts

/-- parse a complete token stream into a forest -/
def parse (ts : List Tok) : Option (List Node) := parseAux [] [] ts

/-! ### what decoders observe -/

/-- concatenated character data directly inside an element (what a `string` field or a
`,chardata` field receives) -/
def textOf : List Node → String
  | [] => ""
  | .text s :: ks => s ++ textOf ks
  | .elem .. :: ks => textOf ks

/-- child elements with the given local name (struct tags without a namespace and the
hand-written decoders match on the local name only) -/
def kidsNamed (loc : String) : List Node → List (List Attr × List Node)
  | [] => []
  | .elem n as ks :: rest => if n.loc = loc then (as, ks) :: kidsNamed loc rest else kidsNamed loc rest
  | .text _ :: rest => kidsNamed loc rest

/-- a text child, omitted when empty (what survives printing and re-tokenising) -/
def textKid (s : String) : List Node := if s = "" then [] else [.text s]

/-- `<loc>s</loc>` without attributes -/
def leaf (sp loc s : String) : Node := .elem ⟨sp, loc⟩ [] (textKid s)

/-- attribute with an empty namespace -/
def at' (loc v : String) : Attr := ⟨⟨"", loc⟩, v⟩

/-- last attribute with the given local name (struct-tag attribute fields: every matching
attribute is copied in order, so the last one wins) -/
def attrLast (attrs : List Attr) (loc : String) : Option String :=
  attrs.foldl (fun acc a => if a.name.loc = loc then some a.value else acc) none

/-! ### sibling order

The order of differently named children is a free choice of a writer (no decoder of the
library depends on it), the order of equally named children is not (values, fields,
options, items).  The correspondence therefore compares trees after a *stable* sort of
every child list by element name (text first). -/

def nodeKey : Node → String × String
  | .elem n _ _ => (n.space, n.loc)
  | .text _ => ("", "")

def keyLe (a b : Node) : Bool :=
  let ka := nodeKey a; let kb := nodeKey b
  if ka.1 = kb.1 then !(kb.2 < ka.2) else !(kb.1 < ka.1)

mutual
def canonNode : Node → Node
  | .elem n as ks => .elem n as ((canonList ks).mergeSort keyLe)
  | .text s => .text s
def canonList : List Node → List Node
  | [] => []
  | k :: ks => canonNode k :: canonList ks
end

/-! ### writer skeletons -/

inductive Skel
  | empty                 -- a nil reader
  | chars                 -- xmlstream.Token(xml.CharData(…))
  | wrap (inner : Skel)   -- xmlstream.Wrap(inner, start) / stanza.X.Wrap(inner)
  | seq (a b : Skel)      -- xmlstream.MultiReader(a, b)
  | many (s : Skel)       -- xmlstream.MultiReader(slice...) with every element produced by `s`
  | alt (a b : Skel)      -- one of two readers, chosen by a condition
  | ext                   -- a reader balanced by hypothesis (another writer, a caller's payload)
  | startTok              -- a lone start token
  | stopTok               -- a lone end token
  | unknown               -- anything the extractor does not understand
  deriving Repr, DecidableEq, Inhabited

/-- `Gen s ts`: the skeleton can produce the token stream `ts` -/
inductive Gen : Skel → List Tok → Prop
  | empty : Gen .empty []
  | chars (s : String) : Gen .chars [Tok.chars s]
  | wrap {i ts} (n : Name) (as : List Attr) : Gen i ts → Gen (.wrap i) (Tok.start n as :: ts ++ [Tok.stop n])
  | seq {a b ts us} : Gen a ts → Gen b us → Gen (.seq a b) (ts ++ us)
  | manyNil {s} : Gen (.many s) []
  | manyCons {s ts us} : Gen s ts → Gen (.many s) us → Gen (.many s) (ts ++ us)
  | altL {a b ts} : Gen a ts → Gen (.alt a b) ts
  | altR {a b ts} : Gen b ts → Gen (.alt a b) ts
  | ext {ts} : balanced ts = true → Gen .ext ts
  | startTok (n : Name) (as : List Attr) : Gen .startTok [Tok.start n as]
  | stopTok (n : Name) : Gen .stopTok [Tok.stop n]
  | unknown (ts : List Tok) : Gen .unknown ts

/-- the syntactic check: only combinators that preserve nesting -/
def balancedSkel : Skel → Bool
  | .empty => true
  | .chars => true
  | .wrap i => balancedSkel i
  | .seq a b => balancedSkel a && balancedSkel b
  | .many s => balancedSkel s
  | .alt a b => balancedSkel a && balancedSkel b
  | .ext => true
  | .startTok => false
  | .stopTok => false
  | .unknown => false

/-! ### matching a real token stream against a skeleton (the tie of the regenerated
skeletons to the writers' behaviour: validated on every generated case, not proved) -/

def skelSize : Skel → Nat
  | .wrap i => skelSize i + 1
  | .seq a b => skelSize a + skelSize b + 1
  | .many s => skelSize s + 1
  | .alt a b => skelSize a + skelSize b + 1
  | _ => 1

/-- remainders are suffixes of one stream: equal length means equal -/
def dedupLen (l : List (List Tok)) : List (List Tok) :=
  l.foldr (fun x acc => if acc.any (·.length == x.length) then acc else x :: acc) []

/-- the remainders after every balanced prefix (one pass: positions where the depth is back
at its start without having gone below it) -/
def balRests : Nat → List Tok → List (List Tok)
  | d, [] => if d = 0 then [[]] else []
  | d, t :: r =>
    (if d = 0 then [t :: r] else []) ++
      (match t with
       | .start .. => balRests (d + 1) r
       | .stop _ => if d = 0 then [] else balRests (d - 1) r
       | _ => balRests d r)

def suffixes : List Tok → List (List Tok)
  | [] => [[]]
  | t :: r => (t :: r) :: suffixes r

/-- closure of `step` from a frontier (remainders are suffixes: at most `length + 1` of them) -/
def manyLoop (step : List Tok → List (List Tok)) : Nat → List (List Tok) → List (List Tok) → List (List Tok)
  | 0, _, seen => seen
  | k + 1, frontier, seen =>
    let next := (dedupLen (frontier.flatMap step)).filter fun r => !seen.any (·.length == r.length)
    if next.isEmpty then seen else manyLoop step k next (seen ++ next)

/-- all remainders after a prefix of `ts` produced by `s` (the fuel bounds the nesting) -/
def matchS : Nat → Skel → List Tok → List (List Tok)
  | 0, _, _ => []
  | _ + 1, .empty, ts => [ts]
  | _ + 1, .chars, ts => match ts with | .chars _ :: r => [r] | _ => []
  | f + 1, .wrap i, ts =>
    match ts with
    | .start n _ :: r =>
      dedupLen ((matchS f i r).filterMap fun r' =>
        match r' with
        | .stop m :: r'' => if m = n then some r'' else none
        | _ => none)
    | _ => []
  | f + 1, .seq a b, ts => dedupLen ((matchS f a ts).flatMap (matchS f b))
  | f + 1, .many s, ts => manyLoop (matchS f s) (ts.length + 1) [ts] [ts]
  | f + 1, .alt a b, ts => dedupLen (matchS f a ts ++ matchS f b ts)
  | _ + 1, .ext, ts => balRests 0 ts
  | _ + 1, .startTok, ts => match ts with | .start .. :: r => [r] | _ => []
  | _ + 1, .stopTok, ts => match ts with | .stop _ :: r => [r] | _ => []
  | _ + 1, .unknown, ts => suffixes ts

/-- the stream is one the skeleton can produce -/
def accepts (s : Skel) (ts : List Tok) : Bool :=
  (matchS (skelSize s + 2) s ts).any (·.isEmpty)

/-- prefix code of a skeleton: e c x S E u leaves, w m one argument, s a two arguments -/
def parseSkel : Nat → List Char → Option (Skel × List Char)
  | 0, _ => none
  | _ + 1, [] => none
  | f + 1, c :: r =>
    if c = 'e' then some (.empty, r) else if c = 'c' then some (.chars, r)
    else if c = 'x' then some (.ext, r) else if c = 'S' then some (.startTok, r)
    else if c = 'E' then some (.stopTok, r) else if c = 'u' then some (.unknown, r)
    else if c = 'w' then (parseSkel f r).map fun p => (.wrap p.1, p.2)
    else if c = 'm' then (parseSkel f r).map fun p => (.many p.1, p.2)
    else if c = 's' then (parseSkel f r).bind fun p => (parseSkel f p.2).map fun q => (.seq p.1 q.1, q.2)
    else if c = 'a' then (parseSkel f r).bind fun p => (parseSkel f p.2).map fun q => (.alt p.1 q.1, q.2)
    else none

def decSkel (s : String) : Option Skel :=
  match parseSkel (s.length + 1) s.toList with
  | some (k, []) => some k
  | _ => none

end XmppModel.Payload
