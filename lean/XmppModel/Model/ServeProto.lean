import XmppModel.Model.Serve
/-!
Line-protocol encoding shared by the C07 and C08 drivers (see harness/c08/proto.go):

    serve <ns> <localBare> <jidmap> <toks> <progs>   ->   <invocations> <written> <result>

* `ns`: `c` (jabber:client) or `s` (jabber:server); `localBare`: hex;
* `jidmap`: `,`-joined `hexvalue=hexcanon` (or `hexvalue=X` when the value does not parse);
* `toks`: token list (Prelude/Xml.lean);
* `progs`: `/`-joined programs, each `ret,op,op,…` with `ret` ∈ ok|fail|eof|readerr|stanzaerr|streamerr|wrapeof|wrapueof|wrapstanza|wrapstream|joineof, an optional `c` right after it = the handler closes the output first and `op` = `r` or
  `w<toks>` (`w-` writes nothing);
* invocations: `/`-joined `start,obs,obs…` with obs = `t<tok>` | `e` | `z`;
* written: `/`-joined element summaries `loc,type,id,to,su,nstart` (fields hex);
* result: `clean` or the error class.
-/
namespace XmppModel.Serve
open XmppModel XmppModel.Xml

def decOp (s : String) : Option Op :=
  if s == "r" then some .read
  else if s.startsWith "w" then (decToks (s.drop 1).toString).map .write
  -- written through Encode / EncodeElement (the digit names the kind of value): same tokens
  else if s.startsWith "v" then (decToks (s.drop 2).toString).map .write
  else none

def decRet (s : String) : Option Ret :=
  if s == "ok" then some .ok else if s == "fail" then some .fail else if s == "eof" then some .eof
  else if s == "readerr" then some .readErr
  else if s == "stanzaerr" then some .stanzaErr
  else if s == "streamerr" then some .streamErr
  else if s == "wrapeof" then some .wrapEof else if s == "wrapueof" then some .wrapUeof
  else if s == "wrapstanza" then some .wrapStanza else if s == "wrapstream" then some .wrapStream
  else if s == "joineof" then some .joinEof else none

/-- digits of a deadline sequence (`21` = a call with a time in the past, then one in the future) -/
def decDls (s : String) : List Nat := s.toList.filterMap fun c => if c.isDigit then some (c.toNat - '0'.toNat) else none

/-- flags right after the return value: `c` = closes the output first, `df` / `dp` = sets a
close deadline in the future / in the past first, `ds<digits>` = several `SetCloseDeadline`
calls in that order (1 future, 2 past, 3 near future and wait) -/
def decFlags : List String → Bool × List Nat × List String
  | "c" :: r => let x := decFlags r; (true, x.2.1, x.2.2)
  | "df" :: r => let x := decFlags r; (x.1, 1 :: x.2.1, x.2.2)
  | "dp" :: r => let x := decFlags r; (x.1, 2 :: x.2.1, x.2.2)
  | f :: r =>
    if f.startsWith "ds" then let x := decFlags r; (x.1, decDls f ++ x.2.1, x.2.2)
    else (false, [], f :: r)
  | [] => (false, [], [])

/-- `m<k>` after the other flags: the handler edits its start element in place (edit number k) -/
def decMut : List String → Nat × List String
  | f :: r =>
    if f.length == 2 && f.startsWith "m" then
      (match (f.drop 1).toString.toNat? with
       | some k => (k, r)
       | none => (0, f :: r))
    else (0, f :: r)
  | [] => (0, [])

def decProg (s : String) : Option Prog :=
  match s.splitOn "," with
  | r :: rest => do
    let r ← decRet r
    let fl := decFlags rest
    let mu := decMut fl.2.2
    let ops ← mapM? decOp mu.2
    pure { ops := ops, ret := r, close := fl.1, dls := fl.2.1, edit := mu.1 }
  | [] => none

def decProgs (s : String) : Option (List Prog) :=
  if s == "-" then some [] else mapM? decProg (s.splitOn "/")

def decJidPair (s : String) : Option (String × Option String) :=
  match s.splitOn "=" with
  | [a, b] => do
    let a ← unhexF a
    if b == "X" then pure (a, none) else do
      let b ← unhexF b
      pure (a, some b)
  | _ => none

def decJidMap (s : String) : Option (List (String × Option String)) :=
  if s == "-" then some [] else mapM? decJidPair (s.splitOn ",")

def jidOracle (m : List (String × Option String)) (v : String) : Option String :=
  match m.find? (·.1 == v) with
  | some (_, c) => c
  | none => none

def decNs (s : String) : Option String :=
  if s == "c" || s == "cw" then some nsClient else if s == "s" || s == "sw" then some nsServer else none

/-- `cw` / `sw`: the session uses the WebSocket subprotocol -/
def decWs (s : String) : Bool := s == "cw" || s == "sw"

def encObs : Obs → String
  | .tok t => "t" ++ encTok t
  | .err => "e"
  | .eof => "z"

def encInv (i : Inv) : String := ",".intercalate (encTok i.start :: i.view.map encObs)

def encInvs (l : List Inv) : String := if l.isEmpty then "-" else "/".intercalate (l.map encInv)

def encWritten (ts : List Tok) : String :=
  let l := writtenSummary ts
  if l.isEmpty then "-" else "/".intercalate l

def encStop : Stop → String
  | .clean => "clean"
  | .error e => e.name

/-- `id=space=loc` (hex): a request that is waiting; a fourth field `f` = its transmission
failed, `g` = its caller gave up waiting before the input was served -/
def decPend (s : String) : Option Req :=
  match s.splitOn "=" with
  | [i, sp, lo] => do
    let i ← unhexF i; let sp ← unhexF sp; let lo ← unhexF lo
    pure ⟨i, ⟨sp, lo⟩, .waiting⟩
  | [i, sp, lo, f] => do
    let i ← unhexF i; let sp ← unhexF sp; let lo ← unhexF lo
    if f == "f" then pure ⟨i, ⟨sp, lo⟩, .sendFailed⟩
    else if f == "g" then pure ⟨i, ⟨sp, lo⟩, .gaveUp⟩ else none
  | _ => none

def decPends (s : String) : Option (List Pend) :=
  if s == "-" then some [] else (mapM? decPend (s.splitOn ",")).map tableOf

/-- `servep <ns> <localBare> <jidmap> <pending> <toks> <progs>`; pending = `,`-joined `id=space=loc` (hex) -/
def handleServeP (args : List String) : Option OutP :=
  match args with
  | [ns, lb, jm, pd, toks, progs] => do
    let ws := decWs ns
    let ns ← decNs ns
    let lb ← unhexF (if lb == "-" then "" else lb)
    let jm ← decJidMap jm
    let pd ← decPends pd
    let toks ← (decToks toks).map (wsInput ws)
    let progs ← decProgs progs
    pure (serveP { ns := ns, localBare := lb, jidCanon := jidOracle jm } pd toks progs)
  | _ => none

/-- `servex <closed> <ns> <localBare> <jidmap> <toks> <progs>`: the output is already closed when
Serve starts (`closed` = 1), was left inside an element by an abandoned Send (2), or a program closes it (`ret,c,op…`) -/
def handleServeX (args : List String) : Option Out :=
  match args with
  | [cl, ns, lb, jm, toks, progs] => do
    -- `0` / `1`, optionally followed by `d<digits>`: SetCloseDeadline calls before Serve
    let pre := decDls (cl.drop 1).toString
    let c1 := (cl.take 1).toString
    let st ← (if c1 == "0" then some OutSt.opn else if c1 == "1" then some OutSt.closed
              else if c1 == "2" then some OutSt.broken else none)
    let ws := decWs ns
    let ns ← decNs ns
    let lb ← unhexF (if lb == "-" then "" else lb)
    let jm ← decJidMap jm
    let toks ← (decToks toks).map (wsInput ws)
    let progs ← decProgs progs
    pure (serveCS { ns := ns, localBare := lb, jidCanon := jidOracle jm } st pre toks progs)
  | _ => none

/-- `servew <left> <ns> <localBare> <jidmap> <toks> <progs>`: the connection accepts `left` more writes -/
def handleServeW (args : List String) : Option Out :=
  match args with
  | [left, ns, lb, jm, toks, progs] => do
    let left ← left.toNat?
    let ws := decWs ns
    let ns ← decNs ns
    let lb ← unhexF (if lb == "-" then "" else lb)
    let jm ← decJidMap jm
    let toks ← (decToks toks).map (wsInput ws)
    let progs ← decProgs progs
    pure (serveW { ns := ns, localBare := lb, jidCanon := jidOracle jm } left toks progs)
  | _ => none

/-- `servewm <mode> <left> <ns> <localBare> <jidmap> <toks> <progs>`: write faults behind the
multiplexer (`r` = handlers registered, `u` = nothing registered) -/
def handleServeWM (args : List String) : Option Out :=
  match args with
  | [mode, left, ns, lb, jm, toks, progs] => do
    let left ← left.toNat?
    let ws := decWs ns
    let ns ← decNs ns
    let lb ← unhexF (if lb == "-" then "" else lb)
    let jm ← decJidMap jm
    let toks ← (decToks toks).map (wsInput ws)
    let progs ← decProgs progs
    if mode == "r" || mode == "u" then
      pure (serveWM (mode == "r") { ns := ns, localBare := lb, jidCanon := jidOracle jm } left toks progs)
    else none
  | _ => none

def handleServe (args : List String) : Option Out :=
  match args with
  | [ns, lb, jm, toks, progs] => do
    let ws := decWs ns
    let ns ← decNs ns
    let lb ← unhexF (if lb == "-" then "" else lb)
    let jm ← decJidMap jm
    let toks ← (decToks toks).map (wsInput ws)
    let progs ← decProgs progs
    pure (serve { ns := ns, localBare := lb, jidCanon := jidOracle jm } toks progs)
  | _ => none

end XmppModel.Serve
