import XmppModel.Model.Jid
/-!
# Heap model of the packed JID representation — property C11, clause "values are immutable"

`Model/Jid.lean` treats a JID as a value (Lean is pure, so no operation can change another
value there).  The Go type is `struct{locallen, domainlen int; data []byte}`: a *slice*, i.e. a
window (offset, length, capacity) into a backing array that several JIDs may share — `Bare()`,
`Domain()`, `Copy()` and plain assignment all return windows into the receiver's array, `Bare()`
one with spare capacity that covers the receiver's resourcepart.  Go's `append` writes *in
place* when the capacity suffices.  This file models exactly that: a heap of arrays, slices,
`append` with its in-place / reallocate cases, and the operations of the package on top of it.
`WithResource` is modelled step by step (bare window, `make`+`copy`, `append`); the flag
`copyInWithResource` says whether the `make`+`copy` is there (it is in the code: regenerated
fact `Generated.C11.writesOnFresh`).  `New`, `WithLocal` and `WithDomain` build their result in
an array they `make` themselves (same fact), modelled as one allocation.

`Props/C11.lean` proves: with the flag set no operation sequence ever changes what an
existing value reports (`C11_ops_do_not_alias`), each new value reports what the pure function
of `Model/Jid.lean` returns (`C11_heap_refines_*`), and without the copy there is a sequence
that corrupts an earlier value (`C11_alias_without_copy`).
-/
namespace XmppModel.JidHeap
open XmppModel XmppModel.Jid

structure Slice where
  arr : Nat    -- which backing array
  off : Nat    -- first element of the window
  len : Nat
  cap : Nat    -- capacity counted from `off`
  deriving DecidableEq, Repr

structure HJid where
  s : Slice
  ll : Nat
  dl : Nat
  deriving DecidableEq, Repr

abbrev Heap := List Bytes

def Heap.arr (h : Heap) (a : Nat) : Bytes :=
  match h[a]? with
  | some b => b
  | none => []

def read (h : Heap) (s : Slice) : Bytes := ((h.arr s.arr).drop s.off).take s.len

/-- what a JID value reports (everything the accessors and `String` read) -/
def view (h : Heap) (j : HJid) : Jid := ⟨read h j.s, j.ll, j.dl⟩

/-- `make([]byte, len(init), len(init)+spare)` followed by `copy(·, init)`: a new array -/
def alloc (h : Heap) (init : Bytes) (spare : Nat) : Heap × Slice :=
  (h ++ [init ++ List.replicate spare 0], ⟨h.length, 0, init.length, init.length + spare⟩)

/-- Go's `append(s, xs...)`: in place when the capacity suffices (this **writes into the backing
array beyond `len`**, visible through every other window onto it), otherwise a new array -/
def appendS (h : Heap) (s : Slice) (xs : Bytes) : Heap × Slice :=
  if s.len + xs.length ≤ s.cap then
    let a := h.arr s.arr
    (h.set s.arr (a.take (s.off + s.len) ++ xs ++ a.drop (s.off + s.len + xs.length)),
      { s with len := s.len + xs.length })
  else
    alloc h (read h s ++ xs) 0

/-- the window `Bare()` returns: same array, same offset, shorter length, **same capacity** -/
def bareS (j : HJid) : Slice := { j.s with len := j.ll + j.dl }

inductive Op
  /-- `New` / `Parse` / `NewUnsafe` with the (normalised) parts: built in a fresh array -/
  | newJ (l d r : Bytes) (spare : Nat)
  | bare (i : Nat)
  | domain (i : Nat)
  /-- `Copy()`, assignment, passing by value, `UnmarshalXML*` storing a parsed value -/
  | copy (i : Nat)
  /-- `WithLocal` with the normalised localpart -/
  | withLocal (i : Nat) (l : Bytes) (spare : Nat)
  | withDomain (i : Nat) (d : Bytes) (spare : Nat)
  /-- `WithResource` with the normalised resourcepart; `spare` = `len(resourcepart)` of the
  un-normalised argument (the capacity the code asks for) -/
  | withResource (i : Nat) (r : Bytes) (spare : Nat)
  deriving Repr

structure Flags where
  /-- `WithResource` copies the bare window into a fresh array before appending -/
  copyInWithResource : Bool

/-- the code as it is (tied by `C11_gen_writes_on_fresh`) -/
def codeFlags : Flags := ⟨true⟩

structure St where
  heap : Heap
  vals : List HJid

/-- one operation: the new heap and the new value; `none` for a dangling index -/
def stepVal (fl : Flags) (st : St) : Op → Option (Heap × HJid)
  | .newJ l d r spare =>
    let (h, s) := alloc st.heap (l ++ d ++ r) spare
    some (h, ⟨s, l.length, d.length⟩)
  | .bare i => (st.vals[i]?).map fun j => (st.heap, ⟨bareS j, j.ll, j.dl⟩)
  | .domain i => (st.vals[i]?).map fun j =>
      (st.heap, ⟨⟨j.s.arr, j.s.off + j.ll, j.dl, j.s.cap - j.ll⟩, 0, j.dl⟩)
  | .copy i => (st.vals[i]?).map fun j => (st.heap, j)
  | .withLocal i l spare => (st.vals[i]?).map fun j =>
      let (h, s) := alloc st.heap (l ++ (read st.heap j.s).drop j.ll) spare
      (h, ⟨s, l.length, j.dl⟩)
  | .withDomain i d spare => (st.vals[i]?).map fun j =>
      let data := read st.heap j.s
      let (h, s) := alloc st.heap (data.take j.ll ++ d ++ data.drop (j.ll + j.dl)) spare
      (h, ⟨s, j.ll, d.length⟩)
  | .withResource i r spare => (st.vals[i]?).map fun j =>
      if r = [] then (st.heap, ⟨bareS j, j.ll, j.dl⟩)     -- `new := j.Bare()` is returned as it is
      else if fl.copyInWithResource then
        let (h₁, s₁) := alloc st.heap (read st.heap (bareS j)) spare
        let (h₂, s₂) := appendS h₁ s₁ r
        (h₂, ⟨s₂, j.ll, j.dl⟩)
      else
        let (h₂, s₂) := appendS st.heap (bareS j) r
        (h₂, ⟨s₂, j.ll, j.dl⟩)

def step (fl : Flags) (st : St) (op : Op) : Option St :=
  (stepVal fl st op).map fun (h, j) => ⟨h, st.vals ++ [j]⟩

def run (fl : Flags) : St → List Op → Option St
  | st, [] => some st
  | st, op :: ops => match step fl st op with
    | some st' => run fl st' ops
    | none => none

/-- every live value points into an allocated array -/
def St.WF (st : St) : Prop := ∀ j ∈ st.vals, j.s.arr < st.heap.length

end XmppModel.JidHeap
