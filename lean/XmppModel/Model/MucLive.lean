import XmppModel.Model.Muc
/-!
# Two LIVE `Join` calls on one `muc.Channel` (C18, round G)

`Model/Muc.lean` has one `Join` call per channel that has queued its hand-off request (plus calls
that give up before they queue it).  This module models the hand-off slot itself — `Channel.join`, a
buffered Go channel of capacity one — for ONE channel and TWO call records, as the code is:

* `JoinPresence` registers the channel under the requested address (`fresh`: this call made the
  registration), empties `depart`, then sends its request into the slot: if the slot is taken the
  call is `blocked` until a receive frees it — Go moves the blocked sender's value into the buffer
  in the same step as the receive;
* the presence handler *receives* the request of the slot to look at its key; on a match it hands the
  presence over (call done, membership, address); on a mismatch it puts the request back with a
  non-blocking send — which FAILS if a blocked call's request has moved into the slot: the request is
  dropped, the call is an `orphan` (it can only end through its context or an error reply);
* a call that fails (`abandonJoin`) receives whatever is in the slot — its own request or, if it is
  an orphan, the other call's — and removes the registration under the address it asked for unless
  the channel is joined under it, whether or not another call relies on that registration.

The two defects (known findings, replays `C18 liveoverlap mismatch|samekey`) are theorems here:
`C18_live_overlap_request_lost`, `C18_live_overlap_registration_removed` (Props/C18.lean); the
registration invariant (`reg`: joined ⇒ registered under the address held) is preserved by every step
(`C18_live_reg_step_partial`) and holds in every reachable state (`C18_live_registered_while_joined`,
invariant `LInv` of `Lemmas/MucLive.lean`).
-/
namespace XmppModel.MucLive
open XmppModel.Muc (JErr JOut)

inductive CPc
  | idle
  | blocked            -- registered, waiting for the hand-off slot
  | queued             -- its request is in the slot, presence sent
  | orphan             -- presence sent, but its request was dropped from the slot
  | done (o : JOut)
  deriving DecidableEq, Repr

structure Call where
  pc : CPc
  req : Nat
  fresh : Bool          -- this call made the registration under `req`
  deriving DecidableEq, Repr

structure LSt where
  managed : Nat → Bool  -- the channel is registered under the address
  cur : Nat
  joined : Bool
  slot : Option Bool    -- whose request is in the hand-off slot (`false` / `true`: the two calls)
  call : Bool → Call
  upres : Nat

def setCall (f : Bool → Call) (i : Bool) (v : Call) : Bool → Call := fun j => if j = i then v else f j
def setM (f : Nat → Bool) (a : Nat) (v : Bool) : Nat → Bool := fun x => if x = a then v else f x

def init (addr0 : Nat) : LSt :=
  { managed := fun _ => false, cur := addr0, joined := false, slot := none,
    call := fun _ => ⟨.idle, addr0, false⟩, upres := 0 }

inductive LAct
  | start (i : Bool) (a : Nat)     -- call i: `Join` asking for address a
  | fail (i : Bool) (e : JErr)     -- call i ends with the error reply / its context (after its select, or while blocked)
  | avail (a : Nat) | unavail (a : Nat)
  deriving DecidableEq, Repr

/-- the receive that frees the slot lets the blocked call's request in (Go: the waiting sender's value
is moved into the buffer by the receiver) -/
def refill (s : LSt) : LSt :=
  if (s.call false).pc = .blocked then
    { s with slot := some false, call := setCall s.call false { s.call false with pc := .queued } }
  else if (s.call true).pc = .blocked then
    { s with slot := some true, call := setCall s.call true { s.call true with pc := .queued } }
  else { s with slot := none }

def isActive : CPc → Bool
  | .blocked | .queued | .orphan => true
  | _ => false

def step (s : LSt) : LAct → Option LSt
  | .start i a =>
    if isActive (s.call i).pc then none else
    let c : Call := ⟨if s.slot.isNone then .queued else .blocked, a, !s.managed a⟩
    some { s with managed := setM s.managed a true, call := setCall s.call i c,
                  slot := if s.slot.isNone then some i else s.slot }
  | .fail i e => match (s.call i).pc with
    | .blocked =>
      -- the context ends while the call waits for the slot: the registration is taken back iff this call made it
      some { s with call := setCall s.call i { s.call i with pc := .done (.err e) },
                    managed := if (s.call i).fresh then setM s.managed (s.call i).req false else s.managed }
    | .queued | .orphan =>
      -- abandonJoin: receive whatever is in the slot, then remove the registration unless joined under it
      let victim := s.slot
      let s1 := refill { s with slot := none }
      let calls := match victim with
        | some j => if j = i then s1.call else setCall s1.call j { s1.call j with pc := .orphan }
        | none => s1.call
      let r := (s.call i).req
      some { s1 with call := setCall calls i { s.call i with pc := .done (.err e) },
                     managed := if s.managed r ∧ ¬ (s.joined ∧ s.cur = r) then setM s.managed r false else s.managed }
    | _ => none
  | .avail a =>
    if ¬ s.managed a then some s else
    match s.slot with
    | none => some { s with upres := s.upres + 1 }
    | some i =>
      if (s.call i).req = a then
        -- hand-off: the call returns nil, the channel holds `a`, the old registration is gone
        let s1 := refill { s with slot := none }
        some { s1 with joined := true, cur := a,
                       managed := if s.cur ≠ a then setM s.managed s.cur false else s.managed,
                       call := setCall s1.call i { s.call i with pc := .done .ok } }
      else
        -- key mismatch: put the request back — unless a blocked call's request has taken the slot
        let s1 := refill { s with slot := none }
        if s1.slot.isSome then
          some { s1 with call := setCall s1.call i { s.call i with pc := .orphan }, upres := s.upres + 1 }
        else some { s with upres := s.upres + 1 }
  | .unavail a =>
    some { s with managed := setM s.managed a false, joined := if s.cur = a then false else s.joined }

def run : LSt → List LAct → Option LSt
  | s, [] => some s
  | s, a :: as => match step s a with
    | some s' => run s' as
    | none => none

inductive Reach (addr0 : Nat) : LSt → Prop
  | init : Reach addr0 (init addr0)
  | step {s s' a} : Reach addr0 s → step s a = some s' → Reach addr0 s'

/-! ### Two waiting `Leave` calls

`LeavePresence` waits for its own error reply, its context, or a token in `Channel.depart` (buffered,
capacity one) which the handler fills — without blocking — when the occupant's unavailable presence
is processed.  Any number of `Leave` calls may wait; one presence leaves one token. -/

structure LvSt where
  waiting : Nat      -- `Leave` calls in their select
  token : Bool       -- a token in `depart`
  joined : Bool
  returned : Nat     -- `Leave` calls that returned nil
  presences : Nat    -- unavailable presences of the occupant processed
  deriving DecidableEq, Repr

inductive LvAct | leaveStart | unavail | leaveReturn
  deriving DecidableEq, Repr

def lvInit : LvSt := ⟨0, false, true, 0, 0⟩

def lvStep (s : LvSt) : LvAct → Option LvSt
  | .leaveStart => some { s with waiting := s.waiting + 1 }
  | .unavail => some { s with token := true, joined := false, presences := s.presences + 1 }
  | .leaveReturn =>
    if s.token ∧ s.waiting > 0 then
      some { s with token := false, waiting := s.waiting - 1, returned := s.returned + 1 }
    else none

def lvRun : LvSt → List LvAct → Option LvSt
  | s, [] => some s
  | s, a :: as => match lvStep s a with
    | some s' => lvRun s' as
    | none => none

inductive LvReach : LvSt → Prop
  | init : LvReach lvInit
  | step {s s' a} : LvReach s → lvStep s a = some s' → LvReach s'

end XmppModel.MucLive
