import XmppModel.Model.Styling
/-!
# The `Decoder` API as a caller drives it — sessions (property C17, round C)

`decode` (Model/Styling.lean) is one decoder read to the end with `Next`.  A caller may do
more: keep several decoders alive at the same time and use them alternately, call `Next`
again after it has returned false, and call `SkipSpan` / `SkipBlock` (which are loops over
`Next`/`Token`/`Style`/`Quote`).  This module transcribes that:

* `Api` — what one `*Decoder` is for its caller: the events it has not handed out yet (a
  function of its own document and schedule only), `Style()`/`Quote()` as they stand, and
  whether `Next` has failed (`Err() != nil`);
* `skipLoop` — `(*Decoder).SkipSpan` / `SkipBlock` (the two differ in the directive masks);
* `runOps` — a session: a store of decoders and a sequence of operations `(decoder, op)`
  issued from one goroutine in any interleaving.

In the model decoders share nothing; that the Go package has no package level state a
decoder writes to is the regenerated fact `sharedState` (consumed in Props/C17.lean).
-/
namespace XmppModel.Styling

def SpanStartDirective : Style := SpanEmphStart ||| SpanStrongStart ||| SpanStrikeStart ||| SpanPreStart
def SpanEndDirective : Style := SpanEmphEnd ||| SpanStrongEnd ||| SpanStrikeEnd ||| SpanPreEnd
def BlockStartDirective : Style := BlockPreStart ||| BlockQuoteStart
def BlockEndDirective : Style := BlockPreEnd ||| BlockQuoteEnd
def StartDirective : Style := SpanStartDirective ||| BlockStartDirective
def EndDirective : Style := SpanEndDirective ||| BlockEndDirective

/-- the derived masks `SkipSpan`/`SkipBlock` test, in the order
`StartDirective, EndDirective, BlockStartDirective, BlockEndDirective` (compared with the
values of the real constants) -/
def directiveMasks : List Nat :=
  [StartDirective, EndDirective, BlockStartDirective, BlockEndDirective].map BitVec.toNat

/-- package level variables of package styling that code reachable from the decoder writes
to, calls methods on or lets escape: none (compared with the regenerated fact) -/
def sharedState : List String := []

inductive Op
  | create      -- `NewDecoder(r)`
  | next        -- `Next()`, and `Token()` when it returned true
  | skipSpan
  | skipBlock
  deriving DecidableEq, Repr

/-- one `*Decoder` as its caller sees it -/
structure Api where
  created : Bool := false
  /-- events not handed out yet -/
  rest : List Event
  /-- how the scanner run ends after them -/
  fin : End
  /-- `Style()` / `Quote()` now -/
  style : Style := 0
  quote : Nat := 0
  /-- `Next` has returned false (`Err()` is the end status) -/
  ended : Bool := false
  deriving DecidableEq, Repr

inductive Obs
  | created
  | tok (e : Event)
  /-- `Next` returned false: `Err()`, `Style()`, `Quote()` -/
  | nextEnd (err : End) (style : Style) (quote : Nat)
  /-- `SkipSpan`/`SkipBlock` returned `ret`: `Err()` (`none` = nil), `Style()`, `Quote()` -/
  | skip (block ret : Bool) (err : Option End) (style : Style) (quote : Nat)
  | invalid     -- operation on a decoder that does not exist (yet) / created twice
  | fuel
  deriving DecidableEq, Repr

/-- first `case` of the loops: the token starts something that is skipped recursively -/
def skipStarts (block : Bool) (st : Style) (q prev : Nat) : Bool :=
  let m := if block then BlockStartDirective else StartDirective
  (andNot (st &&& m) BlockQuoteStart != 0) ||
    ((st &&& BlockQuoteStart == BlockQuoteStart) && decide (q > prev))

/-- second `case`: the token ends the current level (`lastNL` is `d.lastNewline`) -/
def skipEnds (block : Bool) (st : Style) (lastNL : Bool) : Bool :=
  let m := if block then BlockEndDirective else EndDirective
  (st &&& m != 0) || (st == 0 && lastNL)

/-- `d.lastNewline` after the event: the scanned token ends with a newline (for the virtual
block quote end token the flag is that of the delayed token, but its style decides first) -/
def endsNL (e : Event) : Bool := e.data.getLast? == some nl

structure SkipRes where
  ret : Bool
  style : Style
  quote : Nat
  rest : List Event
  /-- `Next` returned false inside the loop -/
  hitEnd : Bool
  deriving DecidableEq, Repr

/-- `SkipSpan` (`block = false`) / `SkipBlock` (`block = true`): `st`, `prev` are `Style()`
and `Quote()` on entry.  At the end of the input `Err()` is `io.EOF`, so the result is false. -/
def skipLoop (block : Bool) : Nat → Style → Nat → List Event → Option SkipRes
  | 0, _, _, _ => none
  | _ + 1, st, q, [] => some ⟨false, st, q, [], true⟩
  | fuel + 1, _, prev, e :: rest =>
    if skipStarts block e.style e.quote prev then
      match skipLoop block fuel e.style e.quote rest with
      | none => none
      | some r => if r.ret then skipLoop block fuel r.style r.quote r.rest else some r
    else if skipEnds block e.style (endsNL e) then some ⟨true, e.style, e.quote, rest, false⟩
    else skipLoop block fuel e.style e.quote rest

def Api.skip (a : Api) (block : Bool) : Obs × Api :=
  match skipLoop block (a.rest.length + 1) a.style a.quote a.rest with
  | none => (.fuel, a)
  | some r =>
    let ended := a.ended || r.hitEnd
    (.skip block r.ret (if ended then some a.fin else none) r.style r.quote,
     { a with rest := r.rest, style := r.style, quote := r.quote, ended := ended })

def Api.step (a : Api) (op : Op) : Obs × Api :=
  match op with
  | .create => if a.created then (.invalid, a) else (.created, { a with created := true })
  | .next =>
    if !a.created then (.invalid, a) else
    match a.rest with
    | [] => (.nextEnd a.fin a.style a.quote, { a with ended := true })
    | e :: r => (.tok e, { a with rest := r, style := e.style, quote := e.quote })
  | .skipSpan => if !a.created then (.invalid, a) else a.skip false
  | .skipBlock => if !a.created then (.invalid, a) else a.skip true

/-- a decoder over a document delivered by a schedule; `none` = `Next` would dereference nil -/
def Api.ofDecode (r : Option (List Event) × End) : Option Api :=
  r.1.map fun evs => { rest := evs, fin := r.2 }

/-- a session: operations issued one after the other on a store of decoders -/
def runOps : List Api → List (Nat × Op) → List (Nat × Obs)
  | _, [] => []
  | st, (i, op) :: ops =>
    match st[i]? with
    | none => (i, .invalid) :: runOps st ops
    | some a =>
      let r := a.step op
      (i, r.1) :: runOps (st.set i r.2) ops

/-- one decoder on its own -/
def solo : Api → List Op → List Obs
  | _, [] => []
  | a, op :: ops =>
    let r := a.step op
    r.1 :: solo r.2 ops

end XmppModel.Styling
