/-!
# The waits of one in-band bytestream (C06)

Model of the calls of `ibb/conn.go` that wait for the serve loop — `Read` (for a data packet or
the end of the stream), `Write` / `Flush` (for the acknowledgement of a data packet on an
iq-carried stream), `Close` (for the write lock and then for the reply to the close request) —
and of the handlers the serve loop runs for that stream: `handlePayload` (data packet in an iq
or in a message) and the `close` branch of `HandleIQ` (`closeNoNotify`).

One operation of the environment at a time, run to quiescence.  What is kept of the code:

* the read side: buffer length, `readClosed`, the one-place signal channel `readReady` (`token`),
  the number of `Read` calls waiting on it; `settle` is the loop of `Read` (take the signal,
  look again, pass the signal on when the stream has ended);
* the write side: the `closed` flag, `writeLock` (held by a `Flush` for as long as it waits for the
  acknowledgement), the sticky error of the buffered writer, the local `Close` in its three
  waiting positions;
* the serve loop: it runs one handler at a time; a handler that waits for `writeLock` while the
  holder waits for a reply only the serve loop can deliver stops it for good (`serveBlocked`).

Two choices of the implementation are parameters (`Cfg`), so that the theorems can say which
choice the properties depend on and the negation witnesses can show what the other choice does:
`wakeOnlyAcked` (the wake-up of a waiting `Read` only on the path that acknowledges the packet)
and `handlerLocks` (the close handler's flush takes `writeLock`).  The code is `{}`: neither.
-/
namespace XmppModel.CorrIbb

structure Cfg where
  wakeOnlyAcked : Bool := false
  handlerLocks : Bool := false
  /-- size of the buffers the application passes to `Read` -/
  cap : Nat := 8
  deriving DecidableEq, Repr

inductive Op
  | read                                   -- the application calls `Read`
  | data (viaIq : Bool) (n : Nat) (inorder : Bool)   -- a data packet of the peer: carrier, payload length, expected seq?
  | peerClose                              -- the peer's close request
  | write                                  -- the application calls `Write` (a whole number of base64 groups) and `Flush`
  | ack (ok : Bool)                        -- the peer answers the pending data packet (result / error)
  | close                                  -- the application calls `Close`
  | closeReply (ok : Bool)                 -- the peer answers our close request (result / error)
  deriving DecidableEq, Repr

inductive Ev
  | readRet (n : Nat)        -- a `Read` call returns `n` bytes (`0`: `io.EOF`)
  | writeRet (ok : Bool)     -- the `Write`+`Flush` returns
  | closeRet (ok : Bool)     -- `Close` returns
  | ackData                  -- the serve loop acknowledges the packet
  | refuseData (notFound : Bool)   -- … answers it with an error (item-not-found / another condition)
  | closeResult              -- … answers the close request with a result
  | closeNotFound            -- … with item-not-found
  | sentData                 -- a data packet of ours leaves
  | sentClose                -- our close request leaves
  deriving DecidableEq, Repr

inductive KSt
  | idle | waitLock | waitReply | done
  deriving DecidableEq, Repr

structure St where
  acked : Bool := true          -- the carrier of our own packets (`stanzaWriter.acked`)
  buf : Nat := 0
  token : Bool := false         -- `readReady` holds a signal
  readers : Nat := 0            -- `Read` calls waiting in `<-c.readReady`
  readClosed : Bool := false
  closed : Bool := false        -- `Conn.closed`
  inTable : Bool := true        -- `Handler.streams[sid]`
  wpend : Bool := false         -- a `Flush` holds `writeLock` and waits for the acknowledgement
  werr : Bool := false          -- sticky error of `writeBuf`
  k : KSt := .idle
  serveBlocked : Bool := false
  -- ghost counters: calls started / returned
  rStart : Nat := 0
  rRet : Nat := 0
  wStart : Nat := 0
  wRet : Nat := 0
  kStart : Nat := 0
  kRet : Nat := 0
  deriving DecidableEq, Repr

/-- `wakeReader`: a non-blocking send on the one-place channel -/
def wake (s : St) : St := { s with token := true }

/-- the loop of `Read` for the calls that wait: whoever takes the signal looks at the stream
again; on a closed stream it passes the signal on and returns what is left (or `io.EOF`), on an
open one it returns data if there is some and waits again if there is none -/
def settle (c : Cfg) : Nat → St → St × List Ev
  | 0, s => (s, [])
  | f + 1, s =>
    if s.token && decide (s.readers > 0) then
      let n := min s.buf c.cap
      if s.readClosed then
        let r := settle c f { s with readers := s.readers - 1, buf := s.buf - n, rRet := s.rRet + 1 }
        (r.1, .readRet n :: r.2)
      else if s.buf > 0 then
        ({ s with token := false, readers := s.readers - 1, buf := s.buf - n, rRet := s.rRet + 1 }, [.readRet n])
      else ({ s with token := false }, [])
    else (s, [])

def settled (c : Cfg) (s : St) : St × List Ev := settle c s.readers s

/-- `closeRead` -/
def closeRead (c : Cfg) (s : St) : St × List Ev :=
  settled c (wake { s with inTable := false, readClosed := true })

/-- `Close` once it has the write lock: flush (nothing is buffered: every `Write` is followed by
`Flush`; a failed packet left its error behind), then the close request -/
def closeProceed (c : Cfg) (s : St) : St × List Ev :=
  if s.werr then
    let r := closeRead c { s with k := .done, kRet := s.kRet + 1 }
    (r.1, .closeRet false :: r.2)
  else ({ s with k := .waitReply }, [.sentClose])

def step (c : Cfg) (s : St) : Op → St × List Ev
  | .read =>
    let s := { s with rStart := s.rStart + 1 }
    if s.buf == 0 && !s.readClosed then
      settled c { s with readers := s.readers + 1 }
    else
      let n := min s.buf c.cap
      ({ s with buf := s.buf - n, rRet := s.rRet + 1 }, [.readRet n])
  | .data viaIq n inorder =>
    if s.serveBlocked then (s, [])
    else if !s.inTable || s.readClosed then (s, [.refuseData true])
    else if !inorder then (s, [.refuseData false])
    else
      let s := { s with buf := s.buf + n }
      let ev := if viaIq then [Ev.ackData] else []
      if c.wakeOnlyAcked && !viaIq then (s, ev)
      else
        let r := settled c (wake s)
        (r.1, ev ++ r.2)
  | .peerClose =>
    if s.serveBlocked then (s, [])
    else if !s.inTable then (s, [.closeNotFound])
    else if s.closed then (s, [.closeResult])       -- `closeNoNotify`: the flag is set already
    else
      let s := { s with closed := true }
      if c.handlerLocks && s.wpend then ({ s with serveBlocked := true }, [])
      else
        let r := closeRead c s
        (r.1, r.2 ++ [.closeResult])
  | .write =>
    let s := { s with wStart := s.wStart + 1 }
    if s.closed || s.wpend || s.werr then ({ s with wRet := s.wRet + 1 }, [.writeRet false])
    else if s.acked then ({ s with wpend := true }, [.sentData])
    else ({ s with wRet := s.wRet + 1 }, [.sentData, .writeRet true])
  | .ack ok =>
    if s.serveBlocked || !s.wpend then (s, [])
    else
      let s := { s with wpend := false, werr := !ok, wRet := s.wRet + 1 }
      if s.k == .waitLock then
        let r := closeProceed c s
        (r.1, .writeRet ok :: r.2)
      else (s, [.writeRet ok])
  | .close =>
    let s := { s with kStart := s.kStart + 1 }
    if s.closed then ({ s with kRet := s.kRet + 1 }, [.closeRet true])
    else
      let s := { s with closed := true }
      if s.wpend then ({ s with k := .waitLock }, [])
      else closeProceed c s
  | .closeReply _ =>
    if s.serveBlocked || s.k != .waitReply then (s, [])
    else
      let r := closeRead c { s with k := .done, kRet := s.kRet + 1 }
      (r.1, .closeRet true :: r.2)

def run (c : Cfg) : St → List Op → List (List Ev)
  | _, [] => []
  | s, o :: os => let r := step c s o; r.2 :: run c r.1 os

def final (c : Cfg) : St → List Op → St
  | s, [] => s
  | s, o :: os => final c (step c s o).1 os

/-- the operations the harness generates in state `s`: one `Write` at a time (a second one would
queue on the lock) and replies only while something waits for them -/
def effective (s : St) : Op → Bool
  | .read => s.readers < 2
  | .write => !s.wpend
  | .ack _ => s.wpend && !s.serveBlocked
  | .closeReply _ => s.k == .waitReply && !s.serveBlocked
  | _ => true

/-- the wind-down every history ends with: pending packet acknowledged, pending close answered,
the peer closes the stream -/
def epilogue : List Op := [.ack true, .closeReply true, .peerClose]

/-- nothing waits any more -/
def St.quiet (s : St) : Bool :=
  s.readers == 0 && !s.wpend && s.k != .waitLock && s.k != .waitReply && !s.serveBlocked

end XmppModel.CorrIbb
