import XmppModel.Model.Ibb
import XmppModel.Model.IbbSend
/-!
# The wrap of the two packet counters, as probed on the real code (C15, round E)

`harness facts` runs the real receiver up to 65535 accepted packets and then sends packets with the
seq attributes of `wrapAttrs`, and runs the real sender through 65538 data stanzas.  The model's
answers to the same experiment are computed here; `Props/C15.lean` proves the probed tables equal
to them.  (These probes replace the former source-shape facts about the increment statements.)
-/
namespace XmppModel.Ibb
open XmppModel

/-- `65535`, `65536`, `0`, `0`, `1` (the same list is `wrapAttrs` in `harness/c15/facts.go`) -/
def wrapAttrs : List Bytes :=
  [[54, 53, 53, 51, 53], [54, 53, 53, 51, 54], [48], [48], [49]]

/-- replies of the model to a list of packets (attribute texts, payload `QQ==`), one after the other -/
def wireReplies (cd : Codec) : RState → List Bytes → List (Bytes × String)
  | _, [] => []
  | s, a :: as =>
    let r := recvWire cd s ⟨true, a, [81, 81, 61, 61]⟩
    (a, showReply r.2) :: wireReplies cd r.1 as

/-- a receiver that has accepted 65535 packets expects number 65535 (`C15_deliver`) -/
def recvWrapModel : List (Bytes × String) := wireReplies std ⟨true, 65535, [], 0⟩ wrapAttrs

/-- numbers of the data stanzas 65534 … 65537 of a sender (`mkPackets`: the n-th stanza carries n mod 65536) -/
def sendWrapModel : List Nat := (mkPackets 65534 [[65], [65], [65], [65]]).map (·.seq)

end XmppModel.Ibb
