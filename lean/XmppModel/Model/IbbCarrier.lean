import XmppModel.Model.IbbBody
/-!
# The carrier stanza of a data packet (C15, round E)

With the message carrier a data packet travels as a child of a `<message/>` stanza.  Nothing says
that it is the ONLY child, or the first: other implementations and servers add processing hints
(XEP-0334), a `<thread/>`, a `<body/>` for clients that do not understand IBB, delay stamps, white
space between the children.  The packet a message carries is its top-level child
`<data xmlns='http://jabber.org/protocol/ibb'/>` WHEREVER it stands among the children
(`ibb/ibb.go`, `HandleMessage`: the whole message is unmarshalled into `dataMessage`, whose `Data`
field picks that child by its full name).  Elements with the same local name in another namespace
and IBB elements nested inside another child are not the packet.

(An `<iq/>` has exactly one child by RFC 6120 §8.2.3, so the dimension does not exist for the IQ
carrier.  A message with two top-level IBB data children is not modelled: `carried` is `none`.)
-/
namespace XmppModel.Ibb
open XmppModel

/-- a top-level child of a carrier `<message/>` -/
inductive Child
  | data (p : BodyPacket)   -- `<data xmlns='http://jabber.org/protocol/ibb' sid= seq=>…</data>`
  | other (code : Nat)      -- anything else: another element (whatever it contains) or white space
  deriving DecidableEq, Repr

def dataChildren : List Child → List BodyPacket
  | [] => []
  | .data p :: cs => p :: dataChildren cs
  | .other _ :: cs => dataChildren cs

/-- outcome of a carrier message at the IBB handler -/
inductive MsgOut
  | handled (s : RState) (r : Reply)   -- the message carries one packet: `handlePayload` ran on it
  | notIbb                             -- no IBB child: the handler is never called, nothing changes
  | unmodelled                         -- more than one IBB data child
  deriving DecidableEq, Repr

/-- the packet a message carries: its one top-level IBB data child, at any position -/
def carried (cs : List Child) : Option BodyPacket :=
  match dataChildren cs with
  | [p] => some p
  | _ => none

def recvMessage (cd : Codec) (s : RState) (cs : List Child) : MsgOut :=
  match dataChildren cs with
  | [] => .notIbb
  | [p] => let r := recvBody cd s p; .handled r.1 r.2
  | _ => .unmodelled

/-- NOT the code: a handler that decodes "the payload" of the message = its FIRST child element,
whatever that is (negation model, seeded C15-17).  A child that is not the packet has neither the
stream's sid nor a seq attribute. -/
def firstChildPacket : List Child → Option BodyPacket
  | [] => none
  | .data p :: _ => some p
  | .other _ :: _ => some ⟨false, [], []⟩

def recvMessageFirstChild (cd : Codec) (s : RState) (cs : List Child) : MsgOut :=
  match firstChildPacket cs with
  | none => .notIbb
  | some p => let r := recvBody cd s p; .handled r.1 r.2

/-- the message shapes on which the real handler is probed by `harness facts`: children before the
packet, children after it, the packet's seq attribute (`0` = expected, `1` = out of sequence).  The
same list, in the same order, is `carrierUniverse` in `harness/c15/facts.go`; the codes:
0 `<no-copy xmlns='urn:xmpp:hints'/>`, 1 `<thread>t1</thread>`, 2 `<body>QUJD</body>`, 3 white space,
4 `<data xmlns='urn:example:other' sid= seq='0'>WFhY</data>` (same local name, other namespace),
5 `<x xmlns='urn:example:wrap'><data xmlns='…/ibb' sid= seq='0'>WFhY</data></x>` (nested IBB element). -/
def carrierUniverse : List (List Nat × List Nat × Bytes) :=
  [ ([], [], [48]),
    ([0], [], [48]),
    ([], [0], [48]),
    ([1, 0], [], [48]),
    ([2], [], [48]),
    ([3], [3], [48]),
    ([4], [], [48]),
    ([], [4], [48]),
    ([5], [], [48]),
    ([], [5], [48]),
    ([0, 1, 2, 3], [3, 0], [48]),
    ([0], [], [49]),
    ([], [1], [49]),
    ([4], [5], [49]) ]

def carrierChildren (before after : List Nat) (p : BodyPacket) : List Child :=
  before.map .other ++ .data p :: after.map .other

/-- the model's answer to one probe: a fresh stream, a message of that shape whose packet has the
payload `QUJD`; the reply and what a reader then gets -/
def carrierModel (row : List Nat × List Nat × Bytes) : String × Bytes :=
  match recvMessage std ⟨true, 0, [], 0⟩ (carrierChildren row.1 row.2.1 ⟨true, row.2.2, [.text [81, 85, 74, 68]]⟩) with
  | .handled s r => (showReply r, s.buf)
  | .notIbb => ("none", [])
  | .unmodelled => ("unmodelled", [])

end XmppModel.Ibb
