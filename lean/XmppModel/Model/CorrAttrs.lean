/-!
# Which attributes of a start element are the stanza's id and type (C06)

Model of `getIDTyp` in `session.go`, the function through which the serve loop reads the
id / type of every incoming top-level element (and `SendIQ` / `SendMessage` / `SendPresence`
those of the outgoing start element).  The stanza attributes are *unqualified*: an attribute
with the local name `id` or `type` in some namespace (`x:id`), or a namespace declaration
(`xmlns:id`, which encoding/xml reports with the space `xmlns`), is unrelated.
-/
namespace XmppModel.CorrAttrs

/-- `attr.Name.Space`: empty, some namespace URI, or `xmlns` (a namespace declaration) -/
inductive Space | none | foreign | xmlns
  deriving DecidableEq, Repr, Inhabited

/-- `attr.Name.Local` -/
inductive Loc | id | type | other
  deriving DecidableEq, Repr, Inhabited

structure Attr where
  space : Space
  loc : Loc
  val : Nat
  deriving DecidableEq, Repr, Inhabited

/-- the loop of `getIDTyp`: qualified attributes are skipped, the loop ends once both were seen -/
def scan : List Attr → Option Nat → Option Nat → Option Nat × Option Nat
  | [], i, t => (i, t)
  | a :: as, i, t =>
    if a.space ≠ .none then scan as i t
    else
      let i' := if a.loc = .id then some a.val else i
      let t' := if a.loc = .type then some a.val else t
      if i'.isSome && t'.isSome then (i', t') else scan as i' t'

/-- value of the id attribute and of the type attribute (`none`: absent, the code's `""`) -/
def getIDTyp (attrs : List Attr) : Option Nat × Option Nat := scan attrs none none

/-- values of the type attribute: 0 `result`, 1 `error`, everything else is no response -/
def isResponse (t : Option Nat) : Bool := t == some 0 || t == some 1

end XmppModel.CorrAttrs
