import XmppModel.Prelude.Xml
import XmppModel.Model.Encoder
/-!
# Model of the hand-written stanza and error codecs — property C13

`stanza/iq.go`, `message.go`, `presence.go`: `StartElement`, `NewIQ|NewMessage|NewPresence`,
`Wrap`, `Result`, `Error`.  `stanza/error.go`: `Error.Wrap`/`TokenReader` and the decoding done
by `UnmarshalXML` (a reflection decode of a fixed shape, mirrored at token level).
`stream/error.go`: `Error.TokenReader` and the hand-written `UnmarshalXML` loop.

Addresses are strings: `jid.Parse` followed by `String()` is a parameter `parse : String →
Option String` (`none` = parse error).  The reflection marshaller is not modelled (its agreement
with the token path is checked on the implementation).
-/
namespace XmppModel.Stanza
open XmppModel.Xml

def nsXML : String := "http://www.w3.org/XML/1998/namespace"
def nsErr : String := "urn:ietf:params:xml:ns:xmpp-stanzas"
def nsStream : String := "http://etherx.jabber.org/streams"
def nsStreamErr : String := "urn:ietf:params:xml:ns:xmpp-streams"

inductive Kind | iq | message | presence
  deriving DecidableEq, Repr

def Kind.loc : Kind → String
  | .iq => "iq" | .message => "message" | .presence => "presence"

/-- `stanza.IQ` / `Message` / `Presence`: same fields; addresses as canonical strings, `""` for
the zero JID -/
structure Stz where
  name : Name
  id : String
  to : String
  from_ : String
  lang : String
  typ : String
  deriving DecidableEq, Repr

def attr0 (l v : String) : Attr := ⟨⟨"", l⟩, v⟩
def langAttr (v : String) : Attr := ⟨⟨nsXML, "lang"⟩, v⟩

/-- attribute list built by `StartElement()`: type (always for iq and message, only when
non-empty for presence), to, from, id, xml:lang — each only when set -/
def startAttrs (k : Kind) (x : Stz) : List Attr :=
  (if k = .presence ∧ x.typ = "" then [] else [attr0 "type" x.typ])
    ++ (if x.to = "" then [] else [attr0 "to" x.to])
    ++ (if x.from_ = "" then [] else [attr0 "from" x.from_])
    ++ (if x.id = "" then [] else [attr0 "id" x.id])
    ++ (if x.lang = "" then [] else [langAttr x.lang])

def startName (k : Kind) (x : Stz) : Name := ⟨x.name.space, k.loc⟩

def startElement (k : Kind) (x : Stz) : Tok := .start (startName k x) (startAttrs k x)

def messageTypes : List String := ["normal", "chat", "error", "groupchat", "headline"]

/-- `MessageType.UnmarshalXMLAttr`: anything undefined is a normal message -/
def msgType (v : String) : String := if v ∈ messageTypes then v else "normal"

/-- one iteration of the attribute loop of `NewIQ` / `NewMessage` / `NewPresence` -/
def newStep (parse : String → Option String) (k : Kind) (n : Name) (v : Stz) (a : Attr) : Option Stz :=
  if a.name.loc = "lang" ∧ a.name.space = nsXML then some { v with lang := a.value }
  else if a.name.space ≠ "" then some v   -- only unqualified attributes are the stanza's own (fix2-serve)
  else if a.name.loc = "id" then some { v with id := a.value }
  else if a.name.loc = "to" then
    if a.value = "" then some v else (parse a.value).map fun j => { v with to := j }
  else if a.name.loc = "from" then
    if a.value = "" then some v else (parse a.value).map fun j => { v with from_ := j }
  else if a.name.loc = "type" then some { v with typ := if k = .message then msgType a.value else a.value }
  else some v

def newLoop (parse : String → Option String) (k : Kind) (n : Name) : Stz → List Attr → Option Stz
  | v, [] => some v
  | v, a :: as => match newStep parse k n v a with
    | some v' => newLoop parse k n v' as
    | none => none

/-- `NewIQ` / `NewMessage` / `NewPresence` (`none` = the address parse error is returned) -/
def newStz (parse : String → Option String) (k : Kind) (n : Name) (as : List Attr) : Option Stz :=
  newLoop parse k n ⟨n, "", "", "", "", if k = .message then "normal" else ""⟩ as


/-! ### the struct-tag path (`xml.Marshal` / `xml.Unmarshal` of the stanza structs), start element only

What `encoding/xml` documents for these struct definitions:

* `XMLName xml.Name \`xml:"iq"\``: the tag names the element, so on marshalling the name (and
  namespace) in the `XMLName` *value* is not consulted — the element is `<iq>` in no namespace;
  on unmarshalling the local name must be `iq`, any namespace is accepted and stored.
* attribute fields in declaration order `id, to, from, xml:lang, type`; `omitempty` skips empty
  strings, but `jid.JID` is a struct (never "empty") whose `MarshalXMLAttr` prints `""` for the
  zero value; `IQType` and `MessageType` are printed through `MarshalText` (`""` ↦ `get`, an
  undefined message type ↦ `normal`).
* on unmarshalling an attribute field without a namespace in its tag matches an attribute of
  that local name in *any* namespace, later attributes overwrite earlier ones, `jid.JID` and
  `MessageType` go through their `UnmarshalXMLAttr`, a missing attribute leaves the zero value. -/

def iqTypes : List String := ["get", "set", "result", "error"]

def iqTypeText (t : String) : String := if t = "" then "get" else t

def marshalName (k : Kind) : Name := ⟨"", k.loc⟩

def marshalAttrs (k : Kind) (x : Stz) : List Attr :=
  (if k = .message ∧ x.id = "" then [] else [attr0 "id" x.id])
    ++ [attr0 "to" x.to, attr0 "from" x.from_]
    ++ (if x.lang = "" then [] else [langAttr x.lang])
    ++ (match k with
        | .iq => [attr0 "type" (iqTypeText x.typ)]
        | .message => if x.typ = "" then [] else [attr0 "type" (msgType x.typ)]
        | .presence => if x.typ = "" then [] else [attr0 "type" x.typ])

/-- one attribute of the reflection decode -/
def reflectStep (parse : String → Option String) (k : Kind) (v : Stz) (a : Attr) : Option Stz :=
  if a.name.loc = "lang" ∧ a.name.space = nsXML then some { v with lang := a.value }
  else if a.name.loc = "id" then some { v with id := a.value }
  else if a.name.loc = "to" then
    if a.value = "" then some v else (parse a.value).map fun j => { v with to := j }
  else if a.name.loc = "from" then
    if a.value = "" then some v else (parse a.value).map fun j => { v with from_ := j }
  else if a.name.loc = "type" then some { v with typ := if k = .message then msgType a.value else a.value }
  else some v

def reflectLoop (parse : String → Option String) (k : Kind) : Stz → List Attr → Option Stz
  | v, [] => some v
  | v, a :: as => match reflectStep parse k v a with
    | some v' => reflectLoop parse k v' as
    | none => none

/-- `xml.Unmarshal` of a start element into `stanza.IQ|Message|Presence` (`none` = error) -/
def reflectNew (parse : String → Option String) (k : Kind) (n : Name) (as : List Attr) : Option Stz :=
  if n.loc = k.loc then reflectLoop parse k ⟨n, "", "", "", "", ""⟩ as else none

/-- `Wrap` -/
def wrap (k : Kind) (x : Stz) (payload : List Tok) : List Tok :=
  startElement k x :: payload ++ [.stop (startName k x)]

def swap (x : Stz) (typ : String) : Stz := { x with typ := typ, to := x.from_, from_ := x.to }

/-- `IQ.Result` -/
def result (x : Stz) (payload : List Tok) : List Tok := wrap .iq (swap x "result") payload

/-! ### stanza errors -/

structure SErr where
  by_ : String
  typ : String
  cond : String
  /-- the `Text` map as an association list (keys are unique in a Go map) -/
  texts : List (String × String)
  deriving DecidableEq, Repr

def insertText (p : String × String) : List (String × String) → List (String × String)
  | [] => [p]
  | q :: qs => if p.1 < q.1 then p :: q :: qs else q :: insertText p qs

/-- `sort.Strings` on the languages -/
def sortTexts : List (String × String) → List (String × String)
  | [] => []
  | p :: ps => insertText p (sortTexts ps)

def textName : Name := ⟨nsErr, "text"⟩

def textElem (ns : String) (p : String × String) : List Tok :=
  [.start ⟨ns, "text"⟩ (if p.1 = "" then [] else [langAttr p.1]), .chars p.2, .stop ⟨ns, "text"⟩]

def condOf (e : SErr) : String := if e.cond = "" then "undefined-condition" else e.cond

def errAttrs (e : SErr) : List Attr :=
  (if e.typ = "" then [] else [attr0 "type" e.typ]) ++ (if e.by_ = "" then [] else [attr0 "by" e.by_])

/-- condition element, texts in sorted language order (empty ones skipped), payload -/
def errContent (e : SErr) (payload : List Tok) : List Tok :=
  [.start ⟨nsErr, condOf e⟩ [], .stop ⟨nsErr, condOf e⟩]
    ++ ((sortTexts e.texts).filter (·.2 ≠ "")).flatMap (textElem nsErr)
    ++ payload

/-- `Error.Wrap(payload)`; `TokenReader()` is `Wrap(nil)` -/
def errTokens (e : SErr) (payload : List Tok) : List Tok :=
  .start ⟨"", "error"⟩ (errAttrs e) :: errContent e payload ++ [.stop ⟨"", "error"⟩]

/-- `Message.Error` / `Presence.Error` / `IQ.Error` -/
def errorReply (k : Kind) (x : Stz) (e : SErr) : List Tok := wrap k (swap x "error") (errTokens e [])

/-! ### decoding the children of an element (what both `UnmarshalXML` methods look at) -/

structure Child where
  name : Name
  attrs : List Attr
  /-- character data directly inside the child -/
  text : String
  deriving DecidableEq, Repr

structure DSt where
  depth : Nat
  cur : Option Child
  out : List Child
  deriving DecidableEq, Repr

def dstep (s : DSt) : Tok → DSt
  | .start n as => if s.depth = 0 then ⟨1, some ⟨n, as, ""⟩, s.out⟩ else { s with depth := s.depth + 1 }
  | .stop _ =>
    if s.depth = 1 then ⟨0, none, match s.cur with | some c => s.out ++ [c] | none => s.out⟩
    else { s with depth := s.depth - 1 }
  | .chars t =>
    if s.depth = 1 then { s with cur := s.cur.map fun c => { c with text := c.text ++ t } } else s
  | _ => s

/-- the child elements of an element's content, in order -/
def childrenOf (content : List Tok) : List Child := (content.foldl dstep ⟨0, none, []⟩).out

def lastAttr (as : List Attr) (p : Attr → Bool) : Option String :=
  as.foldl (fun acc a => if p a then some a.value else acc) none

def langOf (c : Child) : String :=
  match lastAttr c.attrs (fun a => a.name.loc == "lang" && a.name.space == nsXML) with
  | some v => v
  | none => ""

/-- content of an element given as `start :: content ++ [stop]` -/
def contentOf : List Tok → Option (List Attr × List Tok)
  | .start _ as :: rest => some (as, rest.dropLast)
  | _ => none

/-- `(*stanza.Error).UnmarshalXML` -/
def decodeErr (parse : String → Option String) (ts : List Tok) : Option SErr :=
  match contentOf ts with
  | none => none
  | some (as, content) =>
    let cs := childrenOf content
    let typ := match lastAttr as (fun a => a.name.loc == "type") with | some v => v | none => ""
    let byOpt : Option String := match lastAttr as (fun a => a.name.loc == "by") with
      | some v => if v = "" then some "" else parse v
      | none => some ""
    let cond := match (cs.filter (fun c => decide (c.name ≠ textName))).find? (fun c => decide (c.name.space = nsErr)) with
      | some c => c.name.loc
      | none => ""
    let texts := ((cs.filter (fun c => decide (c.name = textName))).map fun c => (langOf c, c.text)).filter (·.2 ≠ "")
    byOpt.map fun b => ⟨b, typ, cond, texts⟩

/-! ### a trip through bytes and `UnmarshalError` (round C)

`wireGo`: what `encoding/xml`'s printer followed by its parser does to element names.  An element
whose name has no namespace is printed without `xmlns`, so it is read back in the namespace of the
nearest enclosing element (none at top level); an element with a namespace is printed with
`xmlns="…"` and keeps it; an end element gets the name of its start element.  Attributes do not
inherit.  `st` = namespaces of the open elements, innermost first. -/

def topNs : List String → String
  | [] => ""
  | s :: _ => s

def wireGo : List String → List Tok → List Tok
  | _, [] => []
  | st, .start n as :: ts =>
    .start ⟨if n.space = "" then topNs st else n.space, n.loc⟩ as ::
      wireGo ((if n.space = "" then topNs st else n.space) :: st) ts
  | st, .stop n :: ts => .stop ⟨topNs st, n.loc⟩ :: wireGo st.tail ts
  | st, t :: ts => t :: wireGo st ts

/-- printing and re-parsing a token list; the printer rejects what is not balanced -/
def wire (ts : List Tok) : Option (List Tok) := if balanced ts then some (wireGo [] ts) else none

/-- the loop of `stanza.UnmarshalError` over the children of a stanza (`xmlstream.Iter`): the
first child element accepted by `p` with its content; character data and other elements are
skipped, the end of the stanza ends the search.  The code accepts by local name alone:
`start.Name.Local == "error"`. -/
def findErrorP (p : Name → Bool) : Nat → List Tok → Option (Name × List Attr × List Tok)
  | _, [] => none
  | 0, .start n as :: ts => if p n then some (n, as, Encoder.inner 0 ts) else findErrorP p 1 ts
  | d + 1, .start _ _ :: ts => findErrorP p (d + 2) ts
  | 0, .stop _ :: _ => none
  | d + 1, .stop _ :: ts => findErrorP p d ts
  | d, _ :: ts => findErrorP p d ts

def isErrorName (n : Name) : Bool := n.loc == "error"

inductive UErr
  | missing            -- "stanza: expected error payload"
  | bad                -- the payload was found and does not decode
  | ok (e : SErr)
  deriving DecidableEq, Repr

def unmarshalErrorP (p : Name → Bool) (parse : String → Option String) (afterStart : List Tok) : UErr :=
  match findErrorP p 0 afterStart with
  | none => .missing
  | some (n, as, c) =>
    match decodeErr parse (.start n as :: c ++ [.stop n]) with
    | some e => .ok e
    | none => .bad

/-- `stanza.UnmarshalError` on the tokens that follow the start element of a stanza -/
def unmarshalError (parse : String → Option String) (afterStart : List Tok) : UErr :=
  unmarshalErrorP isErrorName parse afterStart

/-! ### stream errors -/

structure StErr where
  err : String
  texts : List (String × String)
  content : String
  deriving DecidableEq, Repr

/-- `stream.Error.TokenReader()`; `payload` is the application error, if any -/
def streamErrContent (e : StErr) (payload : List Tok) : List Tok :=
  [.start ⟨nsStreamErr, e.err⟩ [], .chars e.content, .stop ⟨nsStreamErr, e.err⟩]
    ++ payload ++ e.texts.flatMap (textElem nsStreamErr)

def streamErrTokens (e : StErr) (payload : List Tok) : List Tok :=
  .start ⟨nsStream, "error"⟩ [] :: streamErrContent e payload ++ [.stop ⟨nsStream, "error"⟩]

def stStep (s : StErr) (c : Child) : StErr :=
  if c.name.loc = "see-other-host" ∧ c.name.space = nsStreamErr then { s with err := c.name.loc, content := c.text }
  else if c.name.loc = "text" ∧ c.name.space = nsStreamErr then { s with texts := s.texts ++ [(langOf c, c.text)] }
  else if c.name.space = nsStreamErr then { s with err := c.name.loc }
  else s

/-- `(*stream.Error).UnmarshalXML` (children in other namespaces are skipped) -/
def decodeStreamErr (ts : List Tok) : Option StErr :=
  (contentOf ts).map fun p => (childrenOf p.2).foldl stStep ⟨"", [], ""⟩

/-! ### several token readers alive at the same time (round 5)

A codec function that returns a reader converts its value into a buffer that is read lazily.
`make v` creates reader number `n` (the count so far), `drain i` reads reader `i` to its end.
With a buffer of its own per conversion (`pooled = false`: what the code does, there is no
state outside the call) reader `i` reads buffer `i`; with one recycled scratch buffer
(`pooled = true`) every conversion resets and refills buffer `0` and every reader reads it. -/
namespace Readers

structure St where
  bufs : List (List Tok)
  n : Nat
  deriving DecidableEq, Repr

def init : St := ⟨[], 0⟩

def bufOf (pooled : Bool) (i : Nat) : Nat := if pooled then 0 else i

def make (pooled : Bool) (s : St) (v : List Tok) : St :=
  if pooled then ⟨[v], s.n + 1⟩ else ⟨s.bufs ++ [v], s.n + 1⟩

def makeAll (pooled : Bool) : St → List (List Tok) → St
  | s, [] => s
  | s, v :: vs => makeAll pooled (make pooled s v) vs

/-- read reader `i` to the end: what is left in its buffer; the buffer is empty afterwards -/
def drain (pooled : Bool) (s : St) (i : Nat) : St × List Tok :=
  (⟨s.bufs.set (bufOf pooled i) [], s.n⟩, s.bufs.getD (bufOf pooled i) [])

def drainAll (pooled : Bool) : St → List Nat → List (List Tok)
  | _, [] => []
  | s, i :: is => (drain pooled s i).2 :: drainAll pooled (drain pooled s i).1 is

end Readers

end XmppModel.Stanza
