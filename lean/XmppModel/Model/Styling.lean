import XmppModel.Prelude.Hex
/-!
# Model of `styling/styling.go` (XEP-0393 message styling decoder) — property C17

Function-by-function transcription of the stateful `bufio.SplitFunc` `Decoder.scan` and of
`scanSpan`, `scanPre`, `startsBlockQuote`, plus `Style`, `Quote`, `Next` and a model of the
call discipline of `bufio.Scanner`.

* A Go `*Decoder` with its chain of `quoteSplit` decoders is a `Level` (the decoder's own
  fields) plus a `List Level` (the chain hanging off `quoteSplit`; `[]` is `nil`).
* `unicode/utf8` + `unicode` are not transcribed rune by rune.  `isSpace(DecodeRune(p))` is
  true exactly when `p` starts with the UTF-8 encoding of one of the 25 white-space runes
  (`RuneError` is not a space), `isSpace(DecodeLastRune(p))` exactly when `p` ends with
  one; the table of encodings `spaceEncs` is regenerated from the real code on every run
  (all 0x110000 runes evaluated) and compared by a theorem.  `utf8.FullRune` is transcribed
  from the tables of `unicode/utf8`.
* A nil dereference (`d.quoteSplit.scan` with `quoteSplit == nil`) is the outcome `panic`;
  the theorems show it is unreachable.
-/
namespace XmppModel.Styling

abbrev Style := BitVec 32

def BlockPre : Style := 0x1
def BlockQuote : Style := 0x2
def SpanEmph : Style := 0x4
def SpanStrong : Style := 0x8
def SpanStrike : Style := 0x10
def SpanPre : Style := 0x20
def BlockPreStart : Style := 0x40
def BlockPreEnd : Style := 0x80
def BlockQuoteStart : Style := 0x100
def BlockQuoteEnd : Style := 0x200
def SpanEmphStart : Style := 0x400
def SpanEmphEnd : Style := 0x800
def SpanStrongStart : Style := 0x1000
def SpanStrongEnd : Style := 0x2000
def SpanStrikeStart : Style := 0x4000
def SpanStrikeEnd : Style := 0x8000
def SpanPreStart : Style := 0x10000
def SpanPreEnd : Style := 0x20000

/-- the exported constants in declaration order (compared with the regenerated values) -/
def styleConsts : List Nat :=
  [BlockPre, BlockQuote, SpanEmph, SpanStrong, SpanStrike, SpanPre, BlockPreStart, BlockPreEnd,
   BlockQuoteStart, BlockQuoteEnd, SpanEmphStart, SpanEmphEnd, SpanStrongStart, SpanStrongEnd,
   SpanStrikeStart, SpanStrikeEnd, SpanPreStart, SpanPreEnd].map BitVec.toNat

/-- `m &^ c` -/
def andNot (m c : Style) : Style := m &&& ~~~c

def nl : UInt8 := 0x0a
def gt : UInt8 := 0x3e
def star : UInt8 := 0x2a
def under : UInt8 := 0x5f
def tick : UInt8 := 0x60
def tilde : UInt8 := 0x7e

def fence : Bytes := [tick, tick, tick]

/-! ## Runes -/

/-- UTF-8 encodings of the runes for which `isSpace` is true. -/
def spaceEncs : List Bytes :=
  [[0x09], [0x0a], [0x0b], [0x0c], [0x0d], [0x20], [0xc2, 0x85], [0xc2, 0xa0], [0xe1, 0x9a, 0x80],
   [0xe2, 0x80, 0x80], [0xe2, 0x80, 0x81], [0xe2, 0x80, 0x82], [0xe2, 0x80, 0x83], [0xe2, 0x80, 0x84],
   [0xe2, 0x80, 0x85], [0xe2, 0x80, 0x86], [0xe2, 0x80, 0x87], [0xe2, 0x80, 0x88], [0xe2, 0x80, 0x89],
   [0xe2, 0x80, 0x8a], [0xe2, 0x80, 0xa8], [0xe2, 0x80, 0xa9], [0xe2, 0x80, 0xaf], [0xe2, 0x81, 0x9f],
   [0xe3, 0x80, 0x80]]

def spaceEncsRev : List Bytes := spaceEncs.map List.reverse

/-- length of the white-space rune at the front of `d`; `0` when `DecodeRune(d)` is not a space -/
def spaceLen (d : Bytes) : Nat :=
  match spaceEncs.find? (fun e => e.isPrefixOf d) with
  | some e => e.length
  | none => 0

/-- `isSpace(utf8.DecodeRune(d))` -/
def nextSpace (d : Bytes) : Bool := spaceEncs.any (fun e => e.isPrefixOf d)

/-- `isSpace(utf8.DecodeLastRune(p))` where `rp` is `p` reversed -/
def prevSpace (rp : Bytes) : Bool := spaceEncsRev.any (fun e => e.isPrefixOf rp)

def inRange (lo hi b : UInt8) : Bool := lo ≤ b && b ≤ hi

/-- (size, lo, hi) of a lead byte: the length of the sequence it starts and the accepted
range of the second byte (tables `first` and `acceptRanges` of unicode/utf8); size 1 covers
ASCII and invalid lead bytes -/
def runeClass (b0 : UInt8) : Nat × UInt8 × UInt8 :=
  if b0 < 0xc2 then (1, 0, 0)
  else if b0 ≤ 0xdf then (2, 0x80, 0xbf)
  else if b0 == 0xe0 then (3, 0xa0, 0xbf)
  else if b0 == 0xed then (3, 0x80, 0x9f)
  else if b0 ≤ 0xef then (3, 0x80, 0xbf)
  else if b0 == 0xf0 then (4, 0x90, 0xbf)
  else if b0 ≤ 0xf3 then (4, 0x80, 0xbf)
  else if b0 == 0xf4 then (4, 0x80, 0x8f)
  else (1, 0, 0)

/-- `utf8.FullRune` after the lead byte: `t` are the bytes that follow it -/
def fullRuneAux (size : Nat) (lo hi : UInt8) (t : Bytes) : Bool :=
  if t.length + 1 ≥ size then true
  else match t with
    | [] => false
    | b1 :: t' =>
      if !(inRange lo hi b1) then true
      else match t' with
        | [] => false
        | b2 :: _ => !(inRange 0x80 0xbf b2)

/-- `utf8.FullRune` -/
def fullRune : Bytes → Bool
  | [] => false
  | b0 :: t => fullRuneAux (runeClass b0).1 (runeClass b0).2.1 (runeClass b0).2.2 t

/-! ## Decoder state -/

/-- The fields of one `Decoder` (without the scanner and the `Next` bookkeeping). -/
structure Level where
  clearMask : Style := 0
  mask : Style := 0
  quoteStarted : Bool := false
  lastNewline : Bool := false
  hasRun : Bool := false
  /-- head = top of the Go slice (its last element) -/
  spanStack : List UInt8 := []
  deriving DecidableEq, Repr

/-- result of one call of the split function -/
inductive Out
  | more                              -- `0, nil, nil`
  | tok (adv : Nat) (token : Bytes)   -- `adv, token, nil`
  | panic                             -- nil pointer dereference
  deriving DecidableEq, Repr

def isDirective (b : UInt8) : Bool := b == star || b == under || b == tick || b == tilde

/-- (style, start, end) bits of a directive byte -/
def bitsOf (b : UInt8) : Style × Style × Style :=
  if b == star then (SpanStrong, SpanStrongStart, SpanStrongEnd)
  else if b == under then (SpanEmph, SpanEmphStart, SpanEmphEnd)
  else if b == tilde then (SpanStrike, SpanStrikeStart, SpanStrikeEnd)
  else if b == tick then (SpanPre, SpanPreStart, SpanPreEnd)
  else (0, 0, 0)

/-- the end-directive branch of `scanSpan` with `i == 0` -/
def closeSpan (lv : Level) (b : UInt8) : Level :=
  let (sty, _, en) := bitsOf b
  { lv with mask := lv.mask ||| en, clearMask := lv.clearMask ||| sty ||| en,
            spanStack := lv.spanStack.tail }

/-- the start-directive branch of `scanSpan` -/
def openSpan (lv : Level) (b : UInt8) : Level :=
  let (sty, st, _) := bitsOf b
  { lv with mask := lv.mask ||| sty ||| st, clearMask := lv.clearMask ||| st,
            spanStack := b :: lv.spanStack }

/-! ## `scanSpan` -/

/-- The `for i, b := range data` loop of `scanSpan`.  `i` is the index, `rpre` is
`data[:i]` reversed, `rest` is `data[i:]`; `startIdx = none` is Go's `-1`. -/
def spanLoop (data : Bytes) (atEOF : Bool) (lv : Level) :
    (i : Nat) → (rpre : Bytes) → (startIdx : Option Nat) → (startDir : UInt8) → (rest : Bytes) → Out × Level
  | _, _, _, _, [] =>
    if atEOF then (.tok data.length data, lv) else (.more, lv)
  | i, rpre, startIdx, startDir, b :: rest =>
    if b == nl then (.tok (i + 1) (data.take (i + 1)), lv)
    else if !isDirective b then spanLoop data atEOF lv (i + 1) (b :: rpre) startIdx startDir rest
    else
      let nSpace := nextSpace rest
      let pSpace := prevSpace rpre
      if lv.spanStack.head? == some b then
        if i == 0 then (.tok 1 (data.take 1), closeSpan lv b)
        else (.tok i (data.take i), lv)
      else if startIdx.isNone && (lv.mask &&& SpanPre == 0) then
        if (i == 0 || pSpace) && !nSpace then
          if rest.head? == some b then
            spanLoop data atEOF lv (i + 1) (b :: rpre) startIdx startDir rest
          else
            spanLoop data atEOF lv (i + 1) (b :: rpre) (some i) b rest
        else spanLoop data atEOF lv (i + 1) (b :: rpre) startIdx startDir rest
      else if b == startDir && !pSpace &&
          (match startIdx with | none => decide (i > 0) | some s => decide (i > s + 1)) then
        match startIdx with
        | some (s + 1) => (.tok (s + 1) (data.take (s + 1)), lv)
        | _ => (.tok 1 (data.take 1), openSpan lv b)
      else spanLoop data atEOF lv (i + 1) (b :: rpre) startIdx startDir rest

def scanSpan (lv : Level) (data : Bytes) (atEOF : Bool) : Out × Level :=
  spanLoop data atEOF lv 0 [] none 0 data

/-! ## `scanPre` -/

def indexNl : Bytes → Option Nat
  | [] => none
  | b :: t => if b == nl then some 0 else (indexNl t).map (· + 1)

/-- `scanPre` (after `fix: styling pre block … at end of input`). -/
def scanPre (lv : Level) (data : Bytes) (atEOF : Bool) : Out × Level :=
  let nlIdx := indexNl data
  if fence.isPrefixOf data && !atEOF && data.length == fence.length then (.more, lv)
  else if fence.isPrefixOf data && ((atEOF && nlIdx.isNone) || nlIdx == some fence.length) then
    let lv' := { lv with mask := lv.mask ||| BlockPreEnd,
                         clearMask := lv.clearMask ||| BlockPre ||| BlockPreEnd }
    let l := if nlIdx == some fence.length then fence.length + 1 else fence.length
    (.tok l (data.take l), lv')
  else match nlIdx with
    | some k => (.tok (k + 1) (data.take (k + 1)), lv)
    | none => if atEOF then (.tok data.length data, lv) else (.more, lv)

/-! ## `startsBlockQuote` -/

/-- the loop of `startsBlockQuote` over the bytes after `>`: `skip` bytes of the current
white-space rune remain to be stepped over, `l` is the length so far.  `none` = more data
is needed to decide (only when `!atEOF`). -/
def sbqLoop (atEOF : Bool) : (skip : Nat) → (l : Nat) → Bytes → Option Nat
  | _, l, [] => if atEOF then some l else none
  | skip + 1, l, _ :: t => sbqLoop atEOF skip (l + 1) t
  | 0, l, b :: t =>
    let k := spaceLen (b :: t)
    if k == 0 then
      if !atEOF && !fullRune (b :: t) then none else some l
    else sbqLoop atEOF (k - 1) (l + 1) t

/-- `startsBlockQuote(data, atEOF)`: `some l` = prefix length (0: none), `none` = need more. -/
def startsBlockQuote (data : Bytes) (atEOF : Bool) : Option Nat :=
  match data with
  | [] => some 0
  | b :: t => if b == gt then sbqLoop atEOF 0 1 t else some 0

/-! ## `scan` -/

def resetLevel (lv : Level) : Level := { lv with quoteStarted := false, hasRun := false }

/-- entry of `scan`: the `lastNewline` reset over the whole chain and the `clearMask` step -/
def normLevel (lv : Level) : Level :=
  let lv1 := if lv.lastNewline then
      { lv with quoteStarted := false, hasRun := false, mask := andNot lv.mask BlockQuote,
                lastNewline := false }
    else lv
  { lv1 with mask := andNot lv1.mask lv1.clearMask, clearMask := 0 }

/-- the deferred function of `scan` -/
def finish (r : Out × Level × List Level) : Out × Level × List Level :=
  match r.1 with
  | .tok _ t => if t.getLast? == some nl then (r.1, { r.2.1 with lastNewline := true }, r.2.2) else r
  | _ => r

/-- the part of `scan` after "Look for new blocks" when no block quote applies at this level -/
def scanBlock (lv : Level) (data : Bytes) (atEOF : Bool) : Out × Level :=
  let lv := { lv with hasRun := true }
  if fence.isPrefixOf data then
    match indexNl data with
    | some k => (.tok (k + 1) (data.take (k + 1)),
        { lv with mask := lv.mask ||| BlockPre ||| BlockPreStart, clearMask := lv.clearMask ||| BlockPreStart })
    | none =>
      if atEOF then (.tok data.length data,
        { lv with mask := lv.mask ||| BlockPre ||| BlockPreStart, clearMask := lv.clearMask ||| BlockPreStart })
      else (.more, lv)
  else scanSpan lv data atEOF

/-- `(*Decoder).scan` for the decoder `lv` whose `quoteSplit` chain is `inner`.  `reset` says
that an enclosing decoder's `lastNewline` loop has just reset `quoteStarted`/`hasRun` of this
decoder and of everything below it (the loop runs in the outermost decoder before anything
else; carrying it down as a flag keeps the recursion structural). -/
def scanLv (data : Bytes) (atEOF : Bool) : Bool → Level → List Level → Out × Level × List Level
  | reset, lv00, inner0 =>
    let lv0 := if reset then resetLevel lv00 else lv00
    if atEOF && data.isEmpty then (.more, lv0, if reset then inner0.map resetLevel else inner0)
    else
      let rs := reset || lv0.lastNewline
      let inner := if rs then inner0.map resetLevel else inner0
      let lv := normLevel lv0
      -- `finish` is the deferred function of `scan`; it only matters where a token is returned
      if !lv.spanStack.isEmpty then
        let r := scanSpan lv data atEOF
        finish (r.1, r.2, inner)
      else if lv.mask &&& BlockPre == BlockPre then
        let r := scanPre { lv with hasRun := true } data atEOF
        finish (r.1, r.2, inner)
      else
        match startsBlockQuote data atEOF with
        | none => (.more, lv, inner)
        | some l =>
          if l > 0 && !lv.quoteStarted then
            finish (.tok l (data.take l),
             { lv with mask := lv.mask ||| BlockQuote ||| BlockQuoteStart,
                       clearMask := lv.clearMask ||| BlockQuoteStart,
                       quoteStarted := true, hasRun := true },
             if inner.isEmpty then [{}] else inner)
          else if l > 0 || (lv.quoteStarted && !inner0.isEmpty) then
            match inner0 with
            | [] => (.panic, lv, [])
            | q :: qs =>
              let r := scanLv data atEOF rs q qs
              finish (r.1, lv, r.2.1 :: r.2.2)
          else
            let r := scanBlock lv data atEOF
            finish (r.1, r.2, [])

/-! ## `Style`, `Quote` -/

/-- `(*Decoder).Style` without the `insertBlockClose` case -/
def styleLv : Level → List Level → Style
  | lv, inner =>
    if lv.hasRun then
      match inner with
      | [] => lv.mask
      | q :: qs => lv.mask ||| styleLv q qs
    else 0

/-- `(*Decoder).Quote` without the `insertBlockClose` case; `none` = nil dereference -/
def quoteLv : Level → List Level → Option Nat
  | lv, inner =>
    if lv.quoteStarted then
      match inner with
      | [] => none
      | q :: qs => (quoteLv q qs).map (· + 1)
    else some 0

/-! ## `bufio.Scanner` -/

/-- The whole decoder as seen by the scanner. -/
structure Dec where
  lv : Level := {}
  inner : List Level := []
  deriving DecidableEq, Repr

def Dec.scan (d : Dec) (data : Bytes) (atEOF : Bool) : Out × Dec :=
  let r := scanLv data atEOF false d.lv d.inner
  (r.1, ⟨r.2.1, r.2.2⟩)

def Dec.style (d : Dec) : Style := styleLv d.lv d.inner
def Dec.quote (d : Dec) : Option Nat := quoteLv d.lv d.inner

/-- how the reader delivers the document: the sizes of successive reads (a size is at least
one byte; when the list is exhausted everything left is delivered), and whether the last
bytes come together with `io.EOF` or `io.EOF` is reported by a separate read. -/
structure Schedule where
  sizes : List Nat := []
  dataEOF : Bool := false
  deriving Repr

inductive End
  | eof          -- Scan returned false, Err() == nil
  | tooLong      -- bufio.ErrTooLong
  | badSplit     -- the split function broke the SplitFunc contract / returned an empty token
  | panic
  | fuel         -- the model ran out of fuel (shown impossible for `fuelFor`)
  deriving DecidableEq, Repr

abbrev Split (σ : Type) := σ → Bytes → Bool → Out × σ

/-- `len(s.buf) >= s.maxTokenSize` with the buffer full -/
def atLimit (limit : Option Nat) (n : Nat) : Bool :=
  match limit with | some L => decide (n ≥ L) | none => false

/-- size of the next read: the next entry of the schedule (at least one byte), everything
that is left when the schedule is exhausted -/
def chunkSize (sizes : List Nat) (left : Nat) : Nat :=
  match sizes with | [] => left | k :: _ => max k 1

/-- What the scanner does when the split function asks for more data: stop at EOF, fail
when the buffer is at the token limit, otherwise read one more chunk and continue. -/
def readStep {ρ : Type} (limit : Option Nat) (sizes : List Nat) (dataEOF : Bool) (buf pending : Bytes)
    (eof : Bool) (stop : End → ρ) (cont : List Nat → Bytes → Bytes → Bool → ρ) : ρ :=
  if eof then stop .eof
  else if atLimit limit buf.length then stop .tooLong
  else
    let k := chunkSize sizes pending.length
    cont sizes.tail (buf ++ pending.take k) (pending.drop k)
      (pending.isEmpty || (dataEOF && (pending.drop k).isEmpty))

/-- One `bufio.Scanner` (`limit` = maximum token size, `none` = unbounded) driving a split
function: call it on what is buffered whenever there is something buffered or the reader
has reported EOF; on "more" read one more chunk (or stop at EOF, or fail when the buffer is
at the limit); on a token, record it with the state reached. -/
def scanner {σ : Type} (split : Split σ) (limit : Option Nat) :
    (fuel : Nat) → (sizes : List Nat) → (dataEOF : Bool) → σ → (buf pending : Bytes) → (eof : Bool) →
    List (Bytes × σ) × End
  | 0, _, _, _, _, _, _ => ([], .fuel)
  | fuel + 1, sizes, dataEOF, s, buf, pending, eof =>
    let read (s' : σ) : List (Bytes × σ) × End :=
      readStep limit sizes dataEOF buf pending eof (fun e => ([], e))
        (fun sizes' buf' pending' eof' => scanner split limit fuel sizes' dataEOF s' buf' pending' eof')
    if buf.isEmpty && !eof then read s
    else
      match split s buf eof with
      | (.more, s') => read s'
      | (.panic, _) => ([], .panic)
      | (.tok adv t, s') =>
        if adv == 0 || adv > buf.length then ([], .badSplit)
        else
          let r := scanner split limit fuel sizes dataEOF s' (buf.drop adv) pending eof
          ((t, s') :: r.1, r.2)

def fuelFor (doc : Bytes) : Nat := 2 * doc.length + 2

/-- the split-function level run of a whole document -/
def scanDoc (limit : Option Nat) (sch : Schedule) (doc : Bytes) : List (Bytes × Dec) × End :=
  scanner Dec.scan limit (fuelFor doc) sch.sizes sch.dataEOF {} [] doc false

/-! ## `Decoder.Next` / `Token` / `Style` / `Quote` -/

/-- what a caller of `Next`/`Token`/`Style`/`Quote` sees for one token -/
structure Event where
  data : Bytes
  style : Style
  quote : Nat
  info : Option Bytes
  deriving DecidableEq, Repr

/-- `Token.Info` as computed by `Next` -/
def infoOf (style : Style) (t : Bytes) : Option Bytes :=
  let nlLen := if t.getLast? == some nl then 1 else 0
  if style &&& BlockPreStart == BlockPreStart && t.length > fence.length + nlLen then
    some ((t.drop fence.length).take (t.length - fence.length - nlLen))
  else none

/-- the events of `Next` for the scanned tokens; `prev` is `Quote()` before the scan.
`none` = a nil dereference in `Quote`. -/
def events : (prev : Nat) → List (Bytes × Dec) → Option (List Event)
  | _, [] => some []
  | prev, (t, d) :: rest => do
    let cur ← d.quote
    let tl ← events cur rest
    if cur < prev then
      -- virtual block quote end token, then the delayed real token (without Info)
      pure (⟨[], BlockQuoteEnd ||| BlockQuote, cur + 1, none⟩ :: ⟨t, d.style, cur, none⟩ :: tl)
    else
      pure (⟨t, d.style, cur, infoOf d.style t⟩ :: tl)

/-- the token size limit `NewDecoder` gives its scanner: none (`d.s.Buffer(nil, math.MaxInt)`);
compared with the limit read from the source by `C17_gen_decoder_limit` -/
def decoderLimit : Option Nat := none

/-- `NewDecoder(r)` read to the end with `Next`. -/
def decode (limit : Option Nat) (sch : Schedule) (doc : Bytes) : Option (List Event) × End :=
  let r := scanDoc limit sch doc
  (events 0 r.1, r.2)

end XmppModel.Styling
