import XmppModel.Prelude.Hex
/-! form/form.go, `(*Data).TokenReader` / `Submit` — the two loops that cut peer-supplied text into
lines (C09: "every request helper that parses a peer's reply returns … whatever that reply
contains"; `muc.SetConfig(GetConfig())`, a command's form payload sent back, …).

The Go loops are `for { idx := strings.IndexAny(s, "\r\n"); … }` with NO bound of their own: they
end because every turn that does not `break` replaces `s` by a strictly shorter suffix.  The
model keeps exactly that shape: a fuel-bounded loop whose result is `none` when the fuel runs out
(so a loop that forgets to advance CAN be written down, see `stuckLoop`), and the theorems
(Lemmas/FormLines.lean) show that `length + 1` turns are always enough and what the result is.

What the library writes for a form decoded from a peer (marshaled again / submitted):
`submitted instructions values`. -/
namespace XmppModel.FormLines

variable {α : Type}

/-- `strings.IndexAny(s, seps)`: position of the first separator. -/
def indexSep (sep : α → Bool) : List α → Option Nat
  | [] => none
  | b :: r => if sep b then some 0 else (indexSep sep r).map (· + 1)

/-- The text-multi loop (form.go, `case string: if f.typ == TypeTextMulti`):
    `idx == -1` ⇒ append the rest and stop; otherwise append `typed[:idx]`, go on with
    `typed[idx+1:]`. -/
def multiLoop (sep : α → Bool) : Nat → List α → List (List α) → Option (List (List α))
  | 0, _, _ => none
  | n + 1, typed, lines =>
    match indexSep sep typed with
    | none => some (lines ++ [typed])
    | some idx => multiLoop sep n (typed.drop (idx + 1)) (lines ++ [typed.take idx])

/-- The instructions loop (form.go, top of `TokenReader`): empty lines are skipped, the last
    piece ends the loop. -/
def instrLoop (sep : α → Bool) : Nat → List α → List (List α) → Option (List (List α))
  | 0, _, _ => none
  | n + 1, ins, out =>
    match indexSep sep ins with
    | none => some (if ins.isEmpty then out else out ++ [ins])
    | some idx =>
      let line := ins.take idx
      instrLoop sep n (ins.drop (idx + 1)) (if line.isEmpty then out else out ++ [line])

/-- A loop of the same shape that advances only behind a non-empty line (the kind of slip the
    property is about): used to show that the model can express a loop that never returns. -/
def stuckLoop (sep : α → Bool) : Nat → List α → List (List α) → Option (List (List α))
  | 0, _, _ => none
  | n + 1, typed, lines =>
    match indexSep sep typed with
    | none => some (lines ++ [typed])
    | some idx =>
      if (typed.take idx).isEmpty then stuckLoop sep n typed lines
      else stuckLoop sep n (typed.drop (idx + 1)) (lines ++ [typed.take idx])

/-- Specification: the pieces between separators (structural recursion, always `≥ 1` piece). -/
def segments (sep : α → Bool) : List α → List (List α)
  | [] => [[]]
  | b :: r =>
    if sep b then [] :: segments sep r
    else match segments sep r with
      | [] => [[b]]
      | l :: ls => (b :: l) :: ls

def nonEmpty (l : List (List α)) : List (List α) := l.filter (fun x => !x.isEmpty)

/-- `Data.Get` of a text-multi field: the values joined by one `\n`. -/
def joinNL (nl : α) : List (List α) → List α
  | [] => []
  | [x] => x
  | x :: y :: rest => x ++ nl :: joinNL nl (y :: rest)

/-- `Data.UnmarshalXML`, case "instructions": `if d.instructions == "" { = s } else { += "\n" + s }`. -/
def accInstr (nl : α) (l : List (List α)) : List α :=
  l.foldl (fun acc s => if acc.isEmpty then s else acc ++ nl :: s) []

/-- Bytes: `\n` and `\r`. -/
def isNL (b : UInt8) : Bool := b == 10 || b == 13

/-- What the library writes for a form the peer sent with these `<instructions/>` elements and
    these `<value/>` children of a text-multi field: the instructions elements of the decoded
    form marshaled again (`Data.TokenReader`), and the values of the field in its submission
    (`Submit`, which drops title and instructions); `none` = the code would still be looping.
    The field marshaler drops empty values; an unset optional field is not sent at all. -/
def submitted (instr values : List Bytes) : Option (List Bytes × List Bytes) := do
  let ins := accInstr 10 instr
  let i ← instrLoop isNL (ins.length + 1) ins []
  if values.isEmpty then pure (i, []) else
  let v := joinNL 10 values
  let ls ← multiLoop isNL (v.length + 1) v []
  pure (i, nonEmpty ls)

end XmppModel.FormLines
