/-!
# Buffer, flush and return — property C05 ("places on the output stream", round E)

`Model/SendLts.lean` writes items straight to the wire.  The real transmit path has a buffer in
between (`xml.Encoder`'s `bufio.Writer`): `EncodeToken` appends to the buffer, only `Flush` (and
a full buffer) moves bytes to the connection, and the call *returns* afterwards.  The property
is about the moment of the return: a call that reports success HAS put its element on the output
stream — not "will have, if somebody flushes later".

This LTS has the buffer, the queue for the output lock and the return of every call:

    idle ──register──▶ waiting ──Lock──▶ holding 0 ─item─▶ … ─item─▶ holding n ──flush?; Unlock──▶ ok
                                             └──────── stopAt = k: Unlock, error, NO flush ───────▶ err

* `waiters` counts the calls that are queued for the lock (what the seeded "group commit"
  change C05-19 reads with an atomic counter);
* `Prog.lazy = false` is `send` / `Encode` / `EncodeElement` / `lockWriteCloser.Close` as written:
  the flush at the end is unconditional.  `lazy = true` skips it when `waiters > 0` ("the queued
  sender's flush carries both");
* `stopAt i = some k`: call `i` gives up after `k` items and returns an error without flushing
  (`k = 0`: its token reader fails on the first token, the first token is not a start element,
  the stream is closed or broken — the call holds the lock and writes nothing);
* `Act.spill n` is the environment: `bufio` hands a prefix of the buffer to the connection
  whenever it likes (buffer full).  The theorems hold for every placement of spills.

`rets` is a ghost log: `(i, e)` = call `i` returned nil when `e` items had been handed to the
encoder by all calls together.
-/
namespace XmppModel.SendFlush

inductive Pc
  | idle
  | waiting
  | holding (pos : Nat)
  | ok
  | err
  deriving DecidableEq, Repr

inductive Act
  | call (i : Nat)
  | spill (n : Nat)
  deriving DecidableEq, Repr

structure Prog (α : Type) where
  job : Nat → List α
  stopAt : Nat → Option Nat
  lazy : Bool

structure St (α : Type) where
  wire : List α
  buf : List α
  lock : Option Nat
  pc : Nat → Pc
  waiters : Nat
  rets : List (Nat × Nat)

def init (α : Type) : St α :=
  { wire := [], buf := [], lock := none, pc := fun _ => .idle, waiters := 0, rets := [] }

def setPc (pc : Nat → Pc) (i : Nat) (v : Pc) : Nat → Pc := fun j => if j = i then v else pc j

/-- everything handed to the encoder so far, in order -/
def St.total {α : Type} (s : St α) : List α := s.wire ++ s.buf

def step {α : Type} (p : Prog α) (s : St α) : Act → Option (St α)
  | .spill n => some { s with wire := s.wire ++ s.buf.take n, buf := s.buf.drop n }
  | .call i =>
    match s.pc i with
    | .idle => some { s with pc := setPc s.pc i .waiting, waiters := s.waiters + 1 }
    | .waiting =>
      match s.lock with
      | none => some { s with lock := some i, pc := setPc s.pc i (.holding 0), waiters := s.waiters - 1 }
      | some _ => none
    | .holding k =>
      if p.stopAt i = some k then some { s with lock := none, pc := setPc s.pc i .err }
      else
        match (p.job i)[k]? with
        | some x => some { s with buf := s.buf ++ [x], pc := setPc s.pc i (.holding (k + 1)) }
        | none =>
          if p.lazy && decide (s.waiters > 0) then
            some { s with lock := none, pc := setPc s.pc i .ok,
                          rets := s.rets ++ [(i, s.wire.length + s.buf.length)] }
          else
            some { s with wire := s.wire ++ s.buf, buf := [], lock := none, pc := setPc s.pc i .ok,
                          rets := s.rets ++ [(i, s.wire.length + s.buf.length)] }
    | .ok => none
    | .err => none

/-- run a schedule; actions that are not enabled are skipped -/
def run {α : Type} (p : Prog α) (s : St α) : List Act → St α
  | [] => s
  | a :: as =>
    match step p s a with
    | some s' => run p s' as
    | none => run p s as

/-- the invariant of the unconditional flush -/
structure Inv {α : Type} (p : Prog α) (s : St α) : Prop where
  holder : ∀ i k, s.pc i = .holding k → s.lock = some i
  pre : ∀ i k, s.pc i = .holding k → ∃ pre, s.total = pre ++ (p.job i).take k
  ret_wire : ∀ r ∈ s.rets, r.2 ≤ s.wire.length
  ret_block : ∀ r ∈ s.rets, ∃ pre, s.total.take r.2 = pre ++ p.job r.1
  ok_ret : ∀ i, s.pc i = .ok → ∃ e, (i, e) ∈ s.rets

end XmppModel.SendFlush
