import XmppModel.Model.CorrAttrs
/-!
# The key a blocking request waits under, and the id the peer sees (C06, round E)

A correlated wait can only end with its own reply if the id the call is *registered* under
(`sendResp(ctx, id, …)`: the key of `Session.sentStanzas`) is the id the peer *reads on the
wire* and answers with.  Between the two lie

* the head of `SendIQ` / `SendMessage` / `SendPresence` (`session_iq.go`, `session_message.go`,
  `session_presence.go`): `getIDTyp` on the start element; no unqualified id attribute → one
  is appended; its value empty → a fresh random id is stored *in that attribute*;
* the attribute pass of the session's encoder (`session.go`, `stanzaEncoder.EncodeToken`) on
  the top-level stanza start: an UNQUALIFIED `id` attribute with an empty value is dropped; if
  no unqualified `id` with a value is left, another fresh random id is appended; attributes
  that merely share the local name (`x:id`, `xmlns:id`) are passed on as they are (round F:
  the code as repaired in round E by the wire builder).

The reply is then looked up by `(id, element name)` only: the `to` of the request and the
`from` of the reply take no part (`Reply.from` is carried by the model for exactly that
statement; the serve loop's normalisation of a `from` that equals the own bare address runs
before the look-up and is modelled as `normFrom`).

Values are `Nat`s: `0` is the empty string, everything else a non-empty string.  The two
random ids are parameters (`f₁` chosen by the call, `f₂` by the encoder).
-/
namespace XmppModel.CorrKey
open XmppModel.CorrAttrs

/-- the loop of `getIDTyp` with the index it reports for the id attribute:
`(index, value)` of the stanza's id — the last unqualified `id` seen before the loop stops
(it stops once an unqualified id and an unqualified type were both seen) -/
def scanI : List Attr → Nat → Option (Nat × Nat) → Bool → Option (Nat × Nat)
  | [], _, i, _ => i
  | a :: as, n, i, t =>
    if a.space ≠ .none then scanI as (n + 1) i t                 -- `continue`
    else if a.loc = .id then                                      -- `case "id"`, then the `break` test
      (if t then some (n, a.val) else scanI as (n + 1) (some (n, a.val)) t)
    else if a.loc = .type then                                    -- `case "type"`, then the `break` test
      (if i.isSome then i else scanI as (n + 1) i true)
    else (if i.isSome && t then i else scanI as (n + 1) i t)      -- any other attribute: only the `break` test

def idOf (attrs : List Attr) : Option (Nat × Nat) := scanI attrs 0 none false

/-- replace the value of the attribute at position `n` -/
def setVal : List Attr → Nat → Nat → List Attr
  | [], _, _ => []
  | a :: as, 0, v => { a with val := v } :: as
  | a :: as, n + 1, v => a :: setVal as n v

/-- the two choices the model leaves open so that the negation witnesses can be stated; the
code is `{}` -/
structure Cfg where
  storeFresh : Bool := true     -- a generated id is written into the (empty) id attribute that was found
  fromChecked : Bool := false   -- the look-up also compares the reply's from with the request's to, as strings

/-- head of `SendIQ` / `SendMessage` / `SendPresence`: the id the call registers under and
the start element it hands to `sendResp` -/
def prepare (cfg : Cfg) (f₁ : Nat) (attrs : List Attr) : Nat × List Attr :=
  match idOf attrs with
  | none => (f₁, attrs ++ [⟨.none, .id, f₁⟩])
  | some (idx, v) =>
    if v = 0 then (f₁, if cfg.storeFresh then setVal attrs idx f₁ else attrs) else (v, attrs)

/-- attribute pass of `stanzaEncoder.EncodeToken` on a top-level stanza start, id part (after the
round E repair "the stanza encoder takes any attribute with the local name id … for the stanza
attribute, whatever its namespace"): only the UNQUALIFIED id is the stanza's id — it is dropped when
its value is empty, and a fresh id is added when no unqualified id with a value is left; qualified
look-alikes (`x:id`, `xmlns:id`) pass through untouched, empty or not -/
def encode (f₂ : Nat) (attrs : List Attr) : List Attr :=
  let kept := attrs.filter (fun a => !(a.space = .none && a.loc = .id && a.val = 0))
  if kept.any (fun a => a.space = .none && a.loc = .id) then kept else kept ++ [⟨.none, .id, f₂⟩]

/-- what the peer reads as the stanza's id -/
def wireId (attrs : List Attr) : Option Nat := (idOf attrs).map (·.2)

/-- the whole way of a request's id: registered key, attributes on the wire -/
def send (cfg : Cfg) (f₁ f₂ : Nat) (attrs : List Attr) : Nat × List Attr :=
  let p := prepare cfg f₁ attrs
  (p.1, encode f₂ p.2)

/-! ### the delivery-receipt helper (`receipts.Handler.SendMessage` / `SendMessageElement`) -/

/-- `stanza.NewMessage`: the value of the LAST unqualified id attribute (no early exit), `0` if none -/
def lastId : List Attr → Nat → Nat
  | [], v => v
  | a :: as, v => lastId as (if a.space = .none ∧ a.loc = .id then a.val else v)

/-- the message is decoded into a struct, an empty id replaced by a generated one — the key of
`Handler.sent` — and the start element REBUILT from the struct (type, to, id), then encoded -/
def rcptSend (f₁ f₂ : Nat) (attrs : List Attr) : Nat × List Attr :=
  let v := lastId attrs 0
  let key := if v = 0 then f₁ else v
  (key, encode f₂ [⟨.none, .type, 1⟩, ⟨.none, .other, 1⟩, ⟨.none, .id, key⟩])

/-! ### the reply -/

/-- spelling of the reply's `from` relative to the request's `to` -/
inductive From
  | absent      -- no from attribute
  | same        -- byte-identical to the request's to (or the server's address if there was none)
  | equiv       -- the same address, spelled differently (upper-case domain)
  | ace         -- the same address, internationalised domain in its other (ASCII / Unicode) form
  | other       -- another entity
  | ownBare     -- the session's own bare address (the serve loop blanks it before the look-up)
  | garbage     -- not an address at all
  deriving DecidableEq, Repr, Inhabited

/-- the request's `to` -/
inductive To | absent | domain | full | idn
  deriving DecidableEq, Repr, Inhabited

structure Reply where
  id : Nat
  sameName : Bool        -- element name (local name and namespace as the look-up compares them) equal to the request's
  resp : Bool            -- type is `result` or `error`
  frm : From
  deriving DecidableEq, Repr

/-- `handleInputStream`: a from that is the own bare address becomes empty (absent for
everything behind it); nothing else is touched -/
def normFrom : From → From
  | .ownBare => .absent
  | f => f

/-- the pending entry: the key and the request's `to` (which the code does not store: the
look-up of `{}` never reads it) -/
structure Entry where
  key : Nat
  to : To
  deriving DecidableEq, Repr

/-- comparing the two attribute values as strings -/
def sameString : To → From → Bool
  | _, .absent => true        -- nothing to compare
  | .absent, _ => true
  | _, .same => true
  | _, _ => false

/-- the look-up of `handleInputStream` for one pending entry -/
def matchEntry (cfg : Cfg) (e : Entry) (r : Reply) : Bool :=
  r.resp && r.sameName && r.id = e.key && (!cfg.fromChecked || sameString e.to (normFrom r.frm))

inductive Outcome | reply | lost
  deriving DecidableEq, Repr

/-- one round trip: the request goes out, the peer answers with the id it read on the wire,
same element name, type result / error, any `from` -/
def roundTrip (cfg : Cfg) (f₁ f₂ : Nat) (attrs : List Attr) (to : To) (frm : From) : Outcome :=
  let p := send cfg f₁ f₂ attrs
  match wireId p.2 with
  | some w => if matchEntry cfg ⟨p.1, to⟩ ⟨w, true, true, frm⟩ then .reply else .lost
  | none => .lost

/-- the alphabet of the exhaustive domain: every attribute form that bears on the id -/
def alphabet : List Attr :=
  [⟨.none, .id, 0⟩, ⟨.none, .id, 1⟩, ⟨.none, .id, 2⟩, ⟨.foreign, .id, 0⟩, ⟨.foreign, .id, 2⟩,
   ⟨.xmlns, .id, 2⟩, ⟨.none, .type, 1⟩, ⟨.foreign, .type, 1⟩, ⟨.none, .other, 1⟩]

/-- every list over `alphabet` of length `≤ n` -/
def lists : Nat → List (List Attr)
  | 0 => [[]]
  | n + 1 => [] :: (alphabet.flatMap fun a => (lists n).map (a :: ·))

def allFrom : List From := [.absent, .same, .equiv, .ace, .other, .ownBare, .garbage]
def allTo : List To := [.absent, .domain, .full, .idn]

end XmppModel.CorrKey
