import XmppModel.Model.Mux
/-!
# The multiplexer from the element on (property C14, round E)

* `handleElem`: `ServeMux.HandleXMPP` on a complete top-level element — `Handler` (`route`), then
  the stanza router of the element's kind (`iqRouteA`, `stanzaRoute`), the top-level handler or
  the no-op default;
* `Ctor` / `muxNS`: how the multiplexer value came to be (`New` with options, options applied
  after `New`, the zero value `&ServeMux{}` / a `ServeMux` embedded by value with options
  applied): the only thing construction leaves behind, besides the table, is the stanza
  namespace, and the zero value's is the empty one — *any* namespace;
* `stanzaHdrP`: the attribute loop of `stanza.NewIQ` / `NewMessage` / `NewPresence` with the
  address parser (`jid.Parse`) as a parameter that may reject: the routers return its error
  before any lookup;
* `Flight`: several dispatches in flight on one multiplexer (sessions sharing it, a handler
  routing an inner stanza through it), interleaved call by call of `bufReader.Token`; each
  dispatch replays from / appends to the buffer in a slot of a heap.
-/
namespace XmppModel.Mux
open XmppModel.Xml

/-! ### construction -/

inductive Ctor
  | new     -- `mux.New(ns, options…)`
  | late    -- `mux.New(ns)`, options applied to the value afterwards
  | zero    -- `&mux.ServeMux{}`, options applied (the maps are created lazily)
  | value   -- a `mux.ServeMux` field of another struct, options applied to its address
  | redis   -- `mux.New(ns)`, half of the options, THE SAME ELEMENT DISPATCHED ONCE, the other half
  deriving DecidableEq, Repr

/-- the stanza namespace the multiplexer value holds -/
def muxNS : Ctor → String → String
  | .new, ns => ns
  | .late, ns => ns
  | .redis, ns => ns
  | .zero, _ => ""
  | .value, _ => ""

/-! ### `HandleXMPP` on a complete element -/

inductive ElemOut
  /-- the registered handlers that ran, in call order (none: the no-op default) -/
  | ran (ps : List Pattern)
  /-- the IQ fallback wrote one error reply -/
  | reply (h : Hdr)
  /-- a router returned an error before invoking anything -/
  | err
  deriving DecidableEq, Repr

def ranOf (calls : List Call) : List Pattern := calls.filterMap (·.pat)

def handleElem (tbl : Table) (ns : String) (toks : List Tok) (cons : List Nat) : ElemOut :=
  match toks with
  | .start n _ :: _ =>
    match route tbl ns n with
    | .handler p => .ran [p]
    | .iqRouter =>
      (match iqRouteA tbl toks (cons.headD 0) with
       | .handler p _ _ => .ran [p]
       | .reply h => .reply h
       | .nothing => .ran []
       | .err => .err)
    | .msgRouter => .ran (ranOf (stanzaRoute .sep tbl .msg toks cons))
    | .presRouter => .ran (ranOf (stanzaRoute .sep tbl .pres toks cons))
    | .nop => .ran []
  | _ => .err

/-- the stanza kind of a local name -/
def kindOfLocal (loc : String) : Option Kind :=
  if loc == "iq" then some .iq else if loc == "message" then some .msg
  else if loc == "presence" then some .pres else none

/-- is `n` a stanza for a multiplexer holding the namespace `ns` (`stanza.Is`) -/
def isStanzaFor (ns : String) (n : Name) : Bool := isStanzaLocal n && (ns == "" || n.space == ns)

/-! ### the router table probed on the real code -/

inductive RouterOf | iq | msg | pres | nop
  deriving DecidableEq, Repr

def routerOf : Route → RouterOf
  | .iqRouter => .iq
  | .msgRouter => .msg
  | .presRouter => .pres
  | _ => .nop

structure RouteRow where
  ctor : Ctor
  ns : String
  name : Name
  out : RouterOf
  deriving DecidableEq, Repr

def probeCtors : List Ctor := [.new, .late, .zero, .value]
def probeStanzaNS : List String := ["", "jabber:client", "jabber:server"]
def probeElemNames : List Name :=
  ["", "jabber:client", "jabber:server", "jabber:component:accept", "urn:a"].flatMap fun s =>
    ["iq", "message", "presence", "x"].map fun l => ⟨s, l⟩

/-- a multiplexer without top-level patterns, every construction × every namespace given to
`New` × every element name: which stanza router the element reaches -/
def routeTableModel : List RouteRow :=
  probeCtors.flatMap fun c => probeStanzaNS.flatMap fun ns => probeElemNames.map fun n =>
    ⟨c, ns, n, routerOf (route [] (muxNS c ns) n)⟩

/-! ### addresses that do not parse -/

/-- `jid.Parse` as a parameter: the canonical form, or `none` when the address is rejected -/
abbrev ParseFn := String → Option String

/-- one iteration of the attribute loop with the parser's verdict: the first own, non-empty
`to` / `from` the parser rejects ends the loop with its error -/
def hdrStepP (parse : ParseFn) (k : Kind) (h : Option Hdr) (a : Attr) : Option Hdr :=
  h.bind fun h =>
    if a.name.space != "" then some h
    else if a.name.loc == "to" then
      (if a.value == "" then some h else (parse a.value).map fun v => { h with to := v })
    else if a.name.loc == "from" then
      (if a.value == "" then some h else (parse a.value).map fun v => { h with frm := v })
    else some (hdrStep k h a)

def stanzaHdrP (parse : ParseFn) (k : Kind) (attrs : List Attr) : Option Hdr :=
  attrs.foldl (hdrStepP parse k) (some (hdrInit k))

/-- `msgRouter` / `presenceRouter`: `none` = the router returned the address error; no lookup
was made, no handler invoked -/
def stanzaRouteP (parse : ParseFn) (f : Framing) (tbl : Table) (k : Kind) (stanza : List Tok)
    (cons : List Nat) : Option (List Call × Hdr) :=
  (stanzaHdrP parse k (startAttrs stanza)).map fun h => (forChildrenF f tbl k h.typ stanza cons, h)

/-- `iqRouter` with the parser's verdict -/
def iqRouteP (parse : ParseFn) (tbl : Table) (stanza : List Tok) (c : Nat) : IqOut :=
  match stanzaHdrP parse .iq (startAttrs stanza) with
  | none => .err
  | some h =>
    match iqRoute tbl h.typ stanza c with
    | .handler p n v => .handler p n v
    | .fallback => (match fallbackReply h with | some r => .reply r | none => .nothing)
    | .nothing => .nothing
    | .err => .err

/-- the own, non-empty address attributes of a start element -/
def ownAddrs (attrs : List Attr) : List String :=
  (attrs.filter fun a => a.name.space == "" && (a.name.loc == "to" || a.name.loc == "from") && a.value != "").map (·.value)

/-! ### the address table probed on the real code -/

/-- a parser given by its verdicts on finitely many addresses (accepted as they stand otherwise) -/
def parseOfList (m : List (String × Option String)) : ParseFn := fun s =>
  match m.find? (·.1 == s) with
  | some (_, v) => v
  | none => some s

/-- address forms of the probe: canonical, rewritten by `jid.Parse`, rejected ones, empty -/
def probeAddrForms : List String :=
  ["a@example.org/r", "A@EXAMPLE.org/R", "b@Example.NET", "@@", "a@/r", "example.org", ""]

def probeAddrOpts : List (Option String) := none :: probeAddrForms.map some

def addrAttrs (to frm : Option String) : List Attr :=
  [⟨⟨"", "id"⟩, "p1"⟩] ++
  (match to with | some v => [(⟨⟨"", "to"⟩, v⟩ : Attr)] | none => []) ++
  (match frm with | some v => [(⟨⟨"", "from"⟩, v⟩ : Attr)] | none => [])

structure AddrRow where
  kind : Kind
  attrs : List Attr
  /-- `none`: the router returned an error and no handler ran; otherwise the header of the
  stanza value the wildcard handler was handed -/
  res : Option Hdr
  deriving DecidableEq, Repr

def addrTableModel (pt : List (String × Option String)) : List AddrRow :=
  [Kind.iq, Kind.msg, Kind.pres].flatMap fun k => probeAddrOpts.flatMap fun to => probeAddrOpts.map fun frm =>
    ⟨k, addrAttrs to frm, stanzaHdrP (parseOfList pt) k (addrAttrs to frm)⟩

/-! ### dispatches in flight on one multiplexer -/

/-- the reader of one dispatch in flight: the heap slot holding its replay buffer, its offset,
what its underlying reader still holds -/
structure FlightR where
  slot : Nat
  offset : Nat
  rest : List Tok
  deriving Repr

structure Flight where
  heap : Nat → List Tok
  rds : Nat → FlightR

def upd {α : Type} (g : Nat → α) (i : Nat) (v : α) : Nat → α := fun j => if j = i then v else g j

/-- the `bufReader` dispatch `i` sees right now -/
def Flight.view (fl : Flight) (i : Nat) : BufR :=
  ⟨fl.heap (fl.rds i).slot, (fl.rds i).offset, (fl.rds i).rest⟩

/-- dispatch `i` calls `bufReader.Token` once -/
def Flight.token (f : Framing) (fl : Flight) (i : Nat) : Option Tok × Flight :=
  let res := BufR.token f (fl.view i)
  (res.1, { heap := upd fl.heap (fl.rds i).slot res.2.2.buf,
            rds := upd fl.rds i ⟨(fl.rds i).slot, res.2.2.offset, res.2.2.rest⟩ })

/-- a schedule: which dispatch makes the next `Token` call -/
def Flight.run (f : Framing) : List Nat → Flight → List (Nat × Option Tok)
  | [], _ => []
  | i :: sched, fl => (i, (fl.token f i).1) :: Flight.run f sched (fl.token f i).2

/-- `n` calls of `Token` on one reader, alone -/
def BufR.readSeq (f : Framing) : Nat → BufR → List (Option Tok)
  | 0, _ => []
  | n + 1, r => (r.token f).1 :: BufR.readSeq f n (r.token f).2.2

/-- `forChildren` makes its replay buffer itself, per call: dispatch `i` owns slot `i` -/
def Flight.own (fl : Flight) : Prop := ∀ i, (fl.rds i).slot = i

/-! ### a reader that fails in the middle of a stanza -/

/-- `forChildren` over a reader that hands out the stanza's first `cut` tokens (the start element
included) and then fails with an error other than `io.EOF` on every further call: the handlers
of the children whose start tag arrived are invoked, each sees what arrived; the iterator's error
is returned (not the handlers' errors) and the type wildcard is not consulted.  The list is the
calls made; the dispatch always returns the reader's error. -/
def forChildrenCut (tbl : Table) (k : Kind) (typ : String) (stanza : List Tok) (cons : List Nat)
    (cut : Nat) : List Call :=
  match stanza.take cut with
  | [] => []
  | start :: body =>
    (dispatchChildrenG (BR.stepRead .sep) tbl k typ (children (start :: body)) cons
      { buf := [start], rest := body }).1

def stanzaRouteCut (tbl : Table) (k : Kind) (stanza : List Tok) (cons : List Nat) (cut : Nat) : List Call :=
  forChildrenCut tbl k (stanzaHdr k (startAttrs stanza)).typ stanza cons cut

end XmppModel.Mux
