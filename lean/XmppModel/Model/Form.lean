import XmppModel.Model.Payload
/-!
# C19 — data forms (`form/form.go`, `form/fields.go`, `form/options.go`)

Transcription of `Data.TokenReader`, `field.TokenReader`, `Data.UnmarshalXML`,
`field.UnmarshalXML`, `Get`, `Set`, `Submit` (after the `fix:` commits: the text-multi
split always terminates, `Set` allocates the value map).

Trees are written as a decoder sees them after printing and re-tokenising: children of
`{jabber:x:data}x` carry the inherited namespace, attributes are sorted by name, empty
character data is absent.  `jid.Parse` is a parameter `jn : String → Option String`
(`none` = invalid, `some s` = the normal form `Parse(v).String()`).
-/
namespace XmppModel.Form
open XmppModel XmppModel.Xml XmppModel.Payload

def ns : String := "jabber:x:data"

structure Opt where
  label : String
  value : String
  deriving DecidableEq, Repr, Inhabited

structure Field where
  typ : String
  var : String
  label : String
  desc : String
  required : Bool
  values : List String
  options : List Opt
  deriving DecidableEq, Repr, Inhabited

structure Form where
  title : String
  instructions : String
  typ : String
  fields : List Field
  deriving DecidableEq, Repr, Inhabited

/-- a value stored by `Set` (`interface{}` restricted to the five dynamic types the code
switches on); JIDs are represented by their `String()` -/
inductive Val
  | str (s : String)
  | strs (l : List String)
  | bool (b : Bool)
  | jid (s : String)
  | jids (l : List String)
  deriving DecidableEq, Repr, Inhabited

/-- the value map, most recent binding first -/
abbrev Vals := List (String × Val)
abbrev JidNorm := String → Option String

def isMulti (t : String) : Bool := t = "list-multi" || t = "jid-multi" || t = "text-multi" || t = "hidden"
def isList (t : String) : Bool := t = "list-single" || t = "list-multi"
def isJid (t : String) : Bool := t = "jid-single" || t = "jid-multi"
def boolLex (v : String) : Bool := v = "true" || v = "false" || v = "0" || v = "1"

/-! ### text normalisation -/

/-- `spaceReplacer`: old strings are tried in argument order at every position -/
def spaceRepl : List Char → List Char
  | [] => []
  | '\r' :: '\n' :: r => ' ' :: spaceRepl r
  | '\n' :: '\r' :: r => ' ' :: spaceRepl r
  | c :: r => (if c = '\n' ∨ c = '\r' then ' ' else c) :: spaceRepl r

def isNL (c : Char) : Bool := c = '\n' || c = '\r'

/-- segments between line separators (each `\n` and each `\r` separates), empties kept;
never the empty list -/
def splitNL : List Char → List (List Char)
  | [] => [[]]
  | c :: r =>
    if isNL c then [] :: splitNL r
    else match splitNL r with
      | [] => [[c]]
      | l :: ls => (c :: l) :: ls

def joinNL : List (List Char) → List Char
  | [] => []
  | [l] => l
  | l :: ls => l ++ '\n' :: joinNL ls

def lines (s : String) : List String := (splitNL s.toList).map String.ofList
def nonEmptyLines (s : String) : List String := (lines s).filter (· ≠ "")
def joinLines (l : List String) : String := "\n".intercalate l

/-- how `Data.UnmarshalXML` accumulates `<instructions/>` elements: the first non-empty
text starts the value, later ones are appended after a newline -/
def accInstr (cur : String) : List String → String
  | [] => cur
  | l :: ls => accInstr (if cur = "" then l else cur ++ "\n" ++ l) ls
def normTitle (s : String) : String := String.ofList (spaceRepl s.toList)

/-! ### writer -/

/-- the value loop of `field.TokenReader`: what a field carries on the wire -/
def wireValuesAux (jn : JidNorm) (typ : String) : Bool → List String → List String
  | _, [] => []
  | first, v :: vs =>
    if v = "" then wireValuesAux jn typ first vs
    else if first && !isMulti typ then []
    else if typ = "boolean" && !boolLex v then wireValuesAux jn typ first vs
    else if isJid typ && (jn v).isNone then wireValuesAux jn typ first vs
    else v :: wireValuesAux jn typ true vs

def wireValues (jn : JidNorm) (typ : String) (vs : List String) : List String :=
  wireValuesAux jn typ false vs

def optAttr (loc v : String) : List Attr := if v = "" then [] else [at' loc v]

def encodeOpt (o : Opt) : Node :=
  .elem ⟨ns, "option"⟩ [at' "label" o.label] [leaf ns "value" o.value]

/-- `field.TokenReader` -/
def encodeField (jn : JidNorm) (f : Field) : Node :=
  .elem ⟨ns, "field"⟩
    (optAttr "label" f.label ++ [at' "type" f.typ] ++ optAttr "var" f.var)
    ((if f.desc = "" then [] else [leaf ns "desc" f.desc])
      ++ (if f.required then [.elem ⟨ns, "required"⟩ [] []] else [])
      ++ (wireValues jn f.typ f.values).map (leaf ns "value")
      ++ (if isList f.typ then f.options.map encodeOpt else []))

def lookupVal (vals : Vals) (id : String) : Option Val :=
  (vals.find? (·.1 = id)).map (·.2)

def findField (fs : List Field) (id : String) : Option Field := fs.find? (·.var = id)

def firstBool : List String → Option Bool
  | [] => none
  | v :: vs =>
    if v = "false" || v = "0" then some false
    else if v = "true" || v = "1" then some true
    else firstBool vs

/-- the default of a field without a stored value (second half of `Get`) -/
def defaultOf (jn : JidNorm) (f : Field) : Option Val × Bool :=
  if f.typ = "fixed" then (some (.str ""), false)
  else if f.typ = "boolean" then
    match firstBool f.values with
    | some b => (some (.bool b), true)
    | none => (some (.bool false), false)
  else if f.typ = "text-single" || f.typ = "text-private" || f.typ = "hidden" || f.typ = "list-single" || f.typ = "" then
    match f.values with
    | [] => (some (.str ""), false)
    | v :: _ => (some (.str v), true)
  else if f.typ = "jid-single" then
    match f.values.filterMap jn with
    | [] => (some (.jid ""), false)
    | j :: _ => (some (.jid j), true)
  else if f.typ = "jid-multi" then
    let js := f.values.filterMap jn
    (some (.jids js), !js.isEmpty)
  else if f.typ = "text-multi" then
    (some (.str (joinLines f.values)), !f.values.isEmpty)
  else if f.typ = "list-multi" then
    (some (.strs f.values), !f.values.isEmpty)
  else (none, false)

/-- `Data.Get` -/
def get (jn : JidNorm) (f : Form) (vals : Vals) (id : String) : Option Val × Bool :=
  match lookupVal vals id with
  | some v => (some v, true)
  | none =>
    match findField f.fields id with
    | none => (none, false)
    | some fld => defaultOf jn fld

inductive SetRes
  | ok (found : Bool)
  | err
  deriving DecidableEq, Repr

/-- does the dynamic type of `v` fit a field of type `typ` (`none`: the type is not
checked, `some false`: mismatch) -/
def fits (typ : String) (v : Val) : Option Bool :=
  if typ = "boolean" then some (match v with | .bool _ => true | _ => false)
  else if typ = "text-single" || typ = "text-private" || typ = "hidden" || typ = "list-single" || typ = "text-multi" then
    some (match v with | .str _ => true | _ => false)
  else if typ = "jid-single" then some (match v with | .jid _ => true | _ => false)
  else if typ = "jid-multi" then some (match v with | .jids _ => true | _ => false)
  else if typ = "list-multi" then some (match v with | .strs _ => true | _ => false)
  else none

/-- the type of the first field with that name (`""` when there is none) -/
def fieldTyp (fs : List Field) (id : String) : String :=
  match findField fs id with | some x => x.typ | none => ""

/-- `Data.Set` -/
def set (f : Form) (vals : Vals) (id : String) (v : Val) : SetRes × Vals :=
  if fieldTyp f.fields id = "fixed" then (.err, vals)
  else if fits (fieldTyp f.fields id) v = some false then (.err, vals)
  else (.ok (findField f.fields id).isSome, (id, v) :: vals)

/-- the strings a stored value puts into a field of type `typ` (the type switch of
`Data.TokenReader`) -/
def valStrings (typ : String) : Val → List String
  | .strs l => l
  | .str s => if typ = "text-multi" then lines s else [s]
  | .jid s => [s]
  | .jids l => l
  | .bool b => [if b then "true" else "false"]

/-- one field of a submission: `none` when the field is left out -/
def submitField (jn : JidNorm) (frm : Form) (vals : Vals) (f : Field) : Option Node :=
  if f.typ = "fixed" then none
  else
    let r := get jn frm vals f.var
    if !f.required && !r.2 then none
    else
      let vs := match r.1 with | some v => valStrings f.typ v | none => f.values
      some (encodeField jn { f with values := vs })

/-- the field a submission carries for `f` before it is written (`none`: left out) -/
def submittedField (jn : JidNorm) (frm : Form) (vals : Vals) (f : Field) : Option Field :=
  if f.typ = "fixed" then none
  else
    let r := get jn frm vals f.var
    if !f.required && !r.2 then none
    else some { f with values := match r.1 with | some v => valStrings f.typ v | none => f.values }

def headKids (frm : Form) : List Node :=
  (if frm.title = "" then [] else [leaf ns "title" (normTitle frm.title)])
    ++ (nonEmptyLines frm.instructions).map (leaf ns "instructions")

/-- `Data.TokenReader` -/
def encodeForm (jn : JidNorm) (frm : Form) (vals : Vals) : Node :=
  .elem ⟨ns, "x"⟩ [at' "type" frm.typ]
    (headKids frm ++
      (if frm.typ = "submit" then frm.fields.filterMap (submitField jn frm vals)
       else frm.fields.map (encodeField jn)))

/-- `Data.Submit`: the submission (a fresh form that shares fields and values; title and
instructions are not carried over) and whether every required field has a value -/
def submit (jn : JidNorm) (frm : Form) (vals : Vals) : Node × Bool :=
  let s : Form := { title := "", instructions := "", typ := "submit", fields := frm.fields }
  (encodeForm jn s vals, s.fields.all fun f => !f.required || (get jn s vals f.var).2)

/-! ### reader -/

def attrOrEmpty (as : List Attr) (loc : String) : String :=
  match attrLast as loc with | some v => v | none => ""

def lastText (l : List (List Attr × List Node)) : String :=
  match l.getLast? with | some (_, ks) => textOf ks | none => ""

def decodeOpt (as : List Attr) (ks : List Node) : Opt :=
  ⟨attrOrEmpty as "label", lastText (kidsNamed "value" ks)⟩

/-- `field.UnmarshalXML` followed by the `TypeText` default of `Data.UnmarshalXML` -/
def decodeField (as : List Attr) (ks : List Node) : Field :=
  let t := attrOrEmpty as "type"
  { typ := if t = "" then "text-single" else t
    var := attrOrEmpty as "var"
    label := attrOrEmpty as "label"
    desc := lastText (kidsNamed "desc" ks)
    required := !(kidsNamed "required" ks).isEmpty
    values := (kidsNamed "value" ks).map fun p => textOf p.2
    options := (kidsNamed "option" ks).map fun p => decodeOpt p.1 p.2 }

/-- the token loop of `Data.UnmarshalXML`: `none` is the "unexpected element" error -/
def decodeKids : Form → List Node → Option Form
  | acc, [] => some acc
  | acc, .text _ :: rest => decodeKids acc rest
  | acc, .elem n as ks :: rest =>
    if n.loc = "title" then decodeKids { acc with title := textOf ks } rest
    else if n.loc = "instructions" then
      decodeKids { acc with instructions := accInstr acc.instructions [textOf ks] } rest
    else if n.loc = "field" then decodeKids { acc with fields := acc.fields ++ [decodeField as ks] } rest
    else none

/-- `Data.UnmarshalXML` on the element's tree -/
def decodeForm : Node → Option Form
  | .elem _ as ks =>
    decodeKids ⟨"", "", (match attrLocal as "type" with | some v => v | none => ""), []⟩ ks
  | .text _ => none

/-! ### the documented normal form -/

def canonField (jn : JidNorm) (f : Field) : Field :=
  { f with
    typ := if f.typ = "" then "text-single" else f.typ
    values := wireValues jn f.typ f.values
    options := if isList f.typ then f.options else [] }

def canonForm (jn : JidNorm) (frm : Form) : Form :=
  { title := normTitle frm.title
    instructions := accInstr "" (nonEmptyLines frm.instructions)
    typ := frm.typ
    fields := frm.fields.map (canonField jn) }

/-! ### the form as an object with a history of calls (round E)

`Submit` builds a fresh `Data` that *shares* the field array and the value map of the form it
is called on, and the field loop of `Data.TokenReader` assigns the value to submit to its loop
variable.  Whether that assignment reaches the shared array depends on how the loop reaches the
field: by copy (`for _, f := range d.fields`, the code) or through the slot
(`f := &d.fields[i]`).  The model carries that choice as `LoopMode`, so it can exhibit a
reading call that changes the form (`byRef`); the `fhist` lines tie the real code to `byCopy`. -/

inductive LoopMode
  | byCopy
  | byRef
  deriving DecidableEq, Repr

/-- the field array after the submit loop ran over it through the slots: every field that is
written carries the value that was submitted; `Get` of a later field already sees the change -/
def submitLoopRef (jn : JidNorm) (vals : Vals) : List Field → List Field → List Field
  | done, [] => done
  | done, f :: rest =>
    match submittedField jn ⟨"", "", "submit", done ++ f :: rest⟩ vals f with
    | some f' => submitLoopRef jn vals (done ++ [f']) rest
    | none => submitLoopRef jn vals (done ++ [f]) rest

def fieldsAfterLoop (m : LoopMode) (jn : JidNorm) (fields : List Field) (vals : Vals) : List Field :=
  match m with
  | .byCopy => fields
  | .byRef => submitLoopRef jn vals [] fields

/-- a `*form.Data` between calls: the form as built or decoded, and the value map -/
structure Session where
  frm : Form
  vals : Vals
  deriving DecidableEq, Repr

/-- the calls of the exported API on one form -/
inductive Op
  | set (id : String) (v : Val)
  | get (id : String)
  | submit
  | encode
  deriving DecidableEq, Repr

/-- the state of the form after one call (what the call returns is `set` / `get` / `submit` /
`encodeForm` above) -/
def stepS (m : LoopMode) (jn : JidNorm) (s : Session) : Op → Session
  | .set id v => { s with vals := (set s.frm s.vals id v).2 }
  | .get _ => s
  | .submit => { s with frm := { s.frm with fields := fieldsAfterLoop m jn s.frm.fields s.vals } }
  | .encode =>
    if s.frm.typ = "submit" then
      { s with frm := { s.frm with fields := fieldsAfterLoop m jn s.frm.fields s.vals } }
    else s

def history (m : LoopMode) (jn : JidNorm) (s : Session) (ops : List Op) : Session :=
  ops.foldl (stepS m jn) s

/-- what the `fhist` line observes: `Set` calls, `Get` of every variable, two `Submit`s, and then
the form written again -/
def afterUse (m : LoopMode) (jn : JidNorm) (frm : Form) (sets : List (String × Val)) : Node :=
  let s := history m jn ⟨frm, []⟩
    (sets.map (fun p => Op.set p.1 p.2) ++ frm.fields.map (fun f => Op.get f.var) ++ [.submit, .submit])
  encodeForm jn s.frm []

/-! ### the typed getters (`GetString`, `GetStrings`, `GetBool`, `GetJID`, `GetJIDs`) -/

inductive Kind
  | str | strs | bool | jid | jids
  deriving DecidableEq, Repr

def kindOf : Val → Kind
  | .str _ => .str
  | .strs _ => .strs
  | .bool _ => .bool
  | .jid _ => .jid
  | .jids _ => .jids

/-- `Get` followed by a type assertion; when either fails the zero value and `false` -/
def getTyped (k : Kind) (jn : JidNorm) (f : Form) (vals : Vals) (id : String) : Option Val × Bool :=
  match get jn f vals id with
  | (some v, true) => if kindOf v = k then (some v, true) else (none, false)
  | _ => (none, false)

end XmppModel.Form
