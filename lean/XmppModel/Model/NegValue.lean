import XmppModel.Model.Header
/-!
# One `Negotiator` value serving many sessions (property C12, round E)

`xmpp.NewNegotiator(cfg)` returns a closure; `negotiator.go` says itself that "a Negotiator may be
shared by many sessions" (a server makes one and hands it to `ReceiveSession` for every
connection, c2s and s2s listeners alike).  Everything the closure works out per stream start must
therefore come from the SESSION it is called for (`s.State()`, `s.LocalAddr()`, the
`negotiatorState` threaded through `data`), never from something an earlier session left in a
variable of the closure.

`Sess` is what a session brings: framing, its S2S bit, and the values of the header it is to send.
`memo` is a variable of the closure (the value-level state): `perSession = true` is the code — the
content namespace is worked out from the session's own S2S bit at every stream start and nothing is
kept; `perSession = false` is the variant that works it out "on first use" and keeps it in the
closure.
-/
namespace XmppModel.NegValue
open XmppModel.Header

structure Sess where
  ws : Bool
  s2s : Bool
  id : Str
  to : Str
  src : Str
  lang : Str
  deriving DecidableEq, Repr

/-- the header arguments a session's own state asks for -/
def Sess.own (s : Sess) : HdrArgs := ⟨s.ws, s.s2s, s.id, s.to, s.src, s.lang⟩

/-- one stream start served by the negotiator value: (closure variable afterwards, header
arguments handed to `Send`).  The closure variable holds the S2S decision it remembered. -/
def serve (perSession : Bool) (memo : Option Bool) (s : Sess) : Option Bool × HdrArgs :=
  if perSession then (memo, s.own)
  else
    let k := match memo with
      | some k => k
      | none => s.s2s
    (some k, { s.own with s2s := k })

/-- the sessions one negotiator value serves, in order: the header arguments of each -/
def serveAll (perSession : Bool) : Option Bool → List Sess → List HdrArgs
  | _, [] => []
  | m, s :: ss => (serve perSession m s).2 :: serveAll perSession (serve perSession m s).1 ss

/-- the bytes each session writes -/
def headers (perSession : Bool) (m : Option Bool) (ss : List Sess) : List Str :=
  (serveAll perSession m ss).map printHeader

theorem serveAll_perSession (ss : List Sess) : ∀ m, serveAll true m ss = ss.map Sess.own := by
  induction ss with
  | nil => intro m; rfl
  | cons s ss ih => intro m; simp [serveAll, serve, ih]

end XmppModel.NegValue
