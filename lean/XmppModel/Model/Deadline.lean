/-!
# Deadlines of a connection as seen by a recording `net.Conn`

The probe facts of C04 (`Generated.C04.deadlineProbe`, `sendProbe`) are lists of calls
`(setter, time)` the real context watchers made on a recording connection: setter `0`
`SetDeadline`, `1` `SetReadDeadline`, `2` `SetWriteDeadline`; time `0` the zero time (deadline
cleared), `1` a time in the past, `2` a time in the future.  This module folds such a list into the
state `(read deadline, write deadline)` of the connection, so that the theorems do not depend on
*which* setters the implementation uses (`SetDeadline(t)` and `SetReadDeadline(t);
SetWriteDeadline(t)` are the same thing), only on what state the connection is in.
-/
namespace XmppModel.Deadline

/-- one recorded call: (setter, kind of time) -/
abbrev Call := Nat × Nat

/-- state of the connection: (read deadline, write deadline), each `0` none, `1` past, `2` future -/
abbrev Dl := Nat × Nat

def apply (s : Dl) (c : Call) : Dl :=
  if c.1 = 0 then (c.2, c.2) else if c.1 = 1 then (c.2, s.2) else if c.1 = 2 then (s.1, c.2) else s

/-- the state after a sequence of calls -/
def after (s : Dl) (l : List Call) : Dl := l.foldl apply s

def hasPast (s : Dl) : Bool := s.1 == 1 || s.2 == 1

/-- some deadline is in the past at some point of the sequence (including its start and end) -/
def everPast (s : Dl) : List Call → Bool
  | [] => hasPast s
  | c :: l => hasPast s || everPast (apply s c) l

/-- a row of `deadlineProbe`: (kind of context, mode `0` never done / `1` done at entry / `2` done
during the negotiator call, the negotiator was called, an error was returned, calls seen inside
the negotiator call after the watcher had time to act, calls after it) -/
abbrev Row := Nat × Nat × Bool × Bool × List Call × List Call

/-- what C04 demands of a row: a context that is never done never gets a deadline in the past and the
session is established; a context that is done gives an error, and — unless the library gave up
before calling the negotiator at all — **both** deadlines are in the past while the step runs -/
def rowOk : Row → Bool
  | (_, mode, called, failed, before, aft) =>
    if mode == 0 then !failed && !everPast (0, 0) (before ++ aft)
    else failed && (!called || after (0, 0) before == (1, 1))

/-- the watcher moves the read (`wr = false`) / write (`wr = true`) deadline in every probed situation
in which the context is done -/
def moves (wr : Bool) (t : List Row) : Bool :=
  t.all fun
    | (_, mode, called, _, before, _) =>
      mode == 0 || !called || (if wr then (after (0, 0) before).2 else (after (0, 0) before).1) == 1

/-- every kind of context (`0..3`) × every mode (`0..2`) has a row -/
def covers (t : List Row) : Bool :=
  (List.range 4).all fun k => (List.range 3).all fun m => t.any fun r => r.1 == k && r.2.1 == m

/-- a row of `sendProbe`: (kind of context, mode, the payload was asked for a token, calls seen at
that point, calls after) -/
abbrev SendRow := Nat × Nat × Bool × List Call × List Call

/-- the watcher of `Send`: never a deadline in the past for a live context; the write deadline in the
past while the element is being produced once the context is done -/
def sendRowOk : SendRow → Bool
  | (_, mode, called, before, aft) =>
    if mode == 0 then !everPast (0, 0) (before ++ aft)
    else !called || (after (0, 0) before).2 == 1

end XmppModel.Deadline
