import XmppModel.Prelude.Hex
/-!
# Model of the SASL stream feature (`sasl.go`: `negotiateClient`, `negotiateServer`,
`decodeSASLChallenge`, `sendSASLError`) — property C03

What is modelled: the two loops that drive a `sasl.Negotiator` from the elements a peer
sends, the decision to return the `Authn` bit, the elements written, and which mechanism is
used.  What is a parameter: the mechanism (`Mech`: the result of every `Step` as a function
of the challenges handed to it so far — any deterministic mechanism is such a function),
base64 (payloads arrive classified, see `Payload`), `encoding/xml` (the peer's input is a
list of already classified elements), the permission callback (`perm`).

The peer's script is a finite list; its end is EOF (the read error the library gets when
the peer stops talking).  Write failures and a done context are environments of their own
(`clientNegE`, `serverLoopW`, `serverLoopC`); a `Step` that panics (the mechanism, or the
application's permission callback below it) is an outcome of the mechanism (`StepRes.panic`).
-/
namespace XmppModel.Sasl

/-- character data of a SASL element, classified by what `encoding/base64` makes of it -/
inductive Payload
  | valid (b : Bytes)   -- the padded base64 encoding of `b`
  | empty               -- no character data
  | eq                  -- a single `=` (RFC 6120: "present but empty")
  | short               -- fewer than four base64 characters, not a valid encoding
  | bad                 -- four or more characters that do not decode
  deriving DecidableEq, Repr, Inhabited

/-- `decodeSASLChallenge`: the whole character data goes through `base64.StdEncoding.Decode` -/
def Payload.decodeClient : Payload → Option Bytes
  | .valid b => some b
  | .empty => some []
  | .eq => none
  | .short => none
  | .bad => none

/-- `negotiateServer`: decoded only when `DecodedLen(len) > 1`, i.e. four characters or more -/
def Payload.decodeServer : Payload → Option Bytes
  | .valid b => some b
  | .empty => some []
  | .eq => some []
  | .short => some []
  | .bad => none

inductive StepKind
  | more       -- `more = true, err = nil`
  | done       -- `more = false, err = nil`
  | authnErr   -- `err = sasl.ErrAuthn`
  | otherErr   -- any other error
  deriving DecidableEq, Repr, Inhabited

/-- one invocation of the application's permission callback and its verdict -/
structure PermCall where
  user : Bytes
  pass : Bytes
  ident : Bytes
  verdict : Bool
  deriving DecidableEq, Repr, Inhabited

/-- what a `Step` that does not return panicked with: Go code that recovers tells these
apart by a type assertion (`r.(error)`), so a regression can treat them differently -/
inductive PanicVal
  | errorVal     -- a value that implements `error` (`panic(err)`, runtime errors)
  | stringVal    -- a string (`panic("…")`, `panic(fmt.Sprintf(…))`)
  | otherVal     -- anything else (`panic(42)`)
  deriving DecidableEq, Repr, Inhabited

/-- `panic` is looked at only when `kind = .otherErr`: a `Step` that panics is a `Step` that
failed; the field selects how the failure surfaces (the panic travels up through
`Negotiate`, error `panicked`; or an ordinary error return, `mechErr`), never the outcome. -/
structure StepRes where
  kind : StepKind
  resp : Bytes := []
  perms : List PermCall := []
  panic : Option PanicVal := none
  deriving DecidableEq, Repr, Inhabited

/-- A mechanism: the result of the `Step` call that hands it the last element of the list,
after the earlier elements were handed to the earlier calls.  On the initiating side the
first call (`Step(nil)`, `Start`) has the empty history; on the receiving side the first
call carries the payload of `<auth/>`. -/
abbrev Mech := List Bytes → StepRes

inductive Err
  | none | nomech | unexpected | saslFailure | b64 | authnErr | mechErr | eof | terminated
  | xmlErr      -- the element's content is not well-formed
  | notCalled   -- the element never reached the feature (rejected by the feature dispatch)
  | writeErr    -- writing to the connection failed
  | ctxErr      -- the context was cancelled / its deadline passed
  | panicked    -- a panic raised below `Step` travelled up through `Negotiate`
  deriving DecidableEq, Repr, Inhabited

def Err.toString : Err → String
  | .none => "nil" | .nomech => "nomech" | .unexpected => "unexpected"
  | .saslFailure => "saslfailure" | .b64 => "b64" | .authnErr => "authnerr"
  | .mechErr => "mecherr" | .eof => "eof" | .terminated => "terminated"
  | .xmlErr => "xmlsyntax"
  | .notCalled => "notcalled"
  | .writeErr => "write"
  | .ctxErr => "ctx"
  | .panicked => "panic"

/-- how a failed `Step` (`kind = .otherErr`) surfaces -/
def stepErr (r : StepRes) : Err :=
  match r.panic with
  | some _ => .panicked
  | none => .mechErr

/-- **What an implementation may do with a panic below `Step`.**  `sasl.go` lets it travel up
(every entry `false`); a maintainer may equally recover it and return an error instead.  Both
are fine for C03 as long as the exchange ends there, unauthenticated; `pol v = true` says the
implementation turns a panic with a value of class `v` into an ordinary error.  The guarded
mechanism is what the loops of such an implementation see. -/
def guard (pol : PanicVal → Bool) (m : Mech) : Mech := fun h =>
  match (m h).panic with
  | some v => if pol v then { m h with panic := none } else m h
  | none => m h

def guardCfg (pol : PanicVal → Bool) (cfg : List (String × Mech)) : List (String × Mech) :=
  cfg.map fun nm => (nm.1, guard pol nm.2)

/-! ## initiating side -/

/-- what is inside a `<failure/>` element — it changes which error is returned, never that
the element is a failure -/
inductive FailBody
  | defined      -- one defined condition (`<not-authorized/>` …)
  | empty        -- no child at all
  | unknown      -- a child that is not a defined condition
  | textOnly     -- only a `<text/>`
  | several      -- several conditions
  | foreign      -- a condition element in another namespace
  | malformed    -- content that is not well-formed XML
  deriving DecidableEq, Repr, Inhabited

/-- elements the receiver may send while we negotiate (anything else the XML layer lets
through is one of the two `other` classes) -/
inductive CEv
  | challenge (p : Payload)
  | success (p : Payload)
  | failure (body : FailBody)
  | other      -- an element in the SASL namespace with another name
  | otherNs    -- an element outside the SASL namespace (whatever its local name)
  | space      -- a token that is not a start element (white space between elements)
  deriving DecidableEq, Repr, Inhabited

inductive CSent
  | auth (mech : String) (resp : Bytes)
  | response (resp : Bytes)
  deriving DecidableEq, Repr, Inhabited

structure CRes where
  authn : Bool := false
  err : Err := .none
  used : Option String := none
  sent : List CSent := []
  /-- the challenges handed to `Step` after `Start`, in order -/
  hist : List Bytes := []
  /-- number of peer events read -/
  consumed : Nat := 0
  deriving DecidableEq, Repr, Inhabited

/-- `selectmechanism:` the first mechanism of the client's list whose name is advertised -/
def select (cm : List (String × Mech)) (adv : List String) : Option (String × Mech) :=
  cm.find? (fun m => adv.contains m.1)

/-- the error a `<failure/>` element is returned as: the peer's failure, or the decoder's
error when its content cannot be read — never `nil` -/
def failErr : FailBody → Err
  | .malformed => .xmlErr
  | _ => .saslFailure

def fail (e : Err) (hist : List Bytes) (consumed : Nat) : CRes :=
  { err := e, hist := hist, consumed := consumed }

/-- the element that must close the exchange once the mechanism is done
(`decodeSASLChallenge(d, t, false)`) -/
def readFinal (hist : List Bytes) : List CEv → CRes
  | [] => fail .eof hist 0
  | .success p :: _ =>
    match p.decodeClient with
    | some _ => { authn := true, hist := hist, consumed := 1 }
    | none => fail .b64 hist 1
  | .challenge _ :: _ => fail .unexpected hist 1
  | .failure b :: _ => fail (failErr b) hist 1
  | .other :: _ => fail .unexpected hist 1
  | .otherNs :: _ => fail .unexpected hist 1
  | .space :: _ => fail .unexpected hist 1

def CRes.after (r : CRes) (s : List CSent) : CRes :=
  { r with sent := s ++ r.sent, consumed := r.consumed + 1 }

/-- the `for more { … }` loop; `hist` are the challenges stepped so far and the last step
said `more` -/
def clientLoop (mech : Mech) (hist : List Bytes) : List CEv → CRes
  | [] => fail .eof hist 0
  | .challenge p :: rest =>
    match p.decodeClient with
    | none => fail .b64 hist 1
    | some c =>
      match (mech (hist ++ [c])).kind with
      | .more => (clientLoop mech (hist ++ [c]) rest).after [.response ((mech (hist ++ [c])).resp)]
      | .done => (readFinal (hist ++ [c]) rest).after [.response ((mech (hist ++ [c])).resp)]
      | .authnErr => fail .authnErr (hist ++ [c]) 1
      | .otherErr => fail (stepErr (mech (hist ++ [c]))) (hist ++ [c]) 1
  | .success p :: _ =>
    match p.decodeClient with
    | none => fail .b64 hist 1
    | some c =>
      match (mech (hist ++ [c])).kind with
      | .more => fail .unexpected (hist ++ [c]) 1
      | .done => { authn := true, hist := hist ++ [c], consumed := 1 }
      | .authnErr => fail .authnErr (hist ++ [c]) 1
      | .otherErr => fail (stepErr (mech (hist ++ [c]))) (hist ++ [c]) 1
  | .failure b :: _ => fail (failErr b) hist 1
  | .other :: _ => fail .unexpected hist 1
  | .otherNs :: _ => fail .unexpected hist 1
  | .space :: _ => fail .unexpected hist 1

/-- `negotiateClient` -/
def clientNeg (cm : List (String × Mech)) (adv : List String) (peer : List CEv) : CRes :=
  match select cm adv with
  | none => fail .nomech [] 0
  | some (name, mech) =>
    if name = "" then fail .nomech [] 0 else
    match (mech []).kind with
    | .authnErr => { fail .authnErr [] 0 with used := some name }
    | .otherErr => { fail (stepErr (mech [])) [] 0 with used := some name }
    | .more =>
      let r := clientLoop mech [] peer
      { r with used := some name, sent := .auth name ((mech []).resp) :: r.sent }
    | .done =>
      let r := readFinal [] peer
      { r with used := some name, sent := .auth name ((mech []).resp) :: r.sent }

/-! ### the initiating side in a hostile environment: write failures and cancellation -/

/-- `budget`: how many more SASL elements the connection accepts before every write fails
(`none`: healthy).  `cancelAt`: the context is done once that many elements have been read
inside the `for more` loop (`none`: never) — the loop looks at the context at the top of
every iteration, and nowhere else. -/
structure CEnv where
  budget : Option Nat := none
  cancelAt : Option Nat := none
  deriving DecidableEq, Repr

def CEnv.canWrite (e : CEnv) : Bool := e.budget != some 0
def CEnv.wrote (e : CEnv) : CEnv := { e with budget := e.budget.map (· - 1) }
def CEnv.cancelled (e : CEnv) (i : Nat) : Bool :=
  match e.cancelAt with
  | some k => decide (k ≤ i)
  | none => false

/-- the `for more { … }` loop with the context test, and the flush after every
`<response/>`, made explicit; `i` counts the elements read in the loop -/
def clientLoopE (mech : Mech) : CEnv → Nat → List Bytes → List CEv → CRes
  | env, i, hist, peer =>
    if env.cancelled i then fail .ctxErr hist 0 else
    match peer with
    | [] => fail .eof hist 0
    | .challenge p :: rest =>
      match p.decodeClient with
      | none => fail .b64 hist 1
      | some c =>
        match (mech (hist ++ [c])).kind with
        | .more =>
          if env.canWrite then
            (clientLoopE mech env.wrote (i + 1) (hist ++ [c]) rest).after [.response ((mech (hist ++ [c])).resp)]
          else fail .writeErr (hist ++ [c]) 1
        | .done =>
          if env.canWrite then
            (readFinal (hist ++ [c]) rest).after [.response ((mech (hist ++ [c])).resp)]
          else fail .writeErr (hist ++ [c]) 1
        | .authnErr => fail .authnErr (hist ++ [c]) 1
        | .otherErr => fail (stepErr (mech (hist ++ [c]))) (hist ++ [c]) 1
    | .success p :: _ =>
      match p.decodeClient with
      | none => fail .b64 hist 1
      | some c =>
        match (mech (hist ++ [c])).kind with
        | .more => fail .unexpected (hist ++ [c]) 1
        | .done => { authn := true, hist := hist ++ [c], consumed := 1 }
        | .authnErr => fail .authnErr (hist ++ [c]) 1
        | .otherErr => fail (stepErr (mech (hist ++ [c]))) (hist ++ [c]) 1
    | .failure b :: _ => fail (failErr b) hist 1
    | .other :: _ => fail .unexpected hist 1
    | .otherNs :: _ => fail .unexpected hist 1
    | .space :: _ => fail .unexpected hist 1

/-- `negotiateClient` with the environment: the `<auth/>` element is flushed too -/
def clientNegE (env : CEnv) (cm : List (String × Mech)) (adv : List String) (peer : List CEv) : CRes :=
  match select cm adv with
  | none => fail .nomech [] 0
  | some (name, mech) =>
    if name = "" then fail .nomech [] 0 else
    match (mech []).kind with
    | .authnErr => { fail .authnErr [] 0 with used := some name }
    | .otherErr => { fail (stepErr (mech [])) [] 0 with used := some name }
    | .more =>
      if env.canWrite then
        let r := clientLoopE mech env.wrote 0 [] peer
        { r with used := some name, sent := .auth name ((mech []).resp) :: r.sent }
      else { fail .writeErr [] 0 with used := some name }
    | .done =>
      if env.canWrite then
        let r := readFinal [] peer
        { r with used := some name, sent := .auth name ((mech []).resp) :: r.sent }
      else { fail .writeErr [] 0 with used := some name }

/-! ## receiving side -/

inductive SEv
  | auth (mech : String) (p : Payload)
  | response (p : Payload)
  | abort
  | failure
  | other
  | otherNs
  | space
  deriving DecidableEq, Repr, Inhabited

inductive SSent
  | challenge (resp : Bytes)
  | success (resp : Bytes)
  | failure (cond : String)
  deriving DecidableEq, Repr, Inhabited

/-- the negotiator created by the last `<auth/>`: mechanism name, mechanism, payloads
stepped so far -/
structure SCur where
  name : String
  mech : Mech
  hist : List Bytes

structure SRes where
  authn : Bool := false
  err : Err := .none
  sent : List SSent := []
  perms : List PermCall := []
  consumed : Nat := 0
  /-- the mechanism and history of the negotiator that was stepped last -/
  used : Option String := none
  hist : List Bytes := []
  deriving DecidableEq, Repr, Inhabited

def sfail (e : Err) (sent : List SSent) : SRes := { err := e, sent := sent, consumed := 1 }

def SRes.after (r : SRes) (s : List SSent) (p : List PermCall) : SRes :=
  { r with sent := s ++ r.sent, perms := p ++ r.perms, consumed := r.consumed + 1 }

/-- `serverSupported`: the receiving side neither advertises nor accepts a mechanism whose name
ends in "-PLUS" (the SASL library's server side has no channel binding and panics on it) -/
def serverSupported (name : String) : Bool :=
  -- `strings.HasSuffix(name, "-PLUS")` on the reversed character list (reduces under `decide`)
  !(name.toList.reverse.take 5 == ['S', 'U', 'L', 'P', '-'])

def lookup (cfg : List (String × Mech)) (name : String) : Option (String × Mech) :=
  cfg.find? (fun m => name == m.1 && serverSupported m.1)

/-- the `<mechanisms/>` list the receiving side writes: the configured names it supports, in
the configured order -/
def advertised (cfg : List (String × Mech)) : List String :=
  (cfg.map (·.1)).filter serverSupported

/-- what one peer element does to the receiving loop: end it, or send a challenge and go on
with the (possibly new) negotiator -/
inductive SOut
  | stop (r : SRes)
  | cont (cur : SCur) (resp : Bytes) (perms : List PermCall)

/-- payload decoding, `server.Step`, and the reaction to its result -/
def sstep (name : String) (mech : Mech) (hist : List Bytes) (p : Payload) : SOut :=
  match p.decodeServer with
  | none => .stop { sfail .b64 [] with used := some name, hist := hist }
  | some c =>
    match (mech (hist ++ [c])).kind with
    | .authnErr => .stop
        { sfail .authnErr [.failure "not-authorized"] with
          perms := (mech (hist ++ [c])).perms, used := some name, hist := hist ++ [c] }
    | .otherErr => .stop
        { sfail (stepErr (mech (hist ++ [c]))) [] with
          perms := (mech (hist ++ [c])).perms, used := some name, hist := hist ++ [c] }
    | .more => .cont ⟨name, mech, hist ++ [c]⟩ (mech (hist ++ [c])).resp (mech (hist ++ [c])).perms
    | .done => .stop
        { authn := true, sent := [.success ((mech (hist ++ [c])).resp)],
          perms := (mech (hist ++ [c])).perms, consumed := 1, used := some name, hist := hist ++ [c] }

/-- the dispatch on the element name in `negotiateServer` -/
def sevent (cfg : List (String × Mech)) (cur : Option SCur) : SEv → SOut
  | .failure => .stop (sfail .saslFailure [])
  | .space => .stop (sfail .unexpected [])
  | .abort => .stop (sfail .terminated [.failure "aborted"])
  | .other => .stop (sfail .unexpected [.failure "malformed-request"])
  | .otherNs => .stop (sfail .unexpected [.failure "malformed-request"])
  | .auth name p =>
    match lookup cfg name with
    | none => .stop (sfail .nomech [.failure "invalid-mechanism"])
    | some (n, m) =>
      if n = "" then .stop (sfail .nomech [.failure "invalid-mechanism"]) else sstep n m [] p
  | .response p =>
    match cur with
    | none => .stop (sfail .unexpected [.failure "malformed-request"])
    | some c => sstep c.name c.mech c.hist p

/-- the payloads stepped by the current negotiator; before any `<auth/>` there is no negotiator
and nothing was stepped -/
def curHist : Option SCur → List Bytes
  | some c => c.hist
  | none => []

/-- `negotiateServer`: one iteration per peer element -/
def serverLoop (cfg : List (String × Mech)) (cur : Option SCur) : List SEv → SRes
  | [] => { err := .eof, used := cur.map (·.name), hist := curHist cur }
  | ev :: rest =>
    match sevent cfg cur ev with
    | .stop r => r
    | .cont c resp perms => (serverLoop cfg (some c) rest).after [.challenge resp] perms

def serverNeg (cfg : List (String × Mech)) (peer : List SEv) : SRes := serverLoop cfg none peer

/-- What precedes `negotiateServer` in `negotiateFeatures` (receiving side): the first token
must be a start element whose namespace selects the SASL feature, otherwise the feature's
`Negotiate` is never called. -/
def serverSession (cfg : List (String × Mech)) : List SEv → SRes
  | [] => { err := .notCalled }
  | .space :: _ => { err := .notCalled, consumed := 1 }
  | .otherNs :: _ => { err := .notCalled, consumed := 1 }
  | peer => serverNeg cfg peer

/-- `negotiateServer` on a connection that accepts `budget` more SASL elements and then
fails every write: every element is flushed when it is written (`sendSASLError`, the
challenge, and — since the repair — `<success/>`), and a failed flush ends the exchange
with that error, without the `Authn` bit. -/
def serverLoopW (cfg : List (String × Mech)) : Option SCur → Nat → List SEv → SRes
  | cur, _, [] => { err := .eof, used := cur.map (·.name), hist := curHist cur }
  | cur, budget, ev :: rest =>
    match sevent cfg cur ev with
    | .stop r =>
      if r.sent.length ≤ budget then r
      else { r with authn := false, err := .writeErr, sent := [] }
    | .cont c resp perms =>
      match budget with
      | 0 => { err := .writeErr, perms := perms, consumed := 1, used := some c.name, hist := c.hist }
      | b + 1 => (serverLoopW cfg (some c) b rest).after [.challenge resp] perms

def serverSessionW (cfg : List (String × Mech)) (budget : Nat) : List SEv → SRes
  | [] => { err := .notCalled }
  | .space :: _ => { err := .notCalled, consumed := 1 }
  | .otherNs :: _ => { err := .notCalled, consumed := 1 }
  | peer => serverLoopW cfg none budget peer

/-! ### the receiving side and the negotiation context

`negotiateServer` gets the context of the negotiation.  The code as it is never looks at it; an
implementation may equally test it and give up with the context's error

* at the top of iteration `i` of its loop, before it reads the next element (`top i`) — the
  initiating side does this at every iteration — and/or
* in iteration `i` after the `Step` has succeeded, before it writes its reaction (the
  `<challenge/>`, or the closing `<success/>`) (`mid i`),

at all iterations, at some, or at none: both are arbitrary predicates on the iteration number.
What it must not do is leave the loop any other way: the code below the loop is the success
tail.

The moment the context becomes done is a tick of the clock on which the top test of iteration
`i` is tick `2i` and its mid test is tick `2i+1`: `doneAt = some t` is seen by every test whose
tick is `≥ t`.  So `t = 0`: done before the first element is looked at; `t = 2i+1`: it becomes
done while the element of iteration `i` is read or while its `Step` (the permission callback)
runs; `t = 2i+2`: it becomes done while the reaction of iteration `i` is being written — if
that reaction is `<success/>` no test follows. -/
structure SCtx where
  top : Nat → Bool := fun _ => false
  mid : Nat → Bool := fun _ => false
  doneAt : Option Nat := none

def SCtx.done (c : SCtx) (tick : Nat) : Bool :=
  match c.doneAt with
  | some t => decide (t ≤ tick)
  | none => false

def SCtx.stopsTop (c : SCtx) (i : Nat) : Bool := c.top i && c.done (2 * i)
def SCtx.stopsMid (c : SCtx) (i : Nat) : Bool := c.mid i && c.done (2 * i + 1)

/-- giving up with the context's error after the `Step`: its permission verdicts were recorded,
nothing is written -/
def ctxStop (perms : List PermCall) (used : Option String) (hist : List Bytes) : SRes :=
  { err := .ctxErr, perms := perms, consumed := 1, used := used, hist := hist }

def serverLoopC (cfg : List (String × Mech)) (ctx : SCtx) : Option SCur → Nat → List SEv → SRes
  | cur, i, peer =>
    if ctx.stopsTop i then { err := .ctxErr, used := cur.map (·.name), hist := curHist cur } else
    match peer with
    | [] => { err := .eof, used := cur.map (·.name), hist := curHist cur }
    | ev :: rest =>
      match sevent cfg cur ev with
      | .stop r => if r.authn && ctx.stopsMid i then ctxStop r.perms r.used r.hist else r
      | .cont c resp perms =>
        if ctx.stopsMid i then ctxStop perms (some c.name) c.hist
        else (serverLoopC cfg ctx (some c) (i + 1) rest).after [.challenge resp] perms

def serverSessionC (cfg : List (String × Mech)) (ctx : SCtx) : List SEv → SRes
  | [] => { err := .notCalled }
  | .space :: _ => { err := .notCalled, consumed := 1 }
  | .otherNs :: _ => { err := .notCalled, consumed := 1 }
  | peer => serverLoopC cfg ctx none 0 peer

/-! ## many sessions on one feature value

A receiving entity serves all its connections with one `xmpp.SASLServer(…)` value.  The model
of that is a family of sessions, each with its own peer script, advanced one peer element at
a time in whatever order the scheduler picks.  A session's state is what `negotiateServer`
keeps in local variables (`SCur`, what was written, the permission verdicts); nothing is
shared — which is what `C03_sessions_independent` states and what the concurrent runs and the
regenerated fact `saslClosureWrites` check against the code. -/

/-- one session in small steps -/
inductive SSess
  | running (cur : Option SCur) (rest : List SEv) (sent : List SSent) (perms : List PermCall) (n : Nat)
  | finished (r : SRes)

/-- prefix what was done before the last step to its result -/
def SRes.prefixed (r : SRes) (sent : List SSent) (perms : List PermCall) (n : Nat) : SRes :=
  { r with sent := sent ++ r.sent, perms := perms ++ r.perms, consumed := r.consumed + n }

/-- one scheduling quantum of a session: handle the next peer element -/
def SSess.step (cfg : List (String × Mech)) : SSess → SSess
  | .finished r => .finished r
  | .running cur [] sent perms n =>
    .finished (SRes.prefixed { err := .eof, used := cur.map (·.name), hist := curHist cur } sent perms n)
  | .running cur (ev :: rest) sent perms n =>
    match sevent cfg cur ev with
    | .stop r => .finished (r.prefixed sent perms n)
    | .cont c resp ps => .running (some c) rest (sent ++ [.challenge resp]) (perms ++ ps) (n + 1)

def SSess.start (peer : List SEv) : SSess := .running none peer [] [] 0

/-- the system: the sessions, and a schedule naming which session moves next (an index that
names no session is a stutter) -/
def runSched (cfg : List (String × Mech)) : List SSess → List Nat → List SSess
  | ss, [] => ss
  | ss, i :: sched => runSched cfg (ss.modify i (SSess.step cfg)) sched

/-- a session run alone for `k` quanta -/
def SSess.iter (cfg : List (String × Mech)) : Nat → SSess → SSess
  | 0, s => s
  | k + 1, s => SSess.iter cfg k (s.step cfg)

/-! ## `sasl.Plain` on the receiving side, with the permission callback -/

/-- `bytes.Split(challenge, {0})` -/
def splitZero : Bytes → List Bytes
  | [] => [[]]
  | c :: cs =>
    match splitZero cs with
    | [] => [[c]]  -- unreachable: `splitZero` never returns the empty list
    | p :: ps => if c = 0 then [] :: p :: ps else (c :: p) :: ps

/-- `plain.Next` on a receiving negotiator: only the first step is valid; the challenge must
be `identity NUL username NUL password`; the verdict of the permission callback decides -/
def plainServer (perm : Bytes → Bytes → Bytes → Bool) : Mech := fun hist =>
  match hist with
  | [c] =>
    match splitZero c with
    | [ident, user, pass] =>
      if perm user pass ident then { kind := .done, perms := [⟨user, pass, ident, true⟩] }
      else { kind := .authnErr, perms := [⟨user, pass, ident, false⟩] }
    | _ => { kind := .otherErr }
  | _ => { kind := .otherErr }

/-- PLAIN on the receiving side when the application's permission callback panics (its user
store is unreachable …) instead of returning a verdict: the callback is reached for a
well-formed `identity NUL username NUL password` only, no verdict is recorded -/
def plainServerPanics (v : PanicVal) : Mech := fun hist =>
  match hist with
  | [c] =>
    match splitZero c with
    | [_, _, _] => { kind := .otherErr, panic := some v }
    | _ => { kind := .otherErr }
  | _ => { kind := .otherErr }

end XmppModel.Sasl
