/-!
# The reader / handler wake-up of `ibb.Conn` (C15, C06 "in-band bytestream read")

`Conn.Read` (repaired): under `readLock` test "buffer empty and not closed"; if so release the
lock, wait for a signal on `readReady`, take the lock again and test again (loop).  The handler
appends under `readLock` and then signals with a non-blocking send; closing sets the closed flag
and signals.  `buffered = true`: `readReady` has capacity one (repaired code).  `buffered =
false`: the pinned snapshot — an unbuffered channel, so a signal is only delivered to a reader
that already sits in its receive, and `Read` does not loop.

One reader (concurrent `Read` calls are serialised by the caller in `net.Conn` use; the repaired
code passes the close signal on, which is not modelled).
-/
namespace XmppModel.IbbReader

inductive RPc
  | idle        -- not in Read (or Read has returned)
  | checked     -- saw "empty and open", lock released, not yet in the receive
  | waiting     -- blocked in `<-c.readReady`
  deriving DecidableEq, Repr, Inhabited

structure St where
  buf : Nat          -- bytes in the read buffer
  tok : Bool         -- a signal is waiting in the channel buffer
  closed : Bool
  rpc : RPc
  delivered : Nat    -- bytes handed to the reader so far
  eof : Bool         -- a Read returned end-of-file
  deriving DecidableEq, Repr

def init : St := ⟨0, false, false, .idle, 0, false⟩

inductive Act
  | readStart        -- Read is called: test under the lock
  | enterWait        -- checked → waiting
  | wake             -- the receive completes (needs a signal); test again
  | packet (n : Nat) -- handler: append n bytes, signal
  | close            -- either close path: set the flag, signal
  deriving DecidableEq, Repr

/-- the test at the top of the loop, with the lock held -/
def test (s : St) : St :=
  if s.buf > 0 then { s with rpc := .idle, delivered := s.delivered + s.buf, buf := 0 }
  else if s.closed then { s with rpc := .idle, eof := true }
  else { s with rpc := .checked }

def step (buffered : Bool) (s : St) : Act → Option St
  | .readStart => match s.rpc with
    | .idle => some (test s)
    | _ => none
  | .enterWait => match s.rpc with
    | .checked => some { s with rpc := .waiting }
    | _ => none
  | .wake => match s.rpc with
    | .waiting => if s.tok then some (test { s with tok := false }) else none
    | _ => none
  | .packet n =>
    if buffered then some { s with buf := s.buf + n, tok := true }
    else if s.rpc = .waiting then
      -- unbuffered: the signal is handed to the receiver directly; the snapshot's Read does
      -- not loop, it reads whatever is there
      some (test { s with buf := s.buf + n })
    else some { s with buf := s.buf + n }     -- nobody receives: the signal is dropped
  | .close =>
    if buffered then some { s with closed := true, tok := true }
    else if s.rpc = .waiting then some (test { s with closed := true })
    else some { s with closed := true, tok := true }   -- snapshot closes the channel: every later receive succeeds

inductive Reach (buffered : Bool) : St → Prop
  | init : Reach buffered init
  | step {s s' a} : Reach buffered s → step buffered s a = some s' → Reach buffered s'

end XmppModel.IbbReader
