import XmppModel.Prelude.Hex
/-!
# Stream negotiation (C01, C04)

A small-step machine for `negotiateSession` (session.go), `negotiator` (negotiator.go,
without the tee) and `negotiateFeatures` / `writeStreamFeatures` / `readStreamFeatures`
(features.go), as they are after the `fix:` commits of branch `fix-nego`.

What is a parameter (external behaviour, see `Oracle` and `Peer`):

* the feature callbacks `List`, `Parse`, `Negotiate` (their results: `req`, error, state
  mask, "returned a new ReadWriter");
* the peer: a script of items, one per `Read` of the connection;
* faults: the `k`-th I/O operation of the run (header write, header read, features write,
  features read, selection read) fails when `fault k`;
* Go's map iteration in the initiator's selection loop: a script of picks; a pick that the
  loop could not have made stops the machine in `stuck` (never reached from an observed
  run, see Driver/C01).

Control points (`Pc`) follow the Go code; every step emits at most one event, the trace is
kept newest first.
-/
namespace XmppModel.Negotiate

/-! ### session state bits -/

abbrev St := BitVec 8

def bSecure : St := 1
def bAuthn : St := 2
def bReady : St := 4
def bReceived : St := 8
def bS2S : St := 64

/-- every bit of `a` is set in `b` -/
def sub (a b : St) : Prop := a &&& b = a
instance (a b : St) : Decidable (sub a b) := by unfold sub; infer_instance

/-- all bits of `b` are set in `st` (`st & b == b`) -/
def has (st b : St) : Bool := st &&& b == b

/-! ### configuration -/

/-- `xml.Name` of a feature, abstracted to two numbers (namespace, local name) -/
structure FName where
  ns : Nat
  loc : Nat
  deriving DecidableEq, Repr

/-- the STARTTLS namespace -/
def nsTLS : Nat := 1
/-- reserved namespace of stream-level elements (`stream:stream`, `stream:features`,
`stream:error`, `open`) when they turn up where a selection is read -/
def nsStream : Nat := 0

structure Feature where
  /-- position in the configuration (two configured features may carry the same name) -/
  id : Nat
  name : FName
  nec : St
  proh : St
  /-- `Negotiate != nil` -/
  negotiable : Bool
  deriving DecidableEq, Repr

/-- `(s.state & f.Necessary) == f.Necessary && (s.state & f.Prohibited) == 0` -/
def eligible (st : St) (f : Feature) : Bool :=
  (st &&& f.nec == f.nec) && (st &&& f.proh == 0)

structure NegRes where
  mask : St
  /-- `rw != nil` -/
  restart : Bool
  err : Bool
  deriving DecidableEq, Repr

structure CbRes where
  req : Bool
  err : Bool
  deriving DecidableEq, Repr

/-! ### the peer -/

inductive AdvItem
  /-- a child element of the features list, `req`: it carries `<required/>` -/
  | feat (name : FName) (req : Bool)
  /-- a token that is not an element (character data) -/
  | junk
  deriving DecidableEq, Repr

inductive Peer
  /-- a stream header; `ok = false`: one the header checks reject -/
  | hdr (ok : Bool)
  /-- a well-formed stream header of the other framing: `<open/>` (RFC 7395) on a TCP session,
  `<stream:stream>` on a WebSocket session -/
  | hdrOther
  /-- a features list -/
  | adv (items : List AdvItem)
  /-- any other element (a selection when the receiver reads it); `iq`: wrapped in an IQ,
  `payload = false`: the IQ has no element payload -/
  | elem (name : FName) (iq : Bool) (payload : Bool)
  /-- a stream error -/
  | serr
  /-- a token that is not a start element -/
  | nonStart
  deriving DecidableEq, Repr

inductive ErrCls
  | io | cb | policy | streamErr | proto
  deriving DecidableEq, Repr

/-- an entry of the features cache: the feature and whether the list marked it mandatory -/
structure Entry where
  req : Bool
  f : Feature
  deriving DecidableEq, Repr

/-! ### events -/

inductive RdKind | hdr | list | sel
  deriving DecidableEq, Repr

inductive RdRes | got | eof | fault
  deriving DecidableEq, Repr

/-- the I/O operations of negotiation that can block -/
inductive IoOp
  | hdrOut | hdrIn | listOut (st : St) (fs : List Feature) | listRd | selRd
  deriving DecidableEq, Repr

/-- is it a write -/
def IoOp.wr : IoOp → Bool
  | .hdrOut | .listOut _ _ => true
  | _ => false

inductive Ev
  /-- stream header written (`ok = false`: the write failed) -/
  | hdrOut (ok : Bool)
  /-- one read of the connection -/
  | rd (k : RdKind) (r : RdRes)
  /-- `List` callback of `f` at state `st` -/
  | listCall (f : Feature) (st : St) (r : CbRes)
  /-- features list written at state `st` with the features `fs` -/
  | listOut (st : St) (fs : List Feature) (ok : Bool)
  /-- a `List` callback failed: the deferred `Close` of the token writer flushes the
  unfinished list (the result of that write is ignored) -/
  | listAbort (ok : Bool)
  /-- `Parse` callback -/
  | parse (f : Feature) (st : St) (req : Bool) (err : Bool)
  /-- the initiator finished reading a features list `adv`: what it cached (model-internal,
  not observable) -/
  | listIn (st : St) (fs : List Feature) (adv : List AdvItem) (es : List Entry)
  /-- `Negotiate` callback of `f` at state `st`; `req`: the cache entry was mandatory;
  `forced`: the unconditional STARTTLS attempt; `srv`: receiving side -/
  | neg (f : Feature) (st : St) (req forced srv : Bool) (r : NegRes)
  /-- the receiver refused a selection (no callback ran) -/
  | refuse (name : FName)
  /-- the read or write of the connection behind `op` does not complete: the peer is silent,
  resp. does not read -/
  | blocked (op : IoOp)
  deriving DecidableEq, Repr

/-- External behaviour.  The `Nat` argument of the callbacks is the length of the trace at
the call, so a callback may answer differently on every call. -/
structure Oracle where
  neg : Nat → Feature → St → NegRes
  list : Nat → Feature → St → CbRes
  /-- does `Parse` return an error (its `req` comes from the peer's advertisement) -/
  parseErr : Nat → Feature → St → Bool
  /-- the `k`-th I/O operation fails -/
  fault : Nat → Bool
  /-- the context is done once the trace is this one: `ctx.Done()` fires, whatever made it fire (a
  cancel function, an expiring deadline or timeout, a cancelled parent, done at entry). The watcher
  then puts the deadline of the connection in the past: every I/O operation fails -/
  cancel : List Ev → Bool
  /-- the `k`-th I/O operation blocks: it only returns when its deadline passes -/
  block : Nat → Bool
  /-- which deadlines of the connection the context watcher (`setDeadline`) moves into the past
  when the context is done: the read deadline, the write deadline (a property of the code, tied
  to the source by the regenerated fact `Generated.C04.deadlineSetters`) -/
  dlRd : Bool
  dlWr : Bool
  /-- does a restarting `Negotiate` return a new connection layer (as STARTTLS does) rather than
  the session's current connection (as SASL does); only matters when a tee is configured: a new
  layer is not a `teeConn`, so the negotiator wraps it again -/
  layer : Nat → Feature → Bool

/-! ### machine -/

abbrev Cache := List Entry

/-- `cache[ns] = e` -/
def Cache.put (c : Cache) (e : Entry) : Cache :=
  e :: c.filter (fun x => x.f.name.ns != e.f.name.ns)

/-- `cache[ns]` -/
def Cache.get (c : Cache) (ns : Nat) : Option Entry :=
  c.find? (fun x => x.f.name.ns == ns)

inductive Pc
  /-- loop head of `negotiateSession` -/
  | top
  /-- header exchange, first and second half -/
  | hdr1 | hdr2
  /-- entry of `negotiateFeatures` -/
  | feat
  /-- `writeStreamFeatures`: features still to look at -/
  | listing (todo : List Feature)
  /-- `writeStreamFeatures`: flush -/
  | flush
  /-- `writeStreamFeatures`: a `List` callback failed, deferred flush of the unfinished list -/
  | abort
  /-- initiator: read the features start token -/
  | readList
  /-- `readStreamFeatures` loop -/
  | parsing (items : List AdvItem)
  /-- initiator: forced STARTTLS / empty list / nothing cached -/
  | decide
  /-- initiator selection loop head -/
  | cloop (forced : Bool)
  /-- receiver selection loop head: read a selection -/
  | sloop
  /-- receiver: the element just read is looked up -/
  | selected (item : Peer)
  /-- after the loop: the ready decision -/
  | tail (mask : St) (restart : Bool)
  /-- back in `negotiateSession` with the negotiator's result -/
  | ret (mask : St) (restart : Bool)
  | done
  | fail (c : ErrCls)
  /-- the library panicked (never reached: kept so that the driver can name the outcome) -/
  | crash
  /-- inside a blocked read / write; when its deadline passes the operation fails: event `ev`,
  outcome `fail cls` -/
  | blocked (op : IoOp)
  /-- the call never returns: blocked in a read / write whose deadline does not pass -/
  | hung (wr : Bool)
  /-- `negotiateSession` got the `teeConn` back from the negotiator (only entered by `stepT`) -/
  | tee
  /-- the pick script does not describe a possible map iteration -/
  | stuck
  deriving DecidableEq, Repr

structure Conf where
  pc : Pc
  st : St
  /-- `s.negotiated` (namespaces) -/
  negd : List Nat
  /-- events, newest first -/
  tr : List Ev
  /-- number of I/O operations so far -/
  io : Nat
  script : List Peer
  picks : List FName
  doRestart : Bool
  first : Bool
  /-- role of the current negotiator call -/
  srv : Bool
  cache : Cache
  lreq : Bool
  total : Nat
  /-- receiver: features written so far into the current list -/
  listed : List Feature
  /-- initiator: the features list being read / read last (ghost: only recorded in `listIn`) -/
  curAdv : List AdvItem
  /-- initiator: configured features of the current list whose masks did not hold when the
  list was read (`streamFeaturesList.skipped`) -/
  skipped : List Entry
  deriving Repr

def Conf.log (c : Conf) (e : Ev) : Conf := { c with tr := e :: c.tr }
def Conf.goto (c : Conf) (p : Pc) : Conf := { c with pc := p }

def init (st0 : St) (script : List Peer) (picks : List FName) : Conf :=
  { pc := .top, st := st0, negd := [], tr := [], io := 0, script := script, picks := picks,
    doRestart := true, first := true, srv := false, cache := [], lreq := false, total := 0,
    listed := [], curAdv := [], skipped := [] }

/-- a read fails at once: injected fault, or the context is done and the read deadline was
moved into the past -/
def rdFails (O : Oracle) (c : Conf) : Bool := O.fault c.io || (O.cancel c.tr && O.dlRd)

/-- a write fails at once -/
def wrFails (O : Oracle) (c : Conf) : Bool := O.fault c.io || (O.cancel c.tr && O.dlWr)

/-- enter a blocked read / write -/
def Conf.block (c : Conf) (op : IoOp) : Conf :=
  { c with io := c.io + 1, tr := .blocked op :: c.tr, pc := .blocked op }

/-- a blocked operation returns only if the context is done and the watcher moved *its*
deadline into the past; it then fails (event `ev`); otherwise the call never returns -/
def unblock (O : Oracle) (c : Conf) (wr : Bool) (ev : Ev) : Conf :=
  if O.cancel c.tr && (if wr then O.dlWr else O.dlRd) then { c with tr := ev :: c.tr, pc := .fail .io }
  else c.goto (.hung wr)

/-- `intstream.Send` -/
def writeHdr (O : Oracle) (c : Conf) (next : Pc) : Conf :=
  if wrFails O c then { c with io := c.io + 1, tr := .hdrOut false :: c.tr, pc := .fail .io }
  else if O.block c.io then c.block .hdrOut
  else { c with io := c.io + 1, tr := .hdrOut true :: c.tr, pc := next }

/-- `intstream.Expect` and the address checks of `negotiator` -/
def readHdr (O : Oracle) (c : Conf) (next : Pc) : Conf :=
  -- `Expect` looks at `ctx.Done()` before it reads
  if O.cancel c.tr then c.goto (.fail .io)
  else if O.fault c.io then { c with io := c.io + 1, tr := .rd .hdr .fault :: c.tr, pc := .fail .io }
  else if O.block c.io then c.block .hdrIn
  else match c.script with
    | [] => { c with io := c.io + 1, tr := .rd .hdr .eof :: c.tr, pc := .fail .io }
    | .hdr true :: r => { c with io := c.io + 1, tr := .rd .hdr .got :: c.tr, script := r, pc := next }
    | .serr :: r => { c with io := c.io + 1, tr := .rd .hdr .got :: c.tr, script := r, pc := .fail .streamErr }
    | _ :: r => { c with io := c.io + 1, tr := .rd .hdr .got :: c.tr, script := r, pc := .fail .proto }

/-- the call of `Negotiate` and what the selection loop does with its result -/
def negotiate (O : Oracle) (c : Conf) (e : Entry) (forced : Bool) (loop : Pc) : Conf :=
  let r := O.neg c.tr.length e.f c.st
  let c1 := c.log (.neg e.f c.st e.req forced c.srv r)
  if r.err then c1.goto (.fail .cb)
  else
    let c2 := { c1 with st := c.st ||| r.mask, negd := e.f.name.ns :: c.negd }
    if r.restart || e.req then c2.goto (.tail r.mask r.restart) else c2.goto loop

/-- entries of the cache the initiator's loop does not skip -/
def candidates (c : Conf) : List Entry :=
  c.cache.filter fun e => e.f.negotiable && !c.negd.contains e.f.name.ns && eligible c.st e.f

/-- a mandatory, negotiable feature that was skipped when the list was read is eligible now
and not negotiated -/
def skippedOpen (c : Conf) : Bool :=
  c.skipped.any fun e => e.req && e.f.negotiable && !c.negd.contains e.f.name.ns && eligible c.st e.f

/-- what the map iteration can end on: the first voluntary candidate met, else the last
mandatory one -/
def allowed (cands : List Entry) : List Entry :=
  if cands.any (fun e => !e.req) then cands.filter (fun e => !e.req) else cands

/-- the configured feature of the forced STARTTLS attempt (`containsStartTLS`) -/
def tlsFeature (C : List Feature) : Option Feature := C.find? (fun f => f.name.ns == nsTLS)

/-- name under which a peer item is looked up when the receiver reads it as a selection -/
def Peer.selName : Peer → Option (FName × Bool × Bool)
  | .hdr _ => some (⟨nsStream, 0⟩, false, true)
  | .hdrOther => some (⟨nsStream, 3⟩, false, true)
  | .adv _ => some (⟨nsStream, 1⟩, false, true)
  | .serr => some (⟨nsStream, 2⟩, false, true)
  | .elem n iq p => some (n, iq, p)
  | .nonStart => none

def step (C : List Feature) (O : Oracle) (c : Conf) : Conf :=
  match c.pc with
  | .top =>
    if has c.st bReady then c.goto .done
    else
      let c := { c with srv := has c.st bReceived }
      if c.doRestart then c.goto .hdr1 else c.goto .feat
  | .hdr1 => if c.srv then readHdr O c .hdr2 else writeHdr O c .hdr2
  | .hdr2 => if c.srv then writeHdr O c .feat else readHdr O c .feat
  | .feat =>
    let c := { c with cache := [], lreq := false, total := 0, listed := [], skipped := [] }
    if c.srv then c.goto (.listing C) else c.goto .readList
  | .listing [] => c.goto .flush
  | .listing (f :: fs) =>
    if eligible c.st f then
      let r := O.list c.tr.length f c.st
      let c1 := c.log (.listCall f c.st r)
      if r.err then c1.goto .abort
      else { c1 with cache := c.cache.put ⟨r.req, f⟩, lreq := c.lreq || r.req, total := c.total + 1,
                     listed := c.listed ++ [f], pc := .listing fs }
    else c.goto (.listing fs)
  | .flush =>
    if wrFails O c then
      { c with io := c.io + 1, tr := .listOut c.st c.listed false :: c.tr, pc := .fail .io }
    else if O.block c.io then c.block (.listOut c.st c.listed)
    else { c with io := c.io + 1, tr := .listOut c.st c.listed true :: c.tr, pc := .sloop }
  | .abort =>
    -- (a blocked deferred flush is not modelled: this write never blocks)
    { c with io := c.io + 1, tr := .listAbort (!wrFails O c) :: c.tr,
             pc := .fail .cb }
  | .readList =>
    if rdFails O c then { c with io := c.io + 1, tr := .rd .list .fault :: c.tr, pc := .fail .io }
    else if O.block c.io then c.block .listRd
    else match c.script with
      | [] => { c with io := c.io + 1, tr := .rd .list .eof :: c.tr, pc := .fail .io }
      | .adv items :: r =>
        { c with io := c.io + 1, tr := .rd .list .got :: c.tr, script := r, pc := .parsing items,
                 curAdv := items }
      | .serr :: r =>
        { c with io := c.io + 1, tr := .rd .list .got :: c.tr, script := r, pc := .fail .streamErr }
      | _ :: r => { c with io := c.io + 1, tr := .rd .list .got :: c.tr, script := r, pc := .fail .proto }
  | .parsing [] => (c.log (.listIn c.st (c.cache.map (·.f)) c.curAdv c.cache)).goto .decide
  | .parsing (.junk :: _) => c.goto (.fail .proto)
  | .parsing (.feat name req :: rest) =>
    let c := { c with total := c.total + 1 }
    match C.find? (fun f => f.name == name) with
    | none => c.goto (.parsing rest)
    | some f =>
      let perr := O.parseErr c.tr.length f c.st
      let c1 := c.log (.parse f c.st req perr)
      if perr then c1.goto (.fail .cb)
      else
        let c2 := { c1 with lreq := c.lreq || req }
        if eligible c.st f then { c2 with cache := c.cache.put ⟨req, f⟩, pc := .parsing rest }
        else { c2 with skipped := c.skipped ++ [⟨req, f⟩], pc := .parsing rest }
  | .decide =>
    let forced := c.first && !(c.cache.get nsTLS).isSome && !has c.st bSecure &&
      (match tlsFeature C with
       | some f => f.negotiable && eligible c.st f
       | none => false)
    if forced then c.goto (.cloop true)
    else if c.total == 0 then c.goto (.ret bReady false)
    else if c.cache.isEmpty then c.goto (.fail .proto)
    else c.goto (.cloop false)
  | .cloop true =>
    match tlsFeature C, c.picks with
    | some f, p :: ps =>
      if p = f.name then negotiate O { c with picks := ps } ⟨true, f⟩ true (.cloop false)
      else c.goto .stuck
    | _, _ => c.goto .stuck
  | .cloop false =>
    let cands := candidates c
    if cands.isEmpty then
      -- nothing left to pick: success, unless a mandatory feature that was skipped when the
      -- list was read has become possible in the meantime
      if skippedOpen c then c.goto (.fail .proto) else c.goto (.ret bReady false)
    else match c.picks with
      | [] => c.goto .stuck
      | p :: ps =>
        match (allowed cands).find? (fun e => e.f.name == p) with
        | none => c.goto .stuck
        | some e => negotiate O { c with picks := ps } e false (.cloop false)
  | .sloop =>
    if rdFails O c then { c with io := c.io + 1, tr := .rd .sel .fault :: c.tr, pc := .fail .io }
    else if O.block c.io then c.block .selRd
    else match c.script with
      | [] => { c with io := c.io + 1, tr := .rd .sel .eof :: c.tr, pc := .fail .io }
      | item :: r =>
        { c with io := c.io + 1, tr := .rd .sel .got :: c.tr, script := r, pc := .selected item }
  | .selected item =>
    match item.selName with
    | none => c.goto (.fail .proto)
    | some (name, iq, payload) =>
      if iq && !payload then c.goto (.fail .proto)
      else match c.cache.get name.ns with
        | none => (c.log (.refuse name)).goto (.fail .policy)
        | some e =>
          if c.negd.contains name.ns || !e.f.negotiable || !eligible c.st e.f then
            (c.log (.refuse name)).goto (.fail .policy)
          else negotiate O c e false .sloop
  | .tail mask restart =>
    if !c.lreq && !restart then c.goto (.ret (mask ||| bReady) restart) else c.goto (.ret mask restart)
  | .ret mask restart =>
    -- `negotiateSession` looks at `ctx.Err()` after every negotiator call
    if O.cancel c.tr then c.goto (.fail .io) else
    { c with st := c.st ||| mask, negd := if restart then [] else c.negd,
             doRestart := restart, first := false, pc := .top }
  | .done => c
  | .fail _ => c
  | .crash => c
  | .blocked .hdrOut => unblock O c true (.hdrOut false)
  | .blocked .hdrIn => unblock O c false (.rd .hdr .fault)
  | .blocked (.listOut st fs) => unblock O c true (.listOut st fs false)
  | .blocked .listRd => unblock O c false (.rd .list .fault)
  | .blocked .selRd => unblock O c false (.rd .sel .fault)
  | .hung _ => c
  | .tee => c
  | .stuck => c

/-- a configuration of a session whose `StreamConfig` may carry `TeeIn`/`TeeOut`: the
configuration and whether the session's connection currently is a `teeConn` -/
structure TConf where
  c : Conf
  teed : Bool
  deriving Repr

/-- did the `Negotiate` call logged last return a new connection layer -/
def layerOfLast (O : Oracle) : List Ev → Bool
  | .neg f _ _ _ _ _ :: rest => O.layer rest.length f
  | _ => false

/-- One step of a session whose `StreamConfig` may carry a tee (`tee`): before anything else a
negotiator call wraps a connection that is not yet a `teeConn` and returns it (no mask, no
I/O); `negotiateSession` checks the context, installs it (clearing `s.negotiated`) and calls the
negotiator again. Everything else is `step`; a restart with a new connection layer (which is not
a `teeConn`) makes the next negotiator call wrap again. -/
def stepT (tee : Bool) (C : List Feature) (O : Oracle) (t : TConf) : TConf :=
  if t.c.pc = .tee then
    if O.cancel t.c.tr then ⟨t.c.goto (.fail .io), t.teed⟩
    else ⟨{ t.c with negd := [], pc := .top }, true⟩
  else if tee ∧ t.c.pc = .top ∧ has t.c.st bReady = false ∧ t.teed = false then ⟨t.c.goto .tee, t.teed⟩
  else ⟨step C O t.c,
        match t.c.pc with
        | .ret _ true => if layerOfLast O t.c.tr then false else t.teed
        | _ => t.teed⟩

def runT (tee : Bool) (C : List Feature) (O : Oracle) : Nat → TConf → TConf
  | 0, t => t
  | n + 1, t => runT tee C O n (stepT tee C O t)

def run (C : List Feature) (O : Oracle) : Nat → Conf → Conf
  | 0, c => c
  | n + 1, c => run C O n (step C O c)

def Pc.final : Pc → Bool
  | .done | .fail _ | .crash | .stuck | .hung _ | .tee => true
  | _ => false

/-! ### a stream configuration that depends on the session

`negotiator` (negotiator.go) calls the function it was built from — `cfg = f(s, &cfg)` — in
**every** negotiator call, after the header exchange (if any) and before `negotiateFeatures`; the
features it returns may depend on the session (`NewNegotiator` documents this).  The session state
does not change between that call and the end of the features list that is written or read, but a
non-restarting mandatory feature changes it before the *next* list of the same stream.  `F st` is
the list of features the function returns for a session in state `st`; `DConf.cfg` is the
`StreamConfig` of the current negotiator call (`nState.cfg`). -/

structure DConf where
  c : Conf
  cfg : List Feature
  deriving Repr

/-- the configuration in force for the step from `c`: looked up afresh at the entry of
`negotiateFeatures`, otherwise the one of the current negotiator call -/
def cfgAt (F : St → List Feature) (c : Conf) (cur : List Feature) : List Feature :=
  if c.pc = .feat then F c.st else cur

def stepD (F : St → List Feature) (O : Oracle) (d : DConf) : DConf :=
  ⟨step (cfgAt F d.c d.cfg) O d.c, cfgAt F d.c d.cfg⟩

def runD (F : St → List Feature) (O : Oracle) : Nat → DConf → DConf
  | 0, d => d
  | n + 1, d => runD F O n (stepD F O d)

def initD (F : St → List Feature) (st0 : St) (script : List Peer) (picks : List FName) : DConf :=
  ⟨init st0 script picks, F st0⟩

/-- the same with a tee in the `StreamConfig` -/
structure DTConf where
  t : TConf
  cfg : List Feature
  deriving Repr

def stepDT (tee : Bool) (F : St → List Feature) (O : Oracle) (d : DTConf) : DTConf :=
  ⟨stepT tee (cfgAt F d.t.c d.cfg) O d.t, cfgAt F d.t.c d.cfg⟩

end XmppModel.Negotiate
