import XmppModel.Model.Payload
import XmppModel.Model.Form
/-!
# C19 — the smaller payload codecs

Most payload types are *flat records*: an element whose attributes and text-only child
elements carry the fields (`version.Query`, `oob.Data`, `info.Identity`, `items.Item`,
`roster.Item`, `paging.RequestNext`, `commands.Command`, …).  They are described by a
`Schema`; one encoder, one decoder and one round-trip theorem cover all of them.  Field
values travel in their wire form (numbers, booleans, JIDs and times are formatted/parsed by
`strconv`, `jid` and `time`, which are parameters of the property: the harness formats the
typed value with the real function when it builds the line).

Composite payloads (`disco.Info` with its lists and extension forms, the roster query with
its items, `paging.Set` with an attribute on a child) have their own small codecs below.

Trees are written as a decoder sees them (children inherit the root's namespace, attributes
sorted by name — the schemas list attribute fields in that order).
-/
namespace XmppModel.Payloads
open XmppModel XmppModel.Xml XmppModel.Payload

/-! ### flat records -/

inductive FS
  | attr (sp loc : String) (om : Bool)   -- attribute; `om`: left out when empty
  | child (loc : String) (om : Bool)     -- `<loc>text</loc>`; `om`: left out when empty
  | kids (loc : String)                    -- repeated `<loc>text</loc>`
  | text                                   -- the element's own character data
  deriving DecidableEq, Repr, Inhabited

inductive FV
  | one (s : String)
  | many (l : List String)
  deriving DecidableEq, Repr, Inhabited

structure Schema where
  root : Name
  fields : List FS
  deriving Repr, Inhabited

def fitsFS : FS → FV → Bool
  | .attr .., .one _ => true
  | .child .., .one _ => true
  | .kids _, .many _ => true
  | .text, .one _ => true
  | _, _ => false

def encAttrs : FS → FV → List Attr
  | .attr sp loc om, .one s => if om && s = "" then [] else [⟨⟨sp, loc⟩, s⟩]
  | _, _ => []

def encKids (sp : String) : FS → FV → List Node
  | .child loc om, .one s => if om && s = "" then [] else [leaf sp loc s]
  | .kids loc, .many l => l.map (leaf sp loc)
  | .text, .one s => textKid s
  | _, _ => []

def allAttrs : List FS → List FV → List Attr
  | f :: fs, v :: vs => encAttrs f v ++ allAttrs fs vs
  | _, _ => []

def allKids (sp : String) : List FS → List FV → List Node
  | f :: fs, v :: vs => encKids sp f v ++ allKids sp fs vs
  | _, _ => []

/-- the writer of a flat record -/
def encRec (s : Schema) (vs : List FV) : Node :=
  .elem s.root (allAttrs s.fields vs) (allKids s.root.space s.fields vs)

def attrOrEmpty (as : List Attr) (loc : String) : String :=
  match attrLast as loc with | some v => v | none => ""

def lastText (l : List (List Attr × List Node)) : String :=
  match l.getLast? with | some (_, ks) => textOf ks | none => ""

def decFS (as : List Attr) (ks : List Node) : FS → FV
  | .attr _ loc _ => .one (attrOrEmpty as loc)
  | .child loc _ => .one (lastText (kidsNamed loc ks))
  | .kids loc => .many ((kidsNamed loc ks).map fun p => textOf p.2)
  | .text => .one (textOf ks)

/-- the reader of a flat record (`xml.Unmarshal` with struct tags, or the hand-written
attribute loops): the element name is checked, every field is read independently -/
def decRec (s : Schema) : Node → Option (List FV)
  | .elem n as ks => if n = s.root then some (s.fields.map (decFS as ks)) else none
  | .text _ => none

def wellTyped : List FS → List FV → Bool
  | [], [] => true
  | f :: fs, v :: vs => fitsFS f v && wellTyped fs vs
  | _, _ => false

def attrLocs : List FS → List String
  | [] => []
  | .attr _ loc _ :: fs => loc :: attrLocs fs
  | _ :: fs => attrLocs fs

def kidLocs : List FS → List String
  | [] => []
  | .child loc _ :: fs => loc :: kidLocs fs
  | .kids loc :: fs => loc :: kidLocs fs
  | _ :: fs => kidLocs fs

def textCount : List FS → Nat
  | [] => 0
  | .text :: fs => textCount fs + 1
  | _ :: fs => textCount fs

/-- field names are pairwise distinct (per kind) and at most one field is the character data -/
def Schema.ok (s : Schema) : Bool :=
  (attrLocs s.fields).Nodup && (kidLocs s.fields).Nodup && decide (textCount s.fields ≤ 1)

/-! ### the schemas of the library's flat payload types -/

def nsXML := "http://www.w3.org/XML/1998/namespace"

def schemas : List (String × Schema) := [
  ("disco.InfoQuery", ⟨⟨"http://jabber.org/protocol/disco#info", "query"⟩, [.attr "" "node" true]⟩),
  ("disco.ItemsQuery", ⟨⟨"http://jabber.org/protocol/disco#items", "query"⟩, [.attr "" "node" true]⟩),
  ("info.Feature", ⟨⟨"http://jabber.org/protocol/disco#info", "feature"⟩, [.attr "" "var" false]⟩),
  ("info.Identity", ⟨⟨"http://jabber.org/protocol/disco#info", "identity"⟩,
    [.attr "" "category" false, .attr "" "name" true, .attr "" "type" false, .attr nsXML "lang" true]⟩),
  ("items.Item", ⟨⟨"http://jabber.org/protocol/disco#items", "item"⟩,
    [.attr "" "jid" false, .attr "" "name" true, .attr "" "node" true]⟩),
  ("disco.Caps", ⟨⟨"http://jabber.org/protocol/caps", "c"⟩,
    [.attr "" "hash" false, .attr "" "node" false, .attr "" "ver" false]⟩),
  ("paging.RequestNext", ⟨⟨"http://jabber.org/protocol/rsm", "set"⟩, [.child "max" true, .child "after" true]⟩),
  ("paging.RequestPrev", ⟨⟨"http://jabber.org/protocol/rsm", "set"⟩, [.child "before" false, .child "max" true]⟩),
  ("paging.RequestIndex", ⟨⟨"http://jabber.org/protocol/rsm", "set"⟩, [.child "index" false, .child "max" false]⟩),
  ("roster.Item", ⟨⟨"", "item"⟩,
    [.attr "" "jid" true, .attr "" "name" true, .attr "" "subscription" true, .kids "group"]⟩),
  ("version.Query", ⟨⟨"jabber:iq:version", "query"⟩, [.child "name" true, .child "version" true, .child "os" true]⟩),
  ("oob.Query", ⟨⟨"jabber:iq:oob", "query"⟩, [.child "url" false, .child "desc" true]⟩),
  ("oob.Data", ⟨⟨"jabber:x:oob", "x"⟩, [.child "url" false, .child "desc" true]⟩),
  ("stanza.ID", ⟨⟨"urn:xmpp:sid:0", "stanza-id"⟩, [.attr "" "by" false, .attr "" "id" false]⟩),
  ("stanza.OriginID", ⟨⟨"urn:xmpp:sid:0", "origin-id"⟩, [.attr "" "id" false]⟩),
  ("commands.Command", ⟨⟨"http://jabber.org/protocol/commands", "command"⟩,
    [.attr "" "action" true, .attr "" "jid" true, .attr "" "name" true, .attr "" "node" false, .attr "" "sessionid" true]⟩),
  ("upload.File", ⟨⟨"urn:xmpp:http:upload:0", "request"⟩,
    [.attr "" "content-type" true, .attr "" "filename" false, .attr "" "size" false]⟩),
  ("xtime.Time", ⟨⟨"urn:xmpp:time", "time"⟩, [.child "tzo" false, .child "utc" false]⟩),
  ("delay.Delay", ⟨⟨"urn:xmpp:delay", "delay"⟩, [.attr "" "from" true, .attr "" "stamp" false, .text]⟩),
  ("stanza.Delay", ⟨⟨"urn:xmpp:delay", "delay"⟩, [.attr "" "from" false, .attr "" "stamp" false, .text]⟩),
  ("commands.Note", ⟨⟨"", "note"⟩, [.attr "" "type" false, .text]⟩),
  ("bin.Data", ⟨⟨"urn:xmpp:bob", "data"⟩, [.attr "" "cid" true, .attr "" "max-age" true, .attr "" "type" true, .text]⟩),
  ("crypto.Hash", ⟨⟨"urn:xmpp:hashes:2", "hash-used"⟩, [.attr "" "algo" false]⟩),
  ("crypto.HashOutput", ⟨⟨"urn:xmpp:hashes:2", "hash"⟩, [.attr "" "algo" false, .text]⟩),
  ("styling.Unstyled", ⟨⟨"urn:xmpp:styling:0", "unstyled"⟩, []⟩),
  ("receipts.Requested", ⟨⟨"urn:xmpp:receipts", "request"⟩, []⟩),
  ("muc.Invitation(direct)", ⟨⟨"jabber:x:conference", "x"⟩,
    [.attr "" "continue" true, .attr "" "jid" false, .attr "" "password" true, .attr "" "reason" true, .attr "" "thread" true]⟩),
  ("commands.Response", ⟨⟨"http://jabber.org/protocol/commands", "command"⟩,
    [.attr "" "node" false, .attr "" "sessionid" false, .attr "" "status" false]⟩),
  ("muc.Item", ⟨⟨"", "item"⟩,
    -- `jid,attr,omitempty` on a struct type: encoding/xml never omits it
    [.attr "" "affiliation" true, .attr "" "jid" false, .attr "" "nick" true, .attr "" "role" true, .child "reason" false]⟩)
]

def schemaOf (name : String) : Option Schema := (schemas.find? (·.1 = name)).map (·.2)

/-! ### composite payloads -/

/-- `paging.Set`: `<set><first index=…>id</first><last>…</last><count>…</count></set>`; numbers in
wire form, `none` = absent -/
structure RSet where
  first : String
  index : Option String
  last : String
  count : Option String
  deriving DecidableEq, Repr, Inhabited

def nsRSM := "http://jabber.org/protocol/rsm"

def encRSet (s : RSet) : Node :=
  .elem ⟨nsRSM, "set"⟩ []
    ([.elem ⟨nsRSM, "first"⟩ (match s.index with | some i => [at' "index" i] | none => []) (textKid s.first),
      leaf nsRSM "last" s.last]
     ++ (match s.count with | some c => [leaf nsRSM "count" c] | none => []))

def lastKid (l : List (List Attr × List Node)) : Option (List Attr × List Node) := l.getLast?

def decRSet : Node → Option RSet
  | .elem n _ ks =>
    if n = ⟨nsRSM, "set"⟩ then
      let f := lastKid (kidsNamed "first" ks)
      some { first := match f with | some (_, k) => textOf k | none => ""
             index := match f with | some (as, _) => attrLast as "index" | none => none
             last := lastText (kidsNamed "last" ks)
             count := (lastKid (kidsNamed "count" ks)).map fun p => textOf p.2 }
    else none
  | .text _ => none

/-- the roster query: `<query ver=…><item …/>…</query>` (`roster.IQ` without the IQ wrapper) -/
structure RosterItem where
  jid : String
  name : String
  subscription : String
  groups : List String
  deriving DecidableEq, Repr, Inhabited

structure RosterQuery where
  ver : String
  items : List RosterItem
  deriving DecidableEq, Repr, Inhabited

def nsRoster := "jabber:iq:roster"

def optAt (loc v : String) : List Attr := if v = "" then [] else [at' loc v]

def encRosterItem (i : RosterItem) : Node :=
  .elem ⟨nsRoster, "item"⟩ (optAt "jid" i.jid ++ optAt "name" i.name ++ optAt "subscription" i.subscription)
    (i.groups.map (leaf nsRoster "group"))

def decRosterItem (as : List Attr) (ks : List Node) : RosterItem :=
  { jid := attrOrEmpty as "jid", name := attrOrEmpty as "name", subscription := attrOrEmpty as "subscription"
    groups := (kidsNamed "group" ks).map fun p => textOf p.2 }

def encRosterQuery (q : RosterQuery) : Node :=
  .elem ⟨nsRoster, "query"⟩ [at' "ver" q.ver] (q.items.map encRosterItem)

def decRosterQuery : Node → Option RosterQuery
  | .elem n as ks =>
    if n = ⟨nsRoster, "query"⟩ then
      some { ver := attrOrEmpty as "ver", items := (kidsNamed "item" ks).map fun p => decRosterItem p.1 p.2 }
    else none
  | .text _ => none

/-- `disco.Info` (after the `fix:` commit: extension forms are written) -/
structure Identity where
  category : String
  name : String
  typ : String
  lang : String
  deriving DecidableEq, Repr, Inhabited

structure Info where
  node : String
  identities : List Identity
  features : List String
  forms : List Form.Form
  deriving DecidableEq, Repr, Inhabited

def nsInfo := "http://jabber.org/protocol/disco#info"

def encIdentity (i : Identity) : Node :=
  .elem ⟨nsInfo, "identity"⟩
    ([at' "category" i.category] ++ optAt "name" i.name ++ [at' "type" i.typ]
      ++ (if i.lang = "" then [] else [⟨⟨nsXML, "lang"⟩, i.lang⟩])) []

def decIdentity (as : List Attr) : Identity :=
  { category := attrOrEmpty as "category", name := attrOrEmpty as "name", typ := attrOrEmpty as "type"
    lang := attrOrEmpty as "lang" }

def encFeature (v : String) : Node := .elem ⟨nsInfo, "feature"⟩ [at' "var" v] []

/-- `Info.TokenReader`: features, identities, then the extension forms -/
def encInfo (jn : Form.JidNorm) (i : Info) : Node :=
  .elem ⟨nsInfo, "query"⟩ (optAt "node" i.node)
    (i.features.map encFeature ++ i.identities.map encIdentity
      ++ i.forms.map fun f => Form.encodeForm jn f [])

/-- children named `{jabber:x:data}x`, decoded as forms; `none` if one of them fails -/
def decForms : List Node → Option (List Form.Form)
  | [] => some []
  | .elem n as ks :: rest =>
    if n = ⟨Form.ns, "x"⟩ then do
      let f ← Form.decodeForm (.elem n as ks)
      let fs ← decForms rest
      pure (f :: fs)
    else decForms rest
  | .text _ :: rest => decForms rest

def decInfo : Node → Option Info
  | .elem n as ks =>
    if n = ⟨nsInfo, "query"⟩ then do
      let fs ← decForms ks
      pure { node := attrOrEmpty as "node"
             identities := (kidsNamed "identity" ks).map fun p => decIdentity p.1
             features := (kidsNamed "feature" ks).map fun p => attrOrEmpty p.1 "var"
             forms := fs }
    else none
  | .text _ => none

end XmppModel.Payloads
