import XmppModel.Model.Payload
/-! # C19 — the smaller payload codecs (result sets, disco, roster, …) -/
namespace XmppModel.Payloads
open XmppModel XmppModel.Xml XmppModel.Payload

def encLine (_codec : String) (_fields : List String) : Option String := none
def decLine (_codec : String) (_ts : List Tok) : Option String := none

end XmppModel.Payloads
