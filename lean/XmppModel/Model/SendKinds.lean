import XmppModel.Model.SendLts
import XmppModel.Model.Encoder
/-!
# The kinds of transmit calls of session.go over the send LTS — property C05 (round G)

`Model/SendLts.lean` has one shape of call (`Lock; write…; Unlock`).  session.go has four, and
they differ in WHEN the lock is taken and in what happens between two writes:

* `oneShot` — `send` (Send, SendElement and the IQ/message/presence families), `Encode`,
  `EncodeElement`, `sendError`: `s.out.Lock()` first, the whole element, flush, unlock;
* `handle` — `TokenWriter()`: the lock is taken when the handle is made and given back by its
  `Close`; between two `EncodeToken`s runs arbitrary USER code (`Act.idle`);
* `serveIter` — one iteration of `handleInputStream`: the handler gets a `responseChecker` around
  ONE `deferWriter`; the lock is taken lazily by the first `EncodeToken` (`deferWriter.EncodeToken`
  → `s.TokenWriter()`), the handler's reply tokens and — when the handler did not answer a get/set
  IQ — the automatic `service-unavailable` reply go through that SAME writer, and the deferred
  `w.Close()` gives the lock back when the iteration returns.  So the block of the iteration is
  `reply ++ auto`, written under one lock tenure, with reading / handler code (`Act.idle`) before
  and in between; an iteration that writes nothing never touches the lock;
* `streamErr` — `Serve`'s `sendError` after a failed iteration: a locked one-shot call.

`Act.idle i` is a step of call `i` that does not touch the output (user code, the handler
reading its payload, `getIDTyp`, …): always enabled.  `waits i = some (k, j)`: the code that runs
in call `i` after its `k`-th item is itself a transmit call `j` on the same session and call `i`
goes on only when `j` has returned (`C05_holder_send_self_deadlocks`).
-/
namespace XmppModel.SendKinds
open XmppModel.SendLts

inductive Kind
  | oneShot
  | handle
  | serveIter
  | streamErr
  deriving DecidableEq, Repr

inductive Act
  | go (i : Nat)
  | idle (i : Nat)
  deriving DecidableEq, Repr

structure Prog (α : Type) where
  kind : Nat → Kind
  /-- handler reply tokens of a serve iteration (other kinds: the element) -/
  reply : Nat → List α
  /-- the automatic reply of a serve iteration (`[]` when the handler answered or none is due) -/
  auto : Nat → List α
  waits : Nat → Option (Nat × Nat)

/-- what call `i` writes during its one tenure of the lock -/
def Prog.job {α : Type} (p : Prog α) (i : Nat) : List α :=
  match p.kind i with
  | .serveIter => p.reply i ++ p.auto i
  | _ => p.reply i

/-- is call `i` held up by a transmit call it made itself -/
def blockedOn {α : Type} (p : Prog α) (s : St α) (i : Nat) : Bool :=
  match p.waits i, s.pc i with
  | some (k, j), .holding k' => k == k' && s.pc j != .done
  | _, _ => false

def step {α : Type} (p : Prog α) (s : St α) : Act → Option (St α)
  | .idle _ => some s
  | .go i =>
    if p.kind i == .serveIter && (p.job i).isEmpty then none   -- the lazy writer is never made
    else if blockedOn p s i then none
    else SendLts.step p.job (fun _ => true) s i

def run {α : Type} (p : Prog α) (s : St α) : List Act → St α
  | [] => s
  | a :: as =>
    match step p s a with
    | some s' => run p s' as
    | none => run p s as

/-! ### what one iteration of the serve loop writes (session.go `handleInputStream`, after the
round E fixes of the serve loop)

The handler writes through `responseChecker` → `deferWriter` → `lockWriteCloser`.  The
`lockWriteCloser` counts the nesting of the tokens the output ACCEPTED (`depth`) and remembers
a refused token (`refused`); the `responseChecker` notes a response (`wroteResp`) only for an
accepted token.  After the handler has returned nil:

* `w.abandoned()`: a refused token or `depth ≠ 0` ⇒ the iteration returns `errOutputBroken`
  BEFORE the automatic reply: nothing is written after an element the handler left open, `Serve`
  ends the session;
* otherwise, for a get/set IQ the handler did not answer, the automatic reply is written through
  the same writer.

`reply` is the list of accepted tokens (the encoder never accepts an end tag without its start,
so "`depth ≠ 0`" is `depthAfter 0 reply ≠ some 0`). -/

open XmppModel.Xml XmppModel.Encoder in
/-- `responseChecker.EncodeToken`: a start token at level < 1 that is an IQ of type result/error
carrying the id of the request -/
def wroteResp (id : String) : Int → List Tok → Bool
  | _, [] => false
  | lvl, .start n as :: ts =>
    let r := getIDTyp as 0 none false "" ""
    (decide (lvl < 1) && kindName .iq n && r.2.1 == id && (r.2.2 == "result" || r.2.2 == "error"))
      || wroteResp id (lvl + 1) ts
  | lvl, .stop _ :: ts => wroteResp id (lvl - 1) ts
  | lvl, _ :: ts => wroteResp id lvl ts

open XmppModel.Xml in
/-- the handler left the output in the middle of an element (`deferWriter.abandoned`) -/
def abandoned (reply : List Tok) (refused : Bool) : Bool := refused || depthAfter 0 reply != some 0

open XmppModel.Xml in
/-- tokens of one serve iteration and whether it ends the session (`errOutputBroken`) -/
def serveIter (needsResp : Bool) (id : String) (reply : List Tok) (refused : Bool) (auto : List Tok) :
    List Tok × Bool :=
  if abandoned reply refused then (reply, true)
  else if needsResp && !wroteResp id 0 reply then (reply ++ auto, false)
  else (reply, false)

open XmppModel.Xml in
/-- the serve loop before that rule: the automatic reply is written whenever it is due -/
def serveIterNoCheck (needsResp : Bool) (id : String) (reply : List Tok) (auto : List Tok) : List Tok :=
  if needsResp && !wroteResp id 0 reply then reply ++ auto else reply

end XmppModel.SendKinds
