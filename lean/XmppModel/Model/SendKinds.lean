import XmppModel.Model.SendLts
/-!
# The kinds of transmit calls of session.go over the send LTS — property C05 (round G)

`Model/SendLts.lean` has one shape of call (`Lock; write…; Unlock`).  session.go has four, and
they differ in WHEN the lock is taken and in what happens between two writes:

* `oneShot` — `send` (Send, SendElement and the IQ/message/presence families), `Encode`,
  `EncodeElement`, `sendError`: `s.out.Lock()` first, the whole element, flush, unlock;
* `handle` — `TokenWriter()`: the lock is taken when the handle is made and given back by its
  `Close`; between two `EncodeToken`s runs arbitrary USER code (`Act.idle`);
* `serveIter` — one iteration of `handleInputStream`: the handler gets a `responseChecker` around
  ONE `deferWriter`; the lock is taken lazily by the first `EncodeToken` (`deferWriter.EncodeToken`
  → `s.TokenWriter()`), the handler's reply tokens and — when the handler did not answer a get/set
  IQ — the automatic `service-unavailable` reply go through that SAME writer, and the deferred
  `w.Close()` gives the lock back when the iteration returns.  So the block of the iteration is
  `reply ++ auto`, written under one lock tenure, with reading / handler code (`Act.idle`) before
  and in between; an iteration that writes nothing never touches the lock;
* `streamErr` — `Serve`'s `sendError` after a failed iteration: a locked one-shot call.

`Act.idle i` is a step of call `i` that does not touch the output (user code, the handler
reading its payload, `getIDTyp`, …): always enabled.  `waits i = some (k, j)`: the code that runs
in call `i` after its `k`-th item is itself a transmit call `j` on the same session and call `i`
goes on only when `j` has returned (`C05_holder_send_self_deadlocks`).
-/
namespace XmppModel.SendKinds
open XmppModel.SendLts

inductive Kind
  | oneShot
  | handle
  | serveIter
  | streamErr
  deriving DecidableEq, Repr

inductive Act
  | go (i : Nat)
  | idle (i : Nat)
  deriving DecidableEq, Repr

structure Prog (α : Type) where
  kind : Nat → Kind
  /-- handler reply tokens of a serve iteration (other kinds: the element) -/
  reply : Nat → List α
  /-- the automatic reply of a serve iteration (`[]` when the handler answered or none is due) -/
  auto : Nat → List α
  waits : Nat → Option (Nat × Nat)

/-- what call `i` writes during its one tenure of the lock -/
def Prog.job {α : Type} (p : Prog α) (i : Nat) : List α :=
  match p.kind i with
  | .serveIter => p.reply i ++ p.auto i
  | _ => p.reply i

/-- is call `i` held up by a transmit call it made itself -/
def blockedOn {α : Type} (p : Prog α) (s : St α) (i : Nat) : Bool :=
  match p.waits i, s.pc i with
  | some (k, j), .holding k' => k == k' && s.pc j != .done
  | _, _ => false

def step {α : Type} (p : Prog α) (s : St α) : Act → Option (St α)
  | .idle _ => some s
  | .go i =>
    if p.kind i == .serveIter && (p.job i).isEmpty then none   -- the lazy writer is never made
    else if blockedOn p s i then none
    else SendLts.step p.job (fun _ => true) s i

def run {α : Type} (p : Prog α) (s : St α) : List Act → St α
  | [] => s
  | a :: as =>
    match step p s a with
    | some s' => run p s' as
    | none => run p s as

end XmppModel.SendKinds
