import XmppModel.Model.Payload
import XmppModel.Model.Form
import XmppModel.Model.Payloads
/-!
# C19 — nested payload codecs (second batch)

blocklist items with reports, bookmarks, MAM `fin` and query, mediated MUC invitations,
ad-hoc command actions, upload slots, file metadata, trust messages, forwarding / carbons
wrappers, pubsub publish / retract payloads.  Same conventions as `Model/Payloads.lean`:
trees as a decoder sees them (inherited namespaces, attributes sorted by name, no empty
character data); numbers, booleans, JIDs, URLs, times and base64 travel in wire form.
-/
namespace XmppModel.Payloads
open XmppModel XmppModel.Xml XmppModel.Payload

def lastKids (loc : String) (ks : List Node) : Option (List Attr × List Node) := (kidsNamed loc ks).getLast?

/-! ### blocklist item with an optional abuse report (`blocklist/blocking.go`) -/

structure BlockItem where
  jid : String
  reason : String
  ids : List (String × String)   -- stanza ids: (by, id)
  text : String
  deriving DecidableEq, Repr, Inhabited

def nsReporting := "urn:xmpp:reporting:1"
def nsSid := "urn:xmpp:sid:0"
def reasonSpam := "urn:xmpp:reporting:spam"

def encSid (p : String × String) : Node := .elem ⟨nsSid, "stanza-id"⟩ [at' "by" p.1, at' "id" p.2] []

def hasReport (b : BlockItem) : Bool := b.reason ≠ "" || !b.ids.isEmpty || b.text ≠ ""

/-- `Item.TokenReader`: a report is written when any of its parts is set; a missing reason is spam -/
def encBlockItem (b : BlockItem) : Node :=
  .elem ⟨"", "item"⟩ [at' "jid" b.jid]
    (if hasReport b then
      [.elem ⟨nsReporting, "report"⟩ [at' "reason" (if b.reason = "" then reasonSpam else b.reason)]
        (b.ids.map encSid ++ (if b.text = "" then [] else [leaf nsReporting "text" b.text]))]
     else [])

def decSid (as : List Attr) : String × String := (attrOrEmpty as "by", attrOrEmpty as "id")

/-- `Item.UnmarshalXML` (struct tags: `jid` attribute, the `report` child with its reason,
stanza ids and text) -/
def decBlockItem : Node → Option BlockItem
  | .elem _ as ks =>
    let rep := lastKids "report" ks
    some { jid := attrOrEmpty as "jid"
           reason := match rep with | some (ra, _) => attrOrEmpty ra "reason" | none => ""
           ids := match rep with | some (_, rk) => (kidsNamed "stanza-id" rk).map fun p => decSid p.1 | none => []
           text := match rep with | some (_, rk) => lastText (kidsNamed "text" rk) | none => "" }
  | .text _ => none

def canonBlockItem (b : BlockItem) : BlockItem :=
  { b with reason := if hasReport b && b.reason = "" then reasonSpam else b.reason }

/-! ### bookmarks (`bookmarks/channel.go`) -/

structure Bookmark where
  autojoin : String   -- "true" / "false"
  name : String
  nick : String
  password : String
  extensions : List Node   -- raw XML kept by the application
  deriving Repr, Inhabited

def nsBookmarks := "urn:xmpp:bookmarks:1"

def encBookmark (c : Bookmark) : Node :=
  .elem ⟨nsBookmarks, "conference"⟩ ([at' "autojoin" c.autojoin] ++ optAt "name" c.name)
    ((if c.nick = "" then [] else [leaf nsBookmarks "nick" c.nick])
      ++ (if c.password = "" then [] else [leaf nsBookmarks "password" c.password])
      ++ (if c.extensions.isEmpty then [] else [.elem ⟨nsBookmarks, "extensions"⟩ [] c.extensions]))

def decBookmark : Node → Option Bookmark
  | .elem n as ks =>
    if n = ⟨nsBookmarks, "conference"⟩ then
      some { autojoin := attrOrEmpty as "autojoin", name := attrOrEmpty as "name"
             nick := lastText (kidsNamed "nick" ks), password := lastText (kidsNamed "password" ks)
             extensions := match lastKids "extensions" ks with | some (_, ek) => ek | none => [] }
    else none
  | .text _ => none

/-! ### MAM result metadata (`history/fin.go`) -/

structure Fin where
  complete : String   -- "true" / "false"
  stable : String
  set : RSet
  deriving DecidableEq, Repr, Inhabited

def nsMam := "urn:xmpp:mam:2"

def encFin (f : Fin) : Node :=
  .elem ⟨nsMam, "fin"⟩ [at' "complete" f.complete, at' "stable" f.stable] [encRSet f.set]

/-- `Result.UnmarshalXML`: the two attributes, then the first token must start the set -/
def decFin : Node → Option Fin
  | .elem _ as ks =>
    match ks with
    | .elem n sa sk :: _ =>
      (decRSet (.elem n sa sk)).map fun s =>
        { complete := attrOrEmpty as "complete", stable := attrOrEmpty as "stable", set := s }
    | _ => none
  | .text _ => none

/-! ### MAM query (`history/query.go`): a submitted data form, a result set request, flip-page -/

structure MamQuery where
  id : String
  withJid : String      -- "" = no filter; otherwise the JID's normal form
  start : String        -- wire form of the time, "" = unset
  stop : String
  beforeId : String
  afterId : String
  ids : List String
  limit : String        -- decimal, "" = 0
  last : Bool
  page : String
  reverse : Bool
  deriving DecidableEq, Repr, Inhabited

open Form in
def mamForm : Form :=
  ⟨"", "", "form",
    [⟨"hidden", "FORM_TYPE", "", "", false, [nsMam], []⟩, ⟨"jid-single", "with", "", "", false, [], []⟩,
     ⟨"text-single", "start", "", "", false, [], []⟩, ⟨"text-single", "end", "", "", false, [], []⟩,
     ⟨"text-single", "after-id", "", "", false, [], []⟩, ⟨"text-single", "before-id", "", "", false, [], []⟩,
     ⟨"list-multi", "ids", "", "", false, [], []⟩]⟩

open Form in
/-- the `Set` calls of `Query.TokenReader`, most recent first -/
def mamVals (q : MamQuery) : Vals :=
  (if q.ids.isEmpty then [] else [("ids", Val.strs q.ids)])
  ++ (if q.beforeId = "" then [] else [("before-id", Val.str q.beforeId)])
  ++ (if q.afterId = "" then [] else [("after-id", Val.str q.afterId)])
  ++ (if q.stop = "" then [] else [("end", Val.str q.stop)])
  ++ (if q.start = "" then [] else [("start", Val.str q.start)])
  ++ (if q.withJid = "" then [] else [("with", Val.jid q.withJid)])

def mamSetKids (q : MamQuery) : List Node :=
  if q.last then [leaf nsRSM "before" q.page] ++ (if q.limit = "" then [] else [leaf nsRSM "max" q.limit])
  else (if q.limit = "" then [] else [leaf nsRSM "max" q.limit]) ++ (if q.page = "" then [] else [leaf nsRSM "after" q.page])

def encMamSet (q : MamQuery) : Node := .elem ⟨nsRSM, "set"⟩ [] (mamSetKids q)

def encMamQuery (jn : Form.JidNorm) (q : MamQuery) : Node :=
  .elem ⟨nsMam, "query"⟩ [at' "queryid" q.id]
    ([(Form.submit jn mamForm (mamVals q)).1, encMamSet q]
      ++ (if q.reverse then [.elem ⟨nsMam, "flip-page"⟩ [] []] else []))

def strOf : Option Form.Val × Bool → String
  | (some (.str s), true) => s
  | (some (.jid s), true) => s
  | _ => ""

def strsOf : Option Form.Val × Bool → List String
  | (some (.strs l), true) => l
  | _ => []

/-- `Query.UnmarshalXML`: the form's values are read back with `Get`; a missing form is an
empty one (the `fix:` commit) -/
def decMamQuery (jn : Form.JidNorm) : Node → Option MamQuery
  | .elem n as ks =>
    if n = ⟨nsMam, "query"⟩ then do
      let frm ← match lastKids "x" ks with
        | some (fa, fk) => Form.decodeForm (.elem ⟨Form.ns, "x"⟩ fa fk)
        | none => some ⟨"", "", "form", []⟩
      let set := lastKids "set" ks
      let setKids := match set with | some (_, sk) => sk | none => []
      let last := !(kidsNamed "before" setKids).isEmpty
      pure { id := attrOrEmpty as "queryid"
             withJid := strOf (Form.get jn frm [] "with")
             start := strOf (Form.get jn frm [] "start")
             stop := strOf (Form.get jn frm [] "end")
             beforeId := strOf (Form.get jn frm [] "before-id")
             afterId := strOf (Form.get jn frm [] "after-id")
             ids := strsOf (Form.get jn frm [] "ids")
             limit := lastText (kidsNamed "max" setKids)
             last := last
             page := if last then lastText (kidsNamed "before" setKids) else lastText (kidsNamed "after" setKids)
             reverse := !(kidsNamed "flip-page" ks).isEmpty }
    else none
  | .text _ => none

/-! ### mediated MUC invitation (`muc/invites.go`) -/

structure Mediated where
  to : String
  reason : String
  cont : Bool
  thread : String
  password : String
  deriving DecidableEq, Repr, Inhabited

def nsMucUser := "http://jabber.org/protocol/muc#user"

def encMediated (i : Mediated) : Node :=
  .elem ⟨nsMucUser, "x"⟩ []
    ([.elem ⟨nsMucUser, "invite"⟩ [at' "to" i.to]
        ((if i.cont then [.elem ⟨nsMucUser, "continue"⟩ (optAt "thread" i.thread) []] else [])
          ++ (if i.reason = "" then [] else [leaf nsMucUser "reason" i.reason]))]
      ++ (if i.password = "" then [] else [leaf nsMucUser "password" i.password]))

def decMediated : Node → Option Mediated
  | .elem n _ ks =>
    if n = ⟨nsMucUser, "x"⟩ then
      let inv := lastKids "invite" ks
      let ik := match inv with | some (_, k) => k | none => []
      let c := lastKids "continue" ik
      some { to := match inv with | some (ia, _) => attrOrEmpty ia "to" | none => ""
             reason := lastText (kidsNamed "reason" ik)
             cont := c.isSome
             thread := match c with | some (ca, _) => attrOrEmpty ca "thread" | none => ""
             password := lastText (kidsNamed "password" ks) }
    else none
  | .text _ => none

def canonMam (q : MamQuery) : MamQuery := { q with ids := q.ids.filter (· ≠ "") }

def canonMediated (i : Mediated) : Mediated := { i with thread := if i.cont then i.thread else "" }

/-! ### ad-hoc command actions (`commands/actions.go`) -/

structure Actions where
  execute : String   -- "", "prev", "next", "complete"
  prev : Bool
  next : Bool
  complete : Bool
  deriving DecidableEq, Repr, Inhabited

def flag (b : Bool) (loc : String) : List Node := if b then [.elem ⟨"", loc⟩ [] []] else []

def encActions (a : Actions) : Node :=
  .elem ⟨"", "actions"⟩ (optAt "execute" a.execute) (flag a.complete "complete" ++ flag a.next "next" ++ flag a.prev "prev")

def decActions : Node → Option Actions
  | .elem _ as ks =>
    let e := attrOrEmpty as "execute"
    some { execute := if e = "prev" ∨ e = "next" ∨ e = "complete" then e else ""
           prev := !(kidsNamed "prev" ks).isEmpty, next := !(kidsNamed "next" ks).isEmpty
           complete := !(kidsNamed "complete" ks).isEmpty }
  | .text _ => none

def validActions (a : Actions) : Bool :=
  a.execute = "" || a.execute = "prev" || a.execute = "next" || a.execute = "complete"

/-! ### upload slot (`upload/upload.go`) -/

structure Slot where
  put : String
  headers : List (String × String)   -- (canonical name, value), only the three allowed names
  get : String
  deriving DecidableEq, Repr, Inhabited

def nsUpload := "urn:xmpp:http:upload:0"

def encHeader (h : String × String) : Node := .elem ⟨nsUpload, "header"⟩ [at' "name" h.1] (textKid h.2)

def encSlot (s : Slot) : Node :=
  .elem ⟨nsUpload, "slot"⟩ []
    [.elem ⟨nsUpload, "get"⟩ [at' "url" s.get] [], .elem ⟨nsUpload, "put"⟩ [at' "url" s.put] (s.headers.map encHeader)]

def allowedHeader (n : String) : Bool := n = "Authorization" || n = "Cookie" || n = "Expires"

def decSlot : Node → Option Slot
  | .elem n _ ks =>
    if n = ⟨nsUpload, "slot"⟩ then
      let put := lastKids "put" ks
      some { put := match put with | some (pa, _) => attrOrEmpty pa "url" | none => ""
             headers := match put with
               | some (_, pk) => ((kidsNamed "header" pk).map fun p => (attrOrEmpty p.1 "name", textOf p.2)).filter
                   fun h => allowedHeader h.1
               | none => []
             get := match lastKids "get" ks with | some (ga, _) => attrOrEmpty ga "url" | none => "" }
    else none
  | .text _ => none

/-! ### file metadata (`file/metadata.go`, after the `fix:` commits: optional hash) -/

structure FileMeta where
  mediaType : String
  name : String
  date : String
  size : String
  hash : Option (String × String)   -- (algorithm, base64 of the output)
  width : String
  height : String
  length : String
  deriving DecidableEq, Repr, Inhabited

def nsFile := "urn:xmpp:file:metadata:0"
def nsHashes := "urn:xmpp:hashes:2"

def encFileMeta (m : FileMeta) : Node :=
  .elem ⟨nsFile, "file"⟩ []
    ([leaf nsFile "date" m.date]
      ++ (match m.hash with | some (a, o) => [.elem ⟨nsHashes, "hash"⟩ [at' "algo" a] (textKid o)] | none => [])
      ++ [leaf nsFile "height" m.height, leaf nsFile "length" m.length, leaf nsFile "media-type" m.mediaType,
          leaf nsFile "name" m.name, leaf nsFile "size" m.size, leaf nsFile "width" m.width])

def decFileMeta : Node → Option FileMeta
  | .elem n _ ks =>
    if n = ⟨nsFile, "file"⟩ then
      some { mediaType := lastText (kidsNamed "media-type" ks), name := lastText (kidsNamed "name" ks)
             date := lastText (kidsNamed "date" ks), size := lastText (kidsNamed "size" ks)
             hash := (lastKids "hash" ks).map fun p => (attrOrEmpty p.1 "algo", textOf p.2)
             width := lastText (kidsNamed "width" ks), height := lastText (kidsNamed "height" ks)
             length := lastText (kidsNamed "length" ks) }
    else none
  | .text _ => none

/-! ### trust messages (`crypto/trustmsg.go`) -/

structure TKey where
  trusted : Bool
  id : String   -- base64
  deriving DecidableEq, Repr, Inhabited

structure Owner where
  jid : String
  keys : List TKey
  deriving DecidableEq, Repr, Inhabited

structure TrustMsg where
  usage : String
  encryption : String
  owners : List Owner
  deriving DecidableEq, Repr, Inhabited

def nsTrust := "urn:xmpp:tm:1"

def encKey (sp : String) (k : TKey) : Node := .elem ⟨sp, if k.trusted then "trust" else "distrust"⟩ [] (textKid k.id)

/-- `Key.UnmarshalXML`: any other element name is an error -/
def decKey : Node → Option TKey
  | .elem n _ ks =>
    if n.loc = "trust" then some ⟨true, textOf ks⟩
    else if n.loc = "distrust" then some ⟨false, textOf ks⟩
    else none
  | .text _ => none

def encOwner (sp : String) (o : Owner) : Node := .elem ⟨sp, "key-owner"⟩ [at' "jid" o.jid] (o.keys.map (encKey sp))

/-- every element child must be a key (`,any`), character data is skipped -/
def decKeys : List Node → Option (List TKey)
  | [] => some []
  | .text _ :: rest => decKeys rest
  | .elem n as ks :: rest => do
    let k ← decKey (.elem n as ks)
    let r ← decKeys rest
    pure (k :: r)

def decOwner : Node → Option Owner
  | .elem n as ks => if n.loc = "key-owner" then (decKeys ks).map fun l => ⟨attrOrEmpty as "jid", l⟩ else none
  | .text _ => none

def encTrustMsg (t : TrustMsg) : Node :=
  .elem ⟨nsTrust, "trust-message"⟩ [at' "encryption" t.encryption, at' "usage" t.usage] (t.owners.map (encOwner nsTrust))

def decOwners : List Node → Option (List Owner)
  | [] => some []
  | .text _ :: rest => decOwners rest
  | .elem n as ks :: rest =>
    if n.loc = "key-owner" then do
      let o ← decOwner (.elem n as ks)
      let r ← decOwners rest
      pure (o :: r)
    else decOwners rest

def decTrustMsg : Node → Option TrustMsg
  | .elem _ as ks => (decOwners ks).map fun l => ⟨attrOrEmpty as "usage", attrOrEmpty as "encryption", l⟩
  | .text _ => none

/-! ### forwarding and carbons (`forward/forward.go`, `carbons/carbons.go`) -/

def nsForward := "urn:xmpp:forward:0"
def nsCarbons := "urn:xmpp:carbons:2"
def nsDelay := "urn:xmpp:delay"

/-- the delay record in wire form: (from, stamp, reason) -/
structure DelayRec where
  sender : String
  stamp : String
  reason : String
  deriving DecidableEq, Repr, Inhabited

def encDelay (d : DelayRec) : Node := .elem ⟨nsDelay, "delay"⟩ (optAt "from" d.sender ++ [at' "stamp" d.stamp]) (textKid d.reason)

def decDelay (as : List Attr) (ks : List Node) : DelayRec :=
  ⟨attrOrEmpty as "from", attrOrEmpty as "stamp", match ks with | .text s :: _ => s | _ => ""⟩

/-- `Forwarded.Wrap` -/
def wrapForward (d : DelayRec) (inner : List Node) : Node := .elem ⟨nsForward, "forwarded"⟩ [] (encDelay d :: inner)

/-- `carbons.WrapReceived` / `WrapSent` -/
def wrapCarbon (sent : Bool) (d : DelayRec) (inner : List Node) : Node :=
  .elem ⟨nsCarbons, if sent then "sent" else "received"⟩ [] [wrapForward d inner]

/-- the token filter of `forwardUnwrapper`: the first top-level `{urn:xmpp:delay}delay` is taken
out and decoded, everything else is passed through -/
def takeDelay : List Node → Option DelayRec × List Node
  | [] => (none, [])
  | .elem n as ks :: rest =>
    if n = ⟨nsDelay, "delay"⟩ then (some (decDelay as ks), rest)
    else let r := takeDelay rest; (r.1, .elem n as ks :: r.2)
  | .text s :: rest => let r := takeDelay rest; (r.1, .text s :: r.2)

/-- `forward.Unwrap` -/
def unwrapForward : Node → Option (Option DelayRec × List Node)
  | .elem n _ ks => if n = ⟨nsForward, "forwarded"⟩ then some (takeDelay ks) else none
  | .text _ => none

/-- `carbons.Unwrap`: the direction and what `forward.Unwrap` gives for the first child -/
def unwrapCarbon : Node → Option (Bool × Option DelayRec × List Node)
  | .elem n _ ks =>
    if n.space = nsCarbons ∧ (n.loc = "sent" ∨ n.loc = "received") then
      match ks with
      | f :: _ => (unwrapForward f).map fun r => (n.loc = "sent", r.1, r.2)
      | [] => none
    else none
  | .text _ => none

/-! ### pubsub publish / retract payloads and the publish response (`pubsub/pubsub.go`, `retract.go`) -/

def nsPubsub := "http://jabber.org/protocol/pubsub"

def encPublish (node id : String) (payload : List Node) : Node :=
  .elem ⟨nsPubsub, "pubsub"⟩ []
    [.elem ⟨nsPubsub, "publish"⟩ [at' "node" node] [.elem ⟨nsPubsub, "item"⟩ (optAt "id" id) payload]]

def encRetract (node id : String) (notify : Bool) : Node :=
  .elem ⟨nsPubsub, "pubsub"⟩ []
    [.elem ⟨nsPubsub, "retract"⟩ ([at' "node" node] ++ (if notify then [at' "notify" "true"] else []))
      [.elem ⟨nsPubsub, "item"⟩ [at' "id" id] []]]

/-- `publishResponse`: the id of `pubsub > publish > item` -/
def decPublishId : Node → Option String
  | .elem n _ ks =>
    if n = ⟨nsPubsub, "pubsub"⟩ then
      let pk := match lastKids "publish" ks with | some (_, k) => k | none => []
      some (match lastKids "item" pk with | some (ia, _) => attrOrEmpty ia "id" | none => "")
    else none
  | .text _ => none

/-! ### enum-named elements (`internal/saslerr`: the condition's name is the element's name)

A stringer table `names` and the writer's guard, read from the source: the writer emits an
element named `names[n]` exactly for `lo ≤ n < hi` and nothing otherwise.  Beyond the table the
stringer falls back to `Type(n)`, which is not an XML name: the guard has to stay inside. -/

def isNameStart (c : Char) : Bool := c.isAlpha || c = '_'
def isNameChar (c : Char) : Bool := c.isAlphanum || c = '_' || c = '-' || c = '.'

/-- the ASCII subset of XML's NCName (enough for every name the library generates) -/
def isNCName (s : String) : Bool :=
  match s.toList with
  | [] => false
  | c :: cs => isNameStart c && cs.all isNameChar

structure EnumTable where
  names : List String
  lo : Nat
  hi : Nat
  deriving Repr, DecidableEq, Inhabited

/-- the guard stays inside the table and every name it lets through is an XML name -/
def EnumTable.ok (t : EnumTable) : Bool :=
  decide (t.lo ≤ t.hi) && decide (t.hi ≤ t.names.length) && ((t.names.drop t.lo).take (t.hi - t.lo)).all isNCName

/-- `Condition.TokenReader` -/
def encCond (sp : String) (t : EnumTable) (n : Nat) : List Node :=
  if t.lo ≤ n ∧ n < t.hi then
    match t.names[n]? with
    | some nm => [.elem ⟨sp, nm⟩ [] []]
    | none => []
  else []

/-- `Condition.UnmarshalXML`: the first defined, non-zero condition with that name, else 0 -/
def decCond (t : EnumTable) (loc : String) : Nat :=
  let i := t.names.idxOf loc
  if 1 ≤ i ∧ i < t.names.length then i else 0

/-- every condition the writer emits is read back (decidable for a concrete table) -/
def EnumTable.roundTrips (t : EnumTable) : Bool :=
  (List.range t.hi).all fun n =>
    decide (n < t.lo) || (match t.names[n]? with | some nm => decCond t nm == n && nm != "text" | none => false)

structure SaslErr where
  cond : Nat
  lang : String
  text : String
  deriving DecidableEq, Repr, Inhabited

def nsSASL := "urn:ietf:params:xml:ns:xmpp-sasl"

/-- `saslerr.Error.TokenReader` -/
def encSaslErr (t : EnumTable) (e : SaslErr) : Node :=
  .elem ⟨nsSASL, "failure"⟩ []
    (encCond nsSASL t e.cond ++
      (if e.text = "" then [] else
        [.elem ⟨nsSASL, "text"⟩ (if e.lang = "" then [] else [⟨⟨nsXML, "lang"⟩, e.lang⟩]) (textKid e.text)]))

def firstNonText : List Node → Option String
  | [] => none
  | .elem n _ _ :: rest => if n.loc = "text" then firstNonText rest else
      (match firstNonText rest with | some l => some l | none => some n.loc)
  | .text _ :: rest => firstNonText rest

/-- `saslerr.Error.UnmarshalXML`: the condition is the (last) child that is not a text element, the
text is the first text element -/
def decSaslErr (t : EnumTable) : Node → Option SaslErr
  | .elem _ _ ks =>
    let c := match firstNonText ks with | some l => decCond t l | none => 0
    match (kidsNamed "text" ks).head? with
    | some (ta, tk) => some ⟨c, attrOrEmpty ta "lang", textOf tk⟩
    | none => some ⟨c, "", ""⟩
  | .text _ => none

def canonSaslErr (t : EnumTable) (e : SaslErr) : SaslErr :=
  { cond := if t.lo ≤ e.cond ∧ e.cond < t.hi then e.cond else 0
    lang := if e.text = "" then "" else e.lang, text := e.text }

/-! ### the MUC join payload (`muc/options.go`, unexported) -/

structure MucJoin where
  maxStanzas : Option String
  maxChars : Option String
  seconds : Option String
  since : Option String
  password : String
  deriving DecidableEq, Repr, Inhabited

def nsMuc := "http://jabber.org/protocol/muc"

def optAttrO (loc : String) : Option String → List Attr
  | some v => [at' loc v]
  | none => []

def encMucJoin (j : MucJoin) : Node :=
  .elem ⟨nsMuc, "x"⟩ []
    ((if j.maxStanzas.isNone && j.maxChars.isNone && j.seconds.isNone && j.since.isNone then []
      else [.elem ⟨nsMuc, "history"⟩
        (optAttrO "maxchars" j.maxChars ++ optAttrO "maxstanzas" j.maxStanzas ++ optAttrO "seconds" j.seconds
          ++ optAttrO "since" j.since) []])
      ++ (if j.password = "" then [] else [leaf nsMuc "password" j.password]))

/-- `config.UnmarshalXML`: the attributes of every `history` child (later ones overwrite), the first
character-data token of every `password` child -/
def decMucJoin : Node → Option MucJoin
  | .elem _ _ ks =>
    let ha := (kidsNamed "history" ks).flatMap fun p => p.1
    some { maxStanzas := attrLast ha "maxstanzas", maxChars := attrLast ha "maxchars"
           seconds := attrLast ha "seconds", since := attrLast ha "since"
           password := match (kidsNamed "password" ks).getLast? with
             | some (_, .text s :: _) => s
             | _ => "" }
  | .text _ => none

end XmppModel.Payloads
