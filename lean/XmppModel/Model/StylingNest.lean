import XmppModel.Model.Styling
/-!
# Nesting depth of spans (property C17, round D)

The span stack of the Go decoder is a slice that grows as spans are opened one inside the
other; the model's `Level.spanStack` is a list.  This module names the *depth* dimension:
the documents that open a given sequence of span kinds one inside the other (`nestDoc`), the
number of span styles that are on in a style mask (`spanDepth`) and the table of the depths
the model reaches on every sequence of kinds of length 1..4 (`nestDepths`), which is compared
with the same table probed from the real decoder on every run (`Generated.C17.nestProbe`).
-/
namespace XmppModel.Styling

/-- the span directive bytes, in the order of the harness' enumeration -/
def nestKinds : List UInt8 := [star, under, tilde, tick]

/-- all sequences of length `n` over `nestKinds`, lexicographic, first byte most significant -/
def nestSeqsOf : Nat → List (List UInt8)
  | 0 => [[]]
  | n + 1 => nestKinds.flatMap fun k => (nestSeqsOf n).map (k :: ·)

/-- all sequences of span kinds of length 1..4, shortest first -/
def nestSeqs : List (List UInt8) := nestSeqsOf 1 ++ nestSeqsOf 2 ++ nestSeqsOf 3 ++ nestSeqsOf 4

/-- the spans `ks` opened one inside the other around `x` and closed again: `*_~\`x\`~_*` -/
def nestDoc (ks : List UInt8) : Bytes := ks ++ 0x78 :: ks.reverse

/-- the number of span styles (`SpanEmph`, `SpanStrong`, `SpanStrike`, `SpanPre`) on in a mask -/
def spanDepth (s : Style) : Nat :=
  (if s &&& SpanEmph == 0 then 0 else 1) + (if s &&& SpanStrong == 0 then 0 else 1) +
  (if s &&& SpanStrike == 0 then 0 else 1) + (if s &&& SpanPre == 0 then 0 else 1)

/-- the largest number of span styles on at once in the styles `NewDecoder` returns for `doc`
(`none`: the decoding does not reach the end of the input) -/
def maxSpanDepth (doc : Bytes) : Option Nat :=
  match decode none ⟨[], true⟩ doc with
  | (some evs, .eof) => some (evs.foldl (fun m e => max m (spanDepth e.style)) 0)
  | _ => none

/-- the depth the model reaches on every nest document, in the order of `nestSeqs` -/
def nestDepths : Option (List Nat) := nestSeqs.mapM fun ks => maxSpanDepth (nestDoc ks)

/-! ## Cost of deep block quotes (round E, review C17-5)

Every `>` of a line is a token of its own and opens one more nested quote decoder; `scan`,
`Style` and `Quote` recurse along that chain for every token.  `levelVisits` counts, for the
tokens `NewDecoder` returns, the levels of the chain that are walked (`Quote()` of the token
plus one): the work of the decoder in units of `Level`, where `C17_terminates` only counts
calls of the split function. -/

/-- `n` block quote markers, then ` a\n` -/
def quoteDoc (n : Nat) : Bytes := List.replicate n gt ++ [0x20, 0x61, nl]

/-- the number of chain levels walked for the tokens of `doc` (`none`: the decoding does not
reach the end of the input) -/
def levelVisits (doc : Bytes) : Option Nat :=
  match decode none ⟨[], true⟩ doc with
  | (some evs, .eof) => some ((evs.map fun e => e.quote + 1).sum)
  | _ => none

/-! ## Bracketing as the caller sees it: the automaton over the returned masks (round F, review C17-1)

The whole-run bracket theorems speak about the decoder's span stack.  The property speaks
about the masks of the returned tokens.  `maskStep` is the stack automaton a caller would run
over `Style()` (the very automaton of the harness oracle, `harness/c17/c17.go clauses`): a span
start bit pushes its kind, an end bit must name the innermost open span and pops it, a span
style bit is on exactly for the open spans (and the span just ended), a token containing a
newline leaves nothing open, and at the end nothing is open. -/

/-- (style, start, end) bits of the four span kinds -/
def spanBits : List (Style × Style × Style) :=
  [(SpanEmph, SpanEmphStart, SpanEmphEnd), (SpanStrong, SpanStrongStart, SpanStrongEnd),
   (SpanStrike, SpanStrikeStart, SpanStrikeEnd), (SpanPre, SpanPreStart, SpanPreEnd)]

/-- one token: `none` = the masks are not well bracketed here; otherwise the new stack of
open kinds (indices into `spanBits`, innermost first) -/
def maskStep (stack : List Nat) (e : Event) : Option (List Nat) := do
  -- starts push, ends pop the innermost of the same kind
  let st ← (List.range 4).foldlM (init := stack) fun st k =>
    match spanBits[k]? with
    | none => none
    | some (_, sB, eB) =>
      let st := if e.style &&& sB != 0 then k :: st else st
      if e.style &&& eB != 0 then
        match st with
        | top :: rest => if top = k then some rest else none
        | [] => none
      else some st
  -- style bits = open spans (plus the one that was just ended)
  let okBits := (List.range 4).all fun k =>
    match spanBits[k]? with
    | none => false
    | some (sty, _, eB) => (decide (k ∈ st) || (e.style &&& eB != 0)) == (e.style &&& sty != 0)
  if !okBits then none
  else if e.data.contains nl && !st.isEmpty then none
  else some st

/-- the masks `NewDecoder` returns for `doc` are well bracketed -/
def maskBracketed (doc : Bytes) : Bool :=
  match decode none ⟨[], true⟩ doc with
  | (some evs, .eof) => (evs.foldlM maskStep []) == some []
  | _ => false

/-- all documents of length `n` over an alphabet -/
def docsOf (alpha : Bytes) : Nat → List Bytes
  | 0 => [[]]
  | n + 1 => alpha.flatMap fun c => (docsOf alpha n).map (c :: ·)

/-- the directive alphabet of the small scope -/
def smallAlpha : Bytes := [star, under, tick, tilde, gt, 0x20, nl, 0x61]

end XmppModel.Styling
