import XmppModel.Model.Styling
/-!
# Nesting depth of spans (property C17, round D)

The span stack of the Go decoder is a slice that grows as spans are opened one inside the
other; the model's `Level.spanStack` is a list.  This module names the *depth* dimension:
the documents that open a given sequence of span kinds one inside the other (`nestDoc`), the
number of span styles that are on in a style mask (`spanDepth`) and the table of the depths
the model reaches on every sequence of kinds of length 1..4 (`nestDepths`), which is compared
with the same table probed from the real decoder on every run (`Generated.C17.nestProbe`).
-/
namespace XmppModel.Styling

/-- the span directive bytes, in the order of the harness' enumeration -/
def nestKinds : List UInt8 := [star, under, tilde, tick]

/-- all sequences of length `n` over `nestKinds`, lexicographic, first byte most significant -/
def nestSeqsOf : Nat → List (List UInt8)
  | 0 => [[]]
  | n + 1 => nestKinds.flatMap fun k => (nestSeqsOf n).map (k :: ·)

/-- all sequences of span kinds of length 1..4, shortest first -/
def nestSeqs : List (List UInt8) := nestSeqsOf 1 ++ nestSeqsOf 2 ++ nestSeqsOf 3 ++ nestSeqsOf 4

/-- the spans `ks` opened one inside the other around `x` and closed again: `*_~\`x\`~_*` -/
def nestDoc (ks : List UInt8) : Bytes := ks ++ 0x78 :: ks.reverse

/-- the number of span styles (`SpanEmph`, `SpanStrong`, `SpanStrike`, `SpanPre`) on in a mask -/
def spanDepth (s : Style) : Nat :=
  (if s &&& SpanEmph == 0 then 0 else 1) + (if s &&& SpanStrong == 0 then 0 else 1) +
  (if s &&& SpanStrike == 0 then 0 else 1) + (if s &&& SpanPre == 0 then 0 else 1)

/-- the largest number of span styles on at once in the styles `NewDecoder` returns for `doc`
(`none`: the decoding does not reach the end of the input) -/
def maxSpanDepth (doc : Bytes) : Option Nat :=
  match decode none ⟨[], true⟩ doc with
  | (some evs, .eof) => some (evs.foldl (fun m e => max m (spanDepth e.style)) 0)
  | _ => none

/-- the depth the model reaches on every nest document, in the order of `nestSeqs` -/
def nestDepths : Option (List Nat) := nestSeqs.mapM fun ks => maxSpanDepth (nestDoc ks)

/-! ## Cost of deep block quotes (round E, review C17-5)

Every `>` of a line is a token of its own and opens one more nested quote decoder; `scan`,
`Style` and `Quote` recurse along that chain for every token.  `levelVisits` counts, for the
tokens `NewDecoder` returns, the levels of the chain that are walked (`Quote()` of the token
plus one): the work of the decoder in units of `Level`, where `C17_terminates` only counts
calls of the split function. -/

/-- `n` block quote markers, then ` a\n` -/
def quoteDoc (n : Nat) : Bytes := List.replicate n gt ++ [0x20, 0x61, nl]

/-- the number of chain levels walked for the tokens of `doc` (`none`: the decoding does not
reach the end of the input) -/
def levelVisits (doc : Bytes) : Option Nat :=
  match decode none ⟨[], true⟩ doc with
  | (some evs, .eof) => some ((evs.map fun e => e.quote + 1).sum)
  | _ => none

end XmppModel.Styling
