/-!
# Model of closing a session — property C10

Two models of the same code (`Close`, `closeSession`, `sendError`, `send`, `Encode`,
`EncodeElement`, `lockWriteCloser`, `Serve`'s shutdown path, `lockReadCloser` in session.go).

* **`Lts`** — interleavings.  Any number of goroutines (indexed by `Nat`), each a *closer*
  (`Close`, or `Serve`'s deferred `Close`), a *sender* (any transmit entry point writing `n`
  items; `checks` says whether it tests `OutputStreamClosed` after taking the lock — all of them
  do after the repair, `checks = false` is the code before it) or an *error sender*
  (`sendError`).  Explicit program counters; the output lock; the closed bit (written only
  while both the output lock and `stateMutex` are held, so `stateMutex` needs no separate
  component).  A schedule is any list of goroutine indices.
* **`Hist`** — histories.  A sequential machine over every operation that can be applied to a
  session from outside (closing, every transmit entry point, reading, events produced by the
  peer and by the handler while `Serve` runs, the close deadline), in any order and
  multiplicity.  This is the model the driver executes for the differential check.

The stream error that `sendError` hands to the encoder is never flushed (known finding, see
KNOWN_FINDINGS.txt): it does not reach the connection, so it is not an event of either model.
-/
namespace XmppModel.Close

/-! ## Interleavings -/
namespace Lts

inductive Kind
  | closer
  | sender (n : Nat) (checks : Bool)
  | errSender
  deriving DecidableEq, Repr

inductive Pc
  | idle
  | locked
  | wrote (k : Nat)
  | marked
  | done (ok : Bool)
  deriving DecidableEq, Repr

inductive Ev
  | data (tid : Nat)
  | close (tid : Nat)
  deriving DecidableEq, Repr

def Ev.isClose : Ev → Bool
  | .close _ => true
  | .data _ => false

structure St where
  closed : Bool
  lock : Option Nat
  wire : List Ev
  pc : Nat → Pc

def init : St := { closed := false, lock := none, wire := [], pc := fun _ => .idle }

def setPc (pc : Nat → Pc) (i : Nat) (v : Pc) : Nat → Pc := fun j => if j = i then v else pc j

/-- next action of goroutine `i`; `none` = blocked on the lock or finished -/
def step (kind : Nat → Kind) (s : St) (i : Nat) : Option St :=
  match s.pc i with
  | .idle =>
    match s.lock with
    | none => some { s with lock := some i, pc := setPc s.pc i .locked }
    | some _ => none
  | .locked =>
    match kind i with
    | .closer =>
      -- closeSession: already closed → return nil; else set the bit, then write the tag
      if s.closed then some { s with lock := none, pc := setPc s.pc i (.done true) }
      else some { s with closed := true, pc := setPc s.pc i .marked }
    | .errSender =>
      -- sendError: already closed → hand the error back; else (unflushed) error, then closeSession
      if s.closed then some { s with lock := none, pc := setPc s.pc i (.done false) }
      else some { s with closed := true, pc := setPc s.pc i .marked }
    | .sender _ checks =>
      if checks && s.closed then some { s with lock := none, pc := setPc s.pc i (.done false) }
      else some { s with pc := setPc s.pc i (.wrote 0) }
  | .wrote k =>
    match kind i with
    | .sender n _ =>
      if k < n then some { s with wire := s.wire ++ [.data i], pc := setPc s.pc i (.wrote (k + 1)) }
      else some { s with lock := none, pc := setPc s.pc i (.done true) }
    | _ => none
  | .marked => some { s with wire := s.wire ++ [.close i], lock := none, pc := setPc s.pc i (.done true) }
  | .done _ => none

def run (kind : Nat → Kind) (s : St) : List Nat → St
  | [] => s
  | i :: is =>
    match step kind s i with
    | some s' => run kind s' is
    | none => run kind s is

def closes (w : List Ev) : List Ev := w.filter Ev.isClose

/-- where the closing of the output stream stands -/
inductive Phase (s : St) : Prop
  /-- not closed: no closing tag written, nobody between bit and tag -/
  | open_ (hc : s.closed = false) (hw : closes s.wire = []) (hm : ∀ i, s.pc i ≠ .marked)
  /-- bit set by the lock holder, tag not yet written -/
  | marking (i : Nat) (hc : s.closed = true) (hw : closes s.wire = []) (hl : s.lock = some i) (hp : s.pc i = .marked)
  /-- tag written: it is the last thing on the wire -/
  | shut (pre : List Ev) (j : Nat) (hc : s.closed = true) (hw : s.wire = pre ++ [.close j])
      (hpre : closes pre = []) (hm : ∀ i, s.pc i ≠ .marked)

def inCrit : Pc → Bool
  | .locked | .wrote _ | .marked => true
  | _ => false

structure Inv (kind : Nat → Kind) (s : St) : Prop where
  holder : ∀ i, inCrit (s.pc i) = true → s.lock = some i
  held : ∀ i, s.lock = some i → inCrit (s.pc i) = true
  writing : ∀ i k, s.pc i = .wrote k → s.closed = false
  phase : Phase s
  closer_done : ∀ i b, kind i = .closer → s.pc i = .done b → ∃ pre j, s.wire = pre ++ [.close j]

end Lts

/-! ## The state mutex and the blocking write of the closing tag

`Lts` above abstracts from `stateMutex`.  This system keeps it: closers (`Close`, `sendError`,
`Serve`'s deferred `Close`) and readers (`lockReadCloser.Token`, `State()`: they take the read
side of `stateMutex` for a moment).  The write of the closing tag is a control point of its
own: on a synchronous transport it blocks until the peer reads, for as long as the environment
likes (`unblock` is an environment step).

`heldDuringWrite = true` is the lock shape before the repair: `Close` takes `stateMutex` for
its whole body, so it is held while the write blocks.  `false` is the repaired shape:
`closeSession` takes it only to test and set the bit. -/
namespace RwLts

inductive Kind | closer | reader
  deriving DecidableEq, Repr

inductive Pc
  | idle
  | hasOut          -- closer: holds the output lock
  | hasState        -- closer: holds output lock and state mutex, about to test and set the bit
  | writing         -- closer: bit set, inside the connection write (may block)
  | done
  deriving DecidableEq, Repr

structure St where
  closed : Bool
  outLock : Option Nat
  stateLock : Option Nat      -- write side (readers hold the read side only within one step)
  tags : Nat                  -- closing tags handed to the connection
  pc : Nat → Pc

def init : St := ⟨false, none, none, 0, fun _ => .idle⟩

def setPc (pc : Nat → Pc) (i : Nat) (v : Pc) : Nat → Pc := fun j => if j = i then v else pc j

/-- next action of goroutine `i`.  For a closer in `writing` the step is the *completion* of the
write: it is enabled only when the environment lets the write through (`canWrite`). -/
def step (heldDuringWrite : Bool) (kind : Nat → Kind) (canWrite : Bool) (s : St) (i : Nat) : Option St :=
  match kind i, s.pc i with
  | .reader, .idle =>
    -- RLock, look at the bits, RUnlock: possible iff nobody holds the write side
    if s.stateLock = none then some { s with pc := setPc s.pc i .done } else none
  | .closer, .idle =>
    if s.outLock = none then some { s with outLock := some i, pc := setPc s.pc i .hasOut } else none
  | .closer, .hasOut =>
    if s.stateLock = none then some { s with stateLock := some i, pc := setPc s.pc i .hasState } else none
  | .closer, .hasState =>
    if s.closed then some { s with stateLock := none, outLock := none, pc := setPc s.pc i .done }
    else some { s with closed := true, stateLock := if heldDuringWrite then some i else none,
                        pc := setPc s.pc i .writing }
  | .closer, .writing =>
    if canWrite then some { s with tags := s.tags + 1, stateLock := none, outLock := none, pc := setPc s.pc i .done }
    else none
  | _, _ => none

/-- a schedule: goroutine index and whether the environment lets a pending write complete -/
def run (h : Bool) (kind : Nat → Kind) (s : St) : List (Nat × Bool) → St
  | [] => s
  | (i, w) :: rest =>
    match step h kind w s i with
    | some s' => run h kind s' rest
    | none => run h kind s rest

/-- the lock invariant of the repaired shape: whoever holds the state mutex is a closer about to
test the bit — never one inside the connection write -/
structure Inv (s : St) : Prop where
  holder : ∀ i, s.stateLock = some i → s.pc i = .hasState
  tags : s.tags ≤ 1
  tagsOpen : s.closed = false → s.tags = 0
  outHolder : ∀ i, (s.pc i = .hasOut ∨ s.pc i = .hasState ∨ s.pc i = .writing) → s.outLock = some i
  writingTags : ∀ i, s.pc i = .writing → s.tags = 0 ∧ s.closed = true

end RwLts

/-! ## Histories -/
namespace Hist

inductive DKind | past | future | zero
  deriving DecidableEq, Repr

/-- what a handler may return besides nil, a plain error and a bare `stream.Error`: values that
ARE or merely WRAP the sentinels `Serve` and `sendError` look for -/
inductive HErr
  /-- `io.EOF` itself (`handleInputStream` turns it into `io.ErrUnexpectedEOF`) -/
  | eof
  /-- `fmt.Errorf("…: %w", io.EOF)` -/
  | wrapEof
  /-- `fmt.Errorf("…: %w", io.ErrUnexpectedEOF)` -/
  | wrapUnexpected
  /-- `errors.Join(err, io.EOF)` -/
  | joinEof
  /-- `fmt.Errorf("…: %w", stream.Conflict)` -/
  | wrapStream
  /-- `fmt.Errorf("…: %w", stanza.Error{…})` -/
  | wrapStanza
  deriving DecidableEq, Repr

inductive Op
  /-- `Session.Close` -/
  | close
  /-- a transmit entry point (`Send`, `Encode`, `EncodeElement`, `SendIQ` of a result,
  `TokenWriter` + write + `Close`): they behave alike with respect to closing -/
  | tx
  /-- `TokenReader().Token()` from outside `Serve` -/
  | read
  /-- peer sends a stanza, the handler returns nil without writing -/
  | peerStanza
  /-- peer sends a stanza, the handler writes a reply -/
  | peerStanzaReply
  /-- peer sends a stanza, the handler returns an error that is not a stream error -/
  | handlerErr
  /-- peer sends a stanza, the handler returns a `stream.Error` -/
  | handlerStreamErr
  /-- peer sends a stanza, the handler returns one of the values of `HErr` -/
  | handlerFails (k : HErr)
  /-- peer sends `<stream:error/>` -/
  | peerStreamErr
  /-- peer sends `</stream:stream>` -/
  | peerClose
  /-- peer sends something that is not XML stream content -/
  | peerGarbage
  /-- `SetCloseDeadline` with a deadline that then passes -/
  | deadline
  /-- `SetCloseDeadline(t)` with an explicit time: far in the past, far in the future, or the
  zero `time.Time` (an expired context but *no* read deadline on the connection) -/
  | setDeadline (k : DKind)
  /-- `go s.Serve(h)` (when the history did not start with `Serve` running) -/
  | startServe
  deriving DecidableEq, Repr

/-- result of an operation -/
inductive Res
  | ok            -- nil
  | closedOut     -- ErrOutputStreamClosed
  | closedIn      -- ErrInputStreamClosed
  | na            -- nothing to observe (peer event swallowed: Serve not running)
  deriving DecidableEq, Repr

/-- what `Serve` returned -/
inductive Ret
  | running | notStarted
  | nil_ | handlerErr | streamErr | peerStreamErr | garbage | deadline | closedOut | unexpectedEof
  deriving DecidableEq, Repr

/-- what `Serve` returns when the handler returned `k`: the handler's own error value
(`handlerErr`; a wrapped stream error is that stream error), `io.ErrUnexpectedEOF` for a bare
`io.EOF` — never nil: `Serve` compares with `==`, only the session's own reader yields the
identical `io.EOF` and only when the peer closed -/
def HErr.ret : HErr → Ret
  | .eof => .unexpectedEof
  | .wrapStream => .streamErr
  | _ => .handlerErr

/-- NOT the code: `Serve` classifying with `errors.Is(err, io.EOF)` -/
def HErr.retIs : HErr → Ret
  | .wrapEof => .nil_
  | .joinEof => .nil_
  | k => k.ret

inductive Item | el | close
  deriving DecidableEq, Repr

structure St where
  outClosed : Bool
  inClosed : Bool
  serve : Ret
  wire : List Item
  /-- the input context in force has expired: the LAST `SetCloseDeadline` named a time that is
  not in the future (every call replaces the context and cancels the previous one) -/
  ctxPast : Bool
  deriving DecidableEq, Repr

def init (serve : Bool) : St :=
  { outClosed := false, inClosed := false, serve := if serve then .running else .notStarted, wire := [],
    ctxPast := false }

/-- `closeSession` -/
def closeOut (s : St) : St :=
  if s.outClosed then s else { s with outClosed := true, wire := s.wire ++ [.close] }

/-- `Serve` returns with `r`: `sendError` for errors (writes nothing visible, closes unless
already closed), then the deferred `closeInputStream` and `Close` -/
def serveReturns (s : St) (r : Ret) : St :=
  { closeOut s with inClosed := true, serve := r }

def step (s : St) : Op → St × Res
  | .setDeadline k =>
    let s' := { s with ctxPast := k != .future }
    -- a read deadline in the past interrupts the read `Serve` is blocked in
    if s.serve == .running && k == .past then (serveReturns s' .deadline, .ok) else (s', .ok)
  | .startServe =>
    if s.serve == .notStarted then
      (if s.ctxPast then (serveReturns s .deadline, .ok) else ({ s with serve := .running }, .ok))
    else (s, .na)
  | .close => (closeOut s, .ok)
  | .tx => if s.outClosed then (s, .closedOut) else ({ s with wire := s.wire ++ [.el] }, .ok)
  | .read => if s.inClosed then (s, .closedIn) else (s, .na)
  | op =>
    if s.serve != .running then (s, .na) else
    -- `Serve` looks at the input context at the top of its loop, i.e. after the white space
    -- that precedes the peer's next element and before that element is read: with an expired
    -- context (zero-time deadline set while it was blocked) it returns without handling it
    -- (garbage merges with that white space into one bad token and is seen first)
    if s.ctxPast && op != .peerGarbage then (serveReturns s .deadline, .ok) else
    match op with
    | .peerStanza => (s, .ok)
    | .peerStanzaReply =>
      -- the handler's first EncodeToken fails on a closed output stream; it returns that error
      if s.outClosed then (serveReturns s .closedOut, .ok)
      else ({ s with wire := s.wire ++ [.el] }, .ok)
    | .handlerErr => (serveReturns s .handlerErr, .ok)
    | .handlerStreamErr => (serveReturns s .streamErr, .ok)
    | .handlerFails k => (serveReturns s k.ret, .ok)
    | .peerStreamErr => (serveReturns s .peerStreamErr, .ok)
    | .peerClose => (serveReturns s .nil_, .ok)
    | .peerGarbage => (serveReturns s .garbage, .ok)
    | .deadline => (serveReturns s .deadline, .ok)
    | _ => (s, .na)

def run : St → List Op → St × List Res
  | s, [] => (s, [])
  | s, op :: ops =>
    let r := step s op
    let rest := run r.1 ops
    (rest.1, r.2 :: rest.2)

def closeCount (w : List Item) : Nat := (w.filter (· == .close)).length

end Hist

/-! ## Histories with a failing connection write

`Close` and the transmit calls on a session whose `n`-th connection write fails after a short
write (no `Serve`).  `closeSession` sets the closed bit *before* it writes the tag, so a failed
close is still a close: the tag is attempted once.  The `xml.Encoder`'s buffered writer keeps
its first error: after a failed flush every transmit call fails without writing. -/
namespace WHist

inductive Op | close | tx
  deriving DecidableEq, Repr

inductive Res | ok | closedOut | ioErr
  deriving DecidableEq, Repr

inductive Item | el | close | cut | closeCut
  deriving DecidableEq, Repr

structure St where
  outClosed : Bool
  encDead : Bool
  writes : Nat
  closeAttempts : Nat
  wire : List Item
  deriving DecidableEq, Repr

def init : St := ⟨false, false, 0, 0, []⟩

/-- `failAt = some n`: the connection write number `n` (from 0) is cut short and fails -/
def step (failAt : Option Nat) (s : St) : Op → St × Res
  | .close =>
    if s.outClosed then (s, .ok)
    else if failAt = some s.writes then
      ({ s with outClosed := true, writes := s.writes + 1, closeAttempts := s.closeAttempts + 1,
                wire := s.wire ++ [.closeCut] }, .ioErr)
    else
      ({ s with outClosed := true, writes := s.writes + 1, closeAttempts := s.closeAttempts + 1,
                wire := s.wire ++ [.close] }, .ok)
  | .tx =>
    if s.outClosed then (s, .closedOut)
    else if s.encDead then (s, .ioErr)
    else if failAt = some s.writes then
      ({ s with encDead := true, writes := s.writes + 1, wire := s.wire ++ [.cut] }, .ioErr)
    else ({ s with writes := s.writes + 1, wire := s.wire ++ [.el] }, .ok)

def run (failAt : Option Nat) : St → List Op → St × List Res
  | s, [] => (s, [])
  | s, op :: ops =>
    let r := step failAt s op
    let rest := run failAt r.1 ops
    (rest.1, r.2 :: rest.2)

end WHist

/-! ### the connection's two deadlines (round 5)

`net.Conn` has a read and a write deadline; `SetDeadline` moves both.  `SetCloseDeadline`
installs the read deadline `Serve`'s blocked read ends at.  A transmit call guards its writes
with a *watcher*: when the call's context ends before the call returns, the watcher puts a
deadline into the past and the cleanup function clears it again.  Which setter the watcher
uses decides whether the read side is disturbed. -/
namespace ConnDl

inductive Dl | zero | past | at (t : Nat)
  deriving DecidableEq, Repr

inductive Setter | both | read | write
  deriving DecidableEq, Repr

structure St where
  rd : Dl
  wd : Dl
  /-- every setter call made on the connection, oldest first -/
  log : List (Setter × Dl)
  deriving DecidableEq, Repr

def init : St := ⟨.zero, .zero, []⟩

def setDl (k : Setter) (d : Dl) (s : St) : St :=
  match k with
  | .both => { rd := d, wd := d, log := s.log ++ [(k, d)] }
  | .read => { s with rd := d, log := s.log ++ [(k, d)] }
  | .write => { s with wd := d, log := s.log ++ [(k, d)] }

/-- a guarded call: nothing when the context outlives it; deadline into the past and cleared on
return otherwise -/
def watcher (k : Setter) (ctxEnds : Bool) (s : St) : St :=
  if ctxEnds then setDl k .zero (setDl k .past s) else s

inductive Ev
  | closeDeadline (t : Nat)
  | transmit (ctxEnds : Bool)
  deriving DecidableEq, Repr

def step (k : Setter) (s : St) : Ev → St
  | .closeDeadline t => setDl .read (.at t) s
  | .transmit e => watcher k e s

def run (k : Setter) : St → List Ev → St
  | s, [] => s
  | s, e :: es => run k (step k s e) es

/-- the last close deadline among the events -/
def lastClose : List Ev → Option Nat
  | [] => none
  | .closeDeadline t :: es => (lastClose es).orElse fun _ => some t
  | .transmit _ :: es => lastClose es

/-- when `Serve`'s blocked read gives up: never (`none`), at once (`some 0`), at `t` -/
def readEnds (s : St) : Option Nat :=
  match s.rd with
  | .zero => none
  | .past => some 0
  | .at t => some t

/-- does a setter call touch the read deadline -/
def movesRead : Setter → Bool
  | .write => false
  | _ => true

/-- setter names of `net.Conn` as the regenerated facts spell them -/
def setterOf : String → Option Setter
  | "SetDeadline" => some .both
  | "SetReadDeadline" => some .read
  | "SetWriteDeadline" => some .write
  | _ => none

end ConnDl

end XmppModel.Close
