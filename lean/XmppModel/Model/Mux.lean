import XmppModel.Prelude.Xml
/-!
# The multiplexer (property C14)

Executable model of `mux.ServeMux`: the four lookup cascades (`Handler`, `IQHandler`,
`MessageHandler`, `PresenceHandler`), registration (`mux/option.go`), and the per-child
dispatch of `forChildren` with its replay buffer (`bufReader`).

A registered handler is identified with its pattern (registration refuses duplicates, so the
tables are maps from patterns to handlers).
-/
namespace XmppModel.Mux
open XmppModel.Xml

/-- which table a pattern lives in -/
inductive Kind | top | iq | msg | pres
  deriving DecidableEq, Repr, Inhabited

structure Pattern where
  kind : Kind
  /-- stanza type ("" for top-level patterns) -/
  typ : String
  /-- payload name (element name for top-level patterns); an empty part is a wildcard -/
  name : Name
  deriving DecidableEq, Repr, Inhabited

abbrev Table := List Pattern

/-- the names a lookup tries, in order: exact, local name only, namespace only, and (for the
stanza tables) the bare wildcard -/
def shapes (k : Kind) (n : Name) : List Name :=
  match k with
  | .top => [n, ⟨"", n.loc⟩, ⟨n.space, ""⟩]
  | _ => [n, ⟨"", n.loc⟩, ⟨n.space, ""⟩, ⟨"", ""⟩]

/-- first name of `l` for which a pattern is registered -/
def firstHit (has : Name → Bool) : List Name → Option Name
  | [] => none
  | n :: ns => if has n then some n else firstHit has ns

/-- the cascade of `Handler` / `IQHandler` / `MessageHandler` / `PresenceHandler` -/
def lookup (tbl : Table) (k : Kind) (typ : String) (n : Name) : Option Pattern :=
  (firstHit (fun s => decide (⟨k, typ, s⟩ ∈ tbl)) (shapes k n)).map fun s => ⟨k, typ, s⟩

/-! ### specification vocabulary -/

/-- a pattern name matches an element name: each part is a wildcard or equal -/
def matchesName (p n : Name) : Bool :=
  (p.space == "" || p.space == n.space) && (p.loc == "" || p.loc == n.loc)

/-- specificity: 0 exact, 1 local name only, 2 namespace only, 3 wildcard -/
def rank (p : Name) : Nat :=
  (if p.space == "" then 1 else 0) + (if p.loc == "" then 2 else 0)

/-! ### registration (`mux/option.go`) -/

/-- `stanza.Is(n, "")` -/
def isStanzaLocal (n : Name) : Bool := n.loc == "iq" || n.loc == "message" || n.loc == "presence"

/-- applying a registration option: `none` = the option panics (nil handler, duplicate
pattern, or a stanza name given to `Handle`); the table is unchanged in that case because the
panic precedes the assignment -/
def register (tbl : Table) (p : Pattern) (nilHandler : Bool) : Option Table :=
  if nilHandler then none
  else if p.kind == .top && isStanzaLocal p.name then none
  else if p ∈ tbl then none
  else some (p :: tbl)

/-! ### top-level dispatch -/

inductive Route
  | handler (p : Pattern)   -- a registered top-level handler
  | iqRouter | msgRouter | presRouter
  | nop
  deriving DecidableEq, Repr

/-- `ServeMux.Handler`: `stanzaNS` is the namespace given to `mux.New` -/
def route (tbl : Table) (stanzaNS : String) (n : Name) : Route :=
  match lookup tbl .top "" n with
  | some p => .handler p
  | none =>
    if isStanzaLocal n && (stanzaNS == "" || n.space == stanzaNS) then
      (if n.loc == "iq" then .iqRouter else if n.loc == "message" then .msgRouter else .presRouter)
    else .nop

/-! ### the defaults -/

inductive IqOutcome
  | handler (p : Pattern)   -- a registered IQ handler runs
  | fallback                -- `iqFallback` writes a service-unavailable error reply
  | nothing                 -- `iqFallback` returns without writing
  deriving DecidableEq, Repr

/-- what `iqRouter` does with an IQ of type `typ` whose payload element is `n` -/
def iqDispatch (tbl : Table) (typ : String) (n : Name) : IqOutcome :=
  match lookup tbl .iq typ n with
  | some p => .handler p
  | none => if typ == "error" || typ == "result" then .nothing else .fallback

/-! ### `iqRouter`: the payload handed to an IQ handler -/

/-- whitespace-only character data (`decl.TrimLeftSpace`) -/
def isSpaceTok : Tok → Bool
  | .chars s => s.all fun c => c == ' ' || c == '\n' || c == '\r' || c == '\t'
  | _ => false

inductive IqRes
  /-- a registered handler runs: its pattern, the payload start element's name it is given,
  the tokens it reads -/
  | handler (p : Pattern) (payload : Name) (view : List Tok)
  | fallback | nothing
  /-- `iqRouter` returns an error without invoking any handler -/
  | err
  deriving DecidableEq, Repr

/-- `iqRouter` on a whole IQ stanza (start tag first, end tag last) of type `typ`; the invoked
handler calls `Token` `c` times: it is given the first child element's start tag (whitespace
before it skipped) and reads what follows it inside the IQ, never the IQ's end tag -/
def iqRoute (tbl : Table) (typ : String) (stanza : List Tok) (c : Nat) : IqRes :=
  match stanza with
  | [] => .err
  | _ :: body =>
    let out (n : Name) (rest : List Tok) : IqRes :=
      match iqDispatch tbl typ n with
      | .handler p => .handler p n (rest.take c)
      | .fallback => .fallback
      | .nothing => .nothing
    match body.dropLast.dropWhile isSpaceTok with
    | [] => if typ == "result" then out ⟨"", ""⟩ [] else .err
    | .start n _ :: rest => out n rest
    | _ => .err

/-! ### `forChildren`: per-child dispatch with the replay buffer -/

/-- a `bufReader` over the stanza: tokens already read (`buf`) and tokens still in the
underlying reader (`rest`) -/
structure BR where
  buf : List Tok
  rest : List Tok
  deriving Repr

/-- read through a `bufReader` until at least `n` tokens are buffered (or the input ends) -/
def BR.advance (b : BR) (n : Nat) : BR :=
  let k := n - b.buf.length
  { buf := b.buf ++ b.rest.take k, rest := b.rest.drop k }

/-- what a handler that calls `Token` `c` times on a fresh `bufReader{buf: b.buf}` sees: the
tokens (then EOF, not listed) and the buffer afterwards -/
def BR.handlerRead (b : BR) (c : Nat) : List Tok × BR :=
  ((b.buf ++ b.rest).take c, b.advance c)

/-- positions and names of the child elements of a stanza given as the token list starting
with its start tag: `(index of the child's start tag, name)` -/
def childrenAux : List Tok → Nat → Nat → List (Nat × Name)
  | [], _, _ => []
  | .start n _ :: ts, i, d => if d == 1 then (i, n) :: childrenAux ts (i + 1) (d + 1) else childrenAux ts (i + 1) (d + 1)
  | .stop _ :: ts, i, d => if d ≤ 1 then [] else childrenAux ts (i + 1) (d - 1)
  | _ :: ts, i, d => childrenAux ts (i + 1) d

def children (stanza : List Tok) : List (Nat × Name) := childrenAux stanza 0 0

structure Call where
  /-- the pattern whose handler ran (`none` = the no-op default) -/
  pat : Option Pattern
  /-- the tokens the handler read -/
  view : List Tok
  deriving Repr

/-- the loop of `forChildren`: `cons` gives how many tokens each invoked registered handler
reads (the no-op default reads nothing and uses no entry) -/
def dispatchChildren (tbl : Table) (k : Kind) (typ : String) :
    List (Nat × Name) → List Nat → BR → List Call × BR
  | [], _, b => ([], b)
  | (pos, n) :: cs, cons, b =>
    -- the iterator has read the child's start tag through the shared buffer
    let b1 := b.advance (pos + 1)
    match lookup tbl k typ n with
    | none =>
      -- the default handler reads nothing
      let (calls, b3) := dispatchChildren tbl k typ cs cons b1
      ({ pat := none, view := [] } :: calls, b3)
    | some p =>
      let (view, b2) := b1.handlerRead (cons.headD 0)
      let (calls, b3) := dispatchChildren tbl k typ cs cons.tail b2
      ({ pat := some p, view := view } :: calls, b3)

/-- `forChildren` on a whole stanza (start tag first, end tag last) -/
def forChildren (tbl : Table) (k : Kind) (typ : String) (stanza : List Tok) (cons : List Nat) : List Call :=
  match stanza with
  | [] => []
  | start :: body =>
    let cs := children stanza
    let (calls, _) := dispatchChildren tbl k typ cs cons { buf := [start], rest := body }
    if stanza.length == 2 then
      -- only the start and end tags: the type wildcard is consulted with the empty name
      match lookup tbl k typ ⟨"", ""⟩ with
      | none => calls ++ [{ pat := none, view := [] }]
      | some p => calls ++ [{ pat := some p, view := stanza.take (cons.headD 0) }]
    else calls

/-! ### `bufReader.Token` call by call, over a reader with either end-of-input framing

`encoding/xml` lets a `TokenReader` return its last token together with `io.EOF` or report
`io.EOF` on a separate call; `bufReader` must buffer the token in both cases. -/

/-- how the reader underneath the multiplexer reports the end of its input -/
inductive Framing
  | sep   -- `io.EOF` on a separate call after the last token
  | eof   -- the last token is returned together with `io.EOF`
  deriving DecidableEq, Repr

/-- one `Token` call on the underlying reader: the token (if any), whether a non-nil error
comes with it, and the input left -/
def srcToken (f : Framing) : List Tok → Option Tok × Bool × List Tok
  | [] => (none, true, [])
  | t :: ts => (some t, ts.isEmpty && f == .eof, ts)

/-- a `bufReader`: `buf`, `offset`, and what the underlying reader `r` still holds -/
structure BufR where
  buf : List Tok
  offset : Nat
  rest : List Tok
  deriving Repr

/-- `bufReader.Token`: replay from the buffer while `offset < len(buf)`, otherwise read the
underlying reader and retain the token whenever one is returned, with or without an error -/
def BufR.token (f : Framing) (r : BufR) : Option Tok × Bool × BufR :=
  match r.buf[r.offset]? with
  | some t => (some t, false, { r with offset := r.offset + 1 })
  | none =>
    match srcToken f r.rest with
    | (some t, e, rest') => (some t, e, { buf := r.buf ++ [t], offset := r.offset + 1, rest := rest' })
    | (none, e, rest') => (none, e, { r with rest := rest' })

/-- a handler that calls `Token` up to `c` times and stops at the first error; it keeps every
token it was given -/
def BufR.readN (f : Framing) : Nat → BufR → List Tok × BufR
  | 0, r => ([], r)
  | c + 1, r =>
    match r.token f with
    | (some t, false, r') => let (ts, r'') := BufR.readN f c r'; (t :: ts, r'')
    | (some t, true, r') => ([t], r')
    | (none, _, r') => ([], r')

/-- `BR.handlerRead` computed call by call: a fresh `bufReader{r: t, buf: b.buf}` (offset 0)
read `c` times over a reader of framing `f`; the buffer is handed back afterwards -/
def BR.stepRead (f : Framing) (b : BR) (c : Nat) : List Tok × BR :=
  let (ts, r) := BufR.readN f c { buf := b.buf, offset := 0, rest := b.rest }
  (ts, { buf := r.buf, rest := r.rest })

/-- `dispatchChildren` with the handlers' reads computed by `read` -/
def dispatchChildrenG (read : BR → Nat → List Tok × BR) (tbl : Table) (k : Kind) (typ : String) :
    List (Nat × Name) → List Nat → BR → List Call × BR
  | [], _, b => ([], b)
  | (pos, n) :: cs, cons, b =>
    let b1 := b.advance (pos + 1)
    match lookup tbl k typ n with
    | none =>
      let (calls, b3) := dispatchChildrenG read tbl k typ cs cons b1
      ({ pat := none, view := [] } :: calls, b3)
    | some p =>
      let (view, b2) := read b1 (cons.headD 0)
      let (calls, b3) := dispatchChildrenG read tbl k typ cs cons.tail b2
      ({ pat := some p, view := view } :: calls, b3)

/-- `forChildren` over a reader of framing `f`, every handler read computed call by call -/
def forChildrenF (f : Framing) (tbl : Table) (k : Kind) (typ : String) (stanza : List Tok) (cons : List Nat) : List Call :=
  match stanza with
  | [] => []
  | start :: body =>
    let cs := children stanza
    let (calls, b) := dispatchChildrenG (BR.stepRead f) tbl k typ cs cons { buf := [start], rest := body }
    -- `len(r.buf) == 2` after the iterator has been drained (`defer iterator.Close()` runs
    -- later, the iterator's loop has read everything)
    let b' := b.advance stanza.length
    if b'.buf.length == 2 then
      match lookup tbl k typ ⟨"", ""⟩ with
      | none => calls ++ [{ pat := none, view := [] }]
      | some p => calls ++ [{ pat := some p, view := (BR.stepRead f b' (cons.headD 0)).1 }]
    else calls

/-- handler errors are collected, the loop goes on: the ordinals (among the registered
handlers that ran) of the calls that failed, as reported by the returned `multiErr` -/
def failedCalls (calls : List Call) (errs : List Nat) : List Nat :=
  (List.range (calls.filter fun c => c.pat.isSome).length).filter fun i => errs.contains i

/-! ### the stanza's own attributes (`stanza.NewIQ` / `NewMessage` / `NewPresence`)

The routers learn the stanza's type (and `iqFallback` the id and the addresses of its reply)
from the start element.  Only **unqualified** attributes are the stanza's own: an attribute in
any namespace — a foreign one, the `xml` one, even the stanza's own namespace bound to a
prefix — is a different attribute (Namespaces in XML §6.2) and never sets a header field. -/

/-- the fields the multiplexer reads from a stanza's start element (addresses as the strings
`jid.Parse` accepted; the harness uses addresses in canonical form) -/
structure Hdr where
  typ : String
  id : String
  to : String
  frm : String
  deriving DecidableEq, Repr, Inhabited

/-- `MessageType.UnmarshalXMLAttr`: the five declared types, anything else is `normal` -/
def msgTypeOf (v : String) : String :=
  if v == "normal" || v == "chat" || v == "error" || v == "groupchat" || v == "headline" then v else "normal"

/-- the value a `type` attribute gives the stanza: verbatim for IQs and presences -/
def typeOfAttr (k : Kind) (v : String) : String := if k == .msg then msgTypeOf v else v

/-- the stanza's own attribute named `loc` -/
def ownAttr (a : Attr) (loc : String) : Bool := a.name.space == "" && a.name.loc == loc

/-- one iteration of the attribute loop of `NewIQ` / `NewMessage` / `NewPresence` -/
def hdrStep (k : Kind) (h : Hdr) (a : Attr) : Hdr :=
  if a.name.space != "" then h
  else if a.name.loc == "type" then { h with typ := typeOfAttr k a.value }
  else if a.name.loc == "id" then { h with id := a.value }
  else if a.name.loc == "to" then (if a.value == "" then h else { h with to := a.value })
  else if a.name.loc == "from" then (if a.value == "" then h else { h with frm := a.value })
  else h

/-- the header before the loop: a message without a type attribute is `normal` -/
def hdrInit (k : Kind) : Hdr := ⟨if k == .msg then "normal" else "", "", "", ""⟩

def stanzaHdr (k : Kind) (attrs : List Attr) : Hdr := attrs.foldl (hdrStep k) (hdrInit k)

/-- attributes of the start element a stanza begins with -/
def startAttrs : List Tok → List Attr
  | .start _ as :: _ => as
  | _ => []

/-- `msgRouter` / `presenceRouter`: the type comes from the stanza's own attributes, then
`forChildren` -/
def stanzaRoute (f : Framing) (tbl : Table) (k : Kind) (stanza : List Tok) (cons : List Nat) : List Call :=
  forChildrenF f tbl k (stanzaHdr k (startAttrs stanza)).typ stanza cons

/-- `iqFallback`: nothing for a reply; a request (every other type, also an unknown one) is
answered with an error addressed back to its sender, with the request's id — whatever the
addresses are (absent, different, equal) -/
def fallbackReply (h : Hdr) : Option Hdr :=
  if h.typ == "error" || h.typ == "result" then none
  else some { typ := "error", id := h.id, to := h.frm, frm := h.to }

inductive IqOut
  | handler (p : Pattern) (payload : Name) (view : List Tok)
  /-- the fallback wrote one error reply with this header -/
  | reply (h : Hdr)
  | nothing | err
  deriving DecidableEq, Repr

/-- `iqRouter` from the start element on: the type of the IQ is that of its own `type`
attribute; the reply of the fallback is computed from the IQ's own id and addresses -/
def iqRouteA (tbl : Table) (stanza : List Tok) (c : Nat) : IqOut :=
  let h := stanzaHdr .iq (startAttrs stanza)
  match iqRoute tbl h.typ stanza c with
  | .handler p n v => .handler p n v
  | .fallback => (match fallbackReply h with | some r => .reply r | none => .nothing)
  | .nothing => .nothing
  | .err => .err

/-- what the encoder handed to `HandleXMPP` receives when the k-th invoked registered handler
writes one token naming its ordinal: every handler's write, in the order of the calls -/
def writesOf (calls : List Call) : List Nat := List.range (calls.filter fun c => c.pat.isSome).length

/-! ### the tables probed on the real code (`harness facts C14`)

The same finite tables computed by the model; `Props/C14.lean` proves them equal to the ones the
real options and lookups produce. -/

/-- the type universe of the probe: the declared constants of each kind, the empty type, an
unknown type and a case variant -/
def probeTypes : Kind → List String
  | .top => [""]
  | .iq => ["get", "set", "result", "error", "", "xx", "GET"]
  | .msg => ["normal", "chat", "error", "groupchat", "headline", "", "xx", "Chat"]
  | .pres => ["", "unavailable", "subscribe", "probe", "error", "xx", "Unavailable"]

def probeName : Name := ⟨"urn:a", "x"⟩

/-- is the bare wildcard of type `t1` found by the lookup of type `t2`; is the exact name of
type `t1`; is the same name accepted for `t2` after `t1` -/
structure TypeRow where
  kind : Kind
  t1 : String
  t2 : String
  wild : Bool
  exact : Bool
  second : Bool
  deriving DecidableEq, Repr

def typeRow (k : Kind) (t1 t2 : String) : TypeRow :=
  { kind := k, t1 := t1, t2 := t2,
    wild := (lookup [⟨k, t1, ⟨"", ""⟩⟩] k t2 probeName).isSome,
    exact := (lookup [⟨k, t1, probeName⟩] k t2 probeName).isSome,
    second := ((register [] ⟨k, t1, probeName⟩ false).bind fun t => register t ⟨k, t2, probeName⟩ false).isSome }

def typeTableModel : List TypeRow :=
  [Kind.iq, Kind.msg, Kind.pres].flatMap fun k =>
    (probeTypes k).flatMap fun t1 => (probeTypes k).map fun t2 => typeRow k t1 t2

structure CascadeRow where
  kind : Kind
  typ : String
  mask : Nat
  hit : Option Pattern
  deriving DecidableEq, Repr

/-- the table holding the shapes of `probeName` selected by `mask` (1 exact, 2 local name
only, 4 namespace only, 8 wildcard), registered in descending order -/
def maskTable (k : Kind) (typ : String) (mask : Nat) : Table :=
  (if mask.testBit 3 then [(⟨k, typ, ⟨"", ""⟩⟩ : Pattern)] else []) ++
  (if mask.testBit 2 then [⟨k, typ, ⟨probeName.space, ""⟩⟩] else []) ++
  (if mask.testBit 1 then [⟨k, typ, ⟨"", probeName.loc⟩⟩] else []) ++
  (if mask.testBit 0 then [⟨k, typ, probeName⟩] else [])

def cascadeTableModel : List CascadeRow :=
  [(Kind.top, "", 8), (Kind.iq, "set", 16), (Kind.msg, "chat", 16), (Kind.pres, "unavailable", 16)].flatMap
    fun (k, typ, n) => (List.range n).map fun mask => ⟨k, typ, mask, lookup (maskTable k typ mask) k typ probeName⟩

/-- the attribute universe of the header probe: own and foreign `type`, `id`, `to`, `from`
attributes (foreign = another namespace, the stanza's own namespace bound to a prefix, `xml`) -/
def probeAttrs : List Attr :=
  [⟨⟨"", "type"⟩, "chat"⟩, ⟨⟨"", "type"⟩, "unavailable"⟩, ⟨⟨"", "type"⟩, ""⟩,
   ⟨⟨"urn:ext", "type"⟩, "error"⟩, ⟨⟨"jabber:client", "type"⟩, "subscribe"⟩,
   ⟨⟨"http://www.w3.org/XML/1998/namespace", "lang"⟩, "en"⟩,
   ⟨⟨"", "id"⟩, "i1"⟩, ⟨⟨"urn:ext", "id"⟩, "i2"⟩,
   ⟨⟨"", "to"⟩, "a@example.org"⟩, ⟨⟨"urn:ext", "from"⟩, "b@example.org"⟩, ⟨⟨"", "from"⟩, "c@example.org/r"⟩]

/-- every attribute list of length ≤ 2 over the universe, in order (two own attributes of one
name are not well-formed XML and are left out) -/
def probeAttrLists : List (List Attr) :=
  [[]] ++ probeAttrs.map (fun a => [a]) ++ probeAttrs.flatMap fun a =>
    (probeAttrs.filter fun b => !(a.name.space == "" && b.name.space == "" && a.name.loc == b.name.loc)).map fun b => [a, b]

structure HdrRow where
  kind : Kind
  attrs : List Attr
  hdr : Hdr
  deriving DecidableEq, Repr

def hdrTableModel : List HdrRow :=
  [Kind.iq, Kind.msg, Kind.pres].flatMap fun k => probeAttrLists.map fun as => ⟨k, as, stanzaHdr k as⟩

def probeAddrs : List String := ["", "a@example.org/r", "b@example.net"]

structure FallbackRow where
  req : Hdr
  reply : Option Hdr
  deriving DecidableEq, Repr

/-- unhandled IQs of every type × every pair of addresses (absent, different, **equal**) × with
and without id -/
def fallbackReqs : List Hdr :=
  (probeTypes .iq).flatMap fun t => probeAddrs.flatMap fun to => probeAddrs.flatMap fun frm =>
    ["", "d1"].map fun id => ⟨t, id, to, frm⟩

/-- the start element attributes of a request with header `h` (empty fields are absent) -/
def reqAttrs (h : Hdr) : List Attr :=
  (if h.typ == "" then [] else [(⟨⟨"", "type"⟩, h.typ⟩ : Attr)]) ++
  (if h.id == "" then [] else [⟨⟨"", "id"⟩, h.id⟩]) ++
  (if h.to == "" then [] else [⟨⟨"", "to"⟩, h.to⟩]) ++
  (if h.frm == "" then [] else [⟨⟨"", "from"⟩, h.frm⟩])

/-- the IQ with header `h` and the payload `probeName`, as the token list `HandleXMPP` sees -/
def probeIq (h : Hdr) : List Tok :=
  [.start ⟨"jabber:client", "iq"⟩ (reqAttrs h), .start probeName [], .stop probeName, .stop ⟨"jabber:client", "iq"⟩]

/-- a multiplexer without patterns, the IQ sent through `iqRouteA` (header from the attributes,
payload lookup, fallback) -/
def fallbackTableModel : List FallbackRow :=
  fallbackReqs.map fun h => ⟨h, match iqRouteA [] (probeIq h) 0 with | .reply r => some r | _ => none⟩

/-! ### histories on one multiplexer

Options are exported functions and may be applied to a `ServeMux` after `New`; lookups and
dispatches happen in between.  The model keeps nothing but the table: a lookup or dispatch
leaves the state unchanged. -/

inductive HOp
  | reg (p : Pattern) (nilHandler : Bool)
  | look (k : Kind) (typ : String) (n : Name)
  /-- `HandleXMPP` on a top-level element named `n` -/
  | disp (n : Name)
  deriving Repr

inductive HRes
  | regOk | regPanic
  | found (p : Pattern) | notFound
  | router | nop
  deriving DecidableEq, Repr

/-- state after one operation -/
def histStep (tbl : Table) : HOp → Table
  | .reg p nl => (register tbl p nl).getD tbl
  | _ => tbl

/-- observable result of one operation on a multiplexer with table `tbl` -/
def histRes (ns : String) (tbl : Table) : HOp → HRes
  | .reg p nl => if (register tbl p nl).isSome then .regOk else .regPanic
  | .look .top _ n | .disp n =>
    (match route tbl ns n with
     | .handler p => .found p
     | .nop => .nop
     | _ => .router)
  | .look k typ n =>
    (match lookup tbl k typ n with
     | some p => .found p
     | none => .notFound)

def runHist (ns : String) : Table → List HOp → List HRes
  | _, [] => []
  | tbl, op :: ops => histRes ns tbl op :: runHist ns (histStep tbl op) ops

/-- the table after a history -/
def tableAfter (tbl : Table) (ops : List HOp) : Table := ops.foldl histStep tbl

end XmppModel.Mux
