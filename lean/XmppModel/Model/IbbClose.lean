/-!
# Control points of `ibb.Conn.Close` / `closeNoNotify` (C15, C06 "in-band bytestream close")

A close routine is a straight-line program of abstract statements with early returns: every
fallible statement is followed by `if err != nil { return err }`.  `deferCloseRead` registers the
deferred `c.closeRead()` (unregister the stream, set the closed flag under the read lock, wake the
reader); deferred calls run on *every* return.  The harness' fact extractor regenerates the
program of both routines from `ibb/conn.go` on every run (`Generated/C15.lean`); the theorems of
`Props/C15.lean` are stated over the regenerated programs.
-/
namespace XmppModel.IbbClose

inductive Stmt
  | setClosed          -- c.closed = true
  | deferCloseRead     -- defer c.closeRead()
  | closeReadNow       -- c.closeRead() as an ordinary statement
  | flush              -- c.Flush() / c.flush(t)            (fallible: a data stanza may be refused)
  | encClose           -- c.closeFlushFunc()                 (fallible: emits the padded rest)
  | sendCloseIQ        -- c.s.SendIQElement(close)           (fallible: send failure, deadline)
  | closeResp          -- respReadCloser.Close()
  | other              -- anything that neither returns nor touches the receiving side
  deriving DecidableEq, Repr

def Stmt.fallible : Stmt → Bool
  | .flush | .encClose | .sendCloseIQ => true
  | _ => false

structure CState where
  closedFlag : Bool := false      -- c.closed
  rxClosed : Bool := false        -- closeRead has run: stream unregistered, readClosed set, reader woken
  deferred : Bool := false        -- a deferred closeRead is registered
  failed : Bool := false          -- the routine returned an error
  closeSent : Bool := false       -- the close request went out
  deriving DecidableEq, Repr

/-- run the deferred calls (at a return) -/
def ret (s : CState) : CState := if s.deferred then { s with rxClosed := true } else s

/-- execute the program; `fault = some k`: the statement at position `k` fails (if it can) -/
def exec (fault : Option Nat) : List Stmt → Nat → CState → CState
  | [], _, s => ret s
  | st :: rest, k, s =>
    if st.fallible && fault == some k then ret { s with failed := true }
    else
      let s' := match st with
        | .setClosed => { s with closedFlag := true }
        | .deferCloseRead => { s with deferred := true }
        | .closeReadNow => { s with rxClosed := true }
        | .sendCloseIQ => { s with closeSent := true }
        | _ => s
      exec fault rest (k + 1) s'

def run (fault : Option Nat) (p : List Stmt) : CState := exec fault p 0 {}

/-- the receiving side is taken down whatever happens: no fault, or a fault at any position -/
def alwaysClosesRead (p : List Stmt) : Bool :=
  (run none p).rxClosed && (List.range p.length).all fun k => (run (some k) p).rxClosed

/-- the routines as written in the repaired `ibb/conn.go` (used by the driver) -/
def closeProgram : List Stmt :=
  [.setClosed, .deferCloseRead, .flush, .encClose, .other, .sendCloseIQ, .closeResp]

def closeNoNotifyProgram : List Stmt := [.setClosed, .deferCloseRead, .flush, .encClose]

/-- names used by the fact extractor (`harness/c15/facts.go`) -/
def parseStmt (s : String) : Option Stmt :=
  if s = "setClosed" then some .setClosed else if s = "deferCloseRead" then some .deferCloseRead
  else if s = "closeReadNow" then some .closeReadNow else if s = "flush" then some .flush
  else if s = "encClose" then some .encClose else if s = "sendCloseIQ" then some .sendCloseIQ
  else if s = "closeResp" then some .closeResp else if s = "other" then some .other else none

def parseProgram : List String → Option (List Stmt)
  | [] => some []
  | x :: xs => do
    let a ← parseStmt x
    let r ← parseProgram xs
    pure (a :: r)

/-- position of the first occurrence of a statement -/
def indexOf (p : List Stmt) (st : Stmt) : Option Nat :=
  let i := p.findIdx (· == st)
  if i < p.length then some i else none

end XmppModel.IbbClose
