/-!
# Control points of `ibb.Conn.Close` / `closeNoNotify` (C15, C06 "in-band bytestream close")

A close routine is a straight-line program of abstract statements with early returns: every
fallible statement is followed by `if err != nil { return err }`.  `deferCloseRead` registers the
deferred `c.closeRead()` (unregister the stream, set the closed flag under the read lock, wake the
reader); deferred calls run on *every* return.  The harness' fact extractor regenerates the
program of both routines from `ibb/conn.go` on every run (`Generated/C15.lean`); the theorems of
`Props/C15.lean` are stated over the regenerated programs.
-/
namespace XmppModel.IbbClose

inductive Stmt
  | setClosed          -- c.closed = true
  | deferCloseRead     -- defer c.closeRead()
  | closeReadNow       -- c.closeRead() as an ordinary statement
  | unregister         -- c.handler.rmStream(sid) as an ordinary statement: from here on the
                       -- handler does not find the stream and refuses its packets
  | flush              -- c.Flush() / c.flush(t)            (fallible: a data stanza may be refused)
  | encClose           -- c.closeFlushFunc()                 (fallible: emits the padded rest)
  | sendCloseIQ        -- c.s.SendIQElement(close)           (fallible: send failure, deadline)
  | closeResp          -- respReadCloser.Close()
  | other              -- anything that neither returns nor touches the receiving side
  | earlyReturn        -- `if <condition> { return nil }`: the routine may stop here without an error
                       -- (e.g. the write side is busy); the deferred calls run
  deriving DecidableEq, Repr

def Stmt.fallible : Stmt → Bool
  | .flush | .encClose | .sendCloseIQ => true
  | _ => false

/-- a point where the routine may return: with an error (fallible statements) or without one -/
def Stmt.mayReturn : Stmt → Bool
  | .earlyReturn => true
  | st => st.fallible

structure CState where
  closedFlag : Bool := false      -- c.closed
  rxClosed : Bool := false        -- closeRead has run: stream unregistered, readClosed set, reader woken
  deferred : Bool := false        -- a deferred closeRead is registered
  failed : Bool := false          -- the routine returned an error
  closeSent : Bool := false       -- the close request went out
  registered : Bool := true       -- the handler still finds the stream
  upAtWaits : Bool := true        -- the receiving side was up at every step that waits for the peer
  deriving DecidableEq, Repr

/-- run the deferred calls (at a return) -/
def ret (s : CState) : CState := if s.deferred then { s with rxClosed := true, registered := false } else s

/-- statements during which the routine waits for the peer (acknowledgement of the flushed data,
of the padded rest, the answer to the close request): the peer's packets that are still in
flight — and whatever it flushes when it handles our close request — arrive at these points -/
def Stmt.waits : Stmt → Bool
  | .flush | .encClose | .sendCloseIQ | .closeResp => true
  | _ => false

/-- execute the program; `fault = some k`: the statement at position `k` fails (if it can), or —
an `earlyReturn` — takes its return -/
def exec (fault : Option Nat) : List Stmt → Nat → CState → CState
  | [], _, s => ret s
  | st :: rest, k, s =>
    if st.fallible && fault == some k then ret { s with failed := true }
    else if st == .earlyReturn && fault == some k then ret s
    else
      let s := if st.waits then { s with upAtWaits := s.upAtWaits && s.registered && !s.rxClosed } else s
      let s' := match st with
        | .setClosed => { s with closedFlag := true }
        | .deferCloseRead => { s with deferred := true }
        | .closeReadNow => { s with rxClosed := true, registered := false }
        | .unregister => { s with registered := false }
        | .sendCloseIQ => { s with closeSent := true }
        | _ => s
      exec fault rest (k + 1) s'

def run (fault : Option Nat) (p : List Stmt) : CState := exec fault p 0 {}

/-- the receiving side is taken down whatever happens: no fault, or a fault at any position -/
def alwaysClosesRead (p : List Stmt) : Bool :=
  (run none p).rxClosed && (List.range p.length).all fun k => (run (some k) p).rxClosed

/-- a Close that succeeds keeps receiving until the peer has answered the close request: at
every step that waits for the peer the stream is still registered and its receiving side open -/
def receivesWhileWaiting (p : List Stmt) : Bool :=
  (run none p).upAtWaits && (run none p).closeSent

/-- the routines as written in the repaired `ibb/conn.go` (used by the driver) -/
def closeProgram : List Stmt :=
  [.setClosed, .deferCloseRead, .flush, .encClose, .other, .sendCloseIQ, .closeResp]

def closeNoNotifyProgram : List Stmt :=
  [.setClosed, .deferCloseRead, .earlyReturn, .other, .other, .other, .flush, .encClose]

/-- names used by the fact extractor (`harness/c15/facts.go`) -/
def parseStmt (s : String) : Option Stmt :=
  if s = "setClosed" then some .setClosed else if s = "deferCloseRead" then some .deferCloseRead
  else if s = "closeReadNow" then some .closeReadNow else if s = "flush" then some .flush
  else if s = "encClose" then some .encClose else if s = "sendCloseIQ" then some .sendCloseIQ
  else if s = "closeResp" then some .closeResp else if s = "other" then some .other
  else if s = "unregister" then some .unregister else if s = "earlyReturn" then some .earlyReturn else none

def parseProgram : List String → Option (List Stmt)
  | [] => some []
  | x :: xs => do
    let a ← parseStmt x
    let r ← parseProgram xs
    pure (a :: r)

/-- position of the first occurrence of a statement -/
def indexOf (p : List Stmt) (st : Stmt) : Option Nat :=
  let i := p.findIdx (· == st)
  if i < p.length then some i else none

/-! ### control points of `ibb.open`

The open routine as a straight-line program: `register` (`h.addStream`), and fallible steps
(send the request, read the reply's start token, check it, check for an error reply), each with
the information whether its error branch unregisters the stream (`h.rmStream`). -/

inductive OStmt
  | register                       -- h.addStream(sid, conn)
  | fallible (unregisters : Bool)  -- a step followed by `if … { [h.rmStream(sid);] return nil, err }`
  | other
  deriving DecidableEq, Repr

/-- (registered, failed) after running the program with the `k`-th statement failing -/
def oexec (fault : Option Nat) : List OStmt → Nat → Bool → Bool × Bool
  | [], _, reg => (reg, false)
  | st :: rest, k, reg =>
    match st with
    | .register => oexec fault rest (k + 1) true
    | .other => oexec fault rest (k + 1) reg
    | .fallible u => if fault == some k then (reg && !u, true) else oexec fault rest (k + 1) reg

/-- the sid is registered exactly when the open succeeded: no fault → registered; a fault at any
step → not registered -/
def registersIffAccepted (p : List OStmt) : Bool :=
  (oexec none p 0 false == (true, false)) &&
  (List.range p.length).all fun k =>
    let r := oexec (some k) p 0 false
    !r.2 || !r.1

def parseOStmt (s : String) : Option OStmt :=
  if s = "register" then some .register else if s = "fallible" then some (.fallible false)
  else if s = "fallible+unregister" then some (.fallible true) else if s = "other" then some .other else none

def parseOProgram : List String → Option (List OStmt)
  | [] => some []
  | x :: xs => do
    let a ← parseOStmt x
    let r ← parseOProgram xs
    pure (a :: r)

end XmppModel.IbbClose
