/-!
# Model of the initiating side of session negotiation with STARTTLS configured (C02)

Self-contained model of what `negotiateSession` (session.go), `negotiator` (negotiator.go, incl.
the tee branch), the initiator half of `negotiateFeatures`/`readStreamFeatures` (features.go)
and the client half of `StartTLS(...).Negotiate` (starttls.go) do, at the level of *units*
(a stream header, a features list, an answer element, …) read from a connection that
delivers *segments* (what one `Read` returns) into a decoder with a read-ahead buffer.

External behaviour is a parameter:

* the peer: `clear` — the clear-text segments it sends, `prot` — what it sends once the
  client speaks TLS (units inside the TLS layer, or raw junk below it);
* the callbacks of the other configured features and Go's map iteration order: `oracle` —
  the features negotiated, in order, with the result of each `Negotiate` call; a pick that
  the selection rule does not allow ends the run with `badPick`;
* `crypto/tls`: a handshake succeeds unless the next bytes on the connection are not TLS
  records; what a TLS layer does to the bytes is not modelled (events carry a flag saying
  whether they went through the layer);
* two behaviours of features.go that C02 does not constrain (`rr`, `rt` in `Cfg`).

Total functions, core Lean only.  Loops the peer controls consume `fuel`.
-/
namespace XmppModel.StartTLS

abbrev Mask := BitVec 8

def Secure : Mask := 1
def Authn : Mask := 2
def Ready : Mask := 4
def Received : Mask := 8
def OutClosed : Mask := 16
def InClosed : Mask := 32
def S2S : Mask := 64

/-- all bits of `m` are set in `s` -/
def has (s m : Mask) : Bool := s &&& m == m

/-- the mask test of features.go: `s&nec == nec && s&proh == 0` -/
def eligible (s nec proh : Mask) : Bool := (s &&& nec == nec) && (s &&& proh == 0)

/-- bits whose effect on the negotiation (role flip, closed streams) is not modelled -/
def unmodelledBits : Mask := Received ||| OutClosed ||| InClosed

structure Feature where
  id : Nat
  nec : Mask
  proh : Mask
  negotiable : Bool
  deriving Repr

/-- `xmpp.StartTLS(cfg)`: no prerequisite, prohibited once `Secure`; its namespace is id 0 -/
def startTLS : Feature := ⟨0, 0, Secure, true⟩

/-- one child of `<stream:features/>`: which feature (an id that is not configured = an
unknown feature), what its `Parse` callback reports -/
structure Item where
  id : Nat
  req : Bool
  ok : Bool
  deriving Repr, DecidableEq

/-- an address: localpart, domainpart, resourcepart (`loc`/`res` 0 = the part is absent; the
numbers are indices into a universe of spellings, equal numbers = `jid.JID.Equal`) -/
structure Addr where
  loc : Nat
  dom : Nat
  res : Nat
  deriving Repr, DecidableEq

/-- the `from` attribute of a stream header the peer sends, relative to the address the session
expects its peer to have (the negotiator only compares the two) -/
inductive HFrom | absent | same | differ
  deriving Repr, DecidableEq

/-- what the peer can send at the top level of the stream -/
inductive Unit
  /-- a stream header whose addresses are the expected ones (`from` the remote address, `to` the
  session's own address or absent); `ok`: everything else about it is acceptable -/
  | hdr (ok : Bool)
  /-- an otherwise acceptable stream header with addresses of the peer's choosing -/
  | hdrA (frm : HFrom) (to : Option Addr)
  | list (items : List Item)
  | proceed | failure | streamErr | tlsOther | foreign | space | malformed
  /-- a `<stream:error/>` element that declares the stream namespace itself: it is recognised
  wherever it appears — also in place of a stream header, where `streamErr` (which relies on the
  prefix declared by the header) is just an unexpected element.  With the WebSocket framing every
  top-level element is a document of its own, so this is the only stream error there is. -/
  | streamErrD
  deriving Repr, DecidableEq

inductive PItem
  | unit (u : Unit)
  /-- bytes with which the client's TLS layer cannot go on: junk below the layer — or, when the
  handshake is due, a handshake the client must not accept (a certificate for another name, or of
  an unknown CA): the ClientHello leaves, the handshake fails, nothing is delivered -/
  | junk
  deriving Repr

/-- result of one `Negotiate` call of a feature other than STARTTLS -/
structure NegRes where
  mask : Mask
  restart : Bool
  err : Bool
  deriving Repr

/-- what features.go sees of the configuration -/
structure FCfg where
  /-- features.go: `Ready` is OR-ed into a result that also carries a new `io.ReadWriter`
  when nothing in the list was required -/
  rr : Bool
  /-- features.go: the masks of a cached feature are tested again when it is selected -/
  rt : Bool
  /-- features.go: when nothing is left to select, a required feature of the list that was
  skipped when the list was read (its masks did not hold then) but could be negotiated now
  makes the list an error ("features advertised out of order") instead of `Ready` -/
  sk : Bool
  others : List Feature
  deriving Repr

structure Cfg extends FCfg where
  /-- `TeeIn`/`TeeOut` set (only negotiator.go looks at it) -/
  tee : Bool
  deriving Repr

inductive ErrClass | read | tls | streamerr | refused | proto | feat
  deriving Repr, DecidableEq

/-- why a run stops without a session -/
inductive Stop
  | err (e : ErrClass)
  | fuel | oracle | badPick | unmodelled
  deriving Repr, DecidableEq

/-- the new `io.ReadWriter` a negotiator call returns: none, the same connection (a feature
asked for a restart), a TLS client on top of the connection -/
inductive Rw | none | same | tls
  deriving Repr, DecidableEq

/-- a TLS server name: the domain of some address, or the name of an explicit `tls.Config` -/
inductive Name
  | dom (i : Nat)
  | explicit
  deriving Repr, DecidableEq

inductive Ev
  /-- writes; `tls` = the write went through an installed TLS layer -/
  | wHdr (tls : Bool)
  | wStartTLS (tls : Bool)
  | wOther (id : Nat) (tls : Bool)
  /-- a unit handed to the XML consumers: did its bytes arrive in clear text, and is a TLS
  layer installed now? -/
  | deliver (fromClear : Bool) (tls : Bool)
  /-- the TLS layer is installed -/
  | switch
  /-- a ClientHello naming this server leaves -/
  | hello (n : Name)
  deriving Repr, DecidableEq

/-- the scheme of a WebSocket origin / location URL -/
inductive Scheme | http | https | ws | wss
  deriving Repr, DecidableEq

/-- the kinds of `io.ReadWriter` a session can be created on -/
inductive ConnKind
  /-- a plain `io.ReadWriter` (wrapped by `newConn`) -/
  | plainRW
  /-- a `net.Conn` in clear text -/
  | netConn
  /-- a clear-text `net.Conn` wrapper that has a `ConnectionState()` method (a byte counter, a
  logging connection): it satisfies the `tlsConn` interface but is not TLS -/
  | stateMethod
  /-- a real `*tls.Conn` whose configuration names the server `n` -/
  | tlsConn (n : Name)
  /-- WebSocket framing (`websocket.Negotiator` / `websocket.NewSession`) on an `io.ReadWriter`
  that is not a `*websocket.Conn` (`netConn`: it is a `net.Conn`): a clear-text carrier -/
  | wsRaw (netConn : Bool)
  /-- `websocket.NewSession` on a `*websocket.Conn`: which side of the WebSocket handshake it was
  (`client`), the scheme of its origin URL and of its location URL.  RFC 6455: the location
  scheme says what the connection runs over — `wss` = TLS, `ws` = clear text; the origin is the
  URL of the page/application that opened it and says nothing about the transport. -/
  | wsConn (client : Bool) (origin location : Scheme)
  deriving Repr, DecidableEq

/-- what the connection really runs over (for a `*websocket.Conn`: RFC 6455, the location scheme) -/
def ConnKind.transportTLS : ConnKind → Bool
  | .tlsConn _ => true
  | .wsConn _ _ l => l == .wss
  | _ => false

/-- `negotiateSession`: only a `*tls.Conn` makes a session start with `Secure` set;
`websocket.NewSession`: only a `*websocket.Conn` whose location is a `wss:` URL -/
def ConnKind.startsSecure : ConnKind → Bool
  | .tlsConn _ => true
  | .wsConn _ _ l => l == .wss
  | _ => false

/-- the session uses the WebSocket framing (`<open/>` … `<close/>`, every element its own document) -/
def ConnKind.wsFraming : ConnKind → Bool
  | .wsRaw _ | .wsConn _ _ _ => true
  | _ => false

/-- the server name of the connection's own TLS configuration, if it is a TLS connection -/
def ConnKind.name : ConnKind → Option Name
  | .tlsConn n => some n
  | _ => none

/-- what a session is created with besides the negotiator: the domain of its own address and
the STARTTLS feature value (its closure variable: `none` for `StartTLS(nil)`) -/
structure Env where
  /-- domainpart of the session's OWN (local) address: for an initiator the `origin` argument of
  `NewSession` -/
  domain : Nat
  /-- domainpart of the REMOTE address (the `location` argument of `NewSession`); it may differ
  from `domain` (hosted domains, server-to-server).  No function of the model reads it: the
  server name of the default TLS configuration depends on the local address only. -/
  remote : Nat
  captured : Option Name
  /-- the connection handed to `NewSession` -/
  conn : ConnKind
  deriving Repr

structure Sess where
  state : Mask
  /-- a TLS layer is installed -/
  tls : Bool
  /-- its handshake has been performed (crypto/tls handshakes lazily) -/
  hs : Bool
  /-- read-ahead of the current XML decoder; every unit is tagged "arrived in clear text" -/
  buf : List (Bool × Unit)
  clear : List (List Unit)
  prot : List PItem
  oracle : List (Nat × NegRes)
  negotiated : List Nat
  doRestart : Bool
  first : Bool
  /-- `Session.in.Info.To`, what `LocalAddr()` returns: the session's own address — assigned from
  every stream header the negotiator accepts (`*in = newIn`) -/
  laddr : Addr
  /-- the configuration variable closed over by the STARTTLS feature value (`none`: nil) -/
  captured : Option Name
  /-- server name of the `tls.Config` handed to `tls.Client` -/
  sni : Option Name
  /-- `Session.features` — what `Session.Feature` reports as advertised: the namespaces of the
  features lists read on the current stream; each entry is tagged "its list was read inside an
  installed TLS layer" -/
  features : List (Nat × Bool)
  /-- newest first -/
  trace : List Ev

inductive Res (α : Type)
  | ok (a : α) (s : Sess)
  | stop (why : Stop) (s : Sess)

/-! ### the connection -/

/-- next unit of the clear-text script, the rest of its segment, the remaining segments -/
def pullClear : List (List Unit) → Option (Unit × List Unit × List (List Unit))
  | [] => none
  | [] :: rest => pullClear rest
  | (u :: us) :: rest => some (u, us, rest)

/-- the client speaks first: a ClientHello with the configured server name -/
def sendHello (s : Sess) : Sess :=
  match s.sni with
  | some n => { s with trace := .hello n :: s.trace }
  | none => s

/-- crypto/tls handshakes on first use of the layer; it fails when the peer's next bytes are
not TLS records (left-over clear text, or junk) -/
def handshake (s : Sess) : Res PUnit :=
  if s.tls && !s.hs then
    match pullClear s.clear with
    | some _ => .stop (.err .tls) (sendHello s)
    | none =>
      match s.prot with
      | .junk :: _ => .stop (.err .tls) (sendHello s)
      | _ => .ok () { sendHello s with hs := true }
  else .ok () s

/-- one write of the client -/
def write (e : Bool → Ev) (s : Sess) : Res PUnit :=
  match handshake s with
  | .stop w s' => .stop w s'
  | .ok _ s' => .ok () { s' with trace := e s'.tls :: s'.trace }

/-- next unit for the XML consumers: from the decoder's buffer, else from the connection
(one segment into the buffer in clear text; one unit per TLS record inside the layer) -/
def pull (s : Sess) : Res Unit :=
  match s.buf with
  | (o, u) :: rest => .ok u { s with buf := rest, trace := .deliver o s.tls :: s.trace }
  | [] =>
    match handshake s with
    | .stop w s' => .stop w s'
    | .ok _ s =>
      if s.tls then
        match pullClear s.clear with
        | some _ => .stop (.err .tls) s
        | none =>
          match s.prot with
          | [] => .stop (.err .read) s
          | .junk :: _ => .stop (.err .tls) s
          | .unit u :: rest => .ok u { s with prot := rest, trace := .deliver false true :: s.trace }
      else
        match pullClear s.clear with
        | none => .stop (.err .read) s
        | some (u, us, rest) =>
          .ok u { s with buf := us.map (fun x => (true, x)), clear := rest,
                         trace := .deliver true false :: s.trace }

/-! ### negotiator.go: header exchange -/

/-- negotiator.go, initiating branch, after `intstream.Expect` accepted the header's shape: the
header's `from` must be the remote address (`location := s.RemoteAddr()`; an absent attribute
leaves the copied value in place), its `to` must be absent or the session's own address
(`origin := s.LocalAddr()`, read anew on every call); only then the header replaces the stream
info (`*in = newIn`) — `LocalAddr()` is what the header said from then on. -/
def hdrAccepted (frm : HFrom) (to : Option Addr) (own : Addr) : Bool :=
  frm != .differ && (to == none || to == some own)

/-- `*in = newIn`: an attribute that is absent leaves the value copied from the old stream info -/
def infoTo (to : Option Addr) (old : Addr) : Addr :=
  match to with
  | some a => a
  | none => old

def acceptHdr (frm : HFrom) (to : Option Addr) (s : Sess) : Res PUnit :=
  if hdrAccepted frm to s.laddr then .ok () { s with laddr := infoTo to s.laddr }
  else .stop (.err .proto) s

/-- `intstream.Expect`: white space is skipped, then a stream header must come -/
def expectHdr : Nat → Sess → Res PUnit
  | 0, s => .stop .fuel s
  | n + 1, s =>
    match pull s with
    | .stop w s' => .stop w s'
    | .ok u s' =>
      match u with
      | .space => expectHdr n s'
      | .hdr true => .ok () s'
      | .hdrA f t => acceptHdr f t s'
      -- (a `<stream:error/>` in place of the header cannot be recognised: its prefix is
      -- not declared yet, so it is just an unexpected element)
      | .malformed => .stop (.err .read) s'
      -- (`Expect` itself decodes an element `error` in the stream namespace)
      | .streamErrD => .stop (.err .streamerr) s'
      | _ => .stop (.err .proto) s'

/-! ### features.go: reading the list -/

structure Cached where
  id : Nat
  req : Bool
  f : Feature
  deriving Repr

def lookup (cfg : FCfg) (id : Nat) : Option Feature :=
  (startTLS :: cfg.others).find? (fun f => f.id == id)

/-- the cache is a Go map keyed by namespace: a later entry replaces an earlier one -/
def cacheInsert (cache : List Cached) (c : Cached) : List Cached :=
  cache.filter (fun x => x.id != c.id) ++ [c]

/-- `readStreamFeatures`: `Parse` is called for every configured feature in the list (its
`req` is OR-ed into the list's, its error ends the negotiation); the feature is cached only
if its masks hold now -/
def parseItems (cfg : FCfg) (state : Mask) : List Item → Bool → List Cached → Except ErrClass (Bool × List Cached)
  | [], req, cache => .ok (req, cache)
  | it :: rest, req, cache =>
    match lookup cfg it.id with
    | none => parseItems cfg state rest req cache
    | some f =>
      if !it.ok then .error .feat
      else if eligible state f.nec f.proh then
        parseItems cfg state rest (req || it.req) (cacheInsert cache ⟨it.id, it.req, f⟩)
      else parseItems cfg state rest (req || it.req) cache

/-- the configured features of the list that were not cached because their masks did not hold
when the list was read (`streamFeaturesList.skipped`) -/
def skippedItems (cfg : FCfg) (state : Mask) (items : List Item) : List Cached :=
  items.filterMap fun it =>
    match lookup cfg it.id with
    | some f => if eligible state f.nec f.proh then none else some ⟨it.id, it.req, f⟩
    | none => none

/-! ### features.go: selecting and negotiating -/

def candidates (cfg : FCfg) (cache : List Cached) (s : Sess) : List Cached :=
  cache.filter fun c =>
    !(s.negotiated.contains c.id) && c.f.negotiable && (!cfg.rt || eligible s.state c.f.nec c.f.proh)

/-- the selection rule: any voluntary candidate if there is one, else any mandatory one
(which one is Go's map iteration order) -/
def allowed (cands : List Cached) : List Cached :=
  if (cands.filter fun c => !c.req).isEmpty then cands else cands.filter fun c => !c.req

structure FOut where
  mask : Mask
  rw : Rw

/-- `Negotiate` of the value returned by `StartTLS(cfg)`: `captured` is the closure variable
(`none` = nil config).  Returns the closure variable afterwards and the server name of the
config handed to `tls.Client` (the default names the domain of the session's own address). -/
def negotiateName (captured : Option Name) (domain : Nat) : Option Name × Name :=
  match captured with
  | some n => (captured, n)
  | none => (captured, .dom domain)

/-- the TLS configuration is chosen when `Negotiate` is entered: the default one names
`session.LocalAddr().Domain()` — the address as it is in the session at that moment -/
def chooseConfig (s : Sess) : Sess :=
  { s with captured := (negotiateName s.captured s.laddr.dom).1,
           sni := some (negotiateName s.captured s.laddr.dom).2 }

/-- one `Negotiate` call -/
def negotiateOne (c : Cached) (res : NegRes) (s : Sess) : Res (Mask × Rw) :=
  if c.id == 0 then
    -- the real STARTTLS feature, initiating side
    match write .wStartTLS (chooseConfig s) with
    | .stop w s' => .stop w s'
    | .ok _ s1 =>
      match pull s1 with
      | .stop w s' => .stop w s'
      | .ok u s2 =>
        match u with
        | .proceed => .ok (Secure, .tls) s2
        | .failure => .stop (.err .refused) s2
        | .streamErr => .stop (.err .streamerr) s2
        | .streamErrD => .stop (.err .streamerr) s2
        | .malformed => .stop (.err .read) s2
        | _ => .stop (.err .proto) s2
  else
    match write (.wOther c.id) s with
    | .stop w s' => .stop w s'
    | .ok _ s1 =>
      if res.err then .stop (.err .feat) s1
      else if res.mask &&& unmodelledBits != 0 then .stop .unmodelled s1
      else .ok (res.mask, if res.restart then .same else .none) s1

/-- the features one iteration of the selection loop may pick: STARTTLS when the RFC 7590
attempt is due, else what the selection rule allows among the cached features -/
def pickSet (cfg : FCfg) (doTLS : Bool) (cache : List Cached) (s : Sess) : List Cached :=
  if doTLS then [⟨0, true, startTLS⟩] else allowed (candidates cfg cache s)

/-- nothing (more) to select: the list is done — unless a required feature that was skipped when
the list was read has become negotiable in the meantime -/
def finishList (cfg : FCfg) (skipped : List Cached) (s : Sess) : Res FOut :=
  if cfg.sk && skipped.any (fun c =>
      c.req && !(s.negotiated.contains c.id) && c.f.negotiable && eligible s.state c.f.nec c.f.proh) then
    .stop (.err .proto) s
  else .ok ⟨Ready, .none⟩ s

/-- the selection loop of `negotiateFeatures`; every iteration consumes one oracle entry -/
def select (cfg : FCfg) (doTLS listReq : Bool) (cache skipped : List Cached) : List (Nat × NegRes) → Sess → Res FOut
  | orc, s =>
    if (pickSet cfg doTLS cache s).isEmpty then finishList cfg skipped s
    else
      match orc with
      | [] => .stop .oracle s
      | (id, res) :: orc' =>
        match (pickSet cfg doTLS cache s).find? (fun c => c.id == id) with
        | none => .stop .badPick s
        | some c =>
          match negotiateOne c res { s with oracle := orc' } with
          | .stop w s' => .stop w s'
          | .ok (mask, rw) s1 =>
            let s2 := { s1 with state := s1.state ||| mask, negotiated := c.id :: s1.negotiated }
            if rw != .none || c.req then
              .ok ⟨if !listReq && (cfg.rr || rw == .none) then mask ||| Ready else mask, rw⟩ s2
            else select cfg doTLS listReq cache skipped orc' s2

/-- initiator half of `negotiateFeatures` -/
def negotiateFeatures (cfg : FCfg) (first : Bool) (s : Sess) : Res FOut :=
  match pull s with
  | .stop w s' => .stop w s'
  | .ok u s1 =>
    match u with
    | .list items =>
      match parseItems cfg s1.state items false [] with
      | .error e => .stop (.err e) s1
      | .ok (req, cache) =>
        -- RFC 7590: on the first list, try STARTTLS even if it was not advertised
        let doTLS := first && !(cache.any fun c => c.id == 0) && !(has s1.state Secure)
        if !doTLS && items.isEmpty then .ok ⟨Ready, .none⟩ s1
        else if !doTLS && cache.isEmpty then .stop (.err .proto) s1
        else select cfg doTLS req cache (skippedItems cfg s1.state items) s1.oracle s1
    | .streamErr => .stop (.err .streamerr) s1
    | .streamErrD => .stop (.err .streamerr) s1
    | .malformed => .stop (.err .read) s1
    | _ => .stop (.err .proto) s1

/-- the namespaces `readStreamFeatures` records as advertised: every child of the list, known or
not, up to and including one whose `Parse` fails -/
def advertised (cfg : FCfg) : List Item → List Nat
  | [] => []
  | it :: rest =>
    match lookup cfg it.id with
    | some _ => if !it.ok then [it.id] else it.id :: advertised cfg rest
    | none => it.id :: advertised cfg rest

def advert (ids : List Nat) (t : Bool) (s : Sess) : Sess :=
  { s with features := s.features ++ ids.map (fun id => (id, t)) }

/-- what the features list about to be read will advertise (nothing if no list is delivered) -/
def peekAdv (cfg : FCfg) (s : Sess) : List Nat :=
  match pull s with
  | .ok (.list items) _ => advertised cfg items
  | _ => []

def addAdv {α : Type} (ids : List Nat) (t : Bool) : Res α → Res α
  | .ok a s => .ok a (advert ids t s)
  | .stop w s => .stop w (advert ids t s)

/-- `negotiateFeatures` together with the bookkeeping of `Session.features` (nothing between
reading the list and the end of the call touches it, so it is added at the end) -/
def negotiateFeaturesAdv (cfg : FCfg) (first : Bool) (s : Sess) : Res FOut :=
  addAdv (peekAdv cfg s) s.tls (negotiateFeatures cfg first s)

/-! ### negotiator.go / session.go -/

/-- one call of the negotiator that is not the tee wrap: header exchange when a restart is
due, then the features -/
def step (cfg : FCfg) (fuel : Nat) (s : Sess) : Res FOut :=
  let r : Res PUnit :=
    if s.doRestart then
      match write .wHdr s with
      | .stop w s' => .stop w s'
      | .ok _ s1 => expectHdr fuel s1
    else .ok () s
  match r with
  | .stop w s' => .stop w s'
  | .ok _ s2 =>
    match negotiateFeaturesAdv cfg s2.first { s2 with first := false } with
    | .stop w s' => .stop w s'
    | .ok out s3 => .ok out { s3 with doRestart := out.rw != .none }

/-- `negotiateSession` on a new `io.ReadWriter`: new decoder (its read-ahead is gone), the
negotiated set and the advertised-features map are cleared -/
def restartDec (s : Sess) : Sess := { s with buf := [], negotiated := [], features := [] }

def install (rw : Rw) (s : Sess) : Sess :=
  match rw with
  | .none => s
  | .same => restartDec s
  | .tls => { restartDec s with tls := true, hs := false, trace := .switch :: s.trace }

inductive Outcome
  /-- a session: its state, whether a TLS layer is installed, whether its handshake is complete -/
  | done (state : Mask) (tls : Bool) (hs : Bool)
  | stop (why : Stop)
  deriving Repr, DecidableEq

/-- the loop of `negotiateSession`.  `teeOn`: the connection is currently a `teeConn`.  When a
tee is configured and the connection is not wrapped, the negotiator first returns the wrapped
connection (a new `io.ReadWriter`, so the decoder is recreated) and is called again. -/
def loop (cfg : Cfg) : Nat → Bool → Sess → Sess × Outcome
  | 0, _, s => (s, .stop .fuel)
  | fuel + 1, teeOn, s =>
    if has s.state Ready then (s, .done s.state s.tls (s.tls && s.hs))
    else
      let s1 := if cfg.tee && !teeOn then restartDec s else s
      match step cfg.toFCfg (fuel + 1) s1 with
      | .stop w s2 => (s2, .stop w)
      | .ok out s2 =>
        let s3 := install out.rw s2
        let teeOn' := if out.rw == .tls then false else (teeOn || cfg.tee)
        loop cfg fuel teeOn' { s3 with state := s3.state ||| out.mask }

structure Input where
  clear : List (List Unit)
  prot : List PItem
  oracle : List (Nat × NegRes)

/-- the `origin` argument of `NewSession`: `user@domain`, or the bare domain of a server on a
server-to-server stream -/
def ownAddr (env : Env) (state0 : Mask) : Addr :=
  ⟨if has state0 S2S then 0 else 1, env.domain, 0⟩

def init (env : Env) (state0 : Mask) (i : Input) : Sess :=
  { state := if env.conn.startsSecure then state0 ||| Secure else state0,
    tls := env.conn.startsSecure, hs := false, buf := [], clear := i.clear, prot := i.prot,
    oracle := i.oracle, negotiated := [], doRestart := true, first := true,
    laddr := ownAddr env state0, captured := env.captured, sni := env.conn.name, features := [], trace := [] }

/-- a whole `NewSession` call of an initiator; the trace is returned oldest first -/
def run (cfg : Cfg) (env : Env) (state0 : Mask) (i : Input) (fuel : Nat) : List Ev × Outcome :=
  if state0 &&& unmodelledBits != 0 then ([], .stop .unmodelled)
  else
    let r := loop cfg fuel false (init env state0 i)
    (r.1.trace.reverse, r.2)

/-- the closure variable of the STARTTLS feature value after the session -/
def capturedAfter (cfg : Cfg) (env : Env) (state0 : Mask) (i : Input) (fuel : Nat) : Option Name :=
  if state0 &&& unmodelledBits != 0 then env.captured
  else (loop cfg fuel false (init env state0 i)).1.captured

/-- what `Session.LocalAddr()` returns after the call (on a session or after an error) -/
def localAfter (cfg : Cfg) (env : Env) (state0 : Mask) (i : Input) (fuel : Nat) : Addr :=
  if state0 &&& unmodelledBits != 0 then ownAddr env state0
  else (loop cfg fuel false (init env state0 i)).1.laddr

/-- what `Session.Feature` reports after the call (on a session or after an error) -/
def featuresAfter (cfg : Cfg) (env : Env) (state0 : Mask) (i : Input) (fuel : Nat) : List (Nat × Bool) :=
  if state0 &&& unmodelledBits != 0 then []
  else (loop cfg fuel false (init env state0 i)).1.features

/-- … and whether a TLS layer is installed then -/
def tlsAfter (cfg : Cfg) (env : Env) (state0 : Mask) (i : Input) (fuel : Nat) : Bool :=
  if state0 &&& unmodelledBits != 0 then false
  else (loop cfg fuel false (init env state0 i)).1.tls

/-- one session of a history: everything but the feature value -/
structure SessionSpec where
  cfg : Cfg
  domain : Nat
  remote : Nat
  conn : ConnKind
  state0 : Mask
  input : Input
  fuel : Nat

/-- a history of sessions negotiated with one STARTTLS feature value -/
def history : Option Name → List SessionSpec → List (List Ev × Outcome)
  | _, [] => []
  | cap, x :: rest =>
    run x.cfg ⟨x.domain, x.remote, cap, x.conn⟩ x.state0 x.input x.fuel ::
      history (capturedAfter x.cfg ⟨x.domain, x.remote, cap, x.conn⟩ x.state0 x.input x.fuel) rest

/-! ### the server name offered by a reused feature value -/

/-- how far a session gets: `n` — `Negotiate` of STARTTLS is never called; `f` — called, the
peer refuses; `p`, `x` — called (advertised / forced), the peer says proceed -/
inductive Kind | p | x | f | n
  deriving Repr, DecidableEq

/-- the server names seen in the ClientHellos of a list of sessions that share one feature
value (`none`: the session sends no ClientHello) -/
structure SniSess where
  /-- own domain, remote domain, server-to-server?, how far the session gets -/
  domain : Nat
  remote : Nat
  s2s : Bool
  kind : Kind
  deriving Repr, DecidableEq

def sessions : Option Name → List SniSess → List (Option Name)
  | _, [] => []
  | cap, x :: rest =>
    match x.kind with
    | .n => none :: sessions cap rest
    | .f => none :: sessions (negotiateName cap x.domain).1 rest
    | _ => some (negotiateName cap x.domain).2 :: sessions (negotiateName cap x.domain).1 rest

/-! ### the same with what `Negotiate` does to its closure variable as a parameter -/

/-- what `Negotiate` of a STARTTLS feature value does: from (closure variable, domain of the
session's own address) to (closure variable afterwards, server name handed to `tls.Client`) -/
abbrev NameFn := Option Name → Nat → Option Name × Name

/-- `sessions` for an arbitrary `Negotiate` -/
def sessionsG (f : NameFn) : Option Name → List SniSess → List (Option Name)
  | _, [] => []
  | cap, x :: rest =>
    match x.kind with
    | .n => none :: sessionsG f cap rest
    | .f => none :: sessionsG f (f cap x.domain).1 rest
    | _ => some (f cap x.domain).2 :: sessionsG f (f cap x.domain).1 rest

/-- starttls.go before bd73f11: the default configuration was assigned to the closure variable -/
def negotiateNameCapturing : NameFn
  | some n, _ => (some n, n)
  | none, d => (some (.dom d), .dom d)

end XmppModel.StartTLS
