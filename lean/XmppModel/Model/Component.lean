import XmppModel.Prelude.Hex
/-!
# The component handshake (XEP-0114) as a session negotiator — C04

`component.Negotiator(addr, secret, false)` (component/component.go) inside the loop of
`negotiateSession`: write the stream header, read tokens until the peer's stream header (one
leading processing instruction is allowed), write `<handshake>digest</handshake>`, read the
acknowledgement up to its end tag (`d.Skip()`).  One call either returns `Ready|Authn` or an error.

Parameters: the peer script (one item per read of the connection), failing I/O operations by
index, blocking operations, cancellation of the context (a function of the trace), and which
deadlines the context watcher of `negotiateSession` moves (`dlRd`, `dlWr`, as in
`Model/Negotiate.lean`).
-/
namespace XmppModel.Component

inductive Item
  /-- a processing instruction (`<?xml …?>`) -/
  | pi
  /-- a `stream:stream` start tag; `id`: it carries a non-empty `id` -/
  | hdr (id : Bool)
  /-- a `stream:stream` start tag `FromStartElement` rejects -/
  | hdrBad
  /-- the complete acknowledgement in one piece: `<handshake/>` or `<handshake></handshake>` -/
  | ack
  /-- only the start tag `<handshake>` -/
  | ackOpen
  /-- an end tag `</handshake>` -/
  | ackClose
  /-- `<stream:error>…</stream:error>` -/
  | serr
  /-- any other element -/
  | other
  /-- character data -/
  | text
  deriving DecidableEq, Repr

inductive RdRes | got | eof | fault
  deriving DecidableEq, Repr

inductive Ev
  | wr (ok : Bool)
  | rd (r : RdRes)
  | blocked (wr : Bool)
  deriving DecidableEq, Repr

inductive ErrCls | io | proto | streamErr
  deriving DecidableEq, Repr

structure Oracle where
  fault : Nat → Bool
  cancel : List Ev → Bool
  block : Nat → Bool
  dlRd : Bool
  dlWr : Bool

inductive Pc
  /-- write the stream header -/
  | start
  /-- entry of `component.Negotiator(addr, secret, true)` — the receiving side, what
  `component.ReceiveSession` runs: not implemented, the negotiator returns an error before any I/O
  (it panicked before the `fix:` commit) -/
  | recvStart
  /-- read up to the peer's stream header; `pi`: a processing instruction was already seen -/
  | readHdr (pi : Bool)
  /-- write the handshake element; `id`: the peer's header carried a stream id -/
  | writeHs (id : Bool)
  /-- read the acknowledgement -/
  | readAck (id : Bool)
  /-- `d.Skip()`: read up to the end of the acknowledgement; `stack`: elements opened inside it
  and not yet closed (`true`: a `<handshake>`, `false`: a `<stream:stream>`) -/
  | skipAck (stack : List Bool)
  /-- back in `negotiateSession` with `Ready|Authn` and a nil error -/
  | ret
  | blocked (wr : Bool)
  | done
  | fail (c : ErrCls)
  | hung (wr : Bool)
  deriving DecidableEq, Repr

structure Conf where
  pc : Pc
  tr : List Ev
  io : Nat
  script : List Item
  deriving Repr

def init (script : List Item) : Conf := { pc := .start, tr := [], io := 0, script := script }

/-- the receiving side (`component.ReceiveSession`) -/
def initRecv (script : List Item) : Conf := { pc := .recvStart, tr := [], io := 0, script := script }

/-- one write; `next`: where to go when it succeeds -/
def write (O : Oracle) (c : Conf) (next : Pc) : Conf :=
  if O.fault c.io || (O.cancel c.tr && O.dlWr) then
    { c with io := c.io + 1, tr := .wr false :: c.tr, pc := .fail .io }
  else if O.block c.io then { c with io := c.io + 1, tr := .blocked true :: c.tr, pc := .blocked true }
  else { c with io := c.io + 1, tr := .wr true :: c.tr, pc := next }

/-- one read; `k`: what to do with the item read -/
def read (O : Oracle) (c : Conf) (k : Item → Pc) : Conf :=
  if O.fault c.io || (O.cancel c.tr && O.dlRd) then
    { c with io := c.io + 1, tr := .rd .fault :: c.tr, pc := .fail .io }
  else if O.block c.io then { c with io := c.io + 1, tr := .blocked false :: c.tr, pc := .blocked false }
  else match c.script with
    | [] => { c with io := c.io + 1, tr := .rd .eof :: c.tr, pc := .fail .io }
    | it :: r => { c with io := c.io + 1, tr := .rd .got :: c.tr, script := r, pc := k it }

def step (O : Oracle) (c : Conf) : Conf :=
  match c.pc with
  | .start => write O c (.readHdr false)
  | .recvStart => { c with pc := .fail .proto }
  | .readHdr pi => read O c fun
    | .pi => if pi then .fail .proto else .readHdr true
    | .hdr id => .writeHs id
    | _ => .fail .proto
  | .writeHs id => write O c (.readAck id)
  | .readAck id => read O c fun
    | .ack => if id then .ret else .fail .proto
    | .ackOpen => if id then .skipAck [] else .fail .proto
    | .serr => .fail .streamErr
    | _ => .fail .proto
  | .skipAck stack => read O c fun
    | .ackClose =>
      match stack with
      | [] => .ret
      | true :: r => .skipAck r
      | false :: _ => .fail .proto
    | .ackOpen => .skipAck (true :: stack)
    | .hdr _ => .skipAck (false :: stack)
    | .hdrBad => .skipAck (false :: stack)
    | _ => .skipAck stack
  | .ret => if O.cancel c.tr then { c with pc := .fail .io } else { c with pc := .done }
  | .blocked wr =>
    if O.cancel c.tr && (if wr then O.dlWr else O.dlRd) then
      { c with tr := (if wr then .wr false else .rd .fault) :: c.tr, pc := .fail .io }
    else { c with pc := .hung wr }
  | .done => c
  | .fail _ => c
  | .hung _ => c

def run (O : Oracle) : Nat → Conf → Conf
  | 0, c => c
  | n + 1, c => run O n (step O c)

def Pc.final : Pc → Bool
  | .done | .fail _ | .hung _ => true
  | _ => false

/-- the state mask the session ends with: `Ready|Authn` on success, nothing otherwise -/
def resultMask (c : Conf) : Nat := if c.pc = .done then 6 else 0

end XmppModel.Component
