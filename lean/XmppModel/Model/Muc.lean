/-!
# MUC client bookkeeping (C18) — labelled transition system

Model of `muc/muc.go` (`Client.HandlePresence`, `Client.HandleMessage`) and `muc/room.go`
(`Channel.JoinPresence`, `LeavePresence`, `Joined`) after the repairs recorded in
`KNOWN_FINDINGS.txt`:

* `Channel.JoinPresence` registers the channel in `Client.managed` under the occupant address it
  *requests* (`req`; the address it holds, `cur`, or another nickname through the `Nick` option),
  refuses with `ErrOccupantInUse` if another channel is registered there, empties `depart`,
  and on failure removes its hand-off request and the registration under the requested address
  unless that is the address the channel is still joined under;
* while a change of nickname is pending the channel stays registered under the address it holds;
  the presence handler completes a pending join only with an available presence *from the
  requested address*, then makes that the held address (dropping the old registration), sets
  `Channel.joined` and empties `depart`; other available presences of a registered address go
  to `HandleUserPresence`;
* an unavailable presence removes the registration it was found under and — only if that is the
  held address — clears `joined` and leaves a token in the buffered `depart` channel;
* `Channel.Joined` reports the flag; an error reply to the leave request also clears it and the
  registration (the package's own test `TestPartError` requires `Joined() = false` after a refused
  `Leave`; the property text does not — known finding, see `Props/C18.lean`).

Channels are numbered; occupant addresses are numbers (room and nickname together).  The presence
handler runs under `managedM`, so each presence is one atomic step; `Join`/`Leave` are split at
their `select`.  The environment may send any presence / error / invitation / unrelated stanza
for any address at any time and cancel any context.
-/
namespace XmppModel.Muc

/-- how a call fails: the room's stanza error, the end of its context, `ErrOccupantInUse`, or anything
else (`other`: the request could not be sent, or the reply carries no error element) -/
inductive JErr | stanzaErr | ctxErr | refused | other
  deriving DecidableEq, Repr, Inhabited

inductive JOut | ok | err (e : JErr)
  deriving DecidableEq, Repr, Inhabited

inductive JPc
  | idle
  | pending                 -- registered, hand-off request queued, presence sent, in (or before) the select
  | failing (e : JErr)      -- the select took the error reply / the context; clean-up not done yet
  deriving DecidableEq, Repr, Inhabited

/-- a child element of a message stanza, as far as the invitation handler cares -/
inductive Child
  | body | subject | legacyX          -- <body/>, <subject/>, <x xmlns='jabber:x:conference'/>
  | unrelated                         -- any other payload
  | mucInvite                         -- <x xmlns='…muc#user'> carrying at least one <invite/>
  | mucOther                          -- <x xmlns='…muc#user'> without an invite (decline, status)
  deriving DecidableEq, Repr, Inhabited

/-- the mediated invitation payloads of a message, wherever they stand among the children: what the
property's text counts -/
def invitationsIn (cs : List Child) : Nat := (cs.filter (· == .mucInvite)).length

def Child.isMucUser : Child → Bool
  | .mucInvite | .mucOther => true
  | _ => false

def mucPayloads (cs : List Child) : List Child := cs.filter Child.isMucUser

/-- what the code does: the multiplexer calls `Client.HandleMessage` once for every child the handler
is registered for — every muc#user payload — each time with the whole message, and the handler
decodes the message into a struct with ONE muc#user field, so the last payload wins: as many
callbacks as there are muc#user payloads if the last one carries an invitation, none otherwise.
Equal to `invitationsIn` on messages with at most one muc#user payload (`C18_invite_once_partial`),
not in general (`C18_invite_once_fails`, known finding). -/
def inviteCalls (cs : List Child) : Nat :=
  match (mucPayloads cs).getLast? with
  | some .mucInvite => (mucPayloads cs).length
  | _ => 0

inductive LPc | idle | waiting
  deriving DecidableEq, Repr, Inhabited

structure St where
  managed : Nat → Option Nat     -- occupant address ↦ channel  (`Client.managed`)
  jpc : Nat → JPc
  cur : Nat → Nat                -- `Channel.addr`: the occupant address the channel holds
  req : Nat → Nat                -- the occupant address the current / last `Join` call asked for
  lpc : Nat → LPc
  joined : Nat → Bool            -- `Channel.joined`: what `Joined()` reports
  depart : Nat → Bool            -- a token waits in the buffered `depart` channel
  member : Nat → Bool            -- SPECIFICATION ghost (literal property text): see `step`
  memberX : Nat → Bool           -- the same, but an error reply to `Leave` also ends the membership
  lastJoin : Nat → Option JOut   -- result of the last finished `Join` call
  lastLeave : Nat → Option JOut
  lastAbort : Nat → Option JOut  -- result of the last `Join` call that gave up before it had queued its request
  upres : Nat                    -- `HandleUserPresence` invocations
  invites : Nat                  -- `HandleInvite` invocations

def upd {α} (f : Nat → α) (i : Nat) (v : α) : Nat → α := fun j => if j = i then v else f j

/-- `addr0 c`: the occupant address channel `c` is created with -/
def init (addr0 : Nat → Nat) : St :=
  { managed := fun _ => none, jpc := fun _ => .idle, cur := addr0, req := addr0, lpc := fun _ => .idle, joined := fun _ => false,
    depart := fun _ => false, member := fun _ => false, memberX := fun _ => false, lastJoin := fun _ => none,
    lastLeave := fun _ => none, lastAbort := fun _ => none, upres := 0, invites := 0 }

inductive Act
  | joinStart (c a : Nat)    -- `Join` of channel `c` asking for occupant address `a`
  | joinError (c : Nat) | joinCancel (c : Nat) | joinCleanup (c : Nat)
  | joinFail (c : Nat)       -- the request of the pending `Join` could not be sent / the reply has no error element
  | joinAbort (c a : Nat)    -- a (further) `Join` call of channel `c` asking for `a` whose context is over before
                             -- its hand-off request is queued (the slot is taken by a pending call, or the
                             -- `select` chose the context): it returns at once
  | avail (a : Nat)          -- available presence with a muc#user payload from occupant address `a`
  | unavail (a : Nat)        -- unavailable presence … from `a`
  | leaveStart (c : Nat) | leaveDepart (c : Nat) | leaveError (c : Nat) | leaveCancel (c : Nat)
  | leaveFail (c : Nat)      -- the leave request could not be sent / the reply has no error element
  | message (children : List Child)  -- a message stanza with these children, in this order
  | unrelated                -- any stanza the MUC handlers are not registered for
  deriving DecidableEq, Repr

/-- The ghosts are driven by the *observable* events of the property text only: `member`
becomes true when a `Join` call succeeds and false when the unavailable presence of the occupant
address the channel holds (`Me()`) is processed — it never looks at `managed`.  `memberX` is the
same except that the room's error reply to a `Leave` call clears it too. -/
def step (s : St) : Act → Option St
  | .joinStart c a => match s.jpc c with
    | .idle =>
      if s.managed a ≠ none ∧ s.managed a ≠ some c then      -- another channel is registered there
        some { s with lastJoin := upd s.lastJoin c (some (.err .refused)) }
      else
        some { s with managed := upd s.managed a (some c), req := upd s.req c a,
                      depart := upd s.depart c false,
                      jpc := upd s.jpc c .pending, lastJoin := upd s.lastJoin c none }
    | _ => none
  | .joinError c => match s.jpc c with
    | .pending => some { s with jpc := upd s.jpc c (.failing .stanzaErr) }
    | _ => none
  | .joinCancel c => match s.jpc c with
    | .pending => some { s with jpc := upd s.jpc c (.failing .ctxErr) }
    | _ => none
  | .joinFail c => match s.jpc c with
    | .pending => some { s with jpc := upd s.jpc c (.failing .other) }
    | _ => none
  | .joinAbort c a =>
    -- `JoinPresence` up to its first `select`: refused if another channel is registered under `a`;
    -- otherwise the registration is made, `depart` emptied, the context wins the `select` and the
    -- registration is taken back if (and only if) this call made it: `managed` is as before
    if s.managed a ≠ none ∧ s.managed a ≠ some c then
      some { s with lastAbort := upd s.lastAbort c (some (.err .refused)) }
    else
      some { s with depart := upd s.depart c false, lastAbort := upd s.lastAbort c (some (.err .ctxErr)) }
  | .joinCleanup c => match s.jpc c with
    | .failing e => some { s with jpc := upd s.jpc c .idle, lastJoin := upd s.lastJoin c (some (.err e)),
                                  managed := if s.managed (s.req c) = some c ∧ ¬ (s.joined c = true ∧ s.cur c = s.req c)
                                             then upd s.managed (s.req c) none else s.managed }
    | _ => none
  | .avail a => match s.managed a with
    | none => some s
    | some c =>
      if s.jpc c = .pending ∧ s.req c = a then
        some { s with joined := upd s.joined c true, member := upd s.member c true,
                      memberX := upd s.memberX c true,
                      managed := if s.cur c ≠ a ∧ s.managed (s.cur c) = some c
                                 then upd s.managed (s.cur c) none else s.managed,
                      cur := upd s.cur c a, depart := upd s.depart c false,
                      jpc := upd s.jpc c .idle, lastJoin := upd s.lastJoin c (some .ok) }
      else some { s with upres := s.upres + 1 }
  | .unavail a =>
    let s1 := { s with member := fun c => if s.cur c = a then false else s.member c,
                       memberX := fun c => if s.cur c = a then false else s.memberX c }
    match s.managed a with
    | none => some s1
    | some c =>
      if s.cur c = a then
        some { s1 with managed := upd s.managed a none, joined := upd s.joined c false,
                       depart := upd s.depart c true }
      else some { s1 with managed := upd s.managed a none }
  | .leaveStart c => match s.lpc c with
    | .idle => some { s with lpc := upd s.lpc c .waiting, lastLeave := upd s.lastLeave c none }
    | _ => none
  | .leaveDepart c => match s.lpc c with
    | .waiting => if s.depart c then
        some { s with lpc := upd s.lpc c .idle, depart := upd s.depart c false, lastLeave := upd s.lastLeave c (some .ok) }
      else none
    | _ => none
  | .leaveError c => match s.lpc c with
    | .waiting => some { s with lpc := upd s.lpc c .idle, lastLeave := upd s.lastLeave c (some (.err .stanzaErr)),
                                joined := upd s.joined c false, memberX := upd s.memberX c false,
                                managed := if s.managed (s.cur c) = some c then upd s.managed (s.cur c) none
                                           else s.managed }
    | _ => none
  | .leaveCancel c => match s.lpc c with
    | .waiting => some { s with lpc := upd s.lpc c .idle, lastLeave := upd s.lastLeave c (some (.err .ctxErr)) }
    | _ => none
  | .leaveFail c => match s.lpc c with
    | .waiting => some { s with lpc := upd s.lpc c .idle, lastLeave := upd s.lastLeave c (some (.err .other)) }
    | _ => none
  | .message cs => some { s with invites := s.invites + inviteCalls cs }
  | .unrelated => some s

def run : St → List Act → Option St
  | s, [] => some s
  | s, a :: as => match step s a with
    | some s' => run s' as
    | none => none

/-- the channel whose *call* (`Join` / `Leave` and their outcomes) an action belongs to; presences,
messages and unrelated stanzas are the room's -/
def Act.callOf : Act → Option Nat
  | .joinStart c _ | .joinError c | .joinCancel c | .joinCleanup c | .joinFail c | .joinAbort c _ => some c
  | .leaveStart c | .leaveDepart c | .leaveError c | .leaveCancel c | .leaveFail c => some c
  | _ => none

/-! ### The muc#user payload of a presence (`muc/types.go`)

`Client.handlePresence` decodes the whole payload *before* it looks at the presence type, so a
payload that fails to decode is a presence that is not processed (the handler returns the
error).  What can fail is the decoding of the two enumerated attributes of `<item/>`:
`Affiliation.UnmarshalXMLAttr` and `Role.UnmarshalXMLAttr` accept exactly the names of XEP-0045
(the `String()` of the constants); an absent attribute leaves the zero value (`none`).  The
actions `avail` / `unavail` of the LTS stand for presences whose payload decodes; `decodeItem`
says which those are, and the theorems of `Props/C18.lean` show that every payload built from
the names of XEP-0045 is among them (the tables are tied to the code by probe facts). -/

inductive Aff | none | owner | admin | member | outcast
  deriving DecidableEq, Repr, Inhabited

inductive Role | none | moderator | participant | visitor
  deriving DecidableEq, Repr, Inhabited

def Aff.all : List Aff := [.none, .owner, .admin, .member, .outcast]
def Role.all : List Role := [.none, .moderator, .participant, .visitor]

def Aff.name : Aff → String
  | .none => "none" | .owner => "owner" | .admin => "admin" | .member => "member" | .outcast => "outcast"
def Role.name : Role → String
  | .none => "none" | .moderator => "moderator" | .participant => "participant" | .visitor => "visitor"

/-- the numeric value of the Go constant (`iota` order of the declaration) -/
def Aff.code : Aff → Nat
  | .none => 0 | .owner => 1 | .admin => 2 | .member => 3 | .outcast => 4
def Role.code : Role → Nat
  | .none => 0 | .moderator => 1 | .participant => 2 | .visitor => 3

def parseAff (s : String) : Option Aff := Aff.all.find? fun a => a.name == s
def parseRole (s : String) : Option Role := Role.all.find? fun r => r.name == s

/-- `<item affiliation=… role=…/>` as sent: attribute values, `none` = attribute absent -/
structure Item where
  aff : Option String
  role : Option String
  deriving DecidableEq, Repr

def decodeItem (i : Item) : Option (Aff × Role) :=
  match (match i.aff with | none => some Aff.none | some s => parseAff s),
        (match i.role with | none => some Role.none | some s => parseRole s) with
  | some a, some r => some (a, r)
  | _, _ => none

/-- attribute values the probe facts evaluate the real decoders on: every name of either
enumeration (so also each name in the *other* attribute), and near misses -/
def probeNames : List String :=
  ["none", "owner", "admin", "member", "outcast", "moderator", "participant", "visitor",
   "", "None", "OUTCAST", "outcast ", " none", "outcas", "outcasts", "0", "4", "bogus"]

/-! ### The room's error reply (`stanza.UnmarshalError`, reached from `JoinPresence` / `LeavePresence`)

`Join` returns "the room's stanza error" and `Leave` treats a reply as a refusal only if
`stanza.UnmarshalError` *finds* the error element among the children of the `type='error'`
presence; if it does not, the call returns a plain error (`errors.As` fails: a refused `Leave`
keeps the registration and the flag).  The reply is read on the session's stream, so its children
carry whatever the stanza namespace of that stream is (`jabber:client`, `jabber:server`,
`jabber:component:accept` on a component connection, empty for tokens that do not come from a
stream), and the sender may echo the children of the request in front of the error.  The scan is
by local name only: the first child element called `error`.  The actions `joinError` /
`leaveError` of the LTS stand for replies in which the scan finds the error; `findError` says
which those are, and the theorems of `Props/C18.lean` show that every reply carrying an error
element — in any namespace, behind any echoed children — is among them (tied by a probe fact). -/

/-- a child of the reply as the scan sees it: character data, or an element with its name -/
inductive RChild
  | text
  | elem (space «local» : String)
  deriving DecidableEq, Repr, Inhabited

def RChild.isError : RChild → Bool
  | .text => false
  | .elem _ l => l == "error"

/-- index of the child that `UnmarshalError` decodes: the first element whose local name is `error` -/
def findError : List RChild → Option Nat
  | [] => none
  | c :: cs => if c.isError then some 0 else (findError cs).map (· + 1)

def nsClient := "jabber:client"
def nsServer := "jabber:server"
def nsAccept := "jabber:component:accept"
def nsConnect := "jabber:component:connect"
def nsMuc := "http://jabber.org/protocol/muc"

/-- the children the probe fact builds replies from: four that are not an error (white space, the
echoed `<x xmlns='…/muc'/>` of a join, an echoed `<status/>`, a near miss of the name) and the error
element in every stanza namespace a stream can have (and without one) -/
def replyUniverse : List RChild :=
  [.text, .elem nsMuc "x", .elem nsClient "status", .elem "urn:verif" "errors",
   .elem "" "error", .elem nsClient "error", .elem nsServer "error", .elem nsAccept "error", .elem nsConnect "error"]

def errorCount (cs : List Nat) : Nat := (cs.filter (· ≥ 4)).length

/-- all sequences over `0 … k-1` of exactly length `n`, first position most significant -/
def seqs (k : Nat) : Nat → List (List Nat)
  | 0 => [[]]
  | n + 1 => (List.range k).flatMap fun i => (seqs k n).map (i :: ·)

/-- the probe domain: every sequence of at most three children of the universe with at most one
error element (which of two error elements a reply with two would mean is not the property's
business: the implementation is free there) -/
def replyDomain : List (List Nat) :=
  ((seqs 9 0) ++ (seqs 9 1) ++ (seqs 9 2) ++ (seqs 9 3)).filter fun cs => errorCount cs ≤ 1

def replyChildren (cs : List Nat) : List RChild := cs.filterMap fun i => replyUniverse[i]?

/-- what the call of channel `c` that waits for it makes of a `type='error'` reply with the children
`cs`: the room's refusal (`joinError` / `leaveError`) iff the scan finds the error element; otherwise
it is not a refusal (the call ends with a plain error and — for `Leave` — nothing is cleaned up) -/
def replyAct (leave : Bool) (c : Nat) (cs : List RChild) : Option Act :=
  if (findError cs).isSome then some (if leave then .leaveError c else .joinError c) else none

/-! ### Registration with the multiplexer (`muc.HandleClient`), configuration of the Client

The LTS takes for granted that every muc#user presence and every normal message with a muc#user
payload reaches `Client.HandlePresence` / `Client.HandleMessage`, and that the callback fields are
read when the stanza is handled.  `HandleInvite` / `HandleUserPresence` are exported fields: an
application may assign them before or after it hands `muc.HandleClient(h)` to `mux.New`, so what is
registered must not depend on them.  Tied by a probe fact over every configuration. -/

/-- what `HandleClient` registers the Client for — (available presence, unavailable presence, normal
message) with a muc#user payload — given which callbacks are set at registration time: everything,
always -/
def registeredFor (_invite _upres : Bool) : Bool × Bool × Bool := (true, true, true)

def regConfigs : List (String × Bool × Bool) :=
  [nsClient, nsServer, nsAccept].flatMap fun ns =>
    [(ns, false, false), (ns, true, false), (ns, false, true), (ns, true, true)]

/-- callbacks delivered for a message with children `cs` when the invitation callback is assigned
(`set = true`) by the time the message is handled — whether it was assigned before or after the
registration does not enter -/
def invitesDelivered (set : Bool) (cs : List Child) : Nat := if set then inviteCalls cs else 0

/-! ### Sessions (limit of the model)

The LTS does not know sessions: `Client.managed` is keyed by the occupant address alone and
`JoinPresence` refuses a second channel for an address whatever session either channel lives on.
`stepS sess` is the variant in which the refusal looks at the session (`sess c`: the session channel
`c` lives on) — a channel of ANOTHER session takes the registration over.  On one session it is the
LTS (`C18_session_guard_one_session`); with channels on different sessions it loses the invariant
(`C18_session_guard_breaks_reg`). -/
def stepS (sess : Nat → Nat) (s : St) : Act → Option St
  | .joinStart c a => match s.jpc c with
    | .idle =>
      if s.managed a ≠ none ∧ s.managed a ≠ some c ∧ (s.managed a).map sess = some (sess c) then
        some { s with lastJoin := upd s.lastJoin c (some (.err .refused)) }
      else
        some { s with managed := upd s.managed a (some c), req := upd s.req c a,
                      depart := upd s.depart c false,
                      jpc := upd s.jpc c .pending, lastJoin := upd s.lastJoin c none }
    | _ => none
  | a => step s a

def runS (sess : Nat → Nat) : St → List Act → Option St
  | s, [] => some s
  | s, a :: as => match stepS sess s a with
    | some s' => runS sess s' as
    | none => none

def Act.isJoinStartOf (c : Nat) : Act → Bool
  | .joinStart c' _ => c' == c
  | _ => false

inductive Reach (addr0 : Nat → Nat) : St → Prop
  | init : Reach addr0 (init addr0)
  | step {s s' a} : Reach addr0 s → step s a = some s' → Reach addr0 s'

end XmppModel.Muc
