/-!
# MUC client bookkeeping (C18) — labelled transition system

Model of `muc/muc.go` (`Client.HandlePresence`, `Client.HandleMessage`) and `muc/room.go`
(`Channel.JoinPresence`, `LeavePresence`, `Joined`) after the repairs recorded in
`KNOWN_FINDINGS.txt`:

* `Channel.JoinPresence` registers the channel in `Client.managed` under its occupant
  address (also on a re-join), empties the `depart` channel, and on failure removes its
  stale hand-off request and — if the channel is not joined — its registration;
* the presence handler sets `Channel.joined` when it hands the self-presence to the pending
  join, and clears it (and deletes the registration under the key it was found with) on the
  occupant's unavailable presence; `depart` is a buffered channel of capacity one;
* `Channel.Joined` reports that flag;
* an error reply to the leave request also clears the flag and the registration (the package's
  own test `TestPartError` requires `Joined() = false` after a refused `Leave`; the property
  text does not — recorded as a known finding, see `Props/C18.lean`).

Channels are numbered; `addr c` is the occupant address of channel `c` (static here: a
re-join with another nickname is exercised by the harness only).  The presence handler runs
under `managedM`, so each presence is one atomic step; `Join`/`Leave` are split at their
`select`.  The environment may send any presence / error / invitation / unrelated stanza for
any address at any time and cancel any context.
-/
namespace XmppModel.Muc

inductive JErr | stanzaErr | ctxErr
  deriving DecidableEq, Repr, Inhabited

inductive JOut | ok | err (e : JErr)
  deriving DecidableEq, Repr, Inhabited

inductive JPc
  | idle
  | pending                 -- registered, hand-off request queued, presence sent, in (or before) the select
  | failing (e : JErr)      -- the select took the error reply / the context; clean-up not done yet
  deriving DecidableEq, Repr, Inhabited

inductive LPc | idle | waiting
  deriving DecidableEq, Repr, Inhabited

structure St where
  managed : Nat → Option Nat     -- occupant address ↦ channel  (`Client.managed`)
  jpc : Nat → JPc
  lpc : Nat → LPc
  joined : Nat → Bool            -- `Channel.joined`: what `Joined()` reports
  depart : Nat → Bool            -- a token waits in the buffered `depart` channel
  member : Nat → Bool            -- SPECIFICATION ghost (literal property text): see `step`
  memberX : Nat → Bool           -- the same, but an error reply to `Leave` also ends the membership
  lastJoin : Nat → Option JOut   -- result of the last finished `Join` call
  lastLeave : Nat → Option JOut
  upres : Nat                    -- `HandleUserPresence` invocations
  invites : Nat                  -- `HandleInvite` invocations

def upd {α} (f : Nat → α) (i : Nat) (v : α) : Nat → α := fun j => if j = i then v else f j

def init : St :=
  { managed := fun _ => none, jpc := fun _ => .idle, lpc := fun _ => .idle, joined := fun _ => false,
    depart := fun _ => false, member := fun _ => false, memberX := fun _ => false, lastJoin := fun _ => none,
    lastLeave := fun _ => none, upres := 0, invites := 0 }

inductive Act
  | joinStart (c : Nat) | joinError (c : Nat) | joinCancel (c : Nat) | joinCleanup (c : Nat)
  | avail (a : Nat)          -- available presence with a muc#user payload from occupant address `a`
  | unavail (a : Nat)        -- unavailable presence … from `a`
  | leaveStart (c : Nat) | leaveDepart (c : Nat) | leaveError (c : Nat) | leaveCancel (c : Nat)
  | invite                   -- message carrying a mediated invitation
  | unrelated                -- any stanza the MUC handlers are not registered for
  deriving DecidableEq, Repr

/-- The ghost `member` is driven by the *observable* events of the property text only:
it becomes true when a `Join` call succeeds and false when the unavailable presence of the
channel's occupant address is processed — it never looks at `managed`.  `memberX` is the
same except that the room's error reply to a `Leave` call clears it too. -/
def step (addr : Nat → Nat) (s : St) : Act → Option St
  | .joinStart c => match s.jpc c with
    | .idle => some { s with managed := upd s.managed (addr c) (some c), depart := upd s.depart c false,
                             jpc := upd s.jpc c .pending, lastJoin := upd s.lastJoin c none }
    | _ => none
  | .joinError c => match s.jpc c with
    | .pending => some { s with jpc := upd s.jpc c (.failing .stanzaErr) }
    | _ => none
  | .joinCancel c => match s.jpc c with
    | .pending => some { s with jpc := upd s.jpc c (.failing .ctxErr) }
    | _ => none
  | .joinCleanup c => match s.jpc c with
    | .failing e => some { s with jpc := upd s.jpc c .idle, lastJoin := upd s.lastJoin c (some (.err e)),
                                  managed := if s.managed (addr c) = some c ∧ s.joined c = false
                                             then upd s.managed (addr c) none else s.managed }
    | _ => none
  | .avail a => match s.managed a with
    | none => some s
    | some c => match s.jpc c with
      | .pending => some { s with joined := upd s.joined c true, member := upd s.member c true,
                                  memberX := upd s.memberX c true,
                                  jpc := upd s.jpc c .idle, lastJoin := upd s.lastJoin c (some .ok) }
      | _ => some { s with upres := s.upres + 1 }
  | .unavail a =>
    let s1 := { s with member := fun c => if addr c = a then false else s.member c,
                       memberX := fun c => if addr c = a then false else s.memberX c }
    match s.managed a with
    | none => some s1
    | some c => some { s1 with managed := upd s.managed a none, joined := upd s.joined c false,
                               depart := upd s.depart c true }
  | .leaveStart c => match s.lpc c with
    | .idle => some { s with lpc := upd s.lpc c .waiting, lastLeave := upd s.lastLeave c none }
    | _ => none
  | .leaveDepart c => match s.lpc c with
    | .waiting => if s.depart c then
        some { s with lpc := upd s.lpc c .idle, depart := upd s.depart c false, lastLeave := upd s.lastLeave c (some .ok) }
      else none
    | _ => none
  | .leaveError c => match s.lpc c with
    | .waiting => some { s with lpc := upd s.lpc c .idle, lastLeave := upd s.lastLeave c (some (.err .stanzaErr)),
                                joined := upd s.joined c false, memberX := upd s.memberX c false,
                                managed := if s.managed (addr c) = some c then upd s.managed (addr c) none
                                           else s.managed }
    | _ => none
  | .leaveCancel c => match s.lpc c with
    | .waiting => some { s with lpc := upd s.lpc c .idle, lastLeave := upd s.lastLeave c (some (.err .ctxErr)) }
    | _ => none
  | .invite => some { s with invites := s.invites + 1 }
  | .unrelated => some s

def run (addr : Nat → Nat) : St → List Act → Option St
  | s, [] => some s
  | s, a :: as => match step addr s a with
    | some s' => run addr s' as
    | none => none

inductive Reach (addr : Nat → Nat) : St → Prop
  | init : Reach addr init
  | step {s s' a} : Reach addr s → step addr s a = some s' → Reach addr s'

end XmppModel.Muc
