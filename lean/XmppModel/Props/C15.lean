import XmppModel.Model.Ibb
import XmppModel.Model.IbbReader
import XmppModel.Model.IbbReaders
import XmppModel.Lemmas.IbbReaders
import XmppModel.Model.IbbSend
import XmppModel.Lemmas.Ibb
import XmppModel.Lemmas.IbbSend
import XmppModel.Model.IbbClose
import XmppModel.Model.IbbBody
import XmppModel.Model.IbbTable
import XmppModel.Model.IbbCarrier
import XmppModel.Lemmas.IbbCarrier
import XmppModel.Model.IbbWriteSide
import XmppModel.Model.IbbFlow
import XmppModel.Model.IbbWrap
import XmppModel.Model.IbbWireFlow
import XmppModel.Model.IbbCloseProbe
import XmppModel.Lemmas.IbbFlow
import XmppModel.Lemmas.IbbWriteSide
import XmppModel.Generated.C15
/-!
# C15 — an in-band bytestream is a reliable ordered byte pipe

Theorems about the receiver function `recv` and the sender relation `emits` of
`Model/Ibb.lean`, for every codec (`cd : Codec`), every packet sequence, every payload, every
buffer limit.  The opening handshake and the reader's wake-up are decided on the real code by
the harness (forced schedule through the `ibb.read.wait` yield point) — see `meta/C15.json`.
-/
namespace XmppModel.Props.C15
open XmppModel XmppModel.Ibb

/-- opening succeeds only when the peer accepted it -/
theorem C15_open_iff_accepted (peerAccepts : Bool) : (openResult peerAccepts).isSome = peerAccepts := by
  cases peerAccepts <;> rfl

/-! ### refusals never disturb the stream -/

/-- whatever is refused leaves the receiver (expected sequence number *and* buffer) untouched -/
theorem C15_refuse_unchanged (cd : Codec) (s : RState) (p : Packet)
    (h : (recv cd s p).2 ≠ .ack) : (recv cd s p).1 = s := by
  unfold recv at *
  split
  · rfl
  · split
    · rfl
    · split
      · rfl
      · split
        · rfl
        · simp_all

theorem C15_refuse_unknown_or_closed (cd : Codec) (s : RState) (p : Packet)
    (h : p.known = false ∨ s.live = false) : recv cd s p = (s, .itemNotFound) := by
  unfold recv; rcases h with h | h <;> simp [h]

theorem C15_refuse_out_of_sequence (cd : Codec) (s : RState) (p : Packet)
    (hk : p.known = true) (hl : s.live = true) (h : p.seq ≠ s.seq) :
    recv cd s p = (s, .unexpectedRequest) := by
  unfold recv; simp [hk, hl, h]

theorem C15_refuse_undecodable (cd : Codec) (s : RState) (p : Packet)
    (hk : p.known = true) (hl : s.live = true) (hs : p.seq = s.seq) (h : cd.dec p.payload = none) :
    recv cd s p = (s, .badRequest) := by
  unfold recv; simp [hk, hl, hs, h]

theorem C15_refuse_oversize (cd : Codec) (s : RState) (p : Packet) (d : Bytes)
    (hk : p.known = true) (hl : s.live = true) (hs : p.seq = s.seq) (h : cd.dec p.payload = some d)
    (hm : s.maxBuf > 0) (hb : s.buf.length + d.length > s.maxBuf) :
    recv cd s p = (s, .resourceConstraint) := by
  unfold recv; simp [hk, hl, hs, h, hm, hb]

/-- an accepted packet appends exactly its decoded payload and advances the number modulo 65536 -/
theorem C15_accept (cd : Codec) (s : RState) (p : Packet) (d : Bytes)
    (hk : p.known = true) (hl : s.live = true) (hs : p.seq = s.seq) (h : cd.dec p.payload = some d)
    (hroom : s.maxBuf = 0 ∨ s.buf.length + d.length ≤ s.maxBuf) :
    recv cd s p = ({ s with seq := (s.seq + 1) % 65536, buf := s.buf ++ d }, .ack) := by
  unfold recv
  have : ¬ (s.maxBuf > 0 ∧ s.buf.length + d.length > s.maxBuf) := by omega
  simp [hk, hl, hs, h, this]

example : (recv std ⟨true, 65535, [], 0⟩ ⟨true, 65535, [81, 85, 74, 68]⟩) =
    (⟨true, 0, [65, 66, 67], 0⟩, .ack) := by decide

/-- the limit set by `SetReadBuffer` is the requested one, clamped only by the block size -/
theorem C15_limit_clamp (n bs : Nat) :
    (n = 0 → clampLimit n bs = 0) ∧ (0 < n → n < bs → clampLimit n bs = bs) ∧ (bs ≤ n → clampLimit n bs = n) := by
  unfold clampLimit
  refine ⟨?_, ?_, ?_⟩
  · intro h; simp [h]
  · intro h1 h2; simp [h1, h2]
  · intro h; split
    · omega
    · rfl

/-- C15_refuse_oversize over histories with limit changes: whenever the limit was last set to
`n` (at any point of the history, whatever the buffer held or had grown to before), a decodable
in-sequence packet that would take the buffer beyond the clamped `n` is refused with
resource-constraint and changes nothing; one that fits is accepted -/
theorem C15_refuse_oversize_after_set_limit (cd : Codec) (s : RState) (n bs : Nat) (p : Packet) (d : Bytes)
    (hk : p.known = true) (hl : s.live = true) (hs : p.seq = s.seq) (h : cd.dec p.payload = some d) :
    let s' := setMax s n bs
    (clampLimit n bs > 0 → s.buf.length + d.length > clampLimit n bs → recv cd s' p = (s', .resourceConstraint)) ∧
    ((clampLimit n bs = 0 ∨ s.buf.length + d.length ≤ clampLimit n bs) → (recv cd s' p).2 = .ack) := by
  constructor
  · intro hm hb
    exact C15_refuse_oversize cd (setMax s n bs) p d hk hl hs h hm hb
  · intro hroom
    have := C15_accept cd (setMax s n bs) p d hk hl hs h hroom
    rw [this]

/-- changing the limit touches nothing else (buffer, expected number, liveness) -/
theorem C15_set_limit_only_limit (s : RState) (n bs : Nat) :
    (setMax s n bs).buf = s.buf ∧ (setMax s n bs).seq = s.seq ∧ (setMax s n bs).live = s.live := ⟨rfl, rfl, rfl⟩

/-! ### listener life cycle: open-iff-accepted on the initiator's side for every listener state -/

/-- an open request is answered `result` exactly when a listener is registered at that moment
(and the serve loop is free to handle it), `not-acceptable` otherwise; a refused request registers
nothing -/
theorem C15_open_reply_iff_listening (s : LState) (sid : Nat) (hp : s.pending = none) :
    ((lstep s (.open sid)).reply = some true ↔ s.listening = true) ∧
    ((lstep s (.open sid)).reply = some false ↔ s.listening = false) ∧
    (s.listening = false → (lstep s (.open sid)).st = s) := by
  cases hl : s.listening <;> simp [lstep, hl, hp] <;> (repeat' split) <;> simp_all

/-- after the listener was closed (and until somebody listens again) every open is refused and no
`Accept` can succeed -/
theorem C15_closed_listener_refuses (s : LState) (sid : Nat) :
    let s' := (lstep s .closeL).st
    (lstep s' (.open sid)).reply = some false ∧ (lstep s' (.open sid)).st = s' ∧
    (lstep s' .accept).conns = 0 ∧ (lstep s' .accept).errs = 1 ∧ s'.pending = none := by
  simp [lstep]

/-- an `Expect` whose context has ended (or that has returned for any other reason) is never
handed a stream: a later matching open request is treated like any other — given to a waiting
`Accept` or kept until one comes — and the handler is not left sending to nobody -/
theorem C15_cancelled_expect_is_forgotten (s : LState) (sid : Nat) :
    let s' := (lstep s .cancelExpect).st
    s'.expecting = none ∧ (lstep s' (.open sid)).xconn = false ∧
    (s'.listening = true → s'.pending = none → (lstep s' (.open sid)).reply = some true) := by
  refine ⟨rfl, ?_, ?_⟩
  · cases hl : s.listening <;> cases hp : s.pending <;> simp [lstep, hl, hp] <;> split <;> simp
  · intro hl hp
    simp only [lstep] at hl hp ⊢
    simp [hl, hp]
    split <;> simp

/-- a waiting `Expect` gets exactly the stream it asked for, before any `Accept` -/
theorem C15_expect_takes_its_stream (s : LState) (sid : Nat) (hl : s.listening = true) (hp : s.pending = none)
    (he : s.expecting = some sid) :
    (lstep s (.open sid)).xconn = true ∧ (lstep s (.open sid)).conns = 0 ∧
    (lstep s (.open sid)).reply = some true ∧ (lstep s (.open sid)).st.expecting = none := by
  simp [lstep, hl, hp, he]

/-- closing the listener ends every waiting `Accept` with an error and drops a stream that was
still waiting to be accepted -/
theorem C15_close_listener_releases (s : LState) :
    (lstep s .closeL).errs = s.acceptors ∧ (lstep s .closeL).st.acceptors = 0 ∧
    (∀ sid, s.pending = some sid → (lstep s .closeL).st.streams = s.streams.erase sid) := by
  refine ⟨rfl, rfl, ?_⟩
  intro sid h; simp [lstep, h]

example : (lstep (lstep (lstep {} .listen).st .closeL).st (.open 1)).reply = some false := by decide
example : (lstep (lstep (lstep (lstep {} .listen).st .closeL).st .listen).st (.open 1)).reply = some true := by decide

/-- injected bad packets (anything that is refused) can be dropped from the history: the
receiver ends in the same state -/
theorem C15_bad_packets_harmless (cd : Codec) (s : RState) (p : Packet) (ps : List Packet)
    (h : (recv cd s p).2 ≠ .ack) : (recvAll cd s (p :: ps)).1 = (recvAll cd s ps).1 := by
  simp [recvAll, C15_refuse_unchanged cd s p h]

/-! ### the pipe -/

/-- in-order delivery of consecutively numbered (mod 65536), decodable packets to a live
receiver with room: every packet is acknowledged and the buffer grows by exactly the
concatenation of the decoded payloads, in order, once -/
theorem C15_deliver (cd : Codec) : ∀ (ps : List Packet) (s : RState) (d : Bytes),
    s.live = true → s.maxBuf = 0 → s.seq < 65536 → seqsFrom s.seq ps = true → decodeAll cd ps = some d →
    (recvAll cd s ps).1.buf = s.buf ++ d ∧ (recvAll cd s ps).2 = ps.map (fun _ => Reply.ack) ∧
    (recvAll cd s ps).1.seq = (s.seq + ps.length) % 65536 ∧ (recvAll cd s ps).1.live = true := by
  intro ps
  induction ps with
  | nil =>
    intro s d hl _ hlt _ hd
    simp [decodeAll] at hd; subst hd
    simp [recvAll, Nat.mod_eq_of_lt hlt, hl]
  | cons p ps ih =>
    intro s d hl hm hlt hseq hd
    simp only [seqsFrom, Bool.and_eq_true, beq_iff_eq] at hseq
    obtain ⟨⟨hp, hk⟩, hrest⟩ := hseq
    rw [Nat.mod_eq_of_lt hlt] at hp
    simp only [decodeAll] at hd
    cases hdp : cd.dec p.payload with
    | none => simp [hdp] at hd
    | some d1 =>
      cases hdr : decodeAll cd ps with
      | none => simp [hdp, hdr] at hd
      | some d2 =>
        simp [hdp, hdr] at hd; subst hd
        have hacc := C15_accept cd s p d1 hk hl hp hdp (Or.inl hm)
        have hrest' : seqsFrom ((s.seq + 1) % 65536) ps = true := by
          have : ∀ (qs : List Packet) (n : Nat), seqsFrom n qs = seqsFrom (n % 65536) qs := by
            intro qs
            induction qs with
            | nil => intro n; rfl
            | cons q qs ihq =>
              intro n
              simp only [seqsFrom, Nat.mod_mod]
              rw [ihq (n + 1), ihq (n % 65536 + 1)]
              congr 2
              omega
          rw [← this]; exact hrest
        have := ih { s with seq := (s.seq + 1) % 65536, buf := s.buf ++ d1 } d2 hl hm
          (Nat.mod_lt _ (by decide)) hrest' hdr
        simp only [recvAll, hacc, List.map_cons, List.length_cons]
        refine ⟨by simp [this.1, List.append_assoc], by simp [this.2.1], ?_, this.2.2.2⟩
        rw [this.2.2.1]; simp only []; omega

/-- C15_pipe: whatever packetisation the sender chose (`emits`), delivered in order to a fresh
receiver, the reader's buffer holds a prefix of the bytes written — all of them once `Close` has
completed — unmodified, in order, exactly once; every packet is acknowledged -/
theorem C15_pipe (cd : Codec) (written : Bytes) (closed : Bool) (ps : List Packet)
    (h : emits cd written closed ps = true) :
    let r := recvAll cd ⟨true, 0, [], 0⟩ ps
    r.1.buf.isPrefixOf written = true ∧ (closed = true → r.1.buf = written) ∧
    r.2 = ps.map (fun _ => Reply.ack) ∧ r.1.seq = ps.length % 65536 := by
  unfold emits at h
  simp only [Bool.and_eq_true] at h
  obtain ⟨hseq, hd⟩ := h
  cases hda : decodeAll cd ps with
  | none => simp [hda] at hd
  | some d =>
    simp only [hda] at hd
    have := C15_deliver cd ps ⟨true, 0, [], 0⟩ d rfl rfl (by decide) hseq hda
    simp only [List.nil_append, Nat.zero_add] at this
    refine ⟨?_, ?_, this.2.1, this.2.2.1⟩
    · rw [this.1]
      cases closed
      · simpa using hd
      · simp at hd; subst hd; simp
    · intro hc; rw [this.1]; subst hc; simpa using hd

/-- C15_seq: the numbers of an admissible packet sequence are 0,1,2,… modulo 65536 (the
wrap-around is part of the relation) -/
theorem C15_seq (ps : List Packet) (n : Nat) (h : seqsFrom n ps = true) :
    ∀ i (hi : i < ps.length), (ps[i]).seq = (n + i) % 65536 := by
  induction ps generalizing n with
  | nil => intro i hi; simp at hi
  | cons p ps ih =>
    intro i hi
    simp only [seqsFrom, Bool.and_eq_true, beq_iff_eq] at h
    cases i with
    | zero => simpa using h.1.1
    | succ j =>
      have := ih (n + 1) h.2 j (by simpa using hi)
      simp only [List.getElem_cons_succ]
      rw [this]; congr 1; omega

example : seqsFrom 65535 [⟨true, 65535, []⟩, ⟨true, 0, []⟩, ⟨true, 1, []⟩] = true := by decide

/-! ### reading, closing -/

/-- a read hands out the head of the buffer and keeps the rest: nothing is lost or repeated -/
theorem C15_read_exactly_once (s : RState) (n : Nat) :
    (Ibb.read s n).2 ++ (Ibb.read s n).1.buf = s.buf := by
  unfold Ibb.read; simp

/-- after a close (by either side) the reader drains what remains and then gets end-of-file;
it never blocks any more -/
theorem C15_drain_then_eof (s : RState) (n : Nat) :
    (close s).buf = s.buf ∧ readOut (close s) n ≠ .blocks ∧
    ((close s).buf = [] → readOut (close s) n = .eof) ∧
    ((close s).buf ≠ [] → readOut (close s) n = .data (s.buf.take n)) := by
  refine ⟨rfl, ?_, ?_, ?_⟩
  · unfold readOut close; split <;> simp
  · intro h
    have hb : s.buf = [] := h
    unfold readOut; simp [hb, close]
  · intro h; unfold readOut; simp [close] at h ⊢; simp [h]

/-- successive reads with buffers of any sizes (sizes `ns`) -/
def readMany : RState → List Nat → List Bytes × RState
  | s, [] => ([], s)
  | s, n :: ns =>
    let r := Ibb.read s n
    let rest := readMany r.1 ns
    (r.2 :: rest.1, rest.2)

/-- draining with ANY read sizes: what the reads hand out, in order, followed by what is still
buffered, is exactly the buffer — nothing is skipped, whatever the sizes of the caller's buffers
(1, 7, 64 …) and whether or not the stream has been closed in between -/
theorem C15_drain_any_sizes : ∀ (ns : List Nat) (s : RState),
    (readMany s ns).1.flatten ++ (readMany s ns).2.buf = s.buf := by
  intro ns
  induction ns with
  | nil => intro s; simp [readMany]
  | cons n ns ih =>
    intro s
    have := ih (Ibb.read s n).1
    simp only [readMany, List.flatten_cons, List.append_assoc, this]
    simp [Ibb.read]

/-- after a close every read, of every size, returns data as long as any is buffered (never
end-of-file with bytes still pending) and end-of-file exactly when the buffer is empty -/
theorem C15_eof_only_when_drained (s : RState) (n : Nat) :
    (readOut (Ibb.close s) n = .eof ↔ s.buf = []) ∧
    (s.buf ≠ [] → readOut (Ibb.close s) n = .data (s.buf.take n) ∧
      (Ibb.read (Ibb.close s) n).1.buf = s.buf.drop n ∧ (Ibb.read (Ibb.close s) n).1.live = false) := by
  constructor
  · unfold readOut Ibb.close; simp
  · intro h; unfold readOut Ibb.read Ibb.close; simp [h]

/-- packets for a closed stream are refused and change nothing -/
theorem C15_closed_refuses (cd : Codec) (s : RState) (p : Packet) :
    recv cd (close s) p = (close s, .itemNotFound) := by
  unfold recv close; simp

/-! ### the reader's wake-up (LTS of `Model/IbbReader.lean`) -/
section Reader
open XmppModel.IbbReader

/-- invariant of the repaired protocol: a reader that is about to wait, or waits, while data is
buffered or the stream is closed always has a signal pending -/
def ReaderInv (s : IbbReader.St) : Prop :=
  (s.rpc = .checked ∨ s.rpc = .waiting) → (s.buf > 0 ∨ s.closed = true) → s.tok = true

theorem C15_reader_inv_step {s a s'} (h : ReaderInv s) (hs : IbbReader.step true s a = some s') :
    ReaderInv s' := by
  unfold ReaderInv at *
  cases a <;> simp only [IbbReader.step] at hs
  case packet n => simp at hs; subst hs; simp
  case close => simp at hs; subst hs; simp
  all_goals
    (split at hs <;> (try split at hs) <;> (try simp at hs) <;> (try subst hs) <;>
      (try (simp only [test] at *; (repeat' split) <;> simp_all <;> omega)))

theorem C15_reader_inv {s} (hr : IbbReader.Reach true s) : ReaderInv s := by
  induction hr with
  | init => intro h; simp [IbbReader.init] at h
  | step _ hs ih => exact C15_reader_inv_step ih hs

/-- no lost wake-up, every schedule: whenever the reader is blocked in its wait and data has
arrived (or the stream was closed), the wake-up step is enabled, and it ends the call with the
data (or end-of-file) -/
theorem C15_reader_no_lost_wakeup {s} (hr : IbbReader.Reach true s) (hw : s.rpc = .waiting)
    (hd : s.buf > 0 ∨ s.closed = true) :
    ∃ s', IbbReader.step true s .wake = some s' ∧ s'.rpc = .idle ∧
      (s.buf > 0 → s'.delivered = s.delivered + s.buf ∧ s'.buf = 0) ∧
      (s.buf = 0 → s'.eof = true) := by
  have ht := C15_reader_inv hr (Or.inr hw) hd
  simp only [IbbReader.step, hw, ht, if_true]
  refine ⟨_, rfl, ?_⟩
  simp only [test]
  rcases hd with hb | hc
  · simp [hb]; omega
  · by_cases hb : s.buf > 0
    · simp [hb]; omega
    · have : s.buf = 0 := by omega
      simp [this, hc]

/-- a Read never returns early: it only ends with data or, on a closed stream, with end-of-file -/
theorem C15_reader_returns_only_with_data_or_eof {s a s'} (hs : IbbReader.step true s a = some s')
    (hbusy : s.rpc ≠ .idle) (hret : s'.rpc = .idle) :
    s'.delivered > s.delivered ∨ (s'.eof = true ∧ s.closed = true) := by
  cases a <;> simp only [IbbReader.step] at hs
  case packet n => simp at hs; subst hs; exact absurd hret hbusy
  case close => simp at hs; subst hs; exact absurd hret hbusy
  all_goals
    ((try split at hs) <;> (try split at hs) <;> (try simp at hs) <;> (try subst hs) <;>
      (try (simp only [test] at *; (repeat' split at hret) <;> simp_all <;> omega)))

/-- negation witness for the pinned snapshot (unbuffered signal): the packet is handled between
the reader's check and its wait, the signal is dropped, the reader waits with data buffered and
nothing but a further packet or the close can wake it -/
theorem C15_reader_lost_wakeup_in_snapshot :
    ∃ s, IbbReader.Reach false s ∧ s.rpc = .waiting ∧ s.buf > 0 ∧ IbbReader.step false s .wake = none := by
  refine ⟨⟨3, false, false, .waiting, 0, false⟩, ?_, rfl, by decide, by decide⟩
  have h1 : IbbReader.Reach false ⟨0, false, false, .checked, 0, false⟩ :=
    .step .init (a := .readStart) (by decide)
  have h2 : IbbReader.Reach false ⟨3, false, false, .checked, 0, false⟩ :=
    .step h1 (a := .packet 3) (by decide)
  exact .step h2 (a := .enterWait) (by decide)

end Reader

/-! ### `Close` takes the receiving side down on every exit path (regenerated control points) -/
section CloseProgram
open XmppModel.IbbClose

/-- over the control points regenerated from `ibb/conn.go` on this run: whatever step of `Close`
fails (flush refused, encoder close, close request not sent / not answered in time) or none, the
deferred `closeRead` has run when `Close` returns -/
theorem C15_close_always_ends_read :
    (Generated.C15.closeProgram.bind parseProgram).map alwaysClosesRead = some true := by decide

/-- the same for the peer-initiated close (`closeNoNotify`) -/
theorem C15_close_no_notify_always_ends_read :
    (Generated.C15.closeNoNotifyProgram.bind parseProgram).map alwaysClosesRead = some true := by decide

/-- both routines mark the connection closed before anything can fail -/
theorem C15_close_sets_closed_first :
    ((Generated.C15.closeProgram.bind parseProgram).map fun p => p.head? == some Stmt.setClosed) = some true ∧
    ((Generated.C15.closeNoNotifyProgram.bind parseProgram).map fun p => p.head? == some Stmt.setClosed) = some true := by
  decide

/-- what `closeRead` having run means for a reader: no `Read` blocks any more — buffered bytes
first, then end-of-file (`C15_drain_then_eof`), and later packets are refused -/
theorem C15_read_returns_after_close (cd : Codec) (s : RState) (n : Nat) (p : Packet) :
    readOut (Ibb.close s) n ≠ .blocks ∧ recv cd (Ibb.close s) p = (Ibb.close s, .itemNotFound) :=
  ⟨(C15_drain_then_eof s n).2.1, C15_closed_refuses cd s p⟩

/-- over the control points of `ibb.open` regenerated from `ibb/ibb.go`: the sid is registered
with the handler exactly when the open succeeded — after a refused or failed open (any failing
step) it is unknown, so later data for it is answered item-not-found (`C15_refuse_unknown_or_closed`) -/
theorem C15_open_registers_iff_accepted :
    (Generated.C15.openProgram.bind parseOProgram).map registersIffAccepted = some true := by decide

/-- negation witness: registering before the request goes out and forgetting to unregister on
the error-reply path leaves the sid registered after a refused open -/
theorem C15_open_register_first_fails :
    registersIffAccepted [.other, .register, .fallible true, .other, .fallible true, .fallible true,
      .fallible false] = false := by decide

/-- PROBE FACTS (round E; they replace the source-shape facts about the increment statements): the
real receiver, after 65535 accepted packets, answers packets numbered `65535`, `65536`, `0`, `0`, `1`
exactly as the model does (ack, unexpected-request, ack, unexpected-request, ack: the counter wraps
from 65535 to 0 and at no other point); the data stanzas number 65534 … 65537 of the real sender
carry the numbers the packetiser predicts (65534, 65535, 0, 1) -/
theorem C15_recv_wrap_probe : Generated.C15.recvWrapProbe = some recvWrapModel := by decide

theorem C15_send_wrap_probe : Generated.C15.sendWrapProbe = some sendWrapModel := by decide

/-- both counters wrap at 65536, the modulus of `recv` / `seqsFrom` (derived from the two probes) -/
theorem C15_seq_modulus_fact :
    Generated.C15.recvSeqModulus = some 65536 ∧ Generated.C15.sendSeqModulus = some 65536 := by decide

/-- PROBE FACT (round E): what a close looks like from outside on the REAL code — `Close` with a
fault at each of its steps (flush refused, connection broken, error reply, no reply before the
deadline; with and without a `Read` pending) and a close request of the peer (nothing buffered,
unflushed bytes, the flush refused): what is returned / answered, what `Read` then does, how a late
data packet is answered — is exactly what the model's close programs predict.  This ties
`IbbClose.closeProgram` / `closeNoNotifyProgram` to behaviour at every fault position, independently
of the shape of the source. -/
theorem C15_close_probe :
    Generated.C15.closeProbe = some (closeTable.map fun r => (r.1, r.2.map fun o => (o.1, o.2.1, o.2.2))) := by decide

/-- directly on the probed table, no model in between: whatever step fails or none, and whoever
closes, a `Read` issued (or pending) afterwards returns end-of-file and a late data packet is
answered item-not-found (or cannot be answered at all because the connection is broken) -/
theorem C15_close_probe_always_ends_read :
    (Generated.C15.closeProbe.map fun rows => rows.length == 8 && rows.all fun r =>
      match r.2 with
      | some (_, rd, d) => rd == "EOF" && (d == "inf" || d == "skip")
      | none => false) = some true := by decide

/-- negation witness: taking the receiving side down only after the peer acknowledged the close
request leaves it up whenever an earlier step fails -/
theorem C15_close_after_ack_only_fails :
    alwaysClosesRead [.setClosed, .flush, .encClose, .other, .sendCloseIQ, .closeReadNow, .closeResp] = false := by
  decide

example : (run (some 2) closeProgram).rxClosed = true ∧ (run (some 2) closeProgram).failed = true := by decide

end CloseProgram


/-! ### the packet on the wire: the seq attribute is text (round C) -/
section Wire

/-- a packet that is refused on the wire level (unknown / closed stream, attribute that is no
numeral, a number that is not the expected one, bad payload, no room) changes nothing -/
theorem C15_wire_refuse_unchanged (cd : Codec) (s : RState) (w : WirePacket)
    (h : (recvWire cd s w).2 ≠ .ack) : (recvWire cd s w).1 = s := by
  unfold recvWire at h ⊢
  by_cases hk : (!(w.known && s.live)) = true
  · rw [if_pos hk]
  · rw [if_neg hk] at h ⊢
    cases hp : parseSeqAttr w.seqAttr with
    | malformed => rfl
    | num n =>
      simp only [hp] at h ⊢
      exact C15_refuse_unchanged cd s _ h

/-- a packet is accepted only if its attribute denotes EXACTLY the expected number — as a natural
number, not modulo 65536 (nor modulo anything else) -/
theorem C15_wire_accept_only_expected_number (cd : Codec) (s : RState) (w : WirePacket)
    (h : (recvWire cd s w).2 = .ack) : parseSeqAttr w.seqAttr = .num s.seq ∧ w.known = true ∧ s.live = true := by
  unfold recvWire at h
  by_cases hk : (!(w.known && s.live)) = true
  · rw [if_pos hk] at h; simp at h
  · rw [if_neg hk] at h
    have hkl : w.known = true ∧ s.live = true := by
      cases hw : w.known <;> cases hs : s.live <;> simp_all
    cases hp : parseSeqAttr w.seqAttr with
    | malformed => simp [hp] at h
    | num n =>
      simp only [hp] at h
      refine ⟨?_, hkl⟩
      by_cases hne : n = s.seq
      · rw [hne]
      · have := C15_refuse_out_of_sequence cd s ⟨w.known, n, w.payload⟩
        simp_all

/-- a number congruent to the expected one modulo 65536 but different from it (expected + 65536·k,
k ≥ 1 — also beyond 32 or 64 bits) is refused as out of sequence and changes nothing -/
theorem C15_wire_congruent_number_refused (cd : Codec) (s : RState) (w : WirePacket) (k : Nat)
    (hk : w.known = true) (hl : s.live = true) (hn : parseSeqAttr w.seqAttr = .num (s.seq + 65536 * (k + 1))) :
    recvWire cd s w = (s, .unexpectedRequest) := by
  unfold recvWire recv
  simp [hk, hl, hn]

/-- an attribute that is no numeral is refused with bad-request (on a live stream) -/
theorem C15_wire_malformed_refused (cd : Codec) (s : RState) (w : WirePacket)
    (hk : w.known = true) (hl : s.live = true) (hn : parseSeqAttr w.seqAttr = .malformed) :
    recvWire cd s w = (s, .badRequest) := by
  unfold recvWire
  simp [hk, hl, hn]

-- non-vacuity: "65537" denotes 65537, which is 1 + 65536·1; a stream expecting packet 1 refuses it
example : parseSeqAttr [54, 53, 53, 51, 55] = .num (1 + 65536 * (0 + 1)) := by decide   -- "65537"
example : recvWire std ⟨true, 1, [65], 0⟩ ⟨true, [54, 53, 53, 51, 55], [81, 81, 61, 61]⟩ =
    (⟨true, 1, [65], 0⟩, .unexpectedRequest) := by decide
-- "4294967297" = 1 + 65536 · 65536
example : parseSeqAttr [52, 50, 57, 52, 57, 54, 55, 50, 57, 55] = .num (1 + 65536 * (65535 + 1)) := by decide
example : parseSeqAttr [45, 49] = .malformed ∧ parseSeqAttr [] = .malformed := by decide   -- "-1", ""
example : (recvWire std ⟨true, 1, [65], 0⟩ ⟨true, [49], [81, 81, 61, 61]⟩).2 = .ack := by decide

/-- the REAL handler, probed by `harness facts` on this run over the whole table {expects 0,
expects 1} × `seqAttrUniverse` (numbers up to and beyond 16, 32 and 64 bits, congruent to the
expected one or not, leading zeros, signs, blanks, other notations), answers exactly like the
model — in particular it acknowledges a packet iff the attribute denotes the expected number -/
theorem C15_seq_attr_probe :
    Generated.C15.seqAttrProbe =
      some (([0, 1] : List Nat).flatMap fun e => seqAttrUniverse.map fun a => (e, a, seqAttrModel e a)) := by
  decide

end Wire

/-! ### a local Close keeps receiving until the peer has answered (round C) -/
section Handshake
open XmppModel.IbbClose

/-- over the control points regenerated from `ibb/conn.go`: a `Close` on which nothing fails sends
its close request and, at every step at which it waits for the peer (flush, encoder close, the
request, its answer), the stream is still registered and its receiving side open — the packets
the peer had in flight, or flushes when it handles the request, are not turned away -/
theorem C15_close_receives_while_waiting :
    (Generated.C15.closeProgram.bind parseProgram).map receivesWhileWaiting = some true := by decide

/-- the model routine of the driver has the same property (`closeBegin true` in receiver histories) -/
theorem C15_close_model_receives_while_waiting : receivesWhileWaiting closeProgram = true := by decide

/-- negation witness: giving up the session id at the start of `Close` turns those packets away -/
theorem C15_close_unregister_first_fails :
    receivesWhileWaiting [.setClosed, .unregister, .deferCloseRead, .flush, .encClose, .other, .sendCloseIQ, .closeResp] = false ∧
    alwaysClosesRead [.setClosed, .unregister, .deferCloseRead, .flush, .encClose, .other, .sendCloseIQ, .closeResp] = true := by
  decide

/-- what that means for the pipe: consecutively numbered decodable packets that arrive between the
close request and its answer are all acknowledged, and after the close the reader drains the old
buffer followed by exactly their payloads, then reads end-of-file -/
theorem C15_in_flight_at_close_delivered (cd : Codec) (ps : List Packet) (s : RState) (d : Bytes) (n : Nat)
    (hl : s.live = true) (hm : s.maxBuf = 0) (hlt : s.seq < 65536) (hseq : seqsFrom s.seq ps = true)
    (hd : decodeAll cd ps = some d) :
    let r := recvAll cd (closeBegin true s) ps
    r.2 = ps.map (fun _ => Reply.ack) ∧ (Ibb.close r.1).buf = s.buf ++ d ∧
    readOut (Ibb.close r.1) n ≠ .blocks ∧ (readOut (Ibb.close r.1) n = .eof ↔ s.buf ++ d = []) := by
  have h := C15_deliver cd ps s d hl hm hlt hseq hd
  have he := (C15_eof_only_when_drained (recvAll cd s ps).1 n).1
  simp only [closeBegin, if_true]
  refine ⟨h.2.1, ?_, (C15_drain_then_eof _ n).2.1, ?_⟩
  · simpa [Ibb.close] using h.1
  · rw [he, h.1]

/-- negation witness on the model: a Close that takes the receiving side down before it waits
(`closeBegin false`) refuses the very same packets -/
theorem C15_in_flight_lost_if_closed_early :
    (recvAll std (closeBegin false ⟨true, 1, [65], 0⟩) [⟨true, 1, [81, 81, 61, 61]⟩]).2 = [.itemNotFound] := by decide

example : seqsFrom 1 [⟨true, 1, [81, 81, 61, 61]⟩] = true ∧ decodeAll std [⟨true, 1, [81, 81, 61, 61]⟩] = some [65] := by decide

end Handshake

/-! ### the Lean base64 codec: both laws, and the pipe without any codec hypothesis -/

/-- `decode (encode x) = x` for every byte string -/
theorem C15_codec_roundtrip (x : Bytes) : std.dec (std.enc x) = some x := std_dec_enc x

/-- `encode (x ++ y) = encode x ++ encode y` whenever `3 ∣ |x|` -/
theorem C15_codec_append (x y : Bytes) (h : 3 ∣ x.length) : std.enc (x ++ y) = std.enc x ++ std.enc y :=
  std_enc_append x y h

/-- `C15_pipe` for the Lean codec -/
theorem C15_pipe_std (written : Bytes) (closed : Bool) (ps : List Packet)
    (h : emits std written closed ps = true) :
    let r := recvAll std ⟨true, 0, [], 0⟩ ps
    r.1.buf.isPrefixOf written = true ∧ (closed = true → r.1.buf = written) ∧
    r.2 = ps.map (fun _ => Reply.ack) ∧ r.1.seq = ps.length % 65536 :=
  C15_pipe std written closed ps h

/-! ### the packetiser satisfies the sender relation; end to end -/

/-- the data stanzas a sender produces for an op sequence and block size -/
def packetsOf (bs : Nat) (ops : List SOp) : List Packet := mkPackets 0 (srun (sinit bs) ops).chunks

/-- every packet carries the encoding of its raw chunk, numbered consecutively from zero, and the
chunks followed by the two buffers are exactly the bytes written (nothing lost, nothing twice) -/
theorem C15_packetiser_stream (bs : Nat) (ops : List SOp) :
    let s := srun (sinit bs) ops
    s.chunks.flatten ++ s.ebuf ++ s.wbuf = writtenOf false ops ∧
    (SOp.close ∈ ops → s.ebuf = [] ∧ s.wbuf = []) := by
  have h := srun_spec ops (sinit bs) (by intro h; simp [sinit] at h)
  refine ⟨by simpa [pending, sinit] using h.1, ?_⟩
  intro hc
  exact h.2.1 (h.2.2 (Or.inr hc))

/-- C15_emits: for every sequence of Write/Flush/Close and every block size the packetiser's
output is admissible (`emits`) for the bytes written, closed iff `Close` was called -/
theorem C15_packetiser_emits (bs : Nat) (ops : List SOp) :
    emits std (writtenOf false ops) (decide (SOp.close ∈ ops)) (packetsOf bs ops) = true := by
  have hs := C15_packetiser_stream bs ops
  simp only [] at hs
  unfold emits packetsOf
  rw [seqsFrom_mk, decodeAll_mk]
  simp only [Bool.true_and]
  by_cases hc : SOp.close ∈ ops
  · have := hs.2 hc
    simp only [hc, decide_true, if_true, beq_iff_eq]
    rw [← hs.1, this.1, this.2]; simp
  · simp only [hc, decide_false, Bool.false_eq_true, if_false]
    rw [← hs.1, List.append_assoc]
    exact List.isPrefixOf_iff_prefix.mpr (List.prefix_append _ _)

/-- C15_end_to_end: whatever the writer does (any partition into Write calls, Flush calls in
between, any block size), the data stanzas delivered in order to the peer's receiver are all
acknowledged and put exactly a prefix of the written bytes into the reader's buffer — all of
them, once, in order, unmodified, as soon as `Close` has been called -/
theorem C15_end_to_end (bs : Nat) (ops : List SOp) :
    let r := recvAll std ⟨true, 0, [], 0⟩ (packetsOf bs ops)
    r.1.buf.isPrefixOf (writtenOf false ops) = true ∧
    (SOp.close ∈ ops → r.1.buf = writtenOf false ops) ∧
    r.2 = (packetsOf bs ops).map (fun _ => Reply.ack) := by
  have h := C15_pipe std _ _ _ (C15_packetiser_emits bs ops)
  simp only [] at h
  refine ⟨h.1, ?_, h.2.2.1⟩
  intro hc; exact h.2.1 (by simp [hc])

example : packetsOf 4 [.write [1, 2, 3, 4, 5], .write [6], .flush, .close] =
    [⟨true, 0, stdEnc [1, 2, 3]⟩, ⟨true, 1, stdEnc [4, 5, 6]⟩] := by decide

/-! ### the two directions of a stream are independent -/

/-- C15_both_directions: in every history of one endpoint (writes, flushes, incoming packets —
good or bad —, reads, close) the sending side ends exactly where it would without any receiving
activity and the receiving side exactly where it would without any sending activity -/
theorem C15_both_directions (cd : Codec) : ∀ (ops : List EOp) (e : Endpoint),
    (erun cd e ops).tx = srun e.tx (txOps ops) ∧ (erun cd e ops).rx = rxRun cd e.rx ops := by
  intro ops
  induction ops with
  | nil => intro e; exact ⟨rfl, rfl⟩
  | cons op ops ih =>
    intro e
    have := ih (estep cd e op)
    simp only [erun, List.foldl_cons] at *
    cases op <;> simp only [estep, txOps, rxRun, srun, List.foldl_cons] at * <;> exact this

/-- consequence: the bytes the local reader gets do not depend on what is written locally, and
the stanzas sent do not depend on what is received (same packets, hence same numbering) -/
theorem C15_directions_corollary (cd : Codec) (ops : List EOp) (e : Endpoint) :
    mkPackets 0 (erun cd e ops).tx.chunks = mkPackets 0 (srun e.tx (txOps ops)).chunks ∧
    (erun cd e ops).rx.buf = (rxRun cd e.rx ops).buf := by
  have := C15_both_directions cd ops e
  rw [this.1, this.2]; exact ⟨rfl, rfl⟩

/-! ### any number of readers: all of them return after a close -/
section Readers
open XmppModel.IbbReaders

/-- the invariant, parametric in the number of readers: on a closed stream, as long as some
reader is about to wait or waits, a signal is pending or some woken reader is about to re-post it -/
theorem C15_readers_inv {s} (hr : IbbReaders.Reach true s) (hc : s.closed = true) (i : Nat)
    (hi : s.rpc i = .checked ∨ s.rpc i = .waiting) : s.tok = true ∨ ∃ j, s.rpc j = .woken := by
  have h := IbbReaders.inv_reach hr
  by_cases ht : s.tok = true
  · exact Or.inl ht
  · by_cases hw : ∃ j, s.rpc j = .woken
    · exact Or.inr hw
    · have := h hc (by simpa using ht) (fun j hj => hw ⟨j, hj⟩) i
      rcases hi with hi | hi
      · exact absurd hi this.1
      · exact absurd hi this.2

/-- progress: on a closed stream a reader inside `Read` is never stuck — some reader step is enabled -/
theorem C15_readers_progress {s} (hr : IbbReaders.Reach true s) (hc : s.closed = true) (i : Nat)
    (hi : s.rpc i ≠ .idle) :
    ∃ j, (IbbReaders.step true s (.enterWait j)).isSome ∨ (IbbReaders.step true s (.wake j)).isSome ∨
      (IbbReaders.step true s (.recheck j)).isSome := by
  cases hri : s.rpc i with
  | idle => exact absurd hri hi
  | checked => exact ⟨i, Or.inl (by simp [IbbReaders.step, hri])⟩
  | woken => exact ⟨i, Or.inr (Or.inr (by simp [IbbReaders.step, hri, hc]; split <;> simp))⟩
  | waiting =>
    rcases C15_readers_inv hr hc i (Or.inr hri) with ht | ⟨j, hj⟩
    · exact ⟨i, Or.inr (Or.inl (by simp [IbbReaders.step, hri, ht]))⟩
    · exact ⟨j, Or.inr (Or.inr (by simp [IbbReaders.step, hj, hc]; split <;> simp))⟩

theorem measure_of_rpc_upd (s t : IbbReaders.St) (j n : Nat) (v : IbbReaders.RPc) (hj : j < n)
    (ht : t.rpc = IbbReaders.upd s.rpc j v) :
    IbbReaders.measure t n + IbbReaders.weight (s.rpc j) = IbbReaders.measure s n + IbbReaders.weight v := by
  have h1 := IbbReaders.measure_eq_of_rpc { s with rpc := IbbReaders.upd s.rpc j v } t ht n
  have h2 := IbbReaders.measure_upd s j v n hj
  omega

/-- every step of a reader inside `Read` on a closed stream brings the readers strictly closer to
having all returned (checked 3, waiting 2, woken 1, returned 0) -/
theorem C15_readers_measure_decreases {s s'} {a : IbbReaders.Act} {j n : Nat} (hc : s.closed = true) (hj : j < n)
    (ha : a = .enterWait j ∨ a = .wake j ∨ a = .recheck j) (hs : IbbReaders.step true s a = some s') :
    IbbReaders.measure s' n < IbbReaders.measure s n ∧ s'.closed = true := by
  rcases ha with rfl | rfl | rfl <;> simp only [IbbReaders.step] at hs
  · split at hs
    · rename_i hr
      simp at hs
      have := measure_of_rpc_upd s s' j n .waiting hj (by rw [← hs])
      rw [hr] at this; simp only [IbbReaders.weight] at this
      exact ⟨by omega, by rw [← hs]; exact hc⟩
    · simp at hs
  · split at hs
    · rename_i hr
      split at hs
      · simp at hs
        have := measure_of_rpc_upd s s' j n .woken hj (by rw [← hs])
        rw [hr] at this; simp only [IbbReaders.weight] at this
        exact ⟨by omega, by rw [← hs]; exact hc⟩
      · simp at hs
    · simp at hs
  · split at hs
    · rename_i hr
      simp only [hc, if_true] at hs
      split at hs <;>
        (simp at hs
         have := measure_of_rpc_upd s s' j n .idle hj (by rw [← hs])
         rw [hr] at this; simp only [IbbReaders.weight] at this
         exact ⟨by omega, by rw [← hs]⟩)
    · simp at hs

/-- C15_all_readers_return_after_close: for any number of readers (all readers with index ≥ n are
outside `Read`) and from any reachable state of any schedule in which the stream is closed, the
readers' own steps — which are never stuck (`C15_readers_progress`) and each of which decreases
the measure — lead to a state in which every `Read` has returned -/
theorem C15_all_readers_return_after_close (n : Nat) : ∀ (m : Nat) (s : IbbReaders.St),
    IbbReaders.Reach true s → s.closed = true → (∀ i, n ≤ i → s.rpc i = .idle) → IbbReaders.measure s n = m →
    ∃ s', IbbReaders.Reach true s' ∧ s'.closed = true ∧ (∀ i, s'.rpc i = .idle) ∧ s.eofs ≤ s'.eofs := by
  intro m
  induction m using Nat.strongRecOn with
  | _ m ih =>
    intro s hr hc hn hm
    by_cases hall : ∀ i, s.rpc i = .idle
    · exact ⟨s, hr, hc, hall, Nat.le_refl _⟩
    · have ⟨i, hi⟩ : ∃ i, s.rpc i ≠ .idle := Classical.not_forall.mp hall
      obtain ⟨j, hj⟩ := C15_readers_progress hr hc i hi
      -- the reader that can move is one of the first n
      have hjn : ∀ a, (a = IbbReaders.Act.enterWait j ∨ a = .wake j ∨ a = .recheck j) →
          (IbbReaders.step true s a).isSome → j < n := by
        intro a ha hs
        by_cases h : j < n
        · exact h
        · have := hn j (by omega)
          rcases ha with rfl | rfl | rfl <;> simp [IbbReaders.step, this] at hs
      have move : ∀ a, (a = IbbReaders.Act.enterWait j ∨ a = .wake j ∨ a = .recheck j) →
          (IbbReaders.step true s a).isSome →
          ∃ s', IbbReaders.Reach true s' ∧ s'.closed = true ∧ (∀ i, s'.rpc i = .idle) ∧ s.eofs ≤ s'.eofs := by
        intro a ha hs
        obtain ⟨s1, hs1⟩ := Option.isSome_iff_exists.mp hs
        have hdec := C15_readers_measure_decreases hc (hjn a ha hs) ha hs1
        have hidle : ∀ i, n ≤ i → s1.rpc i = .idle := by
          intro i hi'
          have hne : i ≠ j := by have := hjn a ha hs; omega
          rcases ha with rfl | rfl | rfl <;> simp only [IbbReaders.step] at hs1 <;> split at hs1 <;>
            (try split at hs1) <;> (try split at hs1) <;> (try simp at hs1) <;> (try subst hs1) <;>
            simp [IbbReaders.upd, hne, hn i hi']
        have heof : s.eofs ≤ s1.eofs := by
          rcases ha with rfl | rfl | rfl <;> simp only [IbbReaders.step] at hs1 <;> split at hs1 <;>
            (try split at hs1) <;> (try split at hs1) <;> (try simp at hs1) <;> (try subst hs1) <;> simp
        obtain ⟨s2, h2⟩ := ih (IbbReaders.measure s1 n) (by omega) s1 (.step hr hs1) hdec.2 hidle rfl
        exact ⟨s2, h2.1, h2.2.1, h2.2.2.1, Nat.le_trans heof h2.2.2.2⟩
      rcases hj with h | h | h
      · exact move _ (Or.inl rfl) h
      · exact move _ (Or.inr (Or.inl rfl)) h
      · exact move _ (Or.inr (Or.inr rfl)) h

/-- negation witness (seeded C06-11: the woken reader does not re-post the signal): two readers
wait, the stream is closed, the first one returns — the second waits with no signal pending and
nobody about to post one -/
theorem C15_readers_stuck_without_repost :
    ∃ s, IbbReaders.Reach false s ∧ s.closed = true ∧ s.rpc 1 = .waiting ∧ s.tok = false ∧
      (∀ j, s.rpc j ≠ .woken) ∧ IbbReaders.step false s (.wake 1) = none := by
  have h : ∃ s, IbbReaders.run false {} [.readStart 0, .readStart 1, .enterWait 0, .enterWait 1, .close, .wake 0,
      .recheck 0] = some s ∧ s.closed = true ∧ s.rpc 1 = .waiting ∧ s.tok = false ∧
      (∀ j, s.rpc j ≠ .woken) ∧ IbbReaders.step false s (.wake 1) = none := by
    refine ⟨⟨0, false, true, fun j => if j = 1 then .waiting else .idle, 0, 1⟩, ?_, rfl, rfl, rfl, ?_, rfl⟩
    · simp [IbbReaders.run, IbbReaders.step, IbbReaders.upd]
      funext j
      by_cases h0 : j = 0 <;> by_cases h1 : j = 1 <;> simp [XmppModel.IbbReaders.upd, h0, h1]
    · intro j; by_cases h1 : j = 1 <;> simp [h1]
  obtain ⟨s, hs, rest⟩ := h
  exact ⟨s, IbbReaders.reach_run .init hs, rest⟩

end Readers


/-! ### the body of a data packet is ALL the character data of the element (round D) -/
section Body

theorem bodyText_append (a b : List Seg) : bodyText (a ++ b) = bodyText a ++ bodyText b := by
  induction a with
  | nil => rfl
  | cons x xs ih => simp [bodyText, ih]

/-- how the character data is cut into pieces (text, CDATA sections, character references) is
irrelevant: two serialisations with the same character data are handled identically (same reply,
same state) -/
theorem C15_body_serialisation_irrelevant (cd : Codec) (s : RState) (k : Bool) (a : Bytes) (b₁ b₂ : List Seg)
    (h : bodyText b₁ = bodyText b₂) : recvBody cd s ⟨k, a, b₁⟩ = recvBody cd s ⟨k, a, b₂⟩ := by
  simp [recvBody, h]

/-- cutting a payload at any two places into a run of text, a CDATA section and character
references gives the packet with the whole payload as one piece of text -/
theorem C15_body_cut_anywhere (cd : Codec) (s : RState) (k : Bool) (a p : Bytes) (i j : Nat) :
    recvBody cd s ⟨k, a, [.text (p.take i), .cdata ((p.drop i).take j), .charRefs ((p.drop i).drop j)]⟩ =
      recvWire cd s ⟨k, a, p⟩ := by
  have e : p.take i ++ ((p.drop i).take j ++ ((p.drop i).drop j ++ [])) = p := by
    rw [List.append_nil, List.take_append_drop, List.take_append_drop]
  simp only [recvBody, bodyText, Seg.content, e]

/-- an acknowledged packet delivers what the WHOLE character data decodes to — every piece, in
order, appended to what was there; a packet that is refused changes nothing -/
theorem C15_body_accept_delivers_every_piece (cd : Codec) (s : RState) (w : BodyPacket)
    (h : (recvBody cd s w).2 = .ack) :
    ∃ d, cd.dec (bodyText w.body) = some d ∧ (recvBody cd s w).1.buf = s.buf ++ d ∧
      (recvBody cd s w).1.seq = (s.seq + 1) % 65536 := by
  unfold recvBody recvWire at h ⊢
  by_cases hk : (!(w.known && s.live)) = true
  · rw [if_pos hk] at h; simp at h
  · rw [if_neg hk] at h ⊢
    cases hp : parseSeqAttr w.seqAttr with
    | malformed => simp [hp] at h
    | num n =>
      simp only [hp] at h ⊢
      unfold recv at h ⊢
      by_cases h1 : (!((⟨w.known, n, bodyText w.body⟩ : Packet).known && s.live)) = true
      · rw [if_pos h1] at h; simp at h
      · rw [if_neg h1] at h ⊢
        by_cases h2 : (⟨w.known, n, bodyText w.body⟩ : Packet).seq ≠ s.seq
        · rw [if_pos h2] at h; simp at h
        · rw [if_neg h2] at h ⊢
          cases hd : cd.dec (bodyText w.body) with
          | none => simp [hd] at h
          | some d =>
            simp only [hd] at h ⊢
            by_cases h3 : s.maxBuf > 0 ∧ s.buf.length + d.length > s.maxBuf
            · rw [if_pos h3] at h; simp at h
            · rw [if_neg h3]; exact ⟨d, rfl, rfl, rfl⟩

theorem C15_body_refuse_unchanged (cd : Codec) (s : RState) (w : BodyPacket)
    (h : (recvBody cd s w).2 ≠ .ack) : (recvBody cd s w).1 = s :=
  C15_wire_refuse_unchanged cd s _ h

/-- `QUJD<![CDATA[REVG]]>` on a fresh stream: acknowledged, the reader gets `ABCDEF` -/
example : recvBody std ⟨true, 0, [120], 0⟩ ⟨true, [48], [.text [81, 85, 74, 68], .cdata [82, 69, 86, 71]]⟩ =
    (⟨true, 1, [120, 65, 66, 67, 68, 69, 70], 0⟩, .ack) := by decide

/-- negation witness (seeded C15-14): a receiver that keeps only the last piece of character data
acknowledges `QUJD<![CDATA[REVG]]>` and delivers `DEF` — `ABC` is lost without an error -/
theorem C15_body_last_piece_only_fails :
    ∃ (s : RState) (body : List Seg),
      (recvWire std s ⟨true, [48], lastPiece body⟩).2 = .ack ∧
      (recvWire std s ⟨true, [48], lastPiece body⟩).1.buf ≠ (recvBody std s ⟨true, [48], body⟩).1.buf :=
  ⟨⟨true, 0, [], 0⟩, [.text [81, 85, 74, 68], .cdata [82, 69, 86, 71]], by decide, by decide⟩

/-- PROBE FACT: the real handler (both carriers), run by `harness facts` on packet 0 of a fresh
stream for every serialisation of `bodyUniverse` (CDATA before / after / between text, only CDATA,
a cut inside a base64 group, character references, an empty CDATA section, padding in its own
piece, bad text in the first / last piece, nothing at all), answers and delivers exactly what the
model does -/
theorem C15_body_probe :
    Generated.C15.bodyProbe = some (bodyUniverse.map fun ss => (ss, (bodyModel ss).1, (bodyModel ss).2)) := by
  decide

end Body

/-! ### the stream table: a packet is handled by the connection that owns its sid NOW (round D) -/
section Table

/-- frame: a data packet changes at most the connection the table holds for its sid; every other
connection — in particular a closed one that had the same sid before — the table itself and the
handles stay as they are -/
theorem C15_table_data_touches_only_current (cd : Codec) (s : HState) (sid : Nat) (a p : Bytes) (h : Nat)
    (hh : s.table sid ≠ some h) :
    (hstep cd s (.data sid a p)).1.conn h = s.conn h ∧ (hstep cd s (.data sid a p)).1.table = s.table := by
  cases ht : s.table sid with
  | none => simp [hstep, ht]
  | some h' =>
    have : h ≠ h' := fun e => hh (by rw [ht, e])
    simp [hstep, ht, setConn, this]

/-- a data packet is answered by `recvWire` on the connection registered for its sid — whatever
happened before — and by item-not-found iff no stream is registered for the sid -/
theorem C15_table_lookup (cd : Codec) (s : HState) (sid : Nat) (a p : Bytes) :
    (hstep cd s (.data sid a p)).2 =
      match s.table sid with
      | none => .reply .itemNotFound
      | some h => .reply (recvWire cd (s.conn h) ⟨true, a, p⟩).2 := by
  cases ht : s.table sid <;> simp [hstep, ht]

/-- a session id that is used again: whatever state the handler is in as long as the sid is FREE
(never used, or any number of earlier streams with that sid, packets handled, closed by either
side), after a stream with that sid is opened its packet 0 with a decodable payload is
acknowledged and lands in the NEW connection, which held nothing before -/
theorem C15_reopened_sid_is_fresh (cd : Codec) (s : HState) (sid : Nat) (p d : Bytes)
    (hfree : s.table sid = none) (hd : cd.dec p = some d) :
    let s1 := (hstep cd s (.open sid)).1
    (hstep cd s (.open sid)).2 = .opened s.next ∧
    (hstep cd s1 (.data sid [48] p)).2 = .reply .ack ∧
    ((hstep cd s1 (.data sid [48] p)).1.conn s.next).buf = d ∧
    (∀ h, h ≠ s.next → (hstep cd s1 (.data sid [48] p)).1.conn h = s.conn h) := by
  have hp : parseSeqAttr [48] = .num 0 := by decide
  simp only [hstep, hfree, Option.isSome_none, Bool.false_eq_true, if_false, if_pos, setConn, recvWire, fresh, hp, recv, hd]
  refine ⟨trivial, by simp, by simp, ?_⟩
  intro h hh
  simp [hh]

/-- a session id that is IN USE cannot be opened a second time — by the peer, by a third party, by
anybody: the request is refused and nothing changes; in particular the next packet of the stream
that has the id is handled by its connection exactly as if the request had never come -/
theorem C15_open_in_use_refused (cd : Codec) (s : HState) (sid h : Nat) (a p : Bytes)
    (hused : s.table sid = some h) :
    hstep cd s (.open sid) = (s, .refused) ∧
    hstep cd (hstep cd s (.open sid)).1 (.data sid a p) = hstep cd s (.data sid a p) := by
  have : hstep cd s (.open sid) = (s, .refused) := by simp [hstep, hused]
  exact ⟨this, by rw [this]⟩

/-- stream 7 carries `ABC`; a second open for 7 is refused; packet 1 (`DEF`) of the stream is
acknowledged and the reader of the ONE connection gets `ABCDEF` -/
example : (hrun std {} [.open 7, .data 7 [48] [81, 85, 74, 68], .open 7, .data 7 [49] [82, 69, 86, 71], .read 0 8]).2 =
    [.opened 0, .reply .ack, .refused, .reply .ack, .read (.data [65, 66, 67, 68, 69, 70])] := by decide

/-- negation witness (the code before the round-E repair: `addStream` overwrote the entry): a
handler that accepts the second open hands the stream's next packet to the new, empty connection,
which expects number 0 — a valid, in-sequence packet of an open stream is refused -/
theorem C15_open_overwrites_fails :
    let s1 : HState := (hrun std {} [.open 7, .data 7 [48] [81, 85, 74, 68]]).1
    let s2 : HState := { s1 with next := 2, conn := fun i => if i = 1 then fresh else s1.conn i,
                                 table := fun x => if x = 7 then some 1 else s1.table x }
    (hstep std s1 (.data 7 [49] [82, 69, 86, 71])).2 = .reply .ack ∧
    (hstep std s2 (.data 7 [49] [82, 69, 86, 71])).2 = .reply .unexpectedRequest := by
  decide

/-- closing a stream (either side) unregisters its sid: later packets for it are refused with
item-not-found until a stream with that sid is opened again; the closed connection keeps its bytes -/
theorem C15_closed_sid_unregistered (cd : Codec) (s : HState) (sid h : Nat) (a p : Bytes)
    (ht : s.table sid = some h) :
    let s1 := (hstep cd s (.closeSid sid)).1
    (hstep cd s1 (.data sid a p)).2 = .reply .itemNotFound ∧ (s1.conn h).buf = (s.conn h).buf ∧
      (s1.conn h).live = false := by
  simp [hstep, ht, unregister, setConn, close]

/-- the whole scenario on the executable model: stream 7 carries `ABC`, is closed by the peer, a new
stream 7 is opened, its packet 0 (`DEF`) is acknowledged; the old connection still delivers `ABC`
and then end-of-file, the new one `DEF` -/
example : (hrun std {} [.open 7, .data 7 [48] [81, 85, 74, 68], .closeSid 7, .open 7,
      .data 7 [48] [82, 69, 86, 71], .read 0 8, .read 0 8, .read 1 8]).2 =
    [.opened 0, .reply .ack, .reply .ack, .opened 1, .reply .ack,
     .read (.data [65, 66, 67]), .read .eof, .read (.data [68, 69, 70])] := by decide

/-- negation witness (seeded C15-15): a handler that keeps using the connection of the last data
packet for that sid refuses packet 0 of the re-opened stream (it reaches the closed connection) -/
theorem C15_stale_lookup_cache_fails :
    crun std {} [.open 7, .data 7 [48] [81, 85, 74, 68], .closeSid 7, .open 7, .data 7 [48] [82, 69, 86, 71]] ≠
      (hrun std {} [.open 7, .data 7 [48] [81, 85, 74, 68], .closeSid 7, .open 7, .data 7 [48] [82, 69, 86, 71]]).2 := by
  decide

/-- REGENERATED FACT (lock discipline, not probeable): in package ibb every access to the stream table
of `Handler` (the field that maps to `*Conn`, whatever it is called; lookup, insert, delete, nil test)
is made while one and the same mutex of `Handler` is held — in the function itself or, for a helper
that does not lock, at every one of its call sites.  This is what makes `hstep` (one table access =
one atomic step) an adequate model while `Close` / `OpenIQ` run on application goroutines and the
peer's packets and close requests on the serve goroutine.  (Before the round-D fix the peer's
`<close/>` was looked up without the lock: `some false`.) -/
theorem C15_stream_table_accesses_locked : Generated.C15.streamTableLocked = some true := by decide

end Table

/-! ### the carrier message: the packet is the IBB data child wherever it stands (round E) -/
section Carrier

/-- the packet a message carries does not depend on where its `<data/>` child stands: any number of
other children (hints, thread, body, white space, foreign elements) before and after it -/
theorem C15_carrier_position_irrelevant (before after : List Nat) (p : BodyPacket) :
    carried (carrierChildren before after p) = some p := by
  unfold carried carrierChildren
  rw [dataChildren_append, dataChildren_others]
  simp [dataChildren, dataChildren_others]

/-- hence the message is handled exactly like the bare packet: every theorem about `recvBody`
(refusals leave the stream untouched, an acknowledged packet appends exactly its payload) holds for
a packet at any position of its carrier message -/
theorem C15_carrier_handled_like_bare_packet (cd : Codec) (s : RState) (before after : List Nat) (p : BodyPacket) :
    recvMessage cd s (carrierChildren before after p) = .handled (recvBody cd s p).1 (recvBody cd s p).2 := by
  unfold recvMessage carrierChildren
  rw [dataChildren_append, dataChildren_others]
  simp [dataChildren, dataChildren_others]

/-- a valid, in-sequence packet is acknowledged and delivered whatever surrounds it -/
theorem C15_carrier_accept_delivers (cd : Codec) (s : RState) (before after : List Nat) (p : BodyPacket)
    (h : (recvBody cd s p).2 = .ack) :
    ∃ s' d, recvMessage cd s (carrierChildren before after p) = .handled s' .ack ∧
      cd.dec (bodyText p.body) = some d ∧ s'.buf = s.buf ++ d ∧ s'.seq = (s.seq + 1) % 65536 := by
  obtain ⟨d, hd, hb, hs⟩ := C15_body_accept_delivers_every_piece cd s p h
  exact ⟨_, d, by rw [C15_carrier_handled_like_bare_packet, h], hd, hb, hs⟩

/-- children that are not the packet never reach the stream -/
theorem C15_carrier_other_children_inert (cd : Codec) (s : RState) (cs : List Nat) :
    recvMessage cd s (cs.map Child.other) = .notIbb := by
  unfold recvMessage; rw [dataChildren_others]

/-- `<no-copy/><thread/>` before the packet, `<body/>` after it: acknowledged, `ABC` delivered -/
example : recvMessage std ⟨true, 0, [120], 0⟩ (carrierChildren [0, 1] [2] ⟨true, [48], [.text [81, 85, 74, 68]]⟩) =
    .handled ⟨true, 1, [120, 65, 66, 67], 0⟩ .ack := by decide

/-- negation witness (seeded C15-17): a handler that takes the FIRST child of the message for the
packet refuses a valid in-sequence packet that follows a processing hint (item-not-found: the
hint names no stream), so its bytes — and every later packet of the stream — are lost -/
theorem C15_carrier_first_child_only_fails :
    ∃ (s : RState) (cs : List Child) (p : BodyPacket), carried cs = some p ∧ (recvBody std s p).2 = .ack ∧
      recvMessageFirstChild std s cs = .handled s .itemNotFound :=
  ⟨⟨true, 0, [], 0⟩, carrierChildren [0] [] ⟨true, [48], [.text [81, 85, 74, 68]]⟩, ⟨true, [48], [.text [81, 85, 74, 68]]⟩,
    by decide, by decide, by decide⟩

set_option synthInstance.maxSize 512 in
/-- PROBE FACT: the real handler, run by `harness facts` on a fresh message-carrier stream for every
shape of `carrierUniverse` (the packet alone; a hint before / after it; thread + hint before; a body
with base64-looking text before; white space around; an element named `data` in another namespace
before / after; an IBB data element nested in another child before / after; many children on both
sides; out-of-sequence packets behind / before other children), answers and delivers exactly what
the model does -/
theorem C15_carrier_probe :
    Generated.C15.carrierProbe = some (carrierUniverse.map fun r => (r.1, r.2.1, r.2.2, (carrierModel r).1, (carrierModel r).2)) := by
  decide

end Carrier

/-! ### the write side under concurrent use: the peer's close while the application writes (round E) -/
section WriteSide
open XmppModel.IbbWriteSide

/-- the invariant is inductive: initially, and across every enabled step of either thread -/
theorem C15_write_side_inv_step (s s' : St) (a : Act) (h : Inv s) (hs : step true s a = some s') : Inv s' :=
  inv_step h hs

/-- with every use of the write side under the write lock: for EVERY interleaving of Write / Flush
of the application with the flush of a peer-initiated close on the serving goroutine (which
leaves the write side alone when the lock is taken), what has gone out in data stanzas followed by
what is still buffered is exactly what Write accepted — each byte at most once, in order, nothing
lost -/
theorem C15_write_side_exactly_once (acts : List Act) (s : St) (h : run true {} acts = some s) :
    s.wire ++ s.buf = s.written :=
  (inv_run inv_init h).1

/-- in particular the bytes on the wire are a prefix of the bytes written -/
theorem C15_write_side_wire_is_prefix (acts : List Act) (s : St) (h : run true {} acts = some s) :
    s.wire <+: s.written :=
  ⟨s.buf, C15_write_side_exactly_once acts s h⟩

/-- and a flush that completes leaves nothing behind: everything accepted so far is on the wire -/
theorem C15_write_side_flush_drains (acts : List Act) (s s' : St) (t : Tid) (h : run true {} acts = some s)
    (hs : step true s (.flushEnd t) = some s') : s'.wire = s'.written := by
  have hi := inv_run inv_init h
  have hi' := inv_step hi hs
  simp only [step] at hs
  cases hsn : s.snap t with
  | none => simp [hsn] at hs
  | some l =>
    obtain ⟨hlock, hl⟩ := hi.2 t l hsn
    simp [hsn, hlock] at hs; subst hs; subst hl
    have := hi'.1
    cases t <;> simp_all [St.setSnap]

/-- non-vacuity: the application writes and flushes, the peer's close finds the lock taken and
stays away, the application writes again, a later close flushes the rest -/
example : (run true {} [.write [65, 66], .flushBegin false, .trySkip, .flushEnd false, .write [67],
    .flushBegin true, .flushEnd true]).map (fun s => (s.wire, s.buf)) = some ([65, 66, 67], []) := by decide

/-- negation witness (the pinned snapshot: the serving goroutine flushes without the lock): both
threads are inside Flush with the same buffer contents, the byte goes out twice -/
theorem C15_write_side_unlocked_duplicates :
    ∃ acts s, run false {} acts = some s ∧ s.written = [65] ∧ s.wire = [65, 65] :=
  ⟨[.write [65], .flushBegin false, .flushBegin true, .flushEnd false, .flushEnd true], _, rfl, by decide, by decide⟩

/-- the peer's close never waits for the writer: with TryLock, whatever the peer has sent (its
`<close/>`, acknowledgements, in any order and number) while the application sits in `Flush` holding
the write lock and waiting for an acknowledgement, the serving goroutine handles every stanza, is
never parked, the close is answered and the application's call returns -/
theorem C15_peer_close_never_waits_for_writer (inbox : List Stanza) :
    let s := serveRun true inbox.length { inbox := inbox }
    s.inbox = [] ∧ s.serveParked = false ∧ (Stanza.close ∈ inbox → s.closeAnswered = true) ∧
      (Stanza.ack ∈ inbox → s.appReturned = true) := by
  have := serveRun_tryLock inbox { inbox := inbox } rfl rfl
  exact ⟨this.1, this.2.1, fun h => this.2.2.1 (Or.inl h), fun h => this.2.2.2 (Or.inl h)⟩

/-- negation witness (own mutation M2: `Lock` instead of `TryLock`): the close arrives before the
acknowledgement the writer waits for; the serving goroutine parks on the write lock, the
acknowledgement behind it is never delivered, nothing can move any more -/
theorem C15_blocking_lock_deadlocks :
    let s := serveRun false 8 { inbox := [.close, .ack] }
    s.serveParked = true ∧ s.appInFlush = true ∧ s.closeAnswered = false ∧ s.appReturned = false ∧
      s.inbox = [.ack] ∧ serveStep false s = none := by decide

/-- REGENERATED FACT (lock discipline, not probeable): in package ibb every use of the write side of
`Conn` — the field of type `*bufio.Writer` and the encoder's closer of type `func() error`, whatever
they are called; the read-only `Size` / `Available` / `Buffered` excepted — is made while one and the
same mutex of `Conn` is held (Lock, or a TryLock on the path that continues), in the function itself
or at every call site of a helper.  This is what makes `step true` the adequate model.  (Before the
round-E fix: `some false`, unguarded use in Close, closeNoNotify, flush.) -/
theorem C15_write_side_locked : Generated.C15.writeSideLocked = some true := by decide

end WriteSide

/-! ### flow control: any receive-buffer limit, reads interleaved with packets (round E) -/
section Flow

/-- SAFETY for every history whatsoever: from ANY receiver state (any limit, any expected number,
anything buffered), for every interleaving of packets (good, bad, repeated, out of sequence,
oversize), reads of any sizes and limit changes — what the reader got, followed by what is still
buffered, is what was buffered at the start followed by the decoded payloads of exactly the
ACKNOWLEDGED packets, in order, each once.  No refused packet contributes a byte, no
acknowledged byte is lost, repeated or moved. -/
theorem C15_flow_exactly_once (cd : Codec) : ∀ (ops : List FOp) (s : RState),
    ∃ d, decodeAll cd (flowRun cd s ops).acked = some d ∧
      (flowRun cd s ops).delivered ++ (flowRun cd s ops).st.buf = s.buf ++ d := by
  intro ops
  induction ops with
  | nil => intro s; exact ⟨[], rfl, by simp [flowRun]⟩
  | cons o os ih =>
    intro s
    cases o with
    | pkt p =>
      by_cases ha : (recv cd s p).2 = .ack
      · obtain ⟨d1, _, _, _, hd, _, hst⟩ := recv_ack cd s p ha
        obtain ⟨d2, hd2, hb⟩ := ih (recv cd s p).1
        refine ⟨d1 ++ d2, ?_, ?_⟩
        · simp [flowRun, ha, decodeAll, hd, hd2]
        · simp only [flowRun]
          rw [hb, hst]; simp [List.append_assoc]
      · obtain ⟨d2, hd2, hb⟩ := ih (recv cd s p).1
        refine ⟨d2, ?_, ?_⟩
        · simp [flowRun, ha, hd2]
        · simp only [flowRun]; rw [hb, recv_nack cd s p ha]
    | read n =>
      obtain ⟨d2, hd2, hb⟩ := ih (Ibb.read s n).1
      refine ⟨d2, by simpa [flowRun] using hd2, ?_⟩
      simp only [flowRun, List.append_assoc]
      rw [hb]
      simp [Ibb.read, ← List.append_assoc]
    | setMax n bs =>
      obtain ⟨d2, hd2, hb⟩ := ih (setMax s n bs)
      exact ⟨d2, by simpa [flowRun] using hd2, by simpa [flowRun, Ibb.setMax] using hb⟩

/-- the acknowledged packets of any history are numbered consecutively modulo 65536 from the number
the receiver expected at the start: a repeated, skipped or stale number is never acknowledged -/
theorem C15_flow_acked_consecutive (cd : Codec) : ∀ (ops : List FOp) (s : RState), s.seq < 65536 →
    seqsFrom s.seq (flowRun cd s ops).acked = true := by
  intro ops
  induction ops with
  | nil => intro s _; rfl
  | cons o os ih =>
    intro s hlt
    cases o with
    | pkt p =>
      by_cases ha : (recv cd s p).2 = .ack
      · obtain ⟨d1, hk, _, hs, _, _, hst⟩ := recv_ack cd s p ha
        have := ih (recv cd s p).1 (by rw [hst]; exact Nat.mod_lt _ (by decide))
        rw [hst] at this
        simp only [flowRun, ha, if_true, seqsFrom, Bool.and_eq_true, beq_iff_eq]
        refine ⟨⟨by rw [hs, Nat.mod_eq_of_lt hlt], hk⟩, ?_⟩
        rw [seqsFrom_mod, hst]; exact this
      · have := ih (recv cd s p).1 (by rw [recv_nack cd s p ha]; exact hlt)
        rw [recv_nack cd s p ha] at this
        simpa [flowRun, ha, recv_nack cd s p ha] using this
    | read n => simpa [flowRun, Ibb.read] using ih (Ibb.read s n).1 hlt
    | setMax n bs => simpa [flowRun, Ibb.setMax] using ih (setMax s n bs) hlt

/-- an in-sequence, decodable packet for a live stream is refused — with resource-constraint and
nothing else — exactly when it does not fit AT THAT MOMENT; otherwise it is acknowledged -/
theorem C15_flow_refused_iff_no_room (cd : Codec) (s : RState) (p : Packet) (d : Bytes)
    (hk : p.known = true) (hl : s.live = true) (hs : p.seq = s.seq) (h : cd.dec p.payload = some d) :
    (fits s d → (recv cd s p).2 = .ack) ∧ (¬ fits s d → recv cd s p = (s, .resourceConstraint)) := by
  constructor
  · intro hf; rw [C15_accept cd s p d hk hl hs h hf]
  · intro hf
    unfold fits at hf
    exact C15_refuse_oversize cd s p d hk hl hs h (by omega) (by omega)

/-- back-pressure is not loss: a packet that was refused for lack of room is acknowledged when it
is sent again after the reader has made room — after ANY sequence of reads that leaves enough
space, in particular after the buffer was drained, provided the packet is not larger than the limit -/
theorem C15_flow_retry_after_reads (cd : Codec) (s : RState) (p : Packet) (d : Bytes) (ns : List Nat)
    (hk : p.known = true) (hl : s.live = true) (hs : p.seq = s.seq) (h : cd.dec p.payload = some d)
    (hroom : fits (readAll s ns) d) :
    (recv cd (readAll s ns) p).2 = .ack ∧ (recv cd (readAll s ns) p).1.buf = (readAll s ns).buf ++ d := by
  obtain ⟨h1, h2, h3, _⟩ := readAll_fields s ns
  have := C15_accept cd (readAll s ns) p d hk (by rw [h1]; exact hl) (by rw [h2]; exact hs) h hroom
  rw [this]; exact ⟨rfl, rfl⟩

theorem C15_flow_drained_makes_room (s : RState) (d : Bytes) (hd : s.maxBuf = 0 ∨ d.length ≤ s.maxBuf) :
    fits (readAll s [s.buf.length]) d := by
  unfold fits
  simp only [readAll, Ibb.read, List.drop_length, List.length_nil]
  omega

/-- THE PIPE with flow control (the `maxBuf = 0`, reader-idle hypotheses of `C15_pipe` removed): the
receiver starts with ANY limit; the history is ANY interleaving of packets, reads and limit changes in
which the packets that end up acknowledged are the sender's packets `ps` (an admissible
packetisation of `written`; refused ones may have been re-sent any number of times, bad packets
injected anywhere).  Then what the reader got plus what is buffered is a prefix of the bytes
written — all of them once `Close` has completed — unmodified, in order, exactly once. -/
theorem C15_flow_pipe (cd : Codec) (written : Bytes) (closed : Bool) (ps : List Packet) (maxBuf : Nat)
    (ops : List FOp) (h : emits cd written closed ps = true)
    (hacked : (flowRun cd ⟨true, 0, [], maxBuf⟩ ops).acked = ps) :
    let r := flowRun cd ⟨true, 0, [], maxBuf⟩ ops
    (r.delivered ++ r.st.buf).isPrefixOf written = true ∧ (closed = true → r.delivered ++ r.st.buf = written) := by
  obtain ⟨d, hd, hb⟩ := C15_flow_exactly_once cd ops ⟨true, 0, [], maxBuf⟩
  unfold emits at h
  simp only [Bool.and_eq_true] at h
  rw [hacked] at hd
  simp only [hd] at h
  simp only [List.nil_append] at hb
  constructor
  · rw [hb]
    cases closed
    · simpa using h.2
    · have := h.2; simp at this; subst this; simp
  · intro hc; rw [hb]; subst hc; simpa using h.2

/-- non-vacuity, limit 4: `ABC` accepted, `DEF` refused (resource-constraint), the reader drains,
`DEF` sent again is accepted, a stale repetition of packet 0 is refused; the reader gets `ABCDEF` -/
example : let r := flowRun std ⟨true, 0, [], 4⟩ [.pkt ⟨true, 0, [81, 85, 74, 68]⟩, .pkt ⟨true, 1, [82, 69, 86, 71]⟩,
      .read 8, .pkt ⟨true, 1, [82, 69, 86, 71]⟩, .pkt ⟨true, 0, [81, 85, 74, 68]⟩, .read 8]
    r.replies = [.ack, .resourceConstraint, .ack, .unexpectedRequest] ∧ r.delivered = [65, 66, 67, 68, 69, 70] ∧
    r.acked = [⟨true, 0, [81, 85, 74, 68]⟩, ⟨true, 1, [82, 69, 86, 71]⟩] ∧
    emits std [65, 66, 67, 68, 69, 70] true r.acked = true := by decide

end Flow

/-! ### who a stanza comes from: a stream is (session id, peer) (round E) -/
section Sender

/-- a close request closes the stream iff it names it (session id AND sender); any other close
request is answered item-not-found and changes nothing -/
theorem C15_close_request_only_from_peer (s : RState) :
    closeRequest s false = (s, .itemNotFound) ∧
    (s.live = true → closeRequest s true = (Ibb.close s, .ack)) := by
  constructor
  · simp [closeRequest]
  · intro h; simp [closeRequest, h]

/-- stanzas that do not name the stream — another session id, or the right session id from
somebody who is not the stream's peer — can be removed from ANY history (packets, reads, limit
changes, from any state): the receiver ends in the same state, the same packets are acknowledged
and the reader gets the same bytes.  Nobody but the peer can put a byte into the stream. -/
theorem C15_foreign_stanzas_inert (cd : Codec) : ∀ (ops : List FOp) (s : RState),
    (flowRun cd s (dropForeign ops)).st = (flowRun cd s ops).st ∧
    (flowRun cd s (dropForeign ops)).acked = (flowRun cd s ops).acked ∧
    (flowRun cd s (dropForeign ops)).delivered = (flowRun cd s ops).delivered := by
  intro ops
  induction ops with
  | nil => intro s; exact ⟨rfl, rfl, rfl⟩
  | cons o os ih =>
    intro s
    cases o with
    | pkt p =>
      cases hk : p.known with
      | true =>
        have := ih (recv cd s p).1
        simp only [dropForeign, hk, if_true, flowRun]
        exact ⟨this.1, by rw [this.2.1], this.2.2⟩
      | false =>
        have hr := C15_refuse_unknown_or_closed cd s p (Or.inl hk)
        have := ih s
        simp only [dropForeign, hk, flowRun, hr]
        exact ⟨this.1, by simpa using this.2.1, this.2.2⟩
    | read n =>
      have := ih (Ibb.read s n).1
      simp only [dropForeign, flowRun]
      exact ⟨this.1, this.2.1, by rw [this.2.2]⟩
    | setMax n bs => simpa [dropForeign, flowRun] using ih (setMax s n bs)

/-- a third party's packet with the expected number is refused, the peer's is then acknowledged -/
example : (flowRun std ⟨true, 0, [], 0⟩ [.pkt ⟨false, 0, [90, 88, 90, 112]⟩, .pkt ⟨true, 0, [81, 85, 74, 68]⟩, .read 8]).replies =
    [.itemNotFound, .ack] := by decide

/-- PROBE FACT: the real handler, on a stream opened by the peer, answers a data packet and a close
request that name the stream's session id exactly as the model does for every kind of sender: the
peer itself and a stanza without `from` are the stream's; another resource of the peer's account,
its bare address, a third party and the server are not (item-not-found, the stream is untouched) -/
theorem C15_sender_probe : Generated.C15.senderProbe = some ((List.range 6).map senderModel) := by decide

end Sender

/-! ### the composition: writer, wire, receiver with flow control, reader (round G) -/
section Composition
open XmppModel.IbbWriteSide

/-- C15_end_to_end_flow — `C15_end_to_end` without its two restrictions (unlimited buffer, reader
idle).  The writer does anything (any partition into Write / Flush / Close, any block size: the
executable packetiser, `C15_packetiser_emits`); the receiver starts with ANY buffer limit; the
receiver's history is ANY interleaving of the sender's packets — each one possibly refused for
lack of room and sent again, any number of times —, packets that are not the stream's (another
session id, another sender: `C15_foreign_stanzas_inert`), corrupt / stale / repeated packets, reads
of any sizes and limit changes, such that the packets that end up acknowledged are the sender's
(`C15_flow_acked_consecutive`: no other sequence can be).  Then what the reader has got plus what is
still buffered is a prefix of the bytes written, in order, each once, unmodified (`C15_flow_pipe`,
`C15_flow_exactly_once`); after `Close` it is all of them; and once the reader has drained the
buffer of the closed stream every further Read is end-of-file, not before (`C15_eof_only_when_drained`). -/
theorem C15_end_to_end_flow (bs maxBuf : Nat) (wops : List SOp) (ops : List FOp)
    (hacked : (flowRun std ⟨true, 0, [], maxBuf⟩ ops).acked = packetsOf bs wops) :
    let r := flowRun std ⟨true, 0, [], maxBuf⟩ ops
    (r.delivered ++ r.st.buf).isPrefixOf (writtenOf false wops) = true ∧
    (SOp.close ∈ wops → r.delivered ++ r.st.buf = writtenOf false wops) ∧
    (SOp.close ∈ wops → ∀ n, (readOut (Ibb.close r.st) n = .eof ↔ r.delivered = writtenOf false wops)) := by
  have h := C15_flow_pipe std _ _ _ maxBuf ops (C15_packetiser_emits bs wops) hacked
  simp only [] at h
  refine ⟨h.1, fun hc => h.2 (by simp [hc]), ?_⟩
  intro hc n
  have hall := h.2 (by simp [hc])
  rw [(C15_eof_only_when_drained _ n).1]
  constructor
  · intro hb; rw [hb, List.append_nil] at hall; exact hall
  · intro hd
    rw [hd] at hall
    exact List.append_cancel_left (as := writtenOf false wops) (by simpa using hall)

/-- the same history with every stanza that is not the stream's removed gives the same bytes: what
third parties and other streams send plays no role in `C15_end_to_end_flow` -/
theorem C15_end_to_end_flow_ignores_foreign (maxBuf : Nat) (ops : List FOp) :
    (flowRun std ⟨true, 0, [], maxBuf⟩ (dropForeign ops)).acked = (flowRun std ⟨true, 0, [], maxBuf⟩ ops).acked ∧
    (flowRun std ⟨true, 0, [], maxBuf⟩ (dropForeign ops)).delivered = (flowRun std ⟨true, 0, [], maxBuf⟩ ops).delivered :=
  ⟨(C15_foreign_stanzas_inert std ops _).2.1, (C15_foreign_stanzas_inert std ops _).2.2⟩

/-- the writer's side under EVERY schedule of application and serving goroutine (write-side LTS,
lock discipline `C15_write_side_locked`): the bytes accepted are the chunks of the Write calls in
the order in which they took the lock, and what is on the wire plus what is buffered is exactly
that — so the concurrent run is the sequential history `writesOf acts` as far as bytes are
concerned, and `C15_end_to_end_flow` applies to it -/
theorem C15_write_side_linearises (acts : List Act) (s : St) (h : run true {} acts = some s) :
    s.written = (writesOf acts).flatten ∧ s.wire ++ s.buf = (writesOf acts).flatten ∧
    s.written = writtenOf false ((writesOf acts).map SOp.write) := by
  have hw := run_written true acts {} s h
  simp only [List.nil_append] at hw
  refine ⟨hw, by rw [C15_write_side_exactly_once acts s h, hw], ?_⟩
  rw [hw]
  generalize writesOf acts = cs
  induction cs with
  | nil => rfl
  | cons c cs ih => simp [writtenOf, ih]

/-- BOTH DIRECTIONS, all schedules: two endpoints A and B, each writing on its side under any
interleaving of its own goroutines (`actsA`, `actsB`), each then closing; the packets travel as the
packetiser cuts them (any block sizes), each receiver with its own limit and its own history (reads,
refusals and re-sends, foreign and bad packets).  What B's reader gets plus what B still buffers is
exactly what A's Write calls accepted, in lock order, and vice versa; the two directions share
nothing (`C15_both_directions`). -/
theorem C15_end_to_end_duplex (bsA bsB maxA maxB : Nat) (actsA actsB : List Act) (sA sB : St)
    (opsAtB opsAtA : List FOp)
    (hA : run true {} actsA = some sA) (hB : run true {} actsB = some sB)
    (hackB : (flowRun std ⟨true, 0, [], maxB⟩ opsAtB).acked = packetsOf bsA ((writesOf actsA).map SOp.write ++ [.close]))
    (hackA : (flowRun std ⟨true, 0, [], maxA⟩ opsAtA).acked = packetsOf bsB ((writesOf actsB).map SOp.write ++ [.close])) :
    (flowRun std ⟨true, 0, [], maxB⟩ opsAtB).delivered ++ (flowRun std ⟨true, 0, [], maxB⟩ opsAtB).st.buf = sA.written ∧
    (flowRun std ⟨true, 0, [], maxA⟩ opsAtA).delivered ++ (flowRun std ⟨true, 0, [], maxA⟩ opsAtA).st.buf = sB.written := by
  have wr : ∀ cs : List Bytes, writtenOf false (cs.map SOp.write ++ [.close]) = cs.flatten := by
    intro cs; induction cs with
    | nil => rfl
    | cons c cs ih => simp [writtenOf, ih]
  constructor
  · have := (C15_end_to_end_flow bsA maxB _ opsAtB hackB).2.1 (by simp)
    rw [this, wr, (C15_write_side_linearises actsA sA hA).1]
  · have := (C15_end_to_end_flow bsB maxA _ opsAtA hackA).2.1 (by simp)
    rw [this, wr, (C15_write_side_linearises actsB sB hB).1]

/-- non-vacuity of the composition: A writes `ABC` `DEF` (block size 3) and closes; B has a limit of
4 bytes: packet 1 is refused, B reads, packet 1 is sent again; a third party's packet is refused;
B's reader gets `ABCDEF`, then end-of-file -/
example :
    let ops : List FOp := [.pkt ⟨true, 0, [81, 85, 74, 68]⟩, .pkt ⟨true, 1, [82, 69, 86, 71]⟩, .pkt ⟨false, 1, [90, 88, 90, 112]⟩,
      .read 8, .pkt ⟨true, 1, [82, 69, 86, 71]⟩, .read 8]
    (flowRun std ⟨true, 0, [], 4⟩ ops).acked = packetsOf 3 [.write [65, 66, 67], .write [68, 69, 70], .close] ∧
    (flowRun std ⟨true, 0, [], 4⟩ ops).delivered = [65, 66, 67, 68, 69, 70] ∧
    readOut (Ibb.close (flowRun std ⟨true, 0, [], 4⟩ ops).st) 8 = .eof := by decide

/-- the wire level refines the receiver function: whatever the carrier stanza looks like (other
children around the packet), however the body is serialised and whatever text the seq attribute
is, the receiver ends in the state `recv` reaches on the abstracted packet and acknowledges in
exactly the same cases -/
theorem C15_wire_refines_recv (cd : Codec) (s : RState) (before after : List Nat) (p : BodyPacket) :
    recvMessage cd s (carrierChildren before after p) =
      .handled (recvBody cd s p).1 (recvBody cd s p).2 ∧
    (recvBody cd s p).1 = (recv cd s (absPacket p)).1 ∧
    ((recvBody cd s p).2 = .ack ↔ (recv cd s (absPacket p)).2 = .ack) := by
  refine ⟨C15_carrier_handled_like_bare_packet cd s before after p, ?_⟩
  unfold recvBody recvWire absPacket
  by_cases hk : (!(p.known && s.live)) = true
  · rw [if_pos hk]
    cases hp : parseSeqAttr p.seqAttr with
    | malformed => simp [recv]
    | num n => simp only []; unfold recv; simp only [hk, if_true]; simp
  · rw [if_neg hk]
    cases hp : parseSeqAttr p.seqAttr with
    | malformed => simp [recv]
    | num n => simp

/-- hence a wire-level history IS the flow-control history of its abstraction: same final state, same
acknowledged packets, same bytes for the reader -/
theorem C15_wire_run_is_flow_run (cd : Codec) : ∀ (ops : List WOp) (s : RState),
    (wireRun cd s ops).1 = (flowRun cd s (ops.map WOp.abs)).st ∧
    (wireRun cd s ops).2.1 = (flowRun cd s (ops.map WOp.abs)).acked ∧
    (wireRun cd s ops).2.2 = (flowRun cd s (ops.map WOp.abs)).delivered := by
  intro ops
  induction ops with
  | nil => intro s; exact ⟨rfl, rfl, rfl⟩
  | cons o os ih =>
    intro s
    cases o with
    | stanza b a p =>
      obtain ⟨h1, h2, h3⟩ := C15_wire_refines_recv cd s b a p
      have := ih (recvBody cd s p).1
      simp only [wireRun, h1, List.map_cons, WOp.abs, flowRun]
      rw [← h2]
      refine ⟨this.1, ?_, this.2.2⟩
      by_cases ha : (recvBody cd s p).2 = .ack
      · simp [ha, h3.mp ha, this.2.1]
      · have hb : ¬ (recv cd s (absPacket p)).2 = .ack := fun h => ha (h3.mpr h)
        simp [ha, hb, this.2.1]
    | read n =>
      have := ih (Ibb.read s n).1
      simp only [wireRun, List.map_cons, WOp.abs, flowRun]
      exact ⟨this.1, this.2.1, by rw [this.2.2]⟩
    | setMax n bs => simpa [wireRun, WOp.abs, flowRun] using ih (setMax s n bs)

/-- C15_end_to_end_wire: `C15_end_to_end_flow` stated for what actually arrives — carrier stanzas with
any other children, seq attributes as text, bodies in pieces, in any interleaving with reads and
limit changes, any buffer limit: if the packets that end up acknowledged are the sender's, the
reader gets a prefix of the bytes written, all of them after Close, each once, in order -/
theorem C15_end_to_end_wire (bs maxBuf : Nat) (wops : List SOp) (ops : List WOp)
    (hacked : (wireRun std ⟨true, 0, [], maxBuf⟩ ops).2.1 = packetsOf bs wops) :
    let r := wireRun std ⟨true, 0, [], maxBuf⟩ ops
    (r.2.2 ++ r.1.buf).isPrefixOf (writtenOf false wops) = true ∧
    (SOp.close ∈ wops → r.2.2 ++ r.1.buf = writtenOf false wops) := by
  obtain ⟨h1, h2, h3⟩ := C15_wire_run_is_flow_run std ops ⟨true, 0, [], maxBuf⟩
  have := C15_end_to_end_flow bs maxBuf wops (ops.map WOp.abs) (by rw [← h2]; exact hacked)
  simp only [] at this ⊢
  rw [h1, h3]
  exact ⟨this.1, this.2.1⟩

/-- non-vacuity: packet 0 behind a hint and a thread with its body cut into text + CDATA, a packet
whose seq attribute is `65536` (refused), packet 1 as the only child; the reader gets `ABCDEF` -/
example :
    let ops : List WOp := [.stanza [0, 1] [] ⟨true, [48], [.text [81, 85], .cdata [74, 68]]⟩,
      .stanza [] [] ⟨true, [54, 53, 53, 51, 54], [.text [90, 88, 90, 112]]⟩,
      .stanza [] [2] ⟨true, [49], [.text [82, 69, 86, 71]]⟩, .read 8]
    (wireRun std ⟨true, 0, [], 0⟩ ops).2.1 = packetsOf 3 [.write [65, 66, 67], .write [68, 69, 70], .close] ∧
    (wireRun std ⟨true, 0, [], 0⟩ ops).2.2 = [65, 66, 67, 68, 69, 70] := by decide

end Composition

/-! ### the executable codec instance: spot checks -/
example : std.dec (std.enc [1, 2, 3, 4, 5]) = some [1, 2, 3, 4, 5] := by decide
example : std.dec [81, 85, 74, 68, 10, 82, 65, 61, 61] = some [65, 66, 67, 68] := by decide
example : std.dec [82, 69, 86, 71, 33, 33, 33, 33] = none := by decide

end XmppModel.Props.C15
