import XmppModel.Model.Jid
import XmppModel.Generated.C11
/-!
# C11 — JIDs are canonical
-/
namespace XmppModel.Props.C11
open XmppModel XmppModel.Jid

/-! ### Tie to the source: regenerated facts -/

/-- the forbidden localpart characters read from `localChecks` are the model's -/
theorem C11_gen_forbidden : Generated.C11.forbidden = some forbidden := by decide

/-- the three length limits read from the source are the model's `maxPart` (and the domain's
lower bound 1) -/
theorem C11_gen_limits :
    Generated.C11.localChecksLimits = some [s!">{maxPart}"] ∧
    Generated.C11.resourceChecksLimits = some [s!">{maxPart}"] ∧
    Generated.C11.normalizeDomainpartLimits = some [">1", "<1", s!">{maxPart}"] := by decide

end XmppModel.Props.C11
