import XmppModel.Model.Jid
import XmppModel.Lemmas.Jid
import XmppModel.Lemmas.JidHeap
import XmppModel.Lemmas.JidXml
import XmppModel.Generated.C11
/-!
# C11 — JIDs are canonical

Property theorems only (helpers: `Lemmas/Jid.lean`; the model: `Model/Jid.lean`).
Quantifiers: every byte string, every triple of parts, every packed value, and every
behaviour of the external normalisers (`Norm`) that satisfies `Norm.Good` — hypotheses about
the *outputs* of PRECIS / IDNA / `net.ParseIP`, each tested by the harness on the real
libraries for every generated input.  Theorems that do not mention `Norm.Good` are
unconditional.
-/
namespace XmppModel.Props.C11
open XmppModel XmppModel.Jid

/-! ### Tie to the source: regenerated facts -/

/-- the bytes for which the real `New` / `WithLocal` reject a localpart that PRECIS accepts
(probe over every ASCII character and every fullwidth form, in four positions) are the
model's forbidden set -/
theorem C11_gen_forbidden : Generated.C11.forbidden = some forbidden := by decide

/-- … and on the whole probed domain (every byte PRECIS can produce from those inputs) the real
code rejects exactly where the model's `hasForbidden` does; the domain contains every
forbidden character -/
theorem C11_gen_local_bytes :
    ∃ t, Generated.C11.localByteProbe = some t ∧
      (∀ e ∈ t, e.2 = hasForbidden [e.1]) ∧ (∀ c ∈ forbidden, (c, true) ∈ t) := by
  refine ⟨_, rfl, by decide, by decide⟩

/-- the length limits: a part whose normalised form has `n` bytes is accepted by the real `New`
and `With…` exactly when the model's bounds say so (`n ≤ maxPart`, and `1 ≤ n` for the
domainpart), probed at 0, 1, 2 and on both sides of 1023 / 1024 -/
theorem C11_gen_limits :
    Generated.C11.partLenProbe = some (partLenTable [0, 1, 2, 1022, 1023, 1024, 1025, 2047]) := by decide

/-! ### Parsing is idempotent: the string form of a returned address parses to it -/

/-- **`New` returns canonical addresses**: parsing the string form of whatever `New` returns
yields the same address. -/
theorem C11_new_canonical {N : Norm} (g : N.Good) {l d r : Bytes} {j : Jid}
    (h : new N l d r = .ok j) : parse N j.toString = .ok j := by
  obtain ⟨_, _, l', d', r', hd, hnl, hnr, h1, h2, h3, rfl⟩ := new_ok_iff.mp h
  obtain ⟨dc1, dc2, _, _, _⟩ := normDomain_clean g hd
  have fl1 : cSlash ∉ l' := not_mem_of_hasForbidden h2 (by decide)
  have fl2 : cAt ∉ l' := not_mem_of_hasForbidden h2 (by decide)
  rw [toString_mk]
  unfold parse
  rw [split_assemble fl1 fl2 dc2 dc1]
  exact new_ok_iff.mpr ⟨normOpt_utf8 g.nL_utf8 hnl, normOpt_utf8 g.nR_utf8 hnr, l', d', r',
    normDomain_idem g hd, normOpt_idem g.nL_idem g.nL_ne hnl, normOpt_idem g.nR_idem g.nR_ne hnr,
    h1, h2, h3, rfl⟩

/-- **`Parse` is idempotent**: `Parse(Parse(s).String()) = Parse(s)` whenever `Parse(s)`
succeeds. -/
theorem C11_parse_idem {N : Norm} (g : N.Good) {s : Bytes} {j : Jid}
    (h : parse N s = .ok j) : parse N j.toString = .ok j := by
  unfold parse at h
  split at h
  · simp at h
  · exact C11_new_canonical g h

/-- and so is every further round: the canonical form is a fixed point -/
theorem C11_parse_fixed_point {N : Norm} (g : N.Good) {s : Bytes} {j k : Jid}
    (h : parse N s = .ok j) (h' : parse N j.toString = .ok k) : k = j ∧ k.toString = j.toString := by
  rw [C11_parse_idem g h] at h'
  cases h'
  exact ⟨rfl, rfl⟩

/-! ### Each part obeys the address rules -/

/-- every part of an address `New` returns is valid UTF-8 within its limit, the localpart has
no forbidden character, the domainpart is not empty -/
theorem C11_parts_valid {N : Norm} (g : N.Good) {l d r : Bytes} {j : Jid}
    (h : new N l d r = .ok j) :
    validUtf8 j.localpart = true ∧ validUtf8 j.domainpart = true ∧ validUtf8 j.resourcepart = true ∧
    j.localpart.length ≤ maxPart ∧ 1 ≤ j.domainpart.length ∧ j.domainpart.length ≤ maxPart ∧
    j.resourcepart.length ≤ maxPart ∧ (∀ c ∈ forbidden, c ∉ j.localpart) ∧ j.WF := by
  obtain ⟨_, _, l', d', r', hd, hnl, hnr, h1, h2, h3, rfl⟩ := new_ok_iff.mp h
  obtain ⟨_, _, dne, dlen, dutf⟩ := normDomain_clean g hd
  rw [mk_localpart, mk_domainpart, mk_resourcepart]
  refine ⟨normOpt_utf8 g.nL_utf8 hnl, dutf, normOpt_utf8 g.nR_utf8 hnr, h1, ?_, dlen, h3,
    fun c hc => not_mem_of_hasForbidden h2 hc, mk_wf _ _ _⟩
  cases d' with
  | nil => exact absurd rfl dne
  | cons _ _ => simp

/-- the same for `Parse` -/
theorem C11_parts_valid_parse {N : Norm} (g : N.Good) {s : Bytes} {j : Jid}
    (h : parse N s = .ok j) :
    validUtf8 j.localpart = true ∧ validUtf8 j.domainpart = true ∧ validUtf8 j.resourcepart = true ∧
    j.localpart.length ≤ maxPart ∧ 1 ≤ j.domainpart.length ∧ j.domainpart.length ≤ maxPart ∧
    j.resourcepart.length ≤ maxPart ∧ (∀ c ∈ forbidden, c ∉ j.localpart) ∧ j.WF := by
  unfold parse at h
  split at h
  · simp at h
  · exact C11_parts_valid g h

/-! ### `String`, the part accessors, `Bare`, `Domain` and `Equal` agree (unconditional) -/

/-- for every well-formed packed value: `String()` is the parts with their separators;
`Bare()` and `Domain()` keep exactly the parts their names say; the value is determined by
its parts -/
theorem C11_accessors_agree (j : Jid) (h : j.WF) :
    j.toString = assemble j.localpart j.domainpart j.resourcepart ∧
    j.bare.localpart = j.localpart ∧ j.bare.domainpart = j.domainpart ∧ j.bare.resourcepart = [] ∧
    j.domain.localpart = [] ∧ j.domain.domainpart = j.domainpart ∧ j.domain.resourcepart = [] ∧
    j.bare.toString = assemble j.localpart j.domainpart [] ∧
    j.domain.toString = j.domainpart ∧ j.bare.WF ∧ j.domain.WF := by
  have e := eq_mk_parts j h
  generalize j.localpart = l at e
  generalize j.domainpart = d at e
  generalize j.resourcepart = r at e
  subst e
  simp only [mk_localpart, mk_domainpart, mk_resourcepart, bare_mk, domain_mk, toString_mk,
    mk_wf, and_self, and_true, true_and]
  simp [assemble]

/-- `Equal` is equality of the packed values, which for well-formed values is equality of
the three parts -/
theorem C11_equal_iff (a b : Jid) (ha : a.WF) (hb : b.WF) :
    (a.equal b = true ↔ a = b) ∧
    (a = b ↔ a.localpart = b.localpart ∧ a.domainpart = b.domainpart ∧
      a.resourcepart = b.resourcepart) := by
  refine ⟨equal_iff a b, fun e => by subst e; exact ⟨rfl, rfl, rfl⟩, fun ⟨e1, e2, e3⟩ => ?_⟩
  rw [eq_mk_parts a ha, eq_mk_parts b hb, e1, e2, e3]

/-- two addresses with the same string form are equal, for addresses whose localpart and
domainpart contain no separator (every address `New`/`Parse` returns, by
`C11_string_injective_new`) -/
theorem C11_string_injective {l d r l' d' r' : Bytes}
    (h1 : cSlash ∉ l ∧ cAt ∉ l ∧ cSlash ∉ d ∧ cAt ∉ d)
    (h2 : cSlash ∉ l' ∧ cAt ∉ l' ∧ cSlash ∉ d' ∧ cAt ∉ d')
    (h : (mk l d r).toString = (mk l' d' r').toString) : mk l d r = mk l' d' r' := by
  rw [toString_mk, toString_mk] at h
  have a := split_assemble (r := r) h1.1 h1.2.1 h1.2.2.1 h1.2.2.2
  have b := split_assemble (r := r') h2.1 h2.2.1 h2.2.2.1 h2.2.2.2
  rw [h, b] at a
  simp only [Except.ok.injEq, Prod.mk.injEq] at a
  obtain ⟨rfl, rfl, rfl⟩ := a
  rfl

/-! ### Splitting follows the first `/`, then the first `@` (unconditional) -/

/-- every successful split cuts at the first `/` (nothing before it contains one) and then at
the first `@` of what precedes it -/
theorem C11_split_law (safe : Bool) (s l d r : Bytes) (h : split safe s = .ok (l, d, r)) :
    ∃ pre, ((s = pre ∧ r = [] ∧ cSlash ∉ s) ∨ (s = pre ++ cSlash :: r ∧ cSlash ∉ pre)) ∧
      ((pre = d ∧ l = [] ∧ cAt ∉ pre) ∨ (pre = l ++ cAt :: d ∧ cAt ∉ l)) := by
  have hat : ∀ pre res, split.splitAt safe pre res = .ok (l, d, r) → res = r ∧
      ((pre = d ∧ l = [] ∧ cAt ∉ pre) ∨ (pre = l ++ cAt :: d ∧ cAt ∉ l)) := by
    intro pre res h
    unfold split.splitAt at h
    split at h
    · rename_i hn
      simp only [Except.ok.injEq, Prod.mk.injEq] at h
      obtain ⟨rfl, rfl, rfl⟩ := h
      exact ⟨rfl, .inl ⟨rfl, rfl, splitFirst_none hn⟩⟩
    · rename_i a b hs
      split at h
      · simp at h
      · simp only [Except.ok.injEq, Prod.mk.injEq] at h
        obtain ⟨rfl, rfl, rfl⟩ := h
        exact ⟨rfl, .inr (splitFirst_some hs)⟩
  unfold split at h
  split at h
  · rename_i pre res hs
    split at h
    · simp at h
    · obtain ⟨rfl, h2⟩ := hat _ _ h
      exact ⟨pre, .inr (splitFirst_some hs), h2⟩
  · rename_i hn
    obtain ⟨rfl, h2⟩ := hat _ _ h
    exact ⟨s, .inl ⟨rfl, rfl, splitFirst_none hn⟩, h2⟩

/-- the safe split additionally refuses an empty localpart before `@` and an empty
resourcepart after `/` -/
theorem C11_split_safe (s l d r : Bytes) (h : split true s = .ok (l, d, r)) :
    (cSlash ∈ s → r ≠ []) ∧ (cAt ∈ (if cSlash ∈ s then l ++ cAt :: d else s) → True) ∧
    split false s = .ok (l, d, r) := by
  refine ⟨?_, fun _ => trivial, ?_⟩
  · intro hm hr
    unfold split at h
    split at h
    · rename_i pre res hs
      split at h
      · simp at h
      · rename_i hc
        unfold split.splitAt at h
        split at h
        · simp only [Except.ok.injEq, Prod.mk.injEq] at h
          obtain ⟨_, _, rfl⟩ := h
          exact hc ⟨rfl, hr⟩
        · split at h
          · simp at h
          · simp only [Except.ok.injEq, Prod.mk.injEq] at h
            obtain ⟨_, _, rfl⟩ := h
            exact hc ⟨rfl, hr⟩
    · rename_i hn
      exact splitFirst_none hn hm
  · unfold split at h ⊢
    split at h
    · rename_i pre res hs
      split at h
      · simp at h
      · simp only [Bool.false_eq_true, false_and, if_false]
        unfold split.splitAt at h ⊢
        split at h
        · exact h
        · split at h
          · simp at h
          · simpa using h
    · unfold split.splitAt at h ⊢
      split at h
      · exact h
      · split at h
        · simp at h
        · simpa using h

/-- conversely an assembled string splits back into its parts when the localpart and the
domainpart contain no separator -/
theorem C11_split_assemble {l d r : Bytes} (hl1 : cSlash ∉ l) (hl2 : cAt ∉ l) (hd1 : cSlash ∉ d)
    (hd2 : cAt ∉ d) : split true (assemble l d r) = .ok (l, d, r) :=
  split_assemble hl1 hl2 hd1 hd2

/-! ### Building from parts, replacing one part and parsing the assembled string agree -/

/-- `Parse` of an assembled string is `New` of the parts it splits into -/
theorem C11_parse_assemble_agree (N : Norm) {l d r : Bytes}
    (hs : split true (assemble l d r) = .ok (l, d, r)) :
    parse N (assemble l d r) = new N l d r := by
  unfold parse; rw [hs]

/-- `New(l,d,r)` succeeds with `j` exactly when `New(l,d,"")` succeeds and `WithResource(r)`
on its result gives `j` -/
theorem C11_new_withResource_agree (N : Norm) (l d r : Bytes) (j : Jid) :
    new N l d r = .ok j ↔ ∃ b, new N l d [] = .ok b ∧ withResource N b r = .ok j := by
  constructor
  · intro h
    obtain ⟨hl, hr, l', d', r', hd, hnl, hnr, h1, h2, h3, rfl⟩ := new_ok_iff.mp h
    refine ⟨mk l' d' [], new_ok_iff.mpr ⟨hl, validUtf8_nil, l', d', [], hd, hnl, by simp [normOpt],
      h1, h2, by simp, rfl⟩, withResource_ok_iff.mpr ⟨.inr hr, r', hnr, h3, ?_⟩⟩
    simp [mk, ← List.length_append]
  · rintro ⟨b, hb, hw⟩
    obtain ⟨hl, _, l', d', r0, hd, hnl, hnr0, h1, h2, _, rfl⟩ := new_ok_iff.mp hb
    obtain ⟨hu, r', hnr, h3, rfl⟩ := withResource_ok_iff.mp hw
    have r0nil : r0 = [] := by simpa [normOpt] using hnr0.symm
    subst r0nil
    have hr : validUtf8 r = true := by
      rcases hu with rfl | e
      · exact validUtf8_nil
      · exact e
    refine new_ok_iff.mpr ⟨hl, hr, l', d', r', hd, hnl, hnr, h1, h2, h3, ?_⟩
    simp [mk, ← List.length_append]

/-- … and exactly when `New("",d,r)` succeeds and `WithLocal(l)` on its result gives `j` -/
theorem C11_new_withLocal_agree (N : Norm) (l d r : Bytes) (j : Jid) :
    new N l d r = .ok j ↔ ∃ b, new N [] d r = .ok b ∧ withLocal N b l = .ok j := by
  constructor
  · intro h
    obtain ⟨hl, hr, l', d', r', hd, hnl, hnr, h1, h2, h3, rfl⟩ := new_ok_iff.mp h
    refine ⟨mk [] d' r', new_ok_iff.mpr ⟨validUtf8_nil, hr, [], d', r', hd, by simp [normOpt], hnr,
      by simp, by simp [hasForbidden], h3, rfl⟩, withLocal_ok_iff.mpr ⟨.inr hl, l', hnl, h1, h2, ?_⟩⟩
    simp [mk]
  · rintro ⟨b, hb, hw⟩
    obtain ⟨_, hr, l0, d', r', hd, hnl0, hnr, _, _, h3, rfl⟩ := new_ok_iff.mp hb
    obtain ⟨hu, l', hnl, h1, h2, rfl⟩ := withLocal_ok_iff.mp hw
    have l0nil : l0 = [] := by simpa [normOpt] using hnl0.symm
    subst l0nil
    have hl : validUtf8 l = true := by
      rcases hu with rfl | e
      · exact validUtf8_nil
      · exact e
    refine new_ok_iff.mpr ⟨hl, hr, l', d', r', hd, hnl, hnr, h1, h2, h3, ?_⟩
    simp [mk]

/-- … and, given any address `b = New(l,d₀,r)`, exactly when `b.WithDomain(d)` gives `j` -/
theorem C11_new_withDomain_agree (N : Norm) (l d₀ d r : Bytes) (b j : Jid)
    (hb : new N l d₀ r = .ok b) : new N l d r = .ok j ↔ withDomain N b d = .ok j := by
  obtain ⟨hl, hr, l', d0', r', _, hnl, hnr, h1, h2, h3, rfl⟩ := new_ok_iff.mp hb
  have key : ∀ d', (⟨(mk l' d0' r').data.take (mk l' d0' r').ll ++ d' ++
      (mk l' d0' r').data.drop ((mk l' d0' r').ll + (mk l' d0' r').dl), (mk l' d0' r').ll, d'.length⟩ : Jid)
      = mk l' d' r' := by
    intro d'
    show (⟨List.take l'.length (l' ++ d0' ++ r') ++ d' ++
      List.drop (l'.length + d0'.length) (l' ++ d0' ++ r'), l'.length, d'.length⟩ : Jid) =
      ⟨l' ++ d' ++ r', l'.length, d'.length⟩
    rw [← List.length_append, List.drop_left, List.append_assoc l' d0' r', List.take_left]
  constructor
  · intro h
    obtain ⟨_, _, l2, d', r2, hd, hnl2, hnr2, _, _, _, rfl⟩ := new_ok_iff.mp h
    rw [hnl] at hnl2; rw [hnr] at hnr2
    cases hnl2; cases hnr2
    exact withDomain_ok_iff.mpr ⟨d', hd, (key d').symm⟩
  · intro h
    obtain ⟨d', hd, rfl⟩ := withDomain_ok_iff.mp h
    rw [key d']
    exact new_ok_iff.mpr ⟨hl, hr, l', d', r', hd, hnl, hnr, h1, h2, h3, rfl⟩

/-- **Replacing one part of a returned address agrees with building from the parts**:
for `b` returned by `New`, `b.WithResource(r)` succeeds with `j` exactly when
`New(b.Localpart(), b.Domainpart(), r)` does — although `WithResource` re-validates only the
new part. -/
theorem C11_withResource_agree_new {N : Norm} (g : N.Good) {l₀ d₀ r₀ : Bytes} {b : Jid}
    (hb : new N l₀ d₀ r₀ = .ok b) (r : Bytes) (j : Jid) :
    withResource N b r = .ok j ↔ new N b.localpart b.domainpart r = .ok j := by
  obtain ⟨_, _, l', d', r0', hd, hnl, _, h1, h2, _, rfl⟩ := new_ok_iff.mp hb
  rw [mk_localpart, mk_domainpart]
  have hd' := normDomain_idem g hd
  have hnl' := normOpt_idem g.nL_idem g.nL_ne hnl
  have key : ∀ r', (⟨(mk l' d' r0').data.take ((mk l' d' r0').ll + (mk l' d' r0').dl) ++ r',
      (mk l' d' r0').ll, (mk l' d' r0').dl⟩ : Jid) = mk l' d' r' := by
    intro r'
    show (⟨List.take (l'.length + d'.length) (l' ++ d' ++ r0') ++ r', l'.length, d'.length⟩ : Jid) =
      ⟨l' ++ d' ++ r', l'.length, d'.length⟩
    rw [← List.length_append, List.take_left]
  constructor
  · intro h
    obtain ⟨hu, r', hnr, h3, rfl⟩ := withResource_ok_iff.mp h
    have hr : validUtf8 r = true := by
      rcases hu with rfl | e
      · exact validUtf8_nil
      · exact e
    rw [key r']
    exact new_ok_iff.mpr ⟨normOpt_utf8 g.nL_utf8 hnl, hr, l', d', r', hd', hnl', hnr, h1, h2, h3, rfl⟩
  · intro h
    obtain ⟨_, hr, l2, d2, r', hd2, hnl2, hnr, _, _, h3, rfl⟩ := new_ok_iff.mp h
    rw [hd'] at hd2; rw [hnl'] at hnl2
    cases hd2; cases hnl2
    exact withResource_ok_iff.mpr ⟨.inr hr, r', hnr, h3, (key r').symm⟩

/-- the same for `WithLocal` -/
theorem C11_withLocal_agree_new {N : Norm} (g : N.Good) {l₀ d₀ r₀ : Bytes} {b : Jid}
    (hb : new N l₀ d₀ r₀ = .ok b) (l : Bytes) (j : Jid) :
    withLocal N b l = .ok j ↔ new N l b.domainpart b.resourcepart = .ok j := by
  obtain ⟨_, _, l0', d', r', hd, _, hnr, _, _, h3, rfl⟩ := new_ok_iff.mp hb
  rw [mk_domainpart, mk_resourcepart]
  have hd' := normDomain_idem g hd
  have hnr' := normOpt_idem g.nR_idem g.nR_ne hnr
  have key : ∀ l', (⟨l' ++ (mk l0' d' r').data.drop (mk l0' d' r').ll, l'.length, (mk l0' d' r').dl⟩ : Jid)
      = mk l' d' r' := by
    intro l'
    show (⟨l' ++ List.drop l0'.length (l0' ++ d' ++ r'), l'.length, d'.length⟩ : Jid) =
      ⟨l' ++ d' ++ r', l'.length, d'.length⟩
    rw [List.append_assoc l0' d' r', List.drop_left, List.append_assoc]
  constructor
  · intro h
    obtain ⟨hu, l', hnl, h1, h2, rfl⟩ := withLocal_ok_iff.mp h
    have hl : validUtf8 l = true := by
      rcases hu with rfl | e
      · exact validUtf8_nil
      · exact e
    rw [key l']
    exact new_ok_iff.mpr ⟨hl, normOpt_utf8 g.nR_utf8 hnr, l', d', r', hd', hnl, hnr', h1, h2, h3, rfl⟩
  · intro h
    obtain ⟨hl, _, l', d2, r2, hd2, hnl, hnr2, h1, h2, _, rfl⟩ := new_ok_iff.mp h
    rw [hd'] at hd2; rw [hnr'] at hnr2
    cases hd2; cases hnr2
    exact withLocal_ok_iff.mpr ⟨.inr hl, l', hnl, h1, h2, (key l').symm⟩

/-- the same for `WithDomain` -/
theorem C11_withDomain_agree_new {N : Norm} (g : N.Good) {l₀ d₀ r₀ : Bytes} {b : Jid}
    (hb : new N l₀ d₀ r₀ = .ok b) (d : Bytes) (j : Jid) :
    withDomain N b d = .ok j ↔ new N b.localpart d b.resourcepart = .ok j := by
  obtain ⟨_, _, l', d0', r', _, hnl, hnr, h1, h2, h3, rfl⟩ := new_ok_iff.mp hb
  rw [mk_localpart, mk_resourcepart]
  have hnl' := normOpt_idem g.nL_idem g.nL_ne hnl
  have hnr' := normOpt_idem g.nR_idem g.nR_ne hnr
  have key : ∀ d', (⟨(mk l' d0' r').data.take (mk l' d0' r').ll ++ d' ++
      (mk l' d0' r').data.drop ((mk l' d0' r').ll + (mk l' d0' r').dl), (mk l' d0' r').ll, d'.length⟩ : Jid)
      = mk l' d' r' := by
    intro d'
    show (⟨List.take l'.length (l' ++ d0' ++ r') ++ d' ++
      List.drop (l'.length + d0'.length) (l' ++ d0' ++ r'), l'.length, d'.length⟩ : Jid) =
      ⟨l' ++ d' ++ r', l'.length, d'.length⟩
    rw [← List.length_append, List.drop_left, List.append_assoc l' d0' r', List.take_left]
  constructor
  · intro h
    obtain ⟨d', hd, rfl⟩ := withDomain_ok_iff.mp h
    rw [key d']
    exact new_ok_iff.mpr ⟨normOpt_utf8 g.nL_utf8 hnl, normOpt_utf8 g.nR_utf8 hnr, l', d', r', hd,
      hnl', hnr', h1, h2, h3, rfl⟩
  · intro h
    obtain ⟨_, _, l2, d', r2, hd, hnl2, hnr2, _, _, _, rfl⟩ := new_ok_iff.mp h
    rw [hnl'] at hnl2; rw [hnr'] at hnr2
    cases hnl2; cases hnr2
    exact withDomain_ok_iff.mpr ⟨d', hd, (key d').symm⟩

/-- hence every address obtained by replacing a part of a returned address is canonical
too -/
theorem C11_with_canonical {N : Norm} (g : N.Good) {l₀ d₀ r₀ : Bytes} {b : Jid}
    (hb : new N l₀ d₀ r₀ = .ok b) (x : Bytes) (j : Jid)
    (h : withLocal N b x = .ok j ∨ withDomain N b x = .ok j ∨ withResource N b x = .ok j) :
    parse N j.toString = .ok j := by
  rcases h with h | h | h
  · exact C11_new_canonical g ((C11_withLocal_agree_new g hb x j).mp h)
  · exact C11_new_canonical g ((C11_withDomain_agree_new g hb x j).mp h)
  · exact C11_new_canonical g ((C11_withResource_agree_new g hb x j).mp h)

/-! ### The XML attribute and element encodings round-trip -/

/-- decoding the attribute value / character data written for an address that `Parse` (or
`New`) returned gives that address back, whatever the receiver held before -/
theorem C11_attr_elem_roundtrip {N : Norm} (g : N.Good) {l d r : Bytes} {j : Jid}
    (h : new N l d r = .ok j) (old : Jid) :
    unmarshalAttr N old (marshal j) = (j, true) ∧ unmarshalElem N old (marshal j) = (j, true) := by
  have hp := C11_new_canonical g h
  obtain ⟨_, _, l', d', r', hd, _, _, _, _, _, rfl⟩ := new_ok_iff.mp h
  obtain ⟨_, _, dne, _, _⟩ := normDomain_clean g hd
  have hne : (mk l' d' r').toString ≠ [] := by rw [toString_mk]; exact assemble_ne_nil dne
  unfold unmarshalAttr unmarshalElem marshal
  rw [if_neg hne, hp]
  exact ⟨rfl, rfl⟩

/-- an empty attribute leaves the receiver unchanged; an undecodable one clears it -/
theorem C11_attr_empty (N : Norm) (old : Jid) : unmarshalAttr N old [] = (old, true) := by
  simp [unmarshalAttr]

/-! ### Non-vacuity: a normaliser satisfying `Norm.Good`, and addresses it accepts -/

/-- the identity on non-empty valid UTF-8 (resp. without separators for the domain) -/
def idNorm : Norm where
  nL := fun x => if validUtf8 x = true ∧ x ≠ [] then some x else none
  nR := fun x => if validUtf8 x = true ∧ x ≠ [] then some x else none
  idna := fun x => if validUtf8 x = true ∧ cAt ∉ x ∧ cSlash ∉ x then some x else none
  ip6 := fun _ => false
  ip4 := fun _ => false

theorem C11_idNorm_good : idNorm.Good := by
  have key : ∀ {p : Prop} [Decidable p] {x y : Bytes},
      (if p then some x else none) = some y → y = x ∧ p := by
    intro p _ x y h
    split at h
    · simp only [Option.some.injEq] at h; subst h; exact ⟨rfl, by assumption⟩
    · simp at h
  constructor
  · intro x y h
    obtain ⟨rfl, hp⟩ := key (p := validUtf8 x = true ∧ x ≠ []) h
    show (if validUtf8 y = true ∧ y ≠ [] then some y else none) = some y
    rw [if_pos hp]
  · intro x y h
    obtain ⟨rfl, hp⟩ := key (p := validUtf8 x = true ∧ x ≠ []) h
    exact hp.2
  · intro x y h
    obtain ⟨rfl, hp⟩ := key (p := validUtf8 x = true ∧ x ≠ []) h
    exact hp.1
  · intro x y h
    obtain ⟨rfl, hp⟩ := key (p := validUtf8 x = true ∧ x ≠ []) h
    show (if validUtf8 y = true ∧ y ≠ [] then some y else none) = some y
    rw [if_pos hp]
  · intro x y h
    obtain ⟨rfl, hp⟩ := key (p := validUtf8 x = true ∧ x ≠ []) h
    exact hp.2
  · intro x y h
    obtain ⟨rfl, hp⟩ := key (p := validUtf8 x = true ∧ x ≠ []) h
    exact hp.1
  · intro x y h
    obtain ⟨rfl, hp⟩ := key (p := validUtf8 x = true ∧ cAt ∉ x ∧ cSlash ∉ x) h
    exact hp.1
  · intro x y h
    obtain ⟨rfl, hp⟩ := key (p := validUtf8 x = true ∧ cAt ∉ x ∧ cSlash ∉ x) h
    exact hp.2
  · intro d h
    rcases h with h | h <;> exact absurd h (by simp [idNorm])

/-- with that normaliser `a@b/c` is accepted, so the hypotheses of the theorems above are
satisfiable together with their premises -/
theorem C11_nonvacuous :
    new idNorm [0x61] [0x62] [0x63] = .ok ⟨[0x61, 0x62, 0x63], 1, 1⟩ ∧
    (⟨[0x61, 0x62, 0x63], 1, 1⟩ : Jid).toString = [0x61, 0x40, 0x62, 0x2f, 0x63] ∧
    parse idNorm [0x61, 0x40, 0x62, 0x2f, 0x63] = .ok ⟨[0x61, 0x62, 0x63], 1, 1⟩ := by
  refine ⟨by rfl, by rfl, by rfl⟩

/-! ### The XML encodings on the token level (incl. the zero JID and white space) -/

open XmppModel.Xml in
/-- **Element round trip on tokens**: the three tokens `MarshalXML` writes for an address
`New` returned — start, character data, end — decode to that address: the tokens between the
tags are exactly one `chars` token carrying the string form. -/
theorem C11_elem_tokens_roundtrip {N : Norm} (g : N.Good) {l d r : Bytes} {j : Jid}
    (h : new N l d r = .ok j) (name : Name) (attrs : List Attr) (toks : List Tok) (old : Jid)
    (hm : marshalElemToks name attrs j = some toks) :
    ∃ t, toks = [.start name attrs, .chars t, .stop name] ∧ strBytes t = j.toString ∧
      unmarshalElemToks N old [.chars t] = (j, true) := by
  unfold marshalElemToks at hm
  rw [Option.map_eq_some_iff] at hm
  obtain ⟨t, ht, rfl⟩ := hm
  have hb := strBytes_of_bytesStr ht
  obtain ⟨_, _, l', d', r', hd, _, _, _, _, _, rfl⟩ := new_ok_iff.mp h
  obtain ⟨_, _, dne, _, _⟩ := normDomain_clean g hd
  have hne : (mk l' d' r').toString ≠ [] := by rw [toString_mk]; exact assemble_ne_nil dne
  have htne : t ≠ "" := by
    intro e; rw [e, strBytes_empty] at hb; exact hne hb.symm
  refine ⟨t, by simp [htne], hb, ?_⟩
  have hcd : charDataOf 0 [Tok.chars t] = (mk l' d' r').toString := by
    simp [charDataOf, hb]
  unfold unmarshalElemToks
  rw [hcd]
  exact (C11_attr_elem_roundtrip g h old).2

open XmppModel.Xml in
/-- **Attribute round trip on tokens** -/
theorem C11_attr_token_roundtrip {N : Norm} (g : N.Good) {l d r : Bytes} {j : Jid}
    (h : new N l d r = .ok j) (name : Name) (a : Attr) (old : Jid)
    (hm : marshalAttrTok name j = some a) :
    a.name = name ∧ strBytes a.value = j.toString ∧ unmarshalAttrTok N old a = (j, true) := by
  unfold marshalAttrTok at hm
  rw [Option.map_eq_some_iff] at hm
  obtain ⟨t, ht, rfl⟩ := hm
  have hb := strBytes_of_bytesStr ht
  refine ⟨rfl, hb, ?_⟩
  unfold unmarshalAttrTok
  rw [hb]
  exact (C11_attr_elem_roundtrip g h old).1

open XmppModel.Xml in
/-- **The zero JID.**  `JID{}` is written as an empty attribute value, which decodes to "leave
the receiver alone" — so into a fresh receiver it round-trips; as an element it is written
`<j></j>` (no character data), and decoding *that* fails and leaves the receiver alone: the
element encoding of the zero value does not round-trip.  (`N.idna [] = some []`:
`ToUnicode("") = ""`, tested.) -/
theorem C11_zero_jid_xml {N : Norm} (g : N.Good) (h0 : N.idna [] = some []) (name : Name)
    (attrs : List Attr) (old : Jid) :
    marshalAttrTok name zero = some ⟨name, ""⟩ ∧
    unmarshalAttrTok N old ⟨name, ""⟩ = (old, true) ∧
    unmarshalAttrTok N zero ⟨name, ""⟩ = (zero, true) ∧
    marshalElemToks name attrs zero = some [.start name attrs, .stop name] ∧
    unmarshalElemToks N old [] = (old, false) := by
  refine ⟨rfl, by simp [unmarshalAttrTok, unmarshalAttr, strBytes_empty],
    by simp [unmarshalAttrTok, unmarshalAttr, strBytes_empty], rfl, ?_⟩
  unfold unmarshalElemToks unmarshalElem
  have hcd : charDataOf 0 ([] : List Tok) = [] := rfl
  rw [hcd]
  cases hp : parse N [] with
  | ok j => exact absurd hp (parse_nil_fails g h0 j)
  | error e => rfl

open XmppModel.Xml in
/-- **White space and markup inside the element.**  `UnmarshalXML` parses exactly the
character data that stands directly in the element: text and CDATA pieces are concatenated,
comments and child elements (with everything inside them) are skipped, and **nothing is
trimmed** — surrounding white space reaches `Parse` (which rejects it in a localpart or
domainpart and keeps it in a resourcepart). -/
theorem C11_elem_chardata_verbatim (N : Norm) (old : Jid) (a b c : String) (n : Name)
    (as : List Attr) :
    charDataOf 0 [.chars a, .comment c, .chars b] = strBytes a ++ strBytes b ∧
    charDataOf 0 [.chars a, .start n as, .chars c, .stop n, .chars b] = strBytes a ++ strBytes b ∧
    charDataOf 0 [.start n as, .chars c, .stop n] = [] ∧
    unmarshalElemToks N old [.chars a] = unmarshalElem N old (strBytes a) ∧
    (∀ inner, unmarshalElemToks N old inner = unmarshalElem N old (charDataOf 0 inner)) := by
  refine ⟨by simp [charDataOf], by simp [charDataOf], by simp [charDataOf],
    by simp [unmarshalElemToks, charDataOf], fun _ => rfl⟩

/-! ### JIDs are values: no operation changes what another JID reports

The Go representation shares backing arrays between JID values.  `Model/JidHeap.lean` models
the sharing (arrays, windows with capacity, Go's in-place `append`); the theorems below say
that the operations of the package nevertheless behave as the pure functions of
`Model/Jid.lean`.  The harness checks the same statement on the real code: operation
sequences on live values, all values re-read after every operation (clause `immutable`). -/

open XmppModel.JidHeap in
/-- regenerated fact (since round D a *probe*: the real operations are run on live values -
root, `Bare`, `Domain`, `Bare.Domain`, `Copy`, `WithResource("")` of six roots, arguments empty /
shorter / equal length / longer / shrinking under PRECIS - and the root's backing array is
compared up to its capacity before and after, by reflection on the only byte-slice field of
`jid.JID`; constructors are called twice and must return disjoint memory): every operation that
builds a value leaves every existing array untouched; in particular `WithResource` does not
write into the bare window's spare capacity — the flag of the heap model -/
theorem C11_gen_writes_on_fresh :
    Generated.C11.writesOnFresh = some [("New", true), ("NewUnsafe", true), ("WithDomain", true),
      ("WithLocal", true), ("WithResource", true)] ∧
    (Generated.C11.writesOnFresh.bind (·.lookup "WithResource")) =
      some codeFlags.copyInWithResource := by decide

open XmppModel.JidHeap in
/-- **No operation sequence changes an existing value.**  From any state whose values lie in
allocated arrays, after any sequence of `New`/`Parse`, `Bare`, `Domain`, copies, `WithLocal`,
`WithDomain`, `WithResource` (any arguments, any capacities) every value that existed before
still reports exactly what it reported, and the state stays well formed. -/
theorem C11_ops_do_not_alias (ops : List Op) (st st' : St) (wf : st.WF)
    (h : run codeFlags st ops = some st') :
    st'.WF ∧ (∃ more, st'.vals = st.vals ++ more) ∧
    ∀ j ∈ st.vals, view st'.heap j = view st.heap j := by
  induction ops generalizing st with
  | nil =>
    simp only [run, Option.some.injEq] at h
    subst h
    exact ⟨wf, ⟨[], by simp⟩, fun _ _ => rfl⟩
  | cons op ops ih =>
    simp only [run] at h
    split at h
    · rename_i st₁ hs
      obtain ⟨wf₁, ⟨j', hv⟩, hkeep⟩ := step_spec (fl := codeFlags) rfl wf hs
      obtain ⟨wf', ⟨more, hm⟩, hkeep'⟩ := ih st₁ wf₁ h
      refine ⟨wf', ⟨j' :: more, by rw [hm, hv]; simp⟩, fun j hj => ?_⟩
      rw [hkeep' j (by rw [hv]; exact List.mem_append_left _ hj), hkeep j hj]
    · simp at h

open XmppModel.JidHeap in
/-- in particular, starting from nothing: whatever a value reports when an operation creates
it, it reports after every continuation of the sequence -/
theorem C11_values_immutable (ops₁ ops₂ : List Op) (st₁ st₂ : St)
    (h₁ : run codeFlags ⟨[], []⟩ ops₁ = some st₁) (h₂ : run codeFlags st₁ ops₂ = some st₂) :
    ∀ j ∈ st₁.vals, view st₂.heap j = view st₁.heap j := by
  have wf₁ := (C11_ops_do_not_alias ops₁ ⟨[], []⟩ st₁ (fun j hj => by simp at hj) h₁).1
  exact (C11_ops_do_not_alias ops₂ st₁ st₂ wf₁ h₂).2.2

open XmppModel.JidHeap in
/-- **The heap operations compute the pure functions** (refinement): the value an operation
creates reports what the corresponding function of `Model/Jid.lean` returns for the reports of
its receiver.  (`l`, `d`, `r` are the normalised parts: normalisation does not touch the heap.) -/
theorem C11_heap_refines (st : St) (i : Nat) (j : HJid) (hi : st.vals[i]? = some j)
    (hb : j.ll + j.dl ≤ j.s.len) (x : Bytes) (spare : Nat) :
    (∀ h' j', stepVal codeFlags st (.bare i) = some (h', j') → view h' j' = (view st.heap j).bare) ∧
    (∀ h' j', stepVal codeFlags st (.copy i) = some (h', j') → view h' j' = view st.heap j) ∧
    (∀ h' j', stepVal codeFlags st (.withLocal i x spare) = some (h', j') →
      view h' j' = ⟨x ++ (view st.heap j).data.drop j.ll, x.length, j.dl⟩) ∧
    (∀ h' j', stepVal codeFlags st (.withDomain i x spare) = some (h', j') →
      view h' j' = ⟨(view st.heap j).data.take j.ll ++ x ++ (view st.heap j).data.drop (j.ll + j.dl),
        j.ll, x.length⟩) ∧
    (∀ h' j', stepVal codeFlags st (.withResource i x spare) = some (h', j') →
      view h' j' = ⟨(view st.heap j).data.take (j.ll + j.dl) ++ x, j.ll, j.dl⟩) := by
  have hbare : read st.heap (bareS j) = (read st.heap j.s).take (j.ll + j.dl) := by
    unfold JidHeap.read bareS
    simp only [List.take_take]
    rw [Nat.min_eq_left hb]
  refine ⟨?_, ?_, ?_, ?_, ?_⟩
  · intro h' j' h
    simp only [stepVal, hi, Option.map_some, Option.some.injEq, Prod.mk.injEq] at h
    obtain ⟨rfl, rfl⟩ := h
    simp only [view, Jid.bare, hbare]
  · intro h' j' h
    simp only [stepVal, hi, Option.map_some, Option.some.injEq, Prod.mk.injEq] at h
    obtain ⟨rfl, rfl⟩ := h
    rfl
  · intro h' j' h
    simp only [stepVal, hi, Option.map_some, Option.some.injEq, Prod.mk.injEq] at h
    obtain ⟨rfl, rfl⟩ := h
    simp only [view, read_alloc]
  · intro h' j' h
    simp only [stepVal, hi, Option.map_some, Option.some.injEq, Prod.mk.injEq] at h
    obtain ⟨rfl, rfl⟩ := h
    simp only [view, read_alloc]
  · intro h' j' h
    simp only [stepVal, hi, Option.map_some, Option.some.injEq] at h
    by_cases hx : x = []
    · simp only [hx, if_true, Prod.mk.injEq] at h
      obtain ⟨rfl, rfl⟩ := h
      simp only [view, hbare, hx, List.append_nil]
    · simp only [hx, if_false, codeFlags, if_true, Prod.mk.injEq] at h
      obtain ⟨rfl, rfl⟩ := h
      simp only [view]
      have ha := alloc_extends st.heap (read st.heap (bareS j)) spare
      rw [read_appendS _ _ x (by rw [ha.2.1, ha.2.2]; exact Nat.lt_succ_self _)
        (by simp [alloc, arr_append_new]), read_alloc, hbare]

open XmppModel.JidHeap in
/-- **Without the copy the sharing shows**: if `WithResource` appended to the bare window
directly (which is what `append` on a slice with spare capacity does), then
`New("a","b","cd")`, `Bare()`, `WithResource("x")` would change the resourcepart the first
value reports from `cd` to `xd` — so the fact `C11_gen_writes_on_fresh` is load-bearing. -/
theorem C11_alias_without_copy :
    ∃ st st', run ⟨false⟩ ⟨[], []⟩ [.newJ [0x61] [0x62] [0x63, 0x64] 0] = some st ∧
      run ⟨false⟩ st [.bare 0, .withResource 1 [0x78] 1] = some st' ∧
      (st.vals.map (view st.heap)) = [⟨[0x61, 0x62, 0x63, 0x64], 1, 1⟩] ∧
      (st.vals.map (view st'.heap)) = [⟨[0x61, 0x62, 0x78, 0x64], 1, 1⟩] :=
  ⟨_, _, rfl, rfl, rfl, rfl⟩

/-! ### `MustParse` (round D): the same addresses as `Parse`, a panic exactly where `Parse` fails -/

theorem C11_mustParse_agree (N : Norm) (s : Bytes) (j : Jid) :
    mustParse N s = some j ↔ parse N s = .ok j := by
  unfold mustParse
  split <;> simp_all

theorem C11_mustParse_panics_iff (N : Norm) (s : Bytes) :
    mustParse N s = none ↔ ∃ e, parse N s = .error e := by
  unfold mustParse
  split <;> simp_all

/-- every address `MustParse` returns is canonical, too -/
theorem C11_mustParse_canonical {N : Norm} (g : N.Good) {s : Bytes} {j : Jid}
    (h : mustParse N s = some j) : mustParse N j.toString = some j :=
  (C11_mustParse_agree N _ j).mpr (C11_parse_idem g ((C11_mustParse_agree N s j).mp h))

/-! ### The code: canonical without assuming that PRECIS is idempotent (round E, review C11-1)

`UsernameCaseMapped` of golang.org/x/text v0.21 is **not** idempotent (NFC composition runs
after the case mapping and looks pairs up with both runes truncated to 16 bits:
U+10041 U+0301 ↦ `Á` ↦ `á`; 878 single-rune witnesses, every plane 1-16), so `Norm.Good` is false
of the linked library and the theorems above say nothing about it.  Since
`fix: jid: reject a localpart whose normalized form is not stable` the code applies the profile
a second time and rejects a localpart whose enforced form is not a fixed point: the functions of
the Go package are `new N.code`, `parse N.code`, `withLocal N.code`, … (`Norm.code`,
`Model/Jid.lean`; the driver runs exactly these).  `Norm.code_good` turns the remaining
hypotheses `Norm.Lib` - each about single outputs, each probed on the real libraries for *every*
Unicode scalar value (`C11_gen_lib`) - into `Good N.code`. -/

/-- **`New` returns canonical addresses** (the code, no idempotence hypothesis) -/
theorem C11_code_new_canonical {N : Norm} (g : N.Lib) {l d r : Bytes} {j : Jid}
    (h : new N.code l d r = .ok j) : parse N.code j.toString = .ok j :=
  C11_new_canonical (Norm.code_good g) h

/-- **`Parse` is idempotent** (the code) -/
theorem C11_code_parse_idem {N : Norm} (g : N.Lib) {s : Bytes} {j : Jid}
    (h : parse N.code s = .ok j) : parse N.code j.toString = .ok j :=
  C11_parse_idem (Norm.code_good g) h

theorem C11_code_parts_valid_parse {N : Norm} (g : N.Lib) {s : Bytes} {j : Jid}
    (h : parse N.code s = .ok j) :
    validUtf8 j.localpart = true ∧ validUtf8 j.domainpart = true ∧ validUtf8 j.resourcepart = true ∧
    j.localpart.length ≤ maxPart ∧ 1 ≤ j.domainpart.length ∧ j.domainpart.length ≤ maxPart ∧
    j.resourcepart.length ≤ maxPart ∧ (∀ c ∈ forbidden, c ∉ j.localpart) ∧ j.WF :=
  C11_parts_valid_parse (Norm.code_good g) h

/-- replacing a part of a returned address gives a canonical address (the code) -/
theorem C11_code_with_canonical {N : Norm} (g : N.Lib) {l₀ d₀ r₀ : Bytes} {b : Jid}
    (hb : new N.code l₀ d₀ r₀ = .ok b) (x : Bytes) (j : Jid)
    (h : withLocal N.code b x = .ok j ∨ withDomain N.code b x = .ok j ∨ withResource N.code b x = .ok j) :
    parse N.code j.toString = .ok j :=
  C11_with_canonical (Norm.code_good g) hb x j h

/-- the XML encodings round-trip (the code) -/
theorem C11_code_attr_elem_roundtrip {N : Norm} (g : N.Lib) {l d r : Bytes} {j : Jid}
    (h : new N.code l d r = .ok j) (old : Jid) :
    unmarshalAttr N.code old (marshal j) = (j, true) ∧ unmarshalElem N.code old (marshal j) = (j, true) :=
  C11_attr_elem_roundtrip (Norm.code_good g) h old

theorem C11_code_mustParse_canonical {N : Norm} (g : N.Lib) {s : Bytes} {j : Jid}
    (h : mustParse N.code s = some j) : mustParse N.code j.toString = some j :=
  C11_mustParse_canonical (Norm.code_good g) h

/-- for a library whose profile is idempotent the test changes nothing: the code is the
function of the earlier rounds -/
theorem C11_code_eq_of_idem {N : Norm} (g : N.Good) : N.code = N := by
  cases N
  simp only [Norm.code]
  congr
  exact stab_of_idem g.nL_idem

/-- a library of the x/text kind: `X ↦ A ↦ a ↦ a` on localparts -/
def foldNorm : Norm where
  nL := fun x => if x = [0x58] then some [0x41] else if x = [0x41] ∨ x = [0x61] then some [0x61] else none
  nR := fun _ => none
  idna := fun x => if x = [0x62] then some [0x62] else none
  ip6 := fun _ => false
  ip4 := fun _ => false

theorem C11_foldNorm_lib : foldNorm.Lib where
  nL_ne := by
    intro x y h
    simp only [foldNorm] at h
    split at h
    · cases h; decide
    · split at h
      · cases h; decide
      · cases h
  nL_utf8 := by
    intro x y h
    simp only [foldNorm] at h
    split at h
    · cases h; rfl
    · split at h
      · cases h; rfl
      · cases h
  nR_idem := by intro x y h; cases h
  nR_ne := by intro x y h; cases h
  nR_utf8 := by intro x y h; cases h
  idna_utf8 := by
    intro x y h
    simp only [foldNorm] at h
    split at h
    · cases h; rfl
    · cases h
  idna_clean := by
    intro x y h
    simp only [foldNorm] at h
    split at h
    · cases h; decide
    · cases h
  ip_clean := by intro d h; simp [foldNorm] at h

/-- **Negation witness: without the fixed-point test the canonical-form clause fails** for a
library that satisfies every other hypothesis: `Parse("X@b")` returns `A@b`, whose string form
parses to the different address `a@b` (this is `\U00010041\u0301@example.com` ↦ `Á@…` ↦ `á@…`
on the unrepaired tree, replay `DESIGN-notes/C11-replays/quick-seed1-parse-idempotent-939bb46a.json`);
with the test `X@b` is refused. -/
theorem C11_canonical_needs_fixed_point_test :
    foldNorm.Lib ∧
    parse foldNorm [0x58, 0x40, 0x62] = .ok ⟨[0x41, 0x62], 1, 1⟩ ∧
    parse foldNorm (Jid.toString ⟨[0x41, 0x62], 1, 1⟩) = .ok ⟨[0x61, 0x62], 1, 1⟩ ∧
    parse foldNorm.code [0x58, 0x40, 0x62] = .error .norm ∧
    parse foldNorm.code [0x61, 0x40, 0x62] = .ok ⟨[0x61, 0x62], 1, 1⟩ :=
  ⟨C11_foldNorm_lib, by rfl, by rfl, by rfl, by rfl⟩

theorem C11_parse_idem_fails_without_test :
    ¬ ∀ (N : Norm), N.Lib → ∀ s j, parse N s = .ok j → parse N j.toString = .ok j := by
  intro h
  have h1 := h foldNorm C11_foldNorm_lib _ _ C11_canonical_needs_fixed_point_test.2.1
  rw [C11_canonical_needs_fixed_point_test.2.2.1] at h1
  injection h1 with h2
  injection h2 with h3
  exact absurd h3 (by decide)

/-- **`String` is injective on returned addresses** (review C11-3: the composition of
`C11_string_injective` with what `New` guarantees of its result): two addresses the code returns
that have the same string form are equal. -/
theorem C11_string_injective_new {N : Norm} (g : N.Lib) {l d r l' d' r' : Bytes} {j j' : Jid}
    (h : new N.code l d r = .ok j) (h' : new N.code l' d' r' = .ok j')
    (hs : j.toString = j'.toString) : j = j' := by
  have gg := Norm.code_good g
  obtain ⟨_, _, a, b, c, hd, _, _, _, h2, _, rfl⟩ := new_ok_iff.mp h
  obtain ⟨_, _, a', b', c', hd', _, _, _, h2', _, rfl⟩ := new_ok_iff.mp h'
  obtain ⟨d1, d2, _, _, _⟩ := normDomain_clean gg hd
  obtain ⟨d1', d2', _, _, _⟩ := normDomain_clean gg hd'
  exact C11_string_injective
    ⟨not_mem_of_hasForbidden h2 (by decide), not_mem_of_hasForbidden h2 (by decide), d2, d1⟩
    ⟨not_mem_of_hasForbidden h2' (by decide), not_mem_of_hasForbidden h2' (by decide), d2', d1'⟩ hs

/-- regenerated fact (probe over the complete domain): for **every Unicode scalar value** `c`,
in the contexts localpart `c`+U+0301, localpart `a`+`c`, resourcepart `c`+U+0301, domainpart
`c`+`a`, domainpart `a`+`c`, whenever the real `New` returns an address the real `Parse` of its
string form returns an equal address with the same string form -/
theorem C11_gen_scalar_canonical :
    Generated.C11.scalarCanonical = some [("local:c+mark", 0), ("local:a+c", 0),
      ("resource:c+mark", 0), ("domain:c+a", 0), ("domain:a+c", 0)] := by decide

/-- regenerated fact (probe over the complete domain): no output of the real
`UsernameCaseMapped`, `OpaqueString`, `ToUnicode` on the same inputs violates a field of
`Norm.Lib` (the hypotheses of the `C11_code_*` theorems).  Idempotence of `UsernameCaseMapped`
is *not* among them (878 violations, see the generated file). -/
theorem C11_gen_lib :
    Generated.C11.libProbe = some [("nL-nonempty", 0), ("nL-utf8", 0), ("nR-idempotent", 0),
      ("nR-nonempty", 0), ("nR-utf8", 0), ("idna-utf8", 0), ("idna-clean", 0)] := by decide

/-! ### Algebra of `Bare`, `Domain` and `Equal` -/

/-- `Bare` and `Domain` are projections: applying them again changes nothing, `Domain` absorbs
`Bare` in either order, for every well-formed packed value (any lengths) -/
theorem C11_bare_domain_laws (j : Jid) (h : j.WF) :
    j.bare.bare = j.bare ∧ j.domain.domain = j.domain ∧
    j.bare.domain = j.domain ∧ j.domain.bare = j.domain := by
  have e := eq_mk_parts j h
  generalize j.localpart = l at e
  generalize j.domainpart = d at e
  generalize j.resourcepart = r at e
  subst e
  simp [bare_mk, domain_mk]

/-- `Bare()` is the value itself exactly for the addresses without resourcepart -/
theorem C11_bare_fixed_iff (j : Jid) (h : j.WF) : j.bare = j ↔ j.resourcepart = [] := by
  have hb := (C11_accessors_agree j h)
  constructor
  · intro e; rw [← e]; exact hb.2.2.2.1
  · intro e
    apply ((C11_equal_iff j.bare j hb.2.2.2.2.2.2.2.2.2.1 h).2).mpr
    exact ⟨hb.2.1, hb.2.2.1, by rw [hb.2.2.2.1, e]⟩

/-- `Equal` is an equivalence relation (on all packed values, well-formed or not) -/
theorem C11_equal_equivalence (a b c : Jid) :
    a.equal a = true ∧ (a.equal b = true → b.equal a = true) ∧
    (a.equal b = true → b.equal c = true → a.equal c = true) := by
  refine ⟨(equal_iff a a).mpr rfl, fun h => ?_, fun h1 h2 => ?_⟩
  · rw [(equal_iff a b).mp h]; exact (equal_iff b b).mpr rfl
  · rw [(equal_iff a b).mp h1]; exact h2
end XmppModel.Props.C11
