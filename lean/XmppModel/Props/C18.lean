import XmppModel.Model.Muc
import XmppModel.Lemmas.Muc
/-!
# C18 — MUC membership follows the room's presence exactly

Theorems over the LTS of `Model/Muc.lean`: every history of join / re-join / leave / cancel
calls on any number of channels interleaved with any sequence of presences, error replies,
invitations and unrelated stanzas (`Reach`).  Hypothesis of the membership theorems: distinct
channels in use have distinct occupant addresses (`addr` injective; a second `Client.Join`
for an occupant address that is still in use is outside the model).
-/
namespace XmppModel.Props.C18
open XmppModel.Muc

/-! ### joining -/

/-- a `Join` call succeeds only through the processing of the self-presence for the requested
occupant address, while that call is pending -/
theorem C18_join_success_iff {addr : Nat → Nat} {s a s'} (hr : Reach addr s)
    (hinj : ∀ c c', addr c = addr c' → c = c') (hs : step addr s a = some s') {c : Nat}
    (hnew : s'.lastJoin c = some .ok) (hold : s.lastJoin c ≠ some .ok) :
    a = .avail (addr c) ∧ s.jpc c = .pending ∧ s.managed (addr c) = some c := by
  have hk := (inv_reach hinj hr).key
  cases a <;> simp only [step] at hs <;> (try split at hs) <;> (try split at hs) <;> (try split at hs) <;>
    (try simp at hs) <;> (try subst hs) <;> (try simp only [upd] at *) <;> grind

/-- conversely the self-presence of a pending join completes it and sets membership -/
theorem C18_self_presence_completes_join {addr : Nat → Nat} {s} {c : Nat}
    (hm : s.managed (addr c) = some c) (hp : s.jpc c = .pending) :
    ∃ s', step addr s (.avail (addr c)) = some s' ∧ s'.lastJoin c = some .ok ∧ s'.joined c = true
      ∧ s'.jpc c = .idle := by
  simp [step, hm, hp, upd]

/-- a `Join` call returns the stanza error only after the room's error reply to that request,
and the context's error only after its context was done -/
theorem C18_join_error {addr : Nat → Nat} {s a s'} (hs : step addr s a = some s') {c : Nat} {e : JErr}
    (hnew : s'.jpc c = .failing e) (hold : s.jpc c ≠ .failing e) :
    s.jpc c = .pending ∧ ((e = .stanzaErr ∧ a = .joinError c) ∨ (e = .ctxErr ∧ a = .joinCancel c)) := by
  cases a <;> simp only [step] at hs <;> (try split at hs) <;> (try split at hs) <;> (try split at hs) <;>
    (try simp at hs) <;> (try subst hs) <;> (try simp only [upd] at *) <;> grind

theorem C18_join_error_returned {addr : Nat → Nat} {s} {c : Nat} {e : JErr} (h : s.jpc c = .failing e) :
    ∃ s', step addr s (.joinCleanup c) = some s' ∧ s'.lastJoin c = some (.err e) ∧ s'.jpc c = .idle
      ∧ s'.joined c = s.joined c := by
  simp [step, h, upd]

/-! ### membership -/

/- FULL-STRENGTH STATEMENT (property text), false for the code as it is:

    theorem C18_membership (hinj) (hr : Reach addr s) (c) : s.joined c = s.member c

  `member` is cleared only by the occupant's unavailable presence.  The code also ends the
  membership when the room answers `Leave` with an error, because the package's own test
  (`TestPartError`) demands `Joined() = false` after a refused `Leave`.  Known finding
  `clause=membership key=not-joined-after-error-reply-to-leave`. -/

/-- `Joined()` is exactly the ghost `memberX`: true from the success of a `Join` call until the
unavailable presence of the channel's occupant address — or an error reply to `Leave` — has been
processed, false before and after, in every reachable state -/
theorem C18_membership_partial {addr : Nat → Nat} (hinj : ∀ c c', addr c = addr c' → c = c') {s}
    (hr : Reach addr s) (c : Nat) : s.joined c = s.memberX c :=
  (inv_reach hinj hr).mem c

/-- negation witness of the full-strength statement: join, self-presence, leave, error reply -/
theorem C18_membership_fails :
    ¬ (∀ s, Reach (fun c => c) s → ∀ c, s.joined c = s.member c) := by
  intro h
  have hr : ∃ s, run (fun c => c) init [.joinStart 0, .avail 0, .leaveStart 0, .leaveError 0] = some s ∧
      s.joined 0 = false ∧ s.member 0 = true := by
    simp [run, step, init, upd]
  obtain ⟨s, hs, hj, hm⟩ := hr
  have hreach : Reach (fun c => c) s := by
    have : ∀ {as s0 s1}, Reach (fun c => c) s0 → run (fun c => c) s0 as = some s1 → Reach (fun c => c) s1 := by
      intro as
      induction as with
      | nil => intro s0 s1 h0 h1; simp [run] at h1; subst h1; exact h0
      | cons a as ih =>
        intro s0 s1 h0 h1
        simp only [run] at h1
        split at h1
        · rename_i s2 hs2; exact ih (Reach.step h0 hs2) h1
        · simp at h1
    exact this Reach.init hs
  have := h s hreach 0
  rw [hj, hm] at this
  exact Bool.noConfusion this

/-- without error replies to `Leave` the two ghosts coincide, i.e. the literal statement holds on
every history in which no `Leave` is refused -/
theorem C18_membership_literal_without_refused_leave {addr : Nat → Nat} {s a s'}
    (hs : step addr s a = some s') (hne : ∀ c, a ≠ .leaveError c) (h : ∀ c, s.member c = s.memberX c) :
    ∀ c, s'.member c = s'.memberX c := by
  intro c
  cases a <;> simp only [step] at hs <;> (try split at hs) <;> (try split at hs) <;> (try split at hs) <;>
    (try simp at hs) <;> (try subst hs) <;> (try simp only [upd] at *) <;> grind

/-- what drives the ghost (read off `step`): only a successful join sets it, only the occupant's
unavailable presence clears it -/
theorem C18_member_spec {addr : Nat → Nat} {s a s'} (hs : step addr s a = some s') (c : Nat) :
    (s'.member c = true ∧ s.member c = false → s'.lastJoin c = some .ok ∧ s.jpc c = .pending) ∧
    (s'.member c = false ∧ s.member c = true → a = .unavail (addr c)) := by
  cases a <;> simp only [step] at hs <;> (try split at hs) <;> (try split at hs) <;> (try split at hs) <;>
    (try simp at hs) <;> (try subst hs) <;> (try simp only [upd] at *) <;> grind

example : ∃ s, run (fun c => c) init [.joinStart 0, .avail 0] = some s ∧ s.joined 0 = true := by
  simp [run, step, init, upd]
example : ∃ s, run (fun c => c) init [.joinStart 0, .avail 0, .unavail 0] = some s ∧ s.joined 0 = false := by
  simp [run, step, init, upd]
example : ∃ s, run (fun c => c) init [.joinStart 0, .joinError 0, .joinCleanup 0, .avail 0] = some s ∧
    s.joined 0 = false ∧ s.upres = 0 := by
  simp [run, step, init, upd]

/-- a joined channel stays registered under its occupant address (so the unavailable presence
finds it); a failed join of a channel that is not joined leaves nothing registered -/
theorem C18_registered_while_joined {addr : Nat → Nat} (hinj : ∀ c c', addr c = addr c' → c = c') {s}
    (hr : Reach addr s) {c : Nat} (h : s.joined c = true) : s.managed (addr c) = some c :=
  (inv_reach hinj hr).reg c h

/-! ### leaving -/

/-- no lost wake-up: processing the occupant's unavailable presence leaves a token for `Leave` … -/
theorem C18_unavailable_leaves_token {addr : Nat → Nat} {s} {a c : Nat} (hm : s.managed a = some c) :
    ∃ s', step addr s (.unavail a) = some s' ∧ s'.depart c = true ∧ s'.joined c = false ∧ s'.managed a = none := by
  simp [step, hm, upd]

/-- … which only `Leave` itself (or the start of the next join) removes … -/
theorem C18_token_kept {addr : Nat → Nat} {s a s'} (hs : step addr s a = some s') {c : Nat}
    (h : s.depart c = true) (h1 : a ≠ .leaveDepart c) (h2 : a ≠ .joinStart c) : s'.depart c = true := by
  cases a <;> simp only [step] at hs <;> (try split at hs) <;> (try split at hs) <;> (try split at hs) <;>
    (try simp at hs) <;> (try subst hs) <;> (try simp only [upd] at *) <;> grind

/-- … so a waiting `Leave` returns when that presence has arrived (whenever it arrived), when the
error reply arrives, or when its context is done -/
theorem C18_leave_returns {addr : Nat → Nat} {s} {c : Nat} (hw : s.lpc c = .waiting) :
    (s.depart c = true → ∃ s', step addr s (.leaveDepart c) = some s' ∧ s'.lastLeave c = some .ok) ∧
    (∃ s', step addr s (.leaveError c) = some s' ∧ s'.lastLeave c = some (.err .stanzaErr) ∧ s'.joined c = false) ∧
    (∃ s', step addr s (.leaveCancel c) = some s' ∧ s'.lastLeave c = some (.err .ctxErr)) := by
  refine ⟨?_, ?_, ?_⟩
  · intro h; simp [step, hw, h, upd]
  · simp [step, hw, upd]
  · simp [step, hw, upd]

/-- `Leave` returns success only by consuming the token of an unavailable presence -/
theorem C18_leave_success_iff {addr : Nat → Nat} {s a s'} (hs : step addr s a = some s') {c : Nat}
    (hnew : s'.lastLeave c = some .ok) (hold : s.lastLeave c ≠ some .ok) :
    a = .leaveDepart c ∧ s.depart c = true := by
  cases a <;> simp only [step] at hs <;> (try split at hs) <;> (try split at hs) <;> (try split at hs) <;>
    (try simp at hs) <;> (try subst hs) <;> (try simp only [upd] at *) <;> grind

/-! ### presences for rooms that were never joined, invitations -/

/-- presences from an address no channel is registered for change nothing and call nothing -/
theorem C18_unmanaged_ignored {addr : Nat → Nat} (hinj : ∀ c c', addr c = addr c' → c = c') {s}
    (hr : Reach addr s) {a : Nat} (hm : s.managed a = none) :
    step addr s (.avail a) = some s ∧
    ∃ s', step addr s (.unavail a) = some s' ∧ s'.joined = s.joined ∧ s'.managed = s.managed ∧
      s'.upres = s.upres ∧ s'.depart = s.depart ∧ ∀ c, s'.memberX c = s.memberX c := by
  have hi := inv_reach hinj hr
  refine ⟨by simp [step, hm], ?_⟩
  simp only [step, hm]
  refine ⟨_, rfl, rfl, rfl, rfl, rfl, ?_⟩
  intro c
  show (if addr c = a then false else s.memberX c) = s.memberX c
  by_cases hc : addr c = a
  · have : s.joined c = false := by
      cases hj : s.joined c
      · rfl
      · have := hi.reg c hj; rw [hc, hm] at this; simp at this
    simp [hc, ← hi.mem c, this]
  · simp [hc]

/-- each mediated invitation is delivered to the callback exactly once, nothing else calls it -/
theorem C18_invite_once {addr : Nat → Nat} {s a s'} (hs : step addr s a = some s') :
    s'.invites = if a = .invite then s.invites + 1 else s.invites := by
  cases a <;> simp only [step] at hs <;> (try split at hs) <;> (try split at hs) <;> (try split at hs) <;>
    (try simp at hs) <;> (try subst hs) <;> simp

end XmppModel.Props.C18
